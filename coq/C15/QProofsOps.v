(** C15 part B — lemmas about scan_complete and update_chain_tip on a canonical queue. *)
From V.Lib Require Import Base.
From V.Gen Require Import C15Tables.
From V.C15 Require Import Model Spec Sem QModel QSpec Proofs ProofsTree ProofsVec ProofsSeq ProofsCanon QProofs.
From Coq Require Import ZifyBool.
Local Open Scope Z_scope.

Definition scanned_at (q : list sr) (h : Z) : Prop := rows_at (map row_of q) h = Some Scanned.

(** inserting a priority other than Scanned/Verify without force leaves the Scanned heights alone *)
Lemma ins_keeps_scanned st s e p h : p <> Scanned -> p <> Verify ->
  (pm (ins_spec st s e p false) h = Some Scanned <-> pm st h = Some Scanned).
Proof.
  intros N1 N2. cbn [ins_spec pm]. destruct (in_range s e h).
  - destruct (pm st h) as [c|].
    + destruct c, p; cbn; split; congruence.
    + split; [intros [= E]; congruence|discriminate].
  - destruct (pm st h) as [c|]; [tauto|]. destruct (in_range _ _ h); split; discriminate.
Qed.

Lemma ins_scanned st s e f h :
  (pm (ins_spec st s e Scanned f) h = Some Scanned <-> in_range s e h = true \/ pm st h = Some Scanned).
Proof.
  cbn [ins_spec pm]. destruct (in_range s e h).
  - destruct (pm st h) as [c|]; [destruct c, f; cbn; split; auto|split; auto].
  - destruct (pm st h) as [c|]; [split; [auto|intros [?|?]; [discriminate|assumption]]|].
    destruct (in_range _ _ h); split; try discriminate; intros [?|?]; discriminate.
Qed.

Lemma fold_keeps_scanned ops : forall st h,
  (forall o, In o ops -> snd o = false /\ snd (fst o) <> Scanned /\ snd (fst o) <> Verify) ->
  (pm (fold_spec st ops) h = Some Scanned <-> pm st h = Some Scanned).
Proof.
  induction ops as [|[[[s e] p] f] ops IH]; intros st h H; [reflexivity|]. cbn [fold_spec].
  destruct (H _ (or_introl eq_refl)) as (F & N1 & N2). cbn [fst snd] in *. subst f.
  rewrite IH by (intros; apply H; right; assumption). apply ins_keeps_scanned; assumption.
Qed.

Lemma fold_lo_le_entry ops : forall st o, In o ops -> lo (fold_spec st ops) <= fst (fst (fst o)).
Proof.
  induction ops as [|[[[s e] p] f] ops IH]; intros st o I; [destruct I|]. cbn [fold_spec]. destruct I as [<-|I].
  - cbn [fst]. etransitivity; [apply fold_lo_le|]. cbn [ins_spec lo]. lia.
  - apply IH. exact I.
Qed.
Lemma fold_hi_ge_entry ops : forall st o, In o ops -> snd (fst (fst o)) <= hi (fold_spec st ops).
Proof.
  induction ops as [|[[[s e] p] f] ops IH]; intros st o I; [destruct I|]. cbn [fold_spec]. destruct I as [<-|I].
  - cbn [fst snd]. etransitivity; [|apply fold_hi_ge]. cbn [ins_spec hi]. lia.
  - apply IH. exact I.
Qed.

(** extend_range only ever widens *)
Lemma extend_range_widens s e idxs tbl fb bd a b :
  extend_range s e idxs tbl fb bd = Some (a, b) -> a <= s /\ e <= b.
Proof.
  unfold extend_range. destruct (list_min idxs); [|discriminate]. destruct (list_max idxs); [|discriminate].
  intros [= <- <-]. lia.
Qed.

Lemma split_last {A} (l : list A) : l <> [] -> exists es x, l = es ++ [x].
Proof. intros H. destruct (exists_last H) as (es & x & E). eauto. Qed.

(** values a height outside the scanned range can take after scan_complete *)
Definition elsewhere (orig v : option prio) : Prop :=
  v = orig \/ v = Some FoundNote \/ (orig = None /\ v = Some Historic).

Lemma ins_found_elsewhere st s e orig h :
  elsewhere orig (pm st h) -> elsewhere orig (pm (ins_spec st s e FoundNote false) h).
Proof.
  unfold elsewhere. intros H. cbn [ins_spec pm]. destruct (in_range s e h).
  - destruct (pm st h) as [c|] eqn:E.
    + destruct (dom_cases c FoundNote false) as [D|D]; rewrite D; [|auto]. exact H.
    + auto.
  - destruct (pm st h) as [c|] eqn:E; [exact H|]. destruct (in_range _ _ h).
    + destruct H as [H|[H|(H1 & H2)]]; try discriminate. right. right. split; [congruence|reflexivity].
    + exact H.
Qed.

Lemma fold_found_elsewhere ops : forall st orig h,
  (forall o, In o ops -> snd o = false /\ snd (fst o) = FoundNote) ->
  elsewhere orig (pm st h) -> elsewhere orig (pm (fold_spec st ops) h).
Proof.
  induction ops as [|[[[s e] p] f] ops IH]; intros st orig h H E; [exact E|]. cbn [fold_spec].
  destruct (H _ (or_introl eq_refl)) as (F & P). cbn [fst snd] in F, P. subst f p.
  apply IH; [intros; apply H; right; assumption|]. apply ins_found_elsewhere. exact E.
Qed.

Lemma ins_scanned_elsewhere st s e f h : in_range s e h = false ->
  elsewhere (pm st h) (pm (ins_spec st s e Scanned f) h).
Proof.
  intros O. unfold elsewhere. cbn [ins_spec pm]. rewrite O. destruct (pm st h); [auto|].
  destruct (in_range (Z.min (lo st) s) (Z.max (hi st) e) h); [right; right; auto|left; reflexivity].
Qed.

(** *** scan_complete *)
Lemma scan_complete_spec c q s e sap orc iro :
  chain q -> s < e -> touches q s e ->
  exists q', scan_complete c q s e sap orc iro = Ok q' /\ chain q' /\
    (forall h, scanned_at q' h <-> (s <= h < e \/ scanned_at q h)) /\
    (forall h, rows_at (map row_of q) h <> None -> rows_at (map row_of q') h <> None) /\
    (forall h, rows_at (map row_of q') h = Some Ignored -> rows_at (map row_of q) h = Some Ignored) /\
    (forall h, ~ (s <= h < e) -> elsewhere (rows_at (map row_of q) h) (rows_at (map row_of q') h)).
Proof.
  intros C L T. unfold scan_complete.
  set (ext1 := extend_range s e (map (subtree_index SAPLING_SHARD_HEIGHT) sap) (sapling_shards c) (sapling_act c) (birthday c)).
  set (r1 := match ext1 with Some r => r | None => (s, e) end).
  set (ext2 := or_else (extend_range (fst r1) (snd r1) (map (subtree_index ORCHARD_SHARD_HEIGHT) orc) (orchard_shards c) (nu5_act c) (birthday c)) ext1).
  set (r2 := match ext2 with Some r => r | None => (s, e) end).
  set (ext3 := or_else (extend_range (fst r2) (snd r2) (map (subtree_index IRONWOOD_SHARD_HEIGHT) iro) (ironwood_shards c) (nu6_3_act c) (birthday c)) ext2).
  assert (W1 : fst r1 <= s /\ e <= snd r1).
  { unfold r1. destruct ext1 as [[a b]|] eqn:E; [apply extend_range_widens in E; exact E|cbn; lia]. }
  assert (W2 : fst r2 <= s /\ e <= snd r2).
  { unfold r2, ext2. destruct (extend_range (fst r1) (snd r1) _ _ _ _) as [[a b]|] eqn:E; cbn [or_else].
    - apply extend_range_widens in E. cbn [fst snd]. lia.
    - fold r1. exact W1. }
  set (query := match ext3 with Some r => r | None => (s, e) end).
  assert (W3 : fst query <= s /\ e <= snd query).
  { unfold query, ext3. destruct (extend_range (fst r2) (snd r2) _ _ _ _) as [[a b]|] eqn:E; cbn [or_else].
    - apply extend_range_widens in E. cbn [fst snd]. lia.
    - fold r2. exact W2. }
  assert (X3 : forall xs xe, ext3 = Some (xs, xe) -> query = (xs, xe)) by (intros xs xe E; unfold query; rewrite E; reflexivity).
  unfold from_parts at 1. rewrite Z.geb_leb. destruct (Z.leb_spec s e); [|lia]. cbn [of_opt bind].
  (* the two optional FoundNote entries *)
  set (before := match ext3 with Some (xs, _) => if xs <? s then [R xs s FoundNote] else [] | None => [] end).
  set (after := match ext3 with Some (_, xe) => if e <? xe then [R e xe FoundNote] else [] | None => [] end).
  assert (EB : match ext3 with
               | Some (xs, _) => do r <- of_opt (from_parts xs s FoundNote); Ok (if is_empty r then [] else [r])
               | None => Ok []
               end = Ok before).
  { unfold before. destruct ext3 as [[xs xe]|] eqn:E; [|reflexivity]. specialize (X3 _ _ eq_refl). rewrite X3 in W3. cbn [fst snd] in W3.
    unfold from_parts. rewrite Z.geb_leb. destruct (Z.leb_spec xs s); [|lia]. cbn [of_opt bind]. unfold is_empty. cbn [rs re].
    destruct (xs <? s); reflexivity. }
  assert (EA : match ext3 with
               | Some (_, xe) => do r <- of_opt (from_parts e xe FoundNote); Ok (if is_empty r then [] else [r])
               | None => Ok []
               end = Ok after).
  { unfold after. destruct ext3 as [[xs xe]|] eqn:E; [|reflexivity]. specialize (X3 _ _ eq_refl). rewrite X3 in W3. cbn [fst snd] in W3.
    unfold from_parts. rewrite Z.geb_leb. destruct (Z.leb_spec e xe); [|lia]. cbn [of_opt bind]. unfold is_empty. cbn [rs re].
    destruct (e <? xe); reflexivity. }
  rewrite EB. cbn [bind]. rewrite EA. cbn [bind].
  set (entries := R s e Scanned :: before ++ after).
  assert (NE : Forall nonempty entries).
  { unfold entries. constructor; [unfold nonempty; cbn; lia|]. apply Forall_app. split.
    - unfold before. destruct ext3 as [[xs xe]|]; [|constructor]. destruct (Z.ltb_spec xs s); constructor; [unfold nonempty; cbn; lia|constructor].
    - unfold after. destruct ext3 as [[xs xe]|]; [|constructor]. destruct (Z.ltb_spec e xe); constructor; [unfold nonempty; cbn; lia|constructor]. }
  assert (WI : Forall (within (fst query) (snd query)) entries).
  { unfold entries. constructor; [unfold within; cbn [rs re]; lia|]. apply Forall_app. split.
    - unfold before. destruct ext3 as [[xs xe]|] eqn:E; [|constructor]. rewrite (X3 _ _ eq_refl) in *. cbn [fst snd] in *.
      destruct (Z.ltb_spec xs s); constructor; [unfold within; cbn [rs re]; lia|constructor].
    - unfold after. destruct ext3 as [[xs xe]|] eqn:E; [|constructor]. rewrite (X3 _ _ eq_refl) in *. cbn [fst snd] in *.
      destruct (Z.ltb_spec e xe); constructor; [unfold within; cbn [rs re]; lia|constructor]. }
  destruct (split_last entries) as (es & l & Eel); [unfold entries; discriminate|].
  assert (FN : forall o, In o (entry_ops false (before ++ after)) -> snd o = false /\ snd (fst o) <> Scanned /\ snd (fst o) <> Verify).
  { intros o Io. unfold entry_ops in Io. apply in_map_iff in Io. destruct Io as (r & <- & Ir). cbn [op_row fst snd row_of].
    assert (PB : forall r, In r before -> rp r = FoundNote).
    { unfold before. destruct ext3 as [[xs xe]|]; [destruct (xs <? s)|]; cbn [In]; intros r0 Hin; intuition (subst; reflexivity). }
    assert (PA : forall r, In r after -> rp r = FoundNote).
    { unfold after. destruct ext3 as [[xs xe]|]; [destruct (e <? xe)|]; cbn [In]; intros r0 Hin; intuition (subst; reflexivity). }
    assert (rp r = FoundNote) by (apply in_app_or in Ir; destruct Ir; auto).
    split; [reflexivity|split; congruence]. }
  rewrite Eel in NE, WI |- *. apply Forall_app in NE. destruct NE as (NEs & NEl).
  assert (Vl : valid l) by (inversion NEl; subst; unfold valid, nonempty in *; lia).
  destruct (replace_touching_facts q (fst query) (snd query) es l false C) as (q' & -> & Cq' & _ & P & P2 & PC & _ & PI); try assumption; try lia.
  { destruct T as (r & I & R1 & R2). exists r. split; [exact I|]. lia. }
  exists q'. split; [reflexivity|]. split; [exact Cq'|].
  split; [|split; [exact PC|split]].
  3:{ intros h Nh. cbv zeta in P, P2. unfold replace_state in P, P2. rewrite <- Eel in P, P2. rewrite P.
      destruct (in_range (lo _) (hi _) h) eqn:Hin; [|left; reflexivity].
      rewrite (P2 h Hin). unfold entries, entry_ops. cbn [map fold_spec op_row fst snd row_of rs re rp].
      apply fold_found_elsewhere.
      - intros o Io. apply in_map_iff in Io. destruct Io as (r & <- & Ir). cbn [op_row fst snd row_of]. split; [reflexivity|].
        apply in_app_or in Ir.
        destruct Ir as [Ir|Ir]; [unfold before in Ir|unfold after in Ir]; destruct ext3 as [[xs xe]|];
          try (destruct (xs <? s)); try (destruct (e <? xe)); cbn [In] in Ir; intuition (subst; reflexivity).
      - apply (ins_scanned_elsewhere (seg_state _) s e false h). unfold in_range. lia. }
  2:{ apply PI. intros e0 Ie. rewrite <- Eel in Ie. unfold entries in Ie. destruct Ie as [<-|Ie]; [discriminate|].
      assert (rp e0 = FoundNote); [|congruence]. apply in_app_or in Ie.
      destruct Ie as [Ie|Ie]; [unfold before in Ie|unfold after in Ie]; destruct ext3 as [[xs xe]|];
        try (destruct (xs <? s)); try (destruct (e <? xe)); cbn [In] in Ie; intuition (subst; reflexivity). }
  cbv zeta in P, P2. unfold replace_state in P, P2. rewrite <- Eel in P, P2.
  set (S := fold_spec (seg_state (filter (selp (fst query) (snd query)) q)) (entry_ops false entries)) in *.
  assert (SC : forall h, pm S h = Some Scanned <->
                 in_range s e h = true \/ rows_at (map row_of (filter (selp (fst query) (snd query)) q)) h = Some Scanned).
  { intros h. unfold S, entries, entry_ops. cbn [map fold_spec op_row fst snd row_of rs re rp].
    fold (entry_ops false (before ++ after)). rewrite fold_keeps_scanned by exact FN.
    rewrite ins_scanned. unfold seg_state. cbn [pm]. reflexivity. }
  assert (LoS : lo S <= s).
  { unfold S. etransitivity; [apply (fold_lo_le_entry _ _ (op_row (R s e Scanned, false)))|cbn; lia].
    unfold entries, entry_ops. left. reflexivity. }
  assert (HiS : e <= hi S).
  { unfold S. etransitivity; [|apply (fold_hi_ge_entry _ _ (op_row (R s e Scanned, false)))]; [cbn; lia|].
    unfold entries, entry_ops. left. reflexivity. }
  intros h. unfold scanned_at. rewrite P. destruct (in_range (lo S) (hi S) h) eqn:In.
  - rewrite SC, (P2 h In). unfold in_range. split; intros [?|?]; [left; lia|right; assumption|left; lia|right; assumption].
  - unfold in_range in In. split; [auto|]. intros [?|?]; [lia|assumption].
Qed.

(** *** update_chain_tip *)
Definition is_u32 (x : Z) : Prop := 0 <= x <= u32_max.
Definition ctx_ok (c : ctx) (new_tip : Z) : Prop :=
  (0 <= new_tip < u32_max) /\
  (forall a, sapling_act c = Some a -> is_u32 a) /\
  (forall m, max_scanned c = Some m -> is_u32 m) /\
  (forall b, birthday c = Some b -> is_u32 b).

(** the plan never panics; what it inserts: optional non-empty ChainTip range, then one valid
    range that is Ignored/Historic/ChainTip, or Verify starting above the max scanned height *)
Lemma tip_plan_spec c t : ctx_ok c t ->
  exists p, tip_plan c t = Ok p /\
    match p with
    | None => True
    | Some (qs, qe, entries) =>
        qs <= qe /\
        exists es l, entries = es ++ [l] /\ Forall nonempty es /\ valid l /\ Forall (within qs qe) entries /\
          Forall (fun r => rp r = ChainTip) es /\
          (rp l <> Scanned) /\ (rp l = Verify -> exists ms, max_scanned c = Some ms /\ ms < rs l) /\
          (rp l = Ignored -> birthday c = None)
    end.
Proof.
  intros (Ut & Ua & Um & Ub). unfold tip_plan, is_u32, u32_max in *.
  destruct (sapling_act c) as [a|]; [|exists None; auto]. specialize (Ua a eq_refl).
  destruct (Z.leb_spec a t); cbn [negb]; [|exists None; auto].
  destruct (max_scanned c) as [ms|] eqn:Ems.
  - specialize (Um ms eq_refl). destruct (Z.ltb_spec t ms); [exists None; auto|].
    set (chain_end := hadd t 1). assert (CE : chain_end = Z.min (t + 1) 4294967295) by reflexivity.
    destruct (birthday c) as [b|] eqn:Eb.
    + pose proof (Ub b eq_refl) as Ub1.
      destruct (Z.ltb_spec t b); [exists None; auto|].
      destruct (omin_list _) as [h|].
      * destruct (Z.ltb_spec h chain_end).
        -- unfold from_parts. rewrite !Z.geb_leb, Z.gtb_ltb. unfold hadd, hsub, u32_max, PRUNING_DEPTH, VERIFY_LOOKAHEAD in *.
           destruct (Z.ltb_spec h b); zb; cbn [of_opt bind]; zb; cbn [of_opt bind rs re rp]; try lia;
             (eexists; split; [reflexivity|]); cbn [rs re rp]; (split; [lia|]);
             (eexists [_], _; split; [reflexivity|]);
             repeat match goal with
                    | |- _ /\ _ => split
                    | |- Forall _ _ => constructor
                    end; unfold nonempty, valid, within; cbn [rs re rp]; try lia; try congruence; try reflexivity;
             try (intros _; exists ms; split; [reflexivity|lia]); try discriminate.
        -- cbn [bind]. unfold from_parts. rewrite !Z.geb_leb. unfold hadd, u32_max in *. zb; cbn [of_opt bind rs re rp]; try lia.
           eexists; split; [reflexivity|]. cbn [rs re rp app]. split; [lia|]. exists [], (R (Z.min (ms + 1) 4294967295) chain_end Historic).
           repeat match goal with |- _ /\ _ => split | |- Forall _ _ => constructor end;
             unfold valid, within; cbn [rs re rp]; try lia; try congruence; try reflexivity; try discriminate.
      * cbn [bind]. unfold from_parts. rewrite !Z.geb_leb. unfold hadd, u32_max in *. zb; cbn [of_opt bind rs re rp]; try lia.
        eexists; split; [reflexivity|]. cbn [rs re rp app]. split; [lia|]. exists [], (R (Z.min (ms + 1) 4294967295) chain_end Historic).
        repeat match goal with |- _ /\ _ => split | |- Forall _ _ => constructor end;
          unfold valid, within; cbn [rs re rp]; try lia; try congruence; try reflexivity; try discriminate.
    + destruct (omin_list _) as [h|].
      * destruct (Z.ltb_spec h chain_end).
        -- unfold from_parts. rewrite !Z.geb_leb, Z.gtb_ltb. unfold hadd, hsub, u32_max, PRUNING_DEPTH, VERIFY_LOOKAHEAD in *.
           zb; cbn [of_opt bind]; zb; cbn [of_opt bind rs re rp]; try lia;
             (eexists; split; [reflexivity|]); cbn [rs re rp]; (split; [lia|]);
             (eexists [_], _; split; [reflexivity|]);
             repeat match goal with
                    | |- _ /\ _ => split
                    | |- Forall _ _ => constructor
                    end; unfold nonempty, valid, within; cbn [rs re rp]; try lia; try congruence; try reflexivity;
             try (intros _; exists ms; split; [reflexivity|lia]); try discriminate.
        -- cbn [bind]. unfold from_parts. rewrite !Z.geb_leb. unfold hadd, u32_max in *. zb; cbn [of_opt bind rs re rp]; try lia.
           eexists; split; [reflexivity|]. cbn [rs re rp app]. split; [lia|]. exists [], (R (Z.min (ms + 1) 4294967295) chain_end Historic).
           repeat match goal with |- _ /\ _ => split | |- Forall _ _ => constructor end;
             unfold valid, within; cbn [rs re rp]; try lia; try congruence; try reflexivity; try discriminate.
      * cbn [bind]. unfold from_parts. rewrite !Z.geb_leb. unfold hadd, u32_max in *. zb; cbn [of_opt bind rs re rp]; try lia.
        eexists; split; [reflexivity|]. cbn [rs re rp app]. split; [lia|]. exists [], (R (Z.min (ms + 1) 4294967295) chain_end Historic).
        repeat match goal with |- _ /\ _ => split | |- Forall _ _ => constructor end;
          unfold valid, within; cbn [rs re rp]; try lia; try congruence; try reflexivity; try discriminate.
  - set (chain_end := hadd t 1). assert (CE : chain_end = Z.min (t + 1) 4294967295) by reflexivity.
    destruct (birthday c) as [b|] eqn:Eb.
    + pose proof (Ub b eq_refl) as Ub1.
      destruct (Z.ltb_spec t b); [exists None; auto|].
      destruct (omin_list _) as [h|].
      * destruct (Z.ltb_spec h chain_end).
        -- unfold from_parts. rewrite !Z.geb_leb, Z.gtb_ltb.
           destruct (Z.ltb_spec h b); zb; cbn [of_opt bind]; zb; cbn [of_opt bind rs re rp]; try lia;
             (eexists; split; [reflexivity|]); cbn [rs re rp]; (split; [lia|]);
             (eexists [_], _; split; [reflexivity|]);
             repeat match goal with
                    | |- _ /\ _ => split
                    | |- Forall _ _ => constructor
                    end; unfold nonempty, valid, within; cbn [rs re rp]; try lia; try congruence; try reflexivity; try discriminate.
        -- cbn [bind]. unfold from_parts. rewrite !Z.geb_leb. zb; cbn [of_opt bind rs re rp]; try lia.
           eexists; split; [reflexivity|]. cbn [rs re rp app]. split; [lia|]. exists [], (R b chain_end Historic).
           repeat match goal with |- _ /\ _ => split | |- Forall _ _ => constructor end;
             unfold valid, within; cbn [rs re rp]; try lia; try congruence; try reflexivity; try discriminate.
      * cbn [bind]. unfold from_parts. rewrite !Z.geb_leb. zb; cbn [of_opt bind rs re rp]; try lia.
        eexists; split; [reflexivity|]. cbn [rs re rp app]. split; [lia|]. exists [], (R b chain_end Historic).
        repeat match goal with |- _ /\ _ => split | |- Forall _ _ => constructor end;
          unfold valid, within; cbn [rs re rp]; try lia; try congruence; try reflexivity; try discriminate.
    + destruct (omin_list _) as [h|].
      * destruct (Z.ltb_spec h chain_end).
        -- unfold from_parts. rewrite !Z.geb_leb.
           zb; cbn [of_opt bind]; zb; cbn [of_opt bind rs re rp]; try lia;
             (eexists; split; [reflexivity|]); cbn [rs re rp]; (split; [lia|]);
             (eexists [_], _; split; [reflexivity|]);
             repeat match goal with
                    | |- _ /\ _ => split
                    | |- Forall _ _ => constructor
                    end; unfold nonempty, valid, within; cbn [rs re rp]; try lia; try congruence; try reflexivity; try discriminate.
        -- cbn [bind]. unfold from_parts. rewrite !Z.geb_leb. zb; cbn [of_opt bind rs re rp]; try lia.
           eexists; split; [reflexivity|]. cbn [rs re rp app]. split; [lia|]. exists [], (R a chain_end Ignored).
           repeat match goal with |- _ /\ _ => split | |- Forall _ _ => constructor end;
             unfold valid, within; cbn [rs re rp]; try lia; try congruence; try reflexivity; try discriminate.
      * cbn [bind]. unfold from_parts. rewrite !Z.geb_leb. zb; cbn [of_opt bind rs re rp]; try lia.
        eexists; split; [reflexivity|]. cbn [rs re rp app]. split; [lia|]. exists [], (R a chain_end Ignored).
        repeat match goal with |- _ /\ _ => split | |- Forall _ _ => constructor end;
          unfold valid, within; cbn [rs re rp]; try lia; try congruence; try reflexivity; try discriminate.
Qed.

Lemma from_parts_ok s e p : s <= e -> of_opt (from_parts s e p) = Ok (R s e p).
Proof. intros L. unfold from_parts. rewrite Z.geb_leb. destruct (Z.leb_spec s e); [reflexivity|lia]. Qed.

Lemma verify_end_eq t ms : 0 <= t < 4294967295 -> 0 <= ms <= Z.max (t - PRUNING_DEPTH) 0 ->
  Z.min (hadd (Z.max (t - PRUNING_DEPTH) 0) 1) (hadd (ms + 1) VERIFY_LOOKAHEAD)
  = Z.min (Z.max (t - PRUNING_DEPTH) 0 + 1) (ms + 1 + VERIFY_LOOKAHEAD).
Proof. unfold hadd, u32_max, PRUNING_DEPTH, VERIFY_LOOKAHEAD. lia. Qed.
Lemma verify_end_le t ms : ms <= Z.max (t - PRUNING_DEPTH) 0 ->
  ms + 1 <= Z.min (Z.max (t - PRUNING_DEPTH) 0 + 1) (ms + 1 + VERIFY_LOOKAHEAD).
Proof. unfold PRUNING_DEPTH, VERIFY_LOOKAHEAD. lia. Qed.

(** the plan's last entry is the Verify range exactly when the documented rule asks for one *)
Lemma tip_plan_verify c t : ctx_ok c t ->
  exists p, tip_plan c t = Ok p /\
    match p with
    | None => expected_verify c t = None
    | Some (_, _, entries) =>
        exists es l, entries = es ++ [l] /\
          (rp l = Verify -> expected_verify c t = Some (rs l, re l)) /\
          (rp l <> Verify -> expected_verify c t = None)
    end.
Proof.
  intros (Ut & Ua & Um & Ub). unfold tip_plan, expected_verify, shard_tip_below, is_u32, u32_max in *.
  destruct (sapling_act c) as [a|]; [|exists None; split; [reflexivity|destruct (max_scanned c); reflexivity]].
  specialize (Ua a eq_refl).
  destruct (Z.leb_spec a t); cbn [negb andb]; [|exists None; split; [reflexivity|destruct (max_scanned c); reflexivity]].
  assert (CE : hadd t 1 = t + 1) by (unfold hadd, u32_max; lia). rewrite CE.
  set (mst := omin_list [tip_shard_end_height (sapling_shards c); tip_shard_end_height (orchard_shards c);
                         tip_shard_end_height (ironwood_shards c)]).
  destruct (max_scanned c) as [ms|] eqn:Ems.
  - specialize (Um ms eq_refl). destruct (Z.ltb_spec t ms).
    { exists None. split; [reflexivity|]. destruct (Z.leb_spec ms (Z.max (t - PRUNING_DEPTH) 0)); [unfold PRUNING_DEPTH in *; lia|reflexivity]. }
    assert (HS : hsub t PRUNING_DEPTH = Z.max (t - PRUNING_DEPTH) 0) by reflexivity.
    assert (MU : hadd ms 1 = ms + 1) by (unfold hadd, u32_max; lia).
    assert (BT : exists bt, (match birthday c with Some b => t <? b | None => false end) = bt /\
                            (match birthday c with Some b => b <=? t | None => true end) = negb bt /\
                            (bt = false -> match birthday c with Some b => 0 <= b <= t | None => True end)).
    { destruct (birthday c) as [b|]; [|exists false; auto]. pose proof (Ub b eq_refl). exists (t <? b).
      split; [reflexivity|]. split; [lia|]. intros. lia. }
    destruct BT as (bt & B1 & B2 & B3). cbv zeta. rewrite ?MU. rewrite B1, B2. destruct bt; cbn [negb].
    { exists None. split; [reflexivity|]. rewrite andb_false_r. reflexivity. }
    specialize (B3 eq_refl). rewrite andb_true_r.
    destruct mst as [h|] eqn:Emst; [destruct (Z.ltb_spec h (t + 1))|]; cbn [bind].
    + (* shard entry *)
      set (mts := match birthday c with Some b => if b >? h then b else h | None => h end).
      assert (Lm : mts <= t + 1) by (unfold mts; destruct (birthday c) as [b|]; [destruct (b >? h)|]; lia).
      rewrite (from_parts_ok mts (t + 1) ChainTip Lm). cbn [bind]. rewrite Z.gtb_ltb, HS.
      destruct (Z.ltb_spec (Z.max (t - PRUNING_DEPTH) 0) ms) as [Gt|Le].
      * rewrite (from_parts_ok (ms + 1) (t + 1) ChainTip) by lia. cbn [bind]. eexists; split; [reflexivity|].
        exists [R mts (t + 1) ChainTip], (R (ms + 1) (t + 1) ChainTip). split; [reflexivity|]. cbn [rp]. split; [discriminate|].
        intros _. destruct (Z.leb_spec ms (Z.max (t - PRUNING_DEPTH) 0)); [lia|reflexivity].
      * pose proof (verify_end_eq t ms Ut (conj (proj1 Um) Le)) as HV.
        rewrite HV. rewrite (from_parts_ok (ms + 1) (Z.min (Z.max (t - PRUNING_DEPTH) 0 + 1) (ms + 1 + VERIFY_LOOKAHEAD)) Verify) by (apply verify_end_le; exact Le). cbn [bind].
        eexists; split; [reflexivity|]. eexists [R mts (t + 1) ChainTip], _. split; [reflexivity|]. cbn [rs re rp].
        split; [|intros V; exfalso; apply V; reflexivity]. intros _.
        destruct (Z.leb_spec ms (Z.max (t - PRUNING_DEPTH) 0)); [|lia]. cbn [andb]. reflexivity.
    + rewrite (from_parts_ok (ms + 1) (t + 1) Historic) by lia. cbn [bind]. eexists; split; [reflexivity|].
      exists [], (R (ms + 1) (t + 1) Historic). split; [reflexivity|]. cbn [rp]. split; [discriminate|]. intros _.
      rewrite andb_false_r. reflexivity.
    + rewrite (from_parts_ok (ms + 1) (t + 1) Historic) by lia. cbn [bind]. eexists; split; [reflexivity|].
      exists [], (R (ms + 1) (t + 1) Historic). split; [reflexivity|]. cbn [rp]. split; [discriminate|]. intros _.
      rewrite andb_false_r. reflexivity.
  - (* nothing scanned: never Verify, nothing expected *)
    destruct (birthday c) as [b|] eqn:Eb.
    + pose proof (Ub b eq_refl). destruct (Z.ltb_spec t b); [exists None; auto|].
      destruct mst as [h|]; [destruct (Z.ltb_spec h (t + 1))|]; cbn [bind].
      * set (mts := if b >? h then b else h). assert (Lm : mts <= t + 1) by (unfold mts; destruct (b >? h); lia).
        rewrite (from_parts_ok mts (t + 1) ChainTip Lm). cbn [bind]. rewrite (from_parts_ok b (t + 1) Historic) by lia. cbn [bind].
        eexists; split; [reflexivity|]. eexists [_], _. split; [reflexivity|]. cbn [rp]. split; [discriminate|reflexivity].
      * rewrite (from_parts_ok b (t + 1) Historic) by lia. cbn [bind].
        eexists; split; [reflexivity|]. eexists [], _. split; [reflexivity|]. cbn [rp]. split; [discriminate|reflexivity].
      * rewrite (from_parts_ok b (t + 1) Historic) by lia. cbn [bind].
        eexists; split; [reflexivity|]. eexists [], _. split; [reflexivity|]. cbn [rp]. split; [discriminate|reflexivity].
    + destruct mst as [h|]; [destruct (Z.ltb_spec h (t + 1))|]; cbn [bind].
      * rewrite (from_parts_ok h (t + 1) ChainTip) by lia. cbn [bind]. rewrite (from_parts_ok a (t + 1) Ignored) by lia. cbn [bind].
        eexists; split; [reflexivity|]. eexists [_], _. split; [reflexivity|]. cbn [rp]. split; [discriminate|reflexivity].
      * rewrite (from_parts_ok a (t + 1) Ignored) by lia. cbn [bind].
        eexists; split; [reflexivity|]. eexists [], _. split; [reflexivity|]. cbn [rp]. split; [discriminate|reflexivity].
      * rewrite (from_parts_ok a (t + 1) Ignored) by lia. cbn [bind].
        eexists; split; [reflexivity|]. eexists [], _. split; [reflexivity|]. cbn [rp]. split; [discriminate|reflexivity].
Qed.

(** which heights are Verify after an insertion *)
Lemma ins_verify_other st s e p f h : p <> Verify -> p <> Scanned ->
  (pm (ins_spec st s e p f) h = Some Verify <-> pm st h = Some Verify).
Proof.
  intros N1 N2. cbn [ins_spec pm]. destruct (in_range s e h).
  - destruct (pm st h) as [c|]; [destruct c, p, f; cbn; split; congruence|split; [intros [= E]; congruence|discriminate]].
  - destruct (pm st h) as [c|]; [tauto|]. destruct (in_range (Z.min (lo st) s) (Z.max (hi st) e) h); split; discriminate.
Qed.
Lemma ins_verify_verify st s e f h :
  (pm (ins_spec st s e Verify f) h = Some Verify <-> in_range s e h = true \/ pm st h = Some Verify).
Proof.
  cbn [ins_spec pm]. destruct (in_range s e h).
  - destruct (pm st h) as [c|]; [destruct c, f; cbn; split; auto|split; auto].
  - destruct (pm st h) as [c|]; [split; [auto|intros [?|?]; [discriminate|assumption]]|].
    destruct (in_range (Z.min (lo st) s) (Z.max (hi st) e) h); split; try discriminate; intros [?|?]; discriminate.
Qed.
Lemma fold_verify_other ops : forall st h,
  (forall o, In o ops -> snd (fst o) <> Verify /\ snd (fst o) <> Scanned) ->
  (pm (fold_spec st ops) h = Some Verify <-> pm st h = Some Verify).
Proof.
  induction ops as [|[[[s e] p] f] ops IH]; intros st h H; [reflexivity|]. cbn [fold_spec].
  destruct (H _ (or_introl eq_refl)) as (N1 & N2). cbn [fst snd] in *.
  rewrite IH by (intros; apply H; right; assumption). apply ins_verify_other; assumption.
Qed.

(** outside the inserted range the Scanned heights are untouched *)
Lemma ins_outside_scanned st s e p f h : in_range s e h = false ->
  (pm (ins_spec st s e p f) h = Some Scanned <-> pm st h = Some Scanned).
Proof.
  intros O. cbn [ins_spec pm]. rewrite O. destruct (pm st h); [tauto|]. destruct (in_range (Z.min (lo st) s) (Z.max (hi st) e) h); split; intros X; try discriminate X; exact X.
Qed.

Lemma update_chain_tip_spec c q t qs qe entries :
  chain q -> ctx_ok c t -> tip_plan c t = Ok (Some (qs, qe, entries)) -> touches q qs qe ->
  exists q', update_chain_tip c q t = Ok q' /\ chain q' /\
    (forall h, scanned_at q' h -> scanned_at q h) /\
    (forall h, scanned_at q h -> (forall ms, max_scanned c = Some ms -> h <= ms) -> scanned_at q' h) /\
    (forall h, rows_at (map row_of q) h <> None -> rows_at (map row_of q') h <> None) /\
    (forall e h, In e entries -> in_range (rs e) (re e) h = true -> rows_at (map row_of q') h <> None) /\
    (birthday c <> None -> forall h, rows_at (map row_of q') h = Some Ignored -> rows_at (map row_of q) h = Some Ignored) /\
    (forall h, rows_at (map row_of q') h = Some Verify <->
               rows_at (map row_of q) h = Some Verify \/
               exists vs ve, expected_verify c t = Some (vs, ve) /\ vs <= h < ve).
Proof.
  intros C K E T. destruct (tip_plan_verify c t K) as (pv & Ev & Spv). rewrite E in Ev. injection Ev as <-.
  destruct (tip_plan_spec c t K) as (p & E' & Sp). rewrite E in E'. injection E' as <-.
  destruct Sp as (L & es & l & -> & Nes & Vl & W & Pes & Pl1 & Pl2 & Pl3).
  unfold update_chain_tip. rewrite E. cbn [bind].
  destruct (replace_touching_facts q qs qe es l false C L T Nes Vl W) as (q' & -> & Cq' & _ & P & P2 & PC & PE & PI).
  exists q'. split; [reflexivity|]. split; [exact Cq'|]. cbv zeta in P, P2. unfold replace_state in P, P2.
  assert (EXTRA : (forall h, rows_at (map row_of q) h <> None -> rows_at (map row_of q') h <> None) /\
    (forall e h, In e (es ++ [l]) -> in_range (rs e) (re e) h = true -> rows_at (map row_of q') h <> None) /\
    (birthday c <> None -> forall h, rows_at (map row_of q') h = Some Ignored -> rows_at (map row_of q) h = Some Ignored)).
  { split; [exact PC|]. split; [exact PE|]. intros NB. apply PI. intros e Ie. apply in_app_or in Ie. destruct Ie as [Ie|[<-|[]]].
    - rewrite Forall_forall in Pes. rewrite (Pes e Ie). discriminate.
    - intros Ei. apply NB. apply Pl3. exact Ei. }
  assert (VER : forall h, rows_at (map row_of q') h = Some Verify <->
               rows_at (map row_of q) h = Some Verify \/
               exists vs ve, expected_verify c t = Some (vs, ve) /\ vs <= h < ve).
  { destruct Spv as (es' & l' & Eel & V1 & V2). apply app_inj_tail in Eel. destruct Eel as (<- & <-).
    set (seg := seg_state (filter (selp qs qe) q)) in *.
    set (S := fold_spec seg (entry_ops false (es ++ [l]))) in *.
    assert (ESv : S = ins_spec (fold_spec seg (entry_ops false es)) (rs l) (re l) (rp l) false).
    { unfold S, entry_ops. rewrite map_app, fold_spec_app_q. reflexivity. }
    assert (FV : forall h, pm (fold_spec seg (entry_ops false es)) h = Some Verify <-> pm seg h = Some Verify).
    { intros h. apply fold_verify_other. intros o Io. unfold entry_ops in Io. apply in_map_iff in Io.
      destruct Io as (r & <- & Ir). rewrite Forall_forall in Pes. pose proof (Pes r Ir) as Er.
      unfold op_row, row_of. cbn [fst snd]. rewrite Er. split; discriminate. }
    assert (LoL : lo S <= rs l).
    { unfold S. apply (fold_lo_le_entry _ _ (op_row (l, false))). unfold entry_ops. apply (in_map (fun r => op_row (r, false))).
      apply in_or_app. right. left. reflexivity. }
    assert (HiL : re l <= hi S).
    { unfold S. apply (fold_hi_ge_entry _ _ (op_row (l, false))). unfold entry_ops. apply (in_map (fun r => op_row (r, false))).
      apply in_or_app. right. left. reflexivity. }
    intros h. rewrite P. destruct (in_range (lo S) (hi S) h) eqn:Hin.
    - rewrite (P2 h Hin). rewrite ESv. destruct (prio_eqb (rp l) Verify) eqn:PV.
      + apply prio_eqb_eq in PV. rewrite PV, ins_verify_verify, FV, (V1 PV). unfold seg at 1, seg_state. cbn [pm]. unfold in_range.
        split; intros [A|A]; auto.
        * right. exists (rs l), (re l). split; [reflexivity|lia].
        * destruct A as (vs & ve & [= <- <-] & R). left. lia.
      + assert (NV : rp l <> Verify) by (intros X; rewrite X in PV; destruct Verify; discriminate PV).
        rewrite (ins_verify_other _ _ _ _ _ _ NV Pl1), FV, (V2 NV). unfold seg at 1, seg_state. cbn [pm].
        split; [auto|]. intros [A|(vs & ve & X & _)]; [exact A|discriminate X].
    - split; [auto|]. intros [A|(vs & ve & X & R)]; [exact A|]. exfalso.
      destruct (prio_eqb (rp l) Verify) eqn:PV.
      + apply prio_eqb_eq in PV. rewrite (V1 PV) in X. injection X as <- <-. unfold in_range in Hin. lia.
      + assert (NV : rp l <> Verify) by (intros Y; rewrite Y in PV; destruct Verify; discriminate PV).
        rewrite (V2 NV) in X. discriminate X. }
  rewrite <- !and_assoc. split; [|exact VER]. rewrite !and_assoc.
  rewrite <- and_assoc. split; [|exact EXTRA]. clear EXTRA VER PC PE PI.
  set (sel := filter (selp qs qe) q) in *.
  set (S := fold_spec (seg_state sel) (entry_ops false (es ++ [l]))) in *.
  assert (S1 : forall h, pm (fold_spec (seg_state sel) (entry_ops false es)) h = Some Scanned <-> rows_at (map row_of sel) h = Some Scanned).
  { intros h. rewrite fold_keeps_scanned; [reflexivity|]. intros o Io. unfold entry_ops in Io. apply in_map_iff in Io.
    destruct Io as (r & <- & Ir). rewrite Forall_forall in Pes. pose proof (Pes r Ir) as Er.
    unfold op_row, row_of. cbn [fst snd]. rewrite Er. split; [reflexivity|split; congruence]. }
  assert (ES : S = ins_spec (fold_spec (seg_state sel) (entry_ops false es)) (rs l) (re l) (rp l) false).
  { unfold S, entry_ops. rewrite map_app, fold_spec_app_q. reflexivity. }
  split.
  - intros h. unfold scanned_at. rewrite P. destruct (in_range (lo S) (hi S) h) eqn:In; [|auto].
    rewrite (P2 h In). rewrite ES. intros Hs. apply S1.
    destruct (in_range (rs l) (re l) h) eqn:Il.
    + (* inside the last entry: it is not Scanned, and Verify does not produce Scanned *)
      cbn [ins_spec pm] in Hs. rewrite Il in Hs.
      destruct (pm (fold_spec (seg_state sel) (entry_ops false es)) h) as [c0|]; [|congruence].
      destruct c0, (rp l); cbn in Hs; congruence.
    + apply (ins_outside_scanned _ _ _ (rp l) false _ Il). exact Hs.
  - intros h Hs Hm. unfold scanned_at in *. rewrite P. destruct (in_range (lo S) (hi S) h) eqn:In; [|exact Hs].
    rewrite (P2 h In) in Hs. rewrite ES. apply S1 in Hs.
    destruct (in_range (rs l) (re l) h) eqn:Il.
    + cbn [ins_spec pm]. rewrite Il, Hs.
      destruct (rp l) eqn:Ep; cbn; try reflexivity; try congruence.
      (* Verify: its range starts above the max scanned height *)
      exfalso. destruct (Pl2 eq_refl) as (ms & Em & Lm). specialize (Hm ms Em). unfold in_range in Il. lia.
    + apply (ins_outside_scanned _ _ _ (rp l) false _ Il). exact Hs.
Qed.
