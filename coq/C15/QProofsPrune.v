(** C15 part B — prune_scan_queue_below on a canonical queue. *)
From V.Lib Require Import Base.
From V.Gen Require Import C15Tables.
From V.C15 Require Import Model Spec Sem QModel Proofs ProofsTree ProofsVec ProofsSeq ProofsCanon ProofsEmpty QProofs.
From Coq Require Import ZifyBool.
Local Open Scope Z_scope.

(** rows non-empty and contiguous (adjacent priorities may coincide) *)
Fixpoint pchain (l : list sr) : Prop :=
  match l with
  | [] => True
  | a :: rest => nonempty a /\ match rest with [] => True | b :: _ => re a = rs b end /\ pchain rest
  end.

Lemma chain_pchain l : chain l -> pchain l.
Proof.
  induction l as [|a l IH]; [auto|]. intros C. destruct (chain_cons_inv _ _ C) as (N & C' & J).
  cbn [pchain]. split; [exact N|]. split; [destruct l; [auto|apply J]|auto].
Qed.

Lemma pchain_app l1 l2 : pchain l1 -> pchain l2 ->
  (forall x y, last_opt l1 = Some x -> hd_opt l2 = Some y -> re x = rs y) -> pchain (l1 ++ l2).
Proof.
  induction l1 as [|a l1 IH]; cbn [app]; intros P1 P2 J; [exact P2|].
  cbn [pchain] in *. destruct P1 as (N & H & P1). split; [exact N|]. split.
  - destruct l1 as [|b l1]; cbn [app]; [|exact H]. destruct l2 as [|y l2]; [exact I|]. apply J; reflexivity.
  - apply IH; auto. intros x y Lx Hy. apply J; auto. cbn [last_opt]. destruct l1; [discriminate|exact Lx].
Qed.

Lemma rows_at_app_rows (l1 l2 : list row) h : rows_at (l1 ++ l2) h = orelse (rows_at l1 h) (rows_at l2 h).
Proof.
  induction l1 as [|[[s e] p] l1 IH]; [reflexivity|]. cbn [app rows_at].
  destruct (in_range s e h); [reflexivity|exact IH].
Qed.

(** *** coalesce *)
Lemma at_merge prev x h : re prev = rs x -> rs prev <= re prev -> rs x <= re x ->
  at_sr (R (rs prev) (re x) (rp prev)) h = orelse (at_sr prev h) (if in_range (rs x) (re x) h then Some (rp prev) else None).
Proof.
  intros E V1 V2. unfold at_sr, in_range. cbn [rs re rp]. zb; try lia; reflexivity.
Qed.

Lemma coalesce_spec entries : forall acc, rchain acc -> pchain entries ->
  (forall top x, hd_opt acc = Some top -> hd_opt entries = Some x -> re top = rs x) ->
  let v := coalesce acc entries in
  chain v /\
  (forall h, rows_at (map row_of v) h = orelse (rows_at (map row_of (rev acc)) h) (rows_at (map row_of entries) h)) /\
  (forall xl, last_opt entries = Some xl -> exists vl, last_opt v = Some vl /\ re vl = re xl /\ rp vl = rp xl) /\
  (entries = [] -> v = rev acc).
Proof.
  induction entries as [|x entries IH]; intros acc RC PC J; cbv zeta.
  - cbn [coalesce]. split; [apply rchain_canonical; exact RC|]. split; [intros h; cbn; destruct (rows_at _ h); reflexivity|].
    split; [discriminate|reflexivity].
  - cbn [pchain] in PC. destruct PC as (Nx & Hx & PC). unfold nonempty in Nx. cbn [coalesce].
    assert (LAST : forall v0, (forall xl, last_opt entries = Some xl -> exists vl, last_opt v0 = Some vl /\ re vl = re xl /\ rp vl = rp xl) ->
                     (entries = [] -> exists vl, last_opt v0 = Some vl /\ re vl = re x /\ rp vl = rp x) ->
                     forall xl, last_opt (x :: entries) = Some xl -> exists vl, last_opt v0 = Some vl /\ re vl = re xl /\ rp vl = rp xl).
    { intros v0 A B xl L. destruct entries as [|y entries']; [cbn in L; injection L as <-; apply B; reflexivity|].
      apply A. exact L. }
    destruct acc as [|prev acc'].
    + destruct (IH [x]) as (C & P & L & E); [cbn; unfold nonempty; tauto|exact PC| |].
      { intros top y Ht Hy. cbn in Ht. injection Ht as <-. destruct entries; [discriminate|]. cbn in Hy. injection Hy as <-. exact Hx. }
      cbv zeta in *. split; [exact C|]. split.
      * intros h. rewrite P. cbn [rev app map rows_at row_of orelse]. unfold at_sr.
        destruct (in_range (rs x) (re x) h); reflexivity.
      * split; [|discriminate]. apply LAST; [exact L|]. intros ->. rewrite (E eq_refl). cbn. eauto.
    + specialize (J prev x eq_refl eq_refl). cbn [rchain] in RC. destruct RC as (Np & Hp & RC). unfold nonempty in Np.
      destruct (prio_eqb (rp prev) (rp x) && (re prev =? rs x)) eqn:M.
      * apply andb_true_iff in M. destruct M as (M1 & M2). apply prio_eqb_eq in M1.
        destruct (IH (R (rs prev) (re x) (rp prev) :: acc')) as (C & P & L & E).
        { cbn [rchain]. split; [unfold nonempty; cbn; lia|]. split; [destruct acc'; [exact I|exact Hp]|exact RC]. }
        { exact PC. }
        { intros top y Ht Hy. cbn in Ht. injection Ht as <-. cbn [re]. destruct entries; [discriminate|]. cbn in Hy. injection Hy as <-. exact Hx. }
        cbv zeta in *. split; [exact C|]. split.
        -- intros h. rewrite P. cbn [rev]. rewrite !map_app, !rows_at_app_rows. cbn [map rows_at row_of rs re rp].
           pose proof (at_merge prev x h J) as AM. unfold at_sr in AM. cbn [rs re rp] in AM.
           rewrite AM by lia. rewrite M1.
           destruct (rows_at (map row_of (rev acc')) h); cbn [orelse]; [reflexivity|].
           destruct (in_range (rs prev) (re prev) h); cbn [orelse]; [reflexivity|].
           destruct (in_range (rs x) (re x) h); reflexivity.
        -- split; [|discriminate]. apply LAST; [exact L|]. intros ->. rewrite (E eq_refl). cbn [rev].
           rewrite last_opt_app. eexists; split; [reflexivity|]. cbn. split; [reflexivity|exact M1].
      * destruct (IH (x :: prev :: acc')) as (C & P & L & E).
        { cbn [rchain]. split; [exact Nx|]. split; [|split; [exact Np|split; [exact Hp|exact RC]]].
          split; [exact J|]. intros Ep. rewrite Ep in M. rewrite J, Z.eqb_refl in M.
          assert (prio_eqb (rp x) (rp x) = true) by (apply prio_eqb_eq; reflexivity). rewrite H in M. discriminate. }
        { exact PC. }
        { intros top y Ht Hy. cbn in Ht. injection Ht as <-. destruct entries; [discriminate|]. cbn in Hy. injection Hy as <-. exact Hx. }
        cbv zeta in *. split; [exact C|]. split.
        -- intros h. rewrite P. cbn [rev]. rewrite !map_app, !rows_at_app_rows. cbn [map rows_at row_of].
           destruct (rows_at (map row_of (rev acc')) h); cbn [orelse]; [reflexivity|].
           destruct (in_range (rs prev) (re prev) h); cbn [orelse]; [reflexivity|].
           destruct (in_range (rs x) (re x) h); reflexivity.
        -- split; [|discriminate]. apply LAST; [exact L|]. intros ->. rewrite (E eq_refl). cbn [rev].
           rewrite last_opt_app. eauto.
Qed.

(** *** the rewriting of one stored row *)
Section PruneRows.
Variables (height : Z) (retain : option prio) (fill : option Z).

Definition prune_g (entry : sr) : list sr :=
  if is_retained retain (rp entry) then [entry]
  else
    let pruned := R (rs entry) (Z.min (re entry) height) Ignored in
    let kept := if re entry >? height then [R height (re entry) (rp entry)] else [] in
    match fill with
    | Some floor => if re pruned >? floor then pruned :: kept else kept
    | None => kept
    end.

Definition floor_le (h : Z) : bool := match fill with Some fl => fl <=? h | None => false end.

(** what a height that had priority [p] has after pruning *)
Definition pruned_prio (p : prio) (h : Z) : option prio :=
  if is_retained retain p then Some p
  else if height <=? h then Some p
  else if floor_le h then Some Ignored else None.

Definition rowspec (x : sr) (h : Z) : option prio :=
  if in_range (rs x) (re x) h then pruned_prio (rp x) h else None.

Definition aligned (x : sr) : Prop := forall fl, fill = Some fl -> re x <= fl \/ fl <= rs x.
Definition retained_above (x : sr) : Prop :=
  is_retained retain (rp x) = true -> exists fl, fill = Some fl /\ fl <= rs x.

Lemma g_row x : nonempty x -> rs x < height -> aligned x -> retained_above x ->
  pchain (prune_g x) /\
  (forall h, rows_at (map row_of (prune_g x)) h = rowspec x h) /\
  (forall y, last_opt (prune_g x) = Some y -> re y = re x) /\
  (forall fl, fill = Some fl -> fl <= rs x -> exists y, hd_opt (prune_g x) = Some y /\ rs y = rs x) /\
  (re x <= height -> prune_g x <> [] -> exists fl, fill = Some fl /\ fl <= rs x).
Proof.
  destruct x as [s e p]. unfold nonempty, aligned, retained_above, prune_g, rowspec, pruned_prio, floor_le. cbn [rs re rp].
  intros N H A RA. destruct (is_retained retain p) eqn:Rt.
  - split; [cbn; unfold nonempty; cbn; lia|]. split.
    + intros h. cbn [map rows_at row_of rs re rp]. destruct (in_range s e h); reflexivity.
    + split; [intros y [= <-]; reflexivity|]. split; [intros; eexists; split; reflexivity|]. intros _ _. apply RA. reflexivity.
  - clear RA. destruct fill as [fl|].
    + specialize (A fl eq_refl). rewrite !Z.gtb_ltb.
      destruct (Z.ltb_spec fl (Z.min e height)); destruct (Z.ltb_spec height e); cbn [pchain map rows_at row_of rs re rp last_opt hd_opt];
        unfold nonempty; cbn [rs re];
        (split; [repeat split; try lia|]);
        (split; [intros h; unfold in_range; zb; try lia; reflexivity|]);
        (split; [intros y Hy; try discriminate Hy; try (injection Hy as <-; cbn [re]; lia)|]);
        (split; [intros fl' Ef Lf; injection Ef as <-; try lia; eexists; split; reflexivity|]);
        intros Le Ne; try lia; try congruence; exists fl; split; [reflexivity|lia].
    + rewrite Z.gtb_ltb. destruct (Z.ltb_spec height e); cbn [pchain map rows_at row_of rs re rp last_opt hd_opt];
        unfold nonempty; cbn [rs re];
        (split; [repeat split; try lia|]);
        (split; [intros h; unfold in_range; zb; try lia; reflexivity|]);
        (split; [intros y Hy; try discriminate Hy; try (injection Hy as <-; cbn [re]; lia)|]);
        (split; [intros fl' Ef; discriminate Ef|]);
        intros Le Ne; try lia; congruence.
Qed.

(** the specification of the rewritten rows, over the list of rows *)
Fixpoint exspec (ex : list sr) (h : Z) : option prio :=
  match ex with
  | [] => None
  | x :: r => if in_range (rs x) (re x) h then rowspec x h else exspec r h
  end.

Lemma exspec_none ex h : (forall y, In y ex -> in_range (rs y) (re y) h = false) -> exspec ex h = None.
Proof.
  induction ex as [|a ex IH]; intros H; [reflexivity|]. cbn [exspec]. rewrite (H a (or_introl eq_refl)).
  apply IH. intros; apply H; right; assumption.
Qed.

Lemma exspec_rows ex h :
  exspec ex h = match rows_at (map row_of ex) h with Some p => pruned_prio p h | None => None end.
Proof.
  induction ex as [|a ex IH]; [reflexivity|]. cbn [exspec map rows_at row_of]. unfold rowspec.
  destruct (in_range (rs a) (re a) h); [reflexivity|exact IH].
Qed.

Lemma repl_spec ex : chain ex ->
  (forall x, In x ex -> rs x < height) -> (forall x, In x ex -> aligned x) -> (forall x, In x ex -> retained_above x) ->
  let R := flat_map prune_g ex in
  pchain R /\
  (forall h, rows_at (map row_of R) h = exspec ex h) /\
  (forall y xl, last_opt R = Some y -> last_opt ex = Some xl -> re y = re xl) /\
  (forall fl x0, fill = Some fl -> hd_opt ex = Some x0 -> fl <= rs x0 -> exists y, hd_opt R = Some y /\ rs y = rs x0).
Proof.
  induction ex as [|x ex IH]; intros C Hh Ha Hr; cbv zeta.
  - cbn. repeat split; auto; intros; discriminate.
  - destruct (chain_cons_inv _ _ C) as (N & C' & J). pose proof (chain_lower _ _ C) as LO.
    destruct (g_row x N (Hh x (or_introl eq_refl)) (Ha x (or_introl eq_refl)) (Hr x (or_introl eq_refl))) as (G1 & G2 & G3 & G4 & G5).
    destruct (IH C' (fun y Iy => Hh y (or_intror Iy)) (fun y Iy => Ha y (or_intror Iy)) (fun y Iy => Hr y (or_intror Iy))) as (I1 & I2 & I3 & I4).
    cbn [flat_map].
    (* when this row produces something and another row follows, the next row starts the rest *)
    assert (NEXT : prune_g x <> [] -> forall x1, hd_opt ex = Some x1 -> exists y, hd_opt (flat_map prune_g ex) = Some y /\ rs y = rs x1).
    { intros Ng x1 H1. destruct ex as [|x1' ex']; [discriminate|]. cbn in H1. injection H1 as <-. destruct J as (J1 & _).
      assert (Hx1 : rs x1' < height) by (apply Hh; right; left; reflexivity).
      destruct (G5 ltac:(lia) Ng) as (fl & Ef & Lf). apply (I4 fl x1' Ef eq_refl). unfold nonempty in N. lia. }
    split; [|split; [|split]].
    + apply pchain_app; [exact G1|exact I1|]. intros y z Ly Hz.
      assert (Ng : prune_g x <> []) by (intros E0; rewrite E0 in Ly; discriminate).
      destruct ex as [|x1 ex']; [cbn in Hz; discriminate|]. destruct (NEXT Ng x1 eq_refl) as (z' & Hz' & Ez).
      rewrite Hz in Hz'. injection Hz' as <-. rewrite (G3 y Ly). destruct J as (J1 & _). lia.
    + intros h. rewrite map_app, rows_at_app_rows, G2, I2. cbn [exspec]. unfold rowspec at 1.
      destruct (in_range (rs x) (re x) h) eqn:In1; [|reflexivity].
      rewrite (exspec_none ex h).
      * unfold rowspec. rewrite In1. destruct (pruned_prio (rp x) h); reflexivity.
      * intros y Iy. pose proof (LO y Iy). unfold in_range in *. lia.
    + intros y xl Ly Lx. destruct (flat_map prune_g ex) as [|z R'] eqn:ER.
      * rewrite app_nil_r in Ly. rewrite (G3 y Ly).
        destruct ex as [|x1 ex']; [cbn in Lx; injection Lx as <-; reflexivity|]. exfalso.
        assert (Ng : prune_g x <> []) by (intros E0; rewrite E0 in Ly; discriminate).
        destruct (NEXT Ng x1 eq_refl) as (z' & Hz' & _). discriminate.
      * rewrite last_opt_app2 in Ly by discriminate.
        destruct ex as [|x1 ex']; [cbn in ER; discriminate|].
        change (last_opt (x :: x1 :: ex')) with (last_opt (x1 :: ex')) in Lx. eapply I3; eauto.
    + intros fl x0 Ef H0 Lf. cbn in H0. injection H0 as <-. destruct (G4 fl Ef Lf) as (y & Hy & Ey).
      exists y. split; [|exact Ey]. destruct (prune_g x); [discriminate|exact Hy].
Qed.

End PruneRows.

(** *** splitting the queue at the pruning height *)
Lemma split_height height q : chain q ->
  q = filter (fun r => rs r <? height) q ++ filter (fun r => negb (rs r <? height)) q.
Proof.
  induction q as [|x q IH]; intros C; [reflexivity|]. destruct (chain_cons_inv _ _ C) as (N & C' & _).
  pose proof (chain_lower _ _ C) as LO. cbn [filter]. destruct (Z.ltb_spec (rs x) height); cbn [negb app].
  - f_equal. apply IH. exact C'.
  - rewrite (filter_none (fun r => rs r <? height) q), (filter_all (fun r => negb (rs r <? height)) q); [reflexivity| |].
    + intros y Iy. pose proof (LO y Iy). unfold nonempty in N. apply negb_true_iff. apply Z.ltb_ge. lia.
    + intros y Iy. pose proof (LO y Iy). unfold nonempty in N. apply Z.ltb_ge. lia.
Qed.

Lemma filter_first {A} (f : A -> bool) l r t : filter f l = r :: t ->
  exists l1 l2, l = l1 ++ r :: l2 /\ (forall x, In x l1 -> f x = false) /\ f r = true.
Proof.
  induction l as [|a l IH]; [discriminate|]. cbn [filter]. destruct (f a) eqn:Fa.
  - intros [= -> _]. exists [], l. split; [reflexivity|]. split; [intros ? []|exact Fa].
  - intros E. destruct (IH E) as (l1 & l2 & -> & H1 & H2). exists (a :: l1), l2. split; [reflexivity|]. split; [|exact H2].
    intros x [<-|I]; auto.
Qed.

Lemma filter_nil_all {A} (f : A -> bool) l : filter f l = [] -> forall x, In x l -> f x = false.
Proof.
  induction l as [|a l IH]; intros E x I; [destruct I|]. cbn [filter] in E. destruct (f a) eqn:Fa; [discriminate|].
  destruct I as [<-|I]; auto.
Qed.

Definition fill_from (retain : option prio) (ex : list sr) : option Z :=
  match filter (fun r => is_retained retain (rp r)) ex with [] => None | r :: _ => Some (rs r) end.

Lemma fill_props retain ex : chain ex ->
  (forall x, In x ex -> aligned (fill_from retain ex) x) /\ (forall x, In x ex -> retained_above retain (fill_from retain ex) x).
Proof.
  intros C. unfold fill_from, aligned, retained_above. destruct (filter _ ex) as [|r t] eqn:F.
  - split; [intros x _ fl Ef; discriminate|]. intros x Ix Rt. rewrite (filter_nil_all _ _ F x Ix) in Rt. discriminate.
  - destruct (filter_first _ _ _ _ F) as (l1 & l2 & -> & H1 & H2).
    pose proof (chain_app_order _ _ C) as O1. destruct (chain_app_inv _ _ C) as (_ & C2).
    pose proof (chain_lower _ _ C2) as O2. destruct (chain_cons_inv _ _ C2) as (Nr & _). unfold nonempty in Nr.
    split.
    + intros x Ix fl [= <-]. apply in_app_or in Ix. destruct Ix as [Ix|[<-|Ix]].
      * left. apply O1; [exact Ix|left; reflexivity].
      * right. lia.
      * right. pose proof (O2 x Ix). lia.
    + intros x Ix Rt. exists (rs r). split; [reflexivity|]. apply in_app_or in Ix. destruct Ix as [Ix|[<-|Ix]].
      * rewrite (H1 x Ix) in Rt. discriminate.
      * lia.
      * pose proof (O2 x Ix). lia.
Qed.

Lemma last_opt_dec l : (exists x, last_opt l = Some x) \/ last_opt l = None.
Proof. destruct (last_opt l); eauto. Qed.

(** *** prune_scan_queue_below on a canonical queue *)
Definition prune_pm (q : list sr) (height : Z) (retain : option prio) (h : Z) : option prio :=
  let ex := filter (fun r => rs r <? height) q in
  if height <=? h then rows_at (map row_of q) h
  else match rows_at (map row_of q) h with
       | Some p => pruned_prio height retain (fill_from retain ex) p h
       | None => None
       end.

Lemma prune_spec q height retain : chain q ->
  let rest := filter (fun r => negb (rs r <? height)) q in
  exists v, prune_scan_queue_below q height retain = Ok (v ++ rest) /\
    chain v /\ chain rest /\
    (forall x y, last_opt v = Some x -> hd_opt rest = Some y -> re x = rs y) /\
    (forall h, rows_at (map row_of (v ++ rest)) h = prune_pm q height retain h).
Proof.
  intros C. cbv zeta. set (ex := filter (fun r => rs r <? height) q). set (rest := filter (fun r => negb (rs r <? height)) q).
  pose proof (split_height height q C) as SP. fold ex rest in SP.
  assert (Cs : chain (ex ++ rest)) by (rewrite <- SP; exact C).
  destruct (chain_app_inv _ _ Cs) as (Cex & Crest).
  assert (Hh : forall x, In x ex -> rs x < height) by (intros x Ix; unfold ex in Ix; apply filter_In in Ix; lia).
  assert (Hrest : forall x, In x rest -> height <= rs x) by (intros x Ix; unfold rest in Ix; apply filter_In in Ix; lia).
  destruct (fill_props retain ex Cex) as (Al & Ra).
  destruct (repl_spec height retain (fill_from retain ex) ex Cex Hh Al Ra) as (R1 & R2 & R3 & _).
  set (repl := flat_map (prune_g height retain (fill_from retain ex)) ex) in *.
  destruct (coalesce_spec repl [] I R1) as (Cv & Pv & Lv & Ev); [intros ? ? [=]|]. cbv zeta in *.
  set (v := coalesce [] repl) in *.
  assert (UNF : prune_scan_queue_below q height retain =
                if list_eqb sr_eqb v ex then Ok q else insert_queue_entries v rest) by reflexivity.
  (* the last rewritten row ends where the last existing row ends *)
  assert (LASTV : forall vl xl, last_opt v = Some vl -> last_opt ex = Some xl -> re vl = re xl).
  { intros vl xl Lvl Lxl. destruct (last_opt_dec repl) as [(rl & Lr)|Lr].
    - destruct (Lv rl Lr) as (vl' & Lvl' & E1 & _). rewrite Lvl in Lvl'. injection Lvl' as <-. rewrite E1. eapply R3; eauto.
    - apply last_opt_none in Lr. rewrite (Ev Lr) in Lvl. discriminate. }
  assert (EXNE : v <> [] -> ex <> []).
  { intros Nv ->. apply Nv. unfold v, repl. reflexivity. }
  assert (ORD : forall y x, In y v -> In x rest -> re y <= rs x).
  { intros y x Iy Ix. destruct (last_opt_dec v) as [(vl & Lvl)|Lvl]; [|apply last_opt_none in Lvl; rewrite Lvl in Iy; destruct Iy].
    pose proof (chain_last_ge v vl Cv Lvl y Iy).
    destruct (last_opt_dec ex) as [(xl & Lxl)|Lxl].
    - rewrite (LASTV vl xl Lvl Lxl) in H. pose proof (chain_app_order _ _ Cs xl x (last_opt_in _ _ Lxl) Ix). lia.
    - apply last_opt_none in Lxl. exfalso. apply EXNE; [intros E0; rewrite E0 in Iy; destruct Iy|exact Lxl]. }
  assert (JUNC : forall x y, last_opt v = Some x -> hd_opt rest = Some y -> re x = rs y).
  { intros x y Lx Hy. destruct (last_opt_dec ex) as [(xl & Lxl)|Lxl].
    - rewrite (LASTV x xl Lx Lxl). apply (chain_junction ex rest Cs xl y Lxl Hy).
    - apply last_opt_none in Lxl. exfalso. apply EXNE; [intros E0; rewrite E0 in Lx; discriminate|exact Lxl]. }
  assert (PW : forall h, rows_at (map row_of (v ++ rest)) h = prune_pm q height retain h).
  { intros h. rewrite rows_at_app, Pv. cbn [rev map rows_at orelse]. rewrite R2, exspec_rows.
    assert (RQ : rows_at (map row_of q) h = orelse (rows_at (map row_of ex) h) (rows_at (map row_of rest) h)).
    { transitivity (rows_at (map row_of (ex ++ rest)) h); [f_equal; f_equal; exact SP|apply rows_at_app]. }
    unfold prune_pm. fold ex. rewrite RQ.
    destruct (Z.leb_spec height h).
    - (* at or above the pruning height: rows of [ex] containing h keep their priority *)
      destruct (rows_at (map row_of ex) h) as [p|] eqn:E1; cbn [orelse]; [|reflexivity].
      unfold pruned_prio. destruct (is_retained retain p); [reflexivity|]. destruct (Z.leb_spec height h); [reflexivity|lia].
    - rewrite (rows_at_none rest h).
      + destruct (rows_at (map row_of ex) h) as [p|]; cbn [orelse]; [|reflexivity].
        destruct (pruned_prio _ _ _ p h); reflexivity.
      + intros y Iy. pose proof (Hrest y Iy). unfold in_range. lia. }
  exists v. split; [|split; [exact Cv|split; [exact Crest|split; [exact JUNC|exact PW]]]].
  rewrite UNF. destruct (list_eqb sr_eqb v ex) eqn:EQ.
  - apply (list_eqb_spec sr_eqb) in EQ.
    + rewrite EQ. rewrite <- SP. reflexivity.
    + intros a b. unfold sr_eqb. destruct a as [s e p], b as [s' e' p']. cbn [rs re rp].
      rewrite !andb_true_iff, !Z.eqb_eq, prio_eqb_eq. split; [intros ((-> & ->) & ->); reflexivity|intros [= -> -> ->]; auto].
  - pose proof (insert_mid v [] rest Cv) as IM. cbn [app] in IM. apply IM.
    + intros ? ? [].
    + intros ? [].
    + exact ORD.
    + intros x Ix. apply (chain_nonempty _ Crest). exact Ix.
Qed.

(** canonical unless the row ending at the junction and the first untouched row coincide in priority *)
Lemma prune_canonical q height retain v : chain q ->
  let rest := filter (fun r => negb (rs r <? height)) q in
  prune_scan_queue_below q height retain = Ok (v ++ rest) -> chain v -> chain rest ->
  (forall x y, last_opt v = Some x -> hd_opt rest = Some y -> re x = rs y) ->
  (forall x y, last_opt v = Some x -> hd_opt rest = Some y -> rp x <> rp y) ->
  chain (v ++ rest).
Proof.
  intros C rest _ Cv Cr J1 J2. apply chain_app; [exact Cv|exact Cr|]. intros x y Lx Hy. split; [apply J1|apply J2]; assumption.
Qed.

(** known finding (class 2): the junction is not coalesced *)
Lemma prune_junction_refuted :
  exists q height retain q', chain q /\ prune_scan_queue_below q height retain = Ok q' /\ ~ chain q'.
Proof.
  exists [R 100000 100010 Scanned; R 100010 100015 Ignored; R 100015 100020 FoundNote; R 100020 100030 Ignored; R 100030 100051 Historic],
         100020, (Some ChainTip),
         [R 100000 100010 Scanned; R 100010 100020 Ignored; R 100020 100030 Ignored; R 100030 100051 Historic].
  split; [unfold chain; cbn; repeat split; try lia; discriminate|]. split; [reflexivity|].
  unfold chain. cbn. intros (_ & _ & _ & (_ & H) & _). apply H. reflexivity.
Qed.
