(** C15 — pointwise meaning of trees and row lists, well-formedness of trees. Definitions
    only (used by the theorems; not part of the executable model). *)
From V.Lib Require Import Base.
From V.Gen Require Import C15Tables.
From V.C15 Require Import Model Spec.
Local Open Scope Z_scope.

Definition at_sr (r : sr) (h : Z) : option prio :=
  if in_range (rs r) (re r) h then Some (rp r) else None.

Definition orelse {A} (a b : option A) : option A := match a with Some x => Some x | None => b end.

Fixpoint at_tree (t : tree) (h : Z) : option prio :=
  match t with
  | Leaf r => at_sr r h
  | Parent _ _ l r => orelse (at_tree l h) (at_tree r h)
  end.

(** the covered interval and priority map of a tree *)
Definition st_of (t : tree) : pstate := PS (span_s t) (span_e t) (at_tree t).

(** weakly well-formed: leaves may be empty; children are contiguous; spans are exact *)
Fixpoint wwf (t : tree) : Prop :=
  match t with
  | Leaf r => rs r <= re r
  | Parent ss se l r => wwf l /\ wwf r /\ span_e l = span_s r /\ ss = span_s l /\ se = span_e r
  end.

(** well-formed: additionally no empty leaf *)
Fixpoint wf (t : tree) : Prop :=
  match t with
  | Leaf r => rs r < re r
  | Parent ss se l r => wf l /\ wf r /\ span_e l = span_s r /\ ss = span_s l /\ se = span_e r
  end.

Definition row_of (r : sr) : row := (rs r, re r, rp r).
Definition nonempty (r : sr) : Prop := rs r < re r.
Definition valid (r : sr) : Prop := rs r <= re r.

(** the specification state after a sequence of insertions into [Leaf init] *)
Definition op_row (o : sr * bool) : row * bool := (row_of (fst o), snd o).
Definition spec_after (init : sr) (ops : list (sr * bool)) : pstate :=
  fold_spec (leaf_spec (rs init) (re init) (rp init)) (map op_row ops).
