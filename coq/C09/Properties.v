(** C09 — property theorems only. Each is closed by [exact] of a lemma from Proofs.v/Bridge.v,
    pinned by [Check], and audited by Print Assumptions in the generated Audit file. *)
From V.Lib Require Import Base MachInt.
From V.C09 Require Import Model Spec Corr Wf Proofs Bridge.
Local Open Scope Z_scope.

(** Constructors return the value iff in range, Underflow below, Overflow above. *)
Theorem C09_zb_from_i64 : forall x, zb_from_i64 x = ctor_spec (- MAX_MONEY) MAX_MONEY x.
Proof. exact zb_from_i64_spec. Qed.
Theorem C09_zb_from_nonnegative_i64 : forall x, zb_from_nonnegative_i64 x = ctor_spec 0 MAX_MONEY x.
Proof. exact zb_from_nonnegative_i64_spec. Qed.
Theorem C09_zb_from_u64 : forall x, 0 <= x -> zb_from_u64 x = ctor_spec 0 MAX_MONEY x.
Proof. exact zb_from_u64_spec. Qed.
Theorem C09_zat_from_u64 : forall x, 0 <= x -> zat_from_u64 x = ctor_spec 0 MAX_MONEY x.
Proof. exact zat_from_u64_spec. Qed.
Theorem C09_zat_from_nonnegative_i64 : forall x, zat_from_nonnegative_i64 x = ctor_spec 0 MAX_MONEY x.
Proof. exact zat_from_nonnegative_i64_spec. Qed.
Theorem C09_ctor_ok : forall lo hi x v, ctor_spec lo hi x = Ok v <-> v = x /\ lo <= x <= hi.
Proof. exact ctor_spec_ok. Qed.
Theorem C09_ctor_underflow : forall lo hi x, ctor_spec lo hi x = Err Underflow <-> x < lo.
Proof. exact ctor_spec_underflow. Qed.
Theorem C09_ctor_overflow : forall lo hi x, ctor_spec lo hi x = Err Overflow <-> lo <= x /\ hi < x.
Proof. exact ctor_spec_overflow. Qed.

(** [const fn] constructors cannot return an error: they yield the value iff it is in range and
    panic (their documented failure signal) otherwise — never an out-of-range amount. *)
Theorem C09_zb_const_from_i64 : forall x, zb_const_from_i64 x = const_spec (- MAX_MONEY) MAX_MONEY x.
Proof. exact zb_const_from_i64_spec. Qed.
Theorem C09_zb_const_from_u64 : forall x, 0 <= x -> zb_const_from_u64 x = const_spec 0 MAX_MONEY x.
Proof. exact zb_const_from_u64_spec. Qed.
Theorem C09_zat_const_from_u64 : forall x, 0 <= x -> zat_const_from_u64 x = const_spec 0 MAX_MONEY x.
Proof. exact zat_const_from_u64_spec. Qed.
Theorem C09_const_ok : forall lo hi x v, const_spec lo hi x = Ok v <-> v = x /\ lo <= x <= hi.
Proof. exact const_spec_ok. Qed.
Theorem C09_const_panic : forall lo hi x, const_spec lo hi x = Panic <-> ~ (lo <= x <= hi).
Proof. exact const_spec_panic. Qed.
Theorem C09_const_never_err : forall lo hi x (e : unit), const_spec lo hi x <> Err e.
Proof. exact const_spec_never_err. Qed.
(** Sign predicates agree with the sign of the exact integer. *)
Theorem C09_zb_sign_trichotomy : forall a,
  (zb_is_positive a = true /\ zb_is_negative a = false) \/ (zb_is_positive a = false /\ zb_is_negative a = true)
  \/ (a = 0 /\ zb_is_positive a = false /\ zb_is_negative a = false).
Proof. exact zb_sign_trichotomy. Qed.
Theorem C09_zb_is_positive : forall a, zb_is_positive a = true <-> 0 < a.
Proof. exact zb_is_positive_spec. Qed.
Theorem C09_zb_is_negative : forall a, zb_is_negative a = true <-> a < 0.
Proof. exact zb_is_negative_spec. Qed.
Theorem C09_zat_is_zero : forall z, zat_is_zero z = true <-> z = 0.
Proof. exact zat_is_zero_spec. Qed.
Theorem C09_zat_is_positive : forall z, valid_zat z -> zat_is_positive z = negb (zat_is_zero z).
Proof. exact zat_is_positive_spec. Qed.

(** Signed-balance operators: no panic, exact result or failure. *)
Theorem C09_zb_add : forall a b, valid_zb a -> valid_zb b -> zb_add a b = Ok (exact_zb (a + b)).
Proof. exact zb_add_exact. Qed.
Theorem C09_zb_sub : forall a b, valid_zb a -> valid_zb b -> zb_sub a b = Ok (exact_zb (a - b)).
Proof. exact zb_sub_exact. Qed.
Theorem C09_zb_add_zat : forall a z, valid_zb a -> valid_zat z -> zb_add_zat a z = Ok (exact_zb (a + z)).
Proof. exact zb_add_zat_exact. Qed.
Theorem C09_zb_sub_zat : forall a z, valid_zb a -> valid_zat z -> zb_sub_zat a z = Ok (exact_zb (a - z)).
Proof. exact zb_sub_zat_exact. Qed.
Theorem C09_zb_neg : forall a, valid_zb a -> zb_neg a = Ok (- a) /\ valid_zb (- a).
Proof. exact zb_neg_exact. Qed.
Theorem C09_zat_neg : forall z, valid_zat z -> zat_neg z = Ok (- z) /\ valid_zb (- z).
Proof. exact zat_neg_exact. Qed.
Theorem C09_zb_mul_usize : forall a n, valid_zb a -> 0 <= n <= usize_max ->
  zb_mul_usize a n = exact_zb (a * n).
Proof. exact zb_mul_usize_exact. Qed.
Theorem C09_exact_some : forall lo hi e r, exact_in lo hi e = Some r <-> r = e /\ lo <= e <= hi.
Proof. exact exact_in_some. Qed.
Theorem C09_exact_none : forall lo hi e, exact_in lo hi e = None <-> ~ (lo <= e <= hi).
Proof. exact exact_in_none. Qed.

(** Non-negative amounts. *)
Theorem C09_zat_add : forall a b, valid_zat a -> valid_zat b -> zat_add a b = exact_zat (a + b).
Proof. exact zat_add_exact. Qed.
Theorem C09_zat_sub : forall a b, valid_zat a -> valid_zat b -> zat_sub a b = exact_zat (a - b).
Proof. exact zat_sub_exact. Qed.
Theorem C09_zat_mul_u64 : forall a n, valid_zat a -> 0 <= n <= u64_max -> zat_mul_u64 a n = exact_zat (a * n).
Proof. exact zat_mul_u64_exact. Qed.
Theorem C09_zat_mul_usize : forall a n, valid_zat a -> 0 <= n <= usize_max -> zat_mul_usize a n = exact_zat (a * n).
Proof. exact zat_mul_usize_exact. Qed.
Theorem C09_zat_div : forall a d, valid_zat a -> 0 < d -> zat_div a d = a / d /\ valid_zat (a / d).
Proof. exact zat_div_exact. Qed.
Theorem C09_zat_div_rem : forall a d, valid_zat a -> 0 < d ->
  let '(q, r) := zat_div_with_remainder a d in q * d + r = a /\ 0 <= r < d /\ valid_zat q /\ valid_zat r.
Proof. exact zat_div_rem_exact. Qed.

(** Sums: [try_fold] semantics — every prefix must be in range. *)
Theorem C09_zb_sum : forall l, Forall valid_zb l -> zb_sum l = Ok (prefix_sum_spec (- MAX_MONEY) MAX_MONEY 0 l).
Proof. exact zb_sum_spec. Qed.
Theorem C09_zat_sum : forall l, Forall valid_zat l -> zat_sum l = prefix_sum_spec 0 MAX_MONEY 0 l.
Proof. exact zat_sum_spec. Qed.
Theorem C09_prefix_sum_some : forall lo hi l acc s,
  prefix_sum_spec lo hi acc l = Some s <-> (s = acc + fold_right Z.add 0 l /\ prefixes_in lo hi acc l).
Proof. exact prefix_sum_spec_some. Qed.
Theorem C09_prefix_sum_none : forall lo hi l acc, prefix_sum_spec lo hi acc l = None <-> ~ prefixes_in lo hi acc l.
Proof. exact prefix_sum_spec_none. Qed.

(** Byte encodings round-trip and reject out-of-range values. *)
Theorem C09_zb_i64_bytes_roundtrip : forall a, valid_zb a -> zb_from_i64_le_bytes (zb_to_i64_le_bytes a) = Ok a.
Proof. exact zb_i64_bytes_roundtrip. Qed.
Theorem C09_zb_i64_bytes_accept : forall b v, bytes8P b ->
  (zb_from_i64_le_bytes b = Ok v <-> valid_zb v /\ b = zb_to_i64_le_bytes v).
Proof. exact zb_i64_bytes_accept. Qed.
Theorem C09_zat_u64_bytes_roundtrip : forall z, valid_zat z -> zat_from_u64_le_bytes (zat_to_u64_le_bytes z) = Ok z.
Proof. exact zat_u64_bytes_roundtrip. Qed.
Theorem C09_zat_u64_bytes_accept : forall b v, bytes8P b ->
  (zat_from_u64_le_bytes b = Ok v <-> valid_zat v /\ b = zat_to_u64_le_bytes v).
Proof. exact zat_u64_bytes_accept. Qed.
Theorem C09_zat_i64_bytes_roundtrip : forall z, valid_zat z -> zat_from_nonnegative_i64_le_bytes (zat_to_i64_le_bytes z) = Ok z.
Proof. exact zat_i64_bytes_roundtrip. Qed.
Theorem C09_zb_u64_bytes : forall b, bytes8P b -> zb_from_u64_le_bytes b = ctor_spec 0 MAX_MONEY (of_le b).
Proof. exact zb_u64_bytes_spec. Qed.
Theorem C09_zb_nonneg_i64_bytes : forall b, bytes8P b ->
  zb_from_nonnegative_i64_le_bytes b = ctor_spec 0 MAX_MONEY (signed_of_bytes b).
Proof. exact zb_nonneg_i64_bytes_spec. Qed.
Theorem C09_zat_read : forall b, Forall (fun x => 0 <= x < 256) b ->
  match zat_read b with
  | Ok (v, r) => valid_zat v /\ b = zat_write v ++ r
  | Err Eof => (length b < 8)%nat
  | Err InvalidData => (8 <= length b)%nat /\ ~ valid_zat (of_le (firstn 8 b))
  | Panic => False
  end.
Proof. exact zat_read_spec. Qed.

(** Bridge: agreement with the model implies the property on the implementation's outcome. *)
Theorem C09_agree_implies_property : forall c,
  wf_case c = true -> known_class c = 0%N -> run_case c = true -> prop_case c = true.
Proof. exact agree_implies_property. Qed.

(** Non-vacuity: the hypotheses are satisfiable at the boundary. *)
Example C09_nonvacuous : valid_zb (- MAX_MONEY) /\ valid_zb MAX_MONEY /\ valid_zat MAX_MONEY /\
  zb_add MAX_MONEY MAX_MONEY = Ok None /\ zb_sub (- MAX_MONEY) MAX_MONEY = Ok None /\
  zb_add (- MAX_MONEY) MAX_MONEY = Ok (Some 0) /\ zat_mul_u64 1 MAX_MONEY = Some MAX_MONEY.
Proof. vm_compute. intuition congruence. Qed.
