(** C09 — correspondence cases. The harness prints one constructor application per line:
    inputs followed by the implementation's observed outcome. [run_case] compares the model
    with the implementation; [prop_case] evaluates the property on the implementation's
    outcome alone (against Spec.v, not against the model). *)
From V.Lib Require Import Base MachInt Hex.
From V.C09 Require Import Model Spec.
Local Open Scope Z_scope.

Definition hz (s : String.string) : list Z := map Z.of_N (hex s).

Definition res_eqb := outcome_eqb Z.eqb berr_eqb.
Definition unit_eqb (_ _ : unit) := true.
Definition ores_eqb := outcome_eqb (option_eqb Z.eqb) unit_eqb.
Definition nres_eqb := outcome_eqb Z.eqb unit_eqb.
Definition oz_eqb := option_eqb Z.eqb.
Definition lz_eqb := list_eqb Z.eqb.
Definition rd_eqb := outcome_eqb (pair_eqb Z.eqb lz_eqb) rerr_eqb.

Inductive case :=
(* ZatBalance *)
| ZbFromI64 (x : Z) (o : res)
| ZbFromNonnegI64 (x : Z) (o : res)
| ZbFromU64 (x : Z) (o : res)
| ZbFromI64Le (b : list Z) (o : res)
| ZbFromNonnegI64Le (b : list Z) (o : res)
| ZbFromU64Le (b : list Z) (o : res)
| ZbToI64Le (a : Z) (o : list Z)
| ZbAdd (a b : Z) (o : ores)
| ZbSub (a b : Z) (o : ores)
| ZbAddZat (a z : Z) (o : ores)
| ZbSubZat (a z : Z) (o : ores)
| ZbOptAdd (a : option Z) (b : Z) (o : ores)
| ZbOptSub (a : option Z) (b : Z) (o : ores)
| ZbOptAddZat (a : option Z) (z : Z) (o : ores)
| ZbOptSubZat (a : option Z) (z : Z) (o : ores)
| ZbNeg (a : Z) (o : outcome Z unit)
| ZbMulUsize (a n : Z) (o : outcome (option Z) unit)
| ZbSum (l : list Z) (o : ores)
| ZbTryIntoU64 (a : Z) (o : res)
| ZbFromZat (z : Z) (o : Z)
(* Zatoshis *)
| ZatFromU64 (x : Z) (o : res)
| ZatFromNonnegI64 (x : Z) (o : res)
| ZatFromU64Le (b : list Z) (o : res)
| ZatFromNonnegI64Le (b : list Z) (o : res)
| ZatToI64Le (z : Z) (o : list Z)
| ZatToU64Le (z : Z) (o : list Z)
| ZatRead (b : list Z) (o : outcome (Z * list Z) rerr)
| ZatWrite (z : Z) (o : list Z)
| ZatAdd (a b : Z) (o : outcome (option Z) unit)
| ZatSub (a b : Z) (o : outcome (option Z) unit)
| ZatOptAdd (a : option Z) (b : Z) (o : outcome (option Z) unit)
| ZatOptSub (a : option Z) (b : Z) (o : outcome (option Z) unit)
| ZatMulU64 (a n : Z) (o : outcome (option Z) unit)
| ZatMulUsize (a n : Z) (o : outcome (option Z) unit)
| ZatSum (l : list Z) (o : outcome (option Z) unit)
| ZatSumRep (v : Z) (n : N) (o : outcome (option Z) unit)   (* sum of n copies of v *)
| ZbSumRep (v : Z) (n : N) (o : ores)
| ZatDiv (a d : Z) (o : outcome Z unit)
| ZatDivRem (a d : Z) (o : outcome (Z * Z) unit)
| ZatNeg (z : Z) (o : outcome Z unit)
| ZatTryFromZb (a : Z) (o : res)
(* const fn constructors (assert! = Panic outside the range) and sign predicates *)
| ZbConstFromI64 (x : Z) (o : outcome Z unit)
| ZbConstFromU64 (x : Z) (o : outcome Z unit)
| ZatConstFromU64 (x : Z) (o : outcome Z unit)
| ZbIsPositive (a : Z) (o : bool)
| ZbIsNegative (a : Z) (o : bool)
| ZatIsZero (z : Z) (o : bool)
| ZatIsPositive (z : Z) (o : bool).

Definition okz (o : option Z) : outcome (option Z) unit := Ok o.

(** model = implementation *)
Definition run_case (c : case) : bool :=
  match c with
  | ZbFromI64 x o => res_eqb (zb_from_i64 x) o
  | ZbFromNonnegI64 x o => res_eqb (zb_from_nonnegative_i64 x) o
  | ZbFromU64 x o => res_eqb (zb_from_u64 x) o
  | ZbFromI64Le b o => res_eqb (zb_from_i64_le_bytes b) o
  | ZbFromNonnegI64Le b o => res_eqb (zb_from_nonnegative_i64_le_bytes b) o
  | ZbFromU64Le b o => res_eqb (zb_from_u64_le_bytes b) o
  | ZbToI64Le a o => lz_eqb (zb_to_i64_le_bytes a) o
  | ZbAdd a b o => ores_eqb (zb_add a b) o
  | ZbSub a b o => ores_eqb (zb_sub a b) o
  | ZbAddZat a z o => ores_eqb (zb_add_zat a z) o
  | ZbSubZat a z o => ores_eqb (zb_sub_zat a z) o
  | ZbOptAdd a b o => ores_eqb (opt_lift zb_add a b) o
  | ZbOptSub a b o => ores_eqb (opt_lift zb_sub a b) o
  | ZbOptAddZat a z o => ores_eqb (opt_lift zb_add_zat a z) o
  | ZbOptSubZat a z o => ores_eqb (opt_lift zb_sub_zat a z) o
  | ZbNeg a o => nres_eqb (zb_neg a) o
  | ZbMulUsize a n o => ores_eqb (okz (zb_mul_usize a n)) o
  | ZbSum l o => ores_eqb (zb_sum l) o
  | ZbTryIntoU64 a o => res_eqb (zb_try_into_u64 a) o
  | ZbFromZat z o => Z.eqb (zb_from_zat z) o
  | ZatFromU64 x o => res_eqb (zat_from_u64 x) o
  | ZatFromNonnegI64 x o => res_eqb (zat_from_nonnegative_i64 x) o
  | ZatFromU64Le b o => res_eqb (zat_from_u64_le_bytes b) o
  | ZatFromNonnegI64Le b o => res_eqb (zat_from_nonnegative_i64_le_bytes b) o
  | ZatToI64Le z o => lz_eqb (zat_to_i64_le_bytes z) o
  | ZatToU64Le z o => lz_eqb (zat_to_u64_le_bytes z) o
  | ZatRead b o => rd_eqb (zat_read b) o
  | ZatWrite z o => lz_eqb (zat_write z) o
  | ZatAdd a b o => ores_eqb (okz (zat_add a b)) o
  | ZatSub a b o => ores_eqb (okz (zat_sub a b)) o
  | ZatOptAdd a b o => ores_eqb (okz (oopt_lift zat_add a b)) o
  | ZatOptSub a b o => ores_eqb (okz (oopt_lift zat_sub a b)) o
  | ZatMulU64 a n o => ores_eqb (okz (zat_mul_u64 a n)) o
  | ZatMulUsize a n o => ores_eqb (okz (zat_mul_usize a n)) o
  | ZatSum l o => ores_eqb (okz (zat_sum l)) o
  | ZatSumRep v n o => ores_eqb (okz (zat_sum (repeat v (N.to_nat n)))) o
  | ZbSumRep v n o => ores_eqb (zb_sum (repeat v (N.to_nat n))) o
  | ZatDiv a d o => nres_eqb (Ok (zat_div a d)) o
  | ZatDivRem a d o => outcome_eqb (pair_eqb Z.eqb Z.eqb) unit_eqb (Ok (zat_div_with_remainder a d)) o
  | ZatNeg z o => nres_eqb (zat_neg z) o
  | ZatTryFromZb a o => res_eqb (zat_try_from_zb a) o
  | ZbConstFromI64 x o => nres_eqb (zb_const_from_i64 x) o
  | ZbConstFromU64 x o => nres_eqb (zb_const_from_u64 x) o
  | ZatConstFromU64 x o => nres_eqb (zat_const_from_u64 x) o
  | ZbIsPositive a o => Bool.eqb (zb_is_positive a) o
  | ZbIsNegative a o => Bool.eqb (zb_is_negative a) o
  | ZatIsZero z o => Bool.eqb (zat_is_zero z) o
  | ZatIsPositive z o => Bool.eqb (zat_is_positive z) o
  end.

(** The property, evaluated on the implementation's outcome. *)
Definition M := MAX_MONEY.
Definition bytes8 (b : list Z) : bool := (length b =? 8)%nat && forallb is_byteZ b.
Definition opt_in (f : Z -> Z -> option Z) (a : option Z) (b : Z) : option Z :=
  match a with None => None | Some x => f x b end.

Definition prop_case (c : case) : bool :=
  match c with
  | ZbFromI64 x o => res_eqb (ctor_spec (- M) M x) o
  | ZbFromNonnegI64 x o => res_eqb (ctor_spec 0 M x) o
  | ZbFromU64 x o => res_eqb (ctor_spec 0 M x) o
  | ZbFromI64Le b o => res_eqb (ctor_spec (- M) M (signed_of_bytes b)) o
  | ZbFromNonnegI64Le b o => res_eqb (ctor_spec 0 M (signed_of_bytes b)) o
  | ZbFromU64Le b o => res_eqb (ctor_spec 0 M (of_le b)) o
  | ZbToI64Le a o => lz_eqb (bytes_of_signed a) o
  | ZbAdd a b o => ores_eqb (Ok (exact_zb (a + b))) o
  | ZbSub a b o => ores_eqb (Ok (exact_zb (a - b))) o
  | ZbAddZat a z o => ores_eqb (Ok (exact_zb (a + z))) o
  | ZbSubZat a z o => ores_eqb (Ok (exact_zb (a - z))) o
  | ZbOptAdd a b o => ores_eqb (Ok (opt_in (fun x y => exact_zb (x + y)) a b)) o
  | ZbOptSub a b o => ores_eqb (Ok (opt_in (fun x y => exact_zb (x - y)) a b)) o
  | ZbOptAddZat a z o => ores_eqb (Ok (opt_in (fun x y => exact_zb (x + y)) a z)) o
  | ZbOptSubZat a z o => ores_eqb (Ok (opt_in (fun x y => exact_zb (x - y)) a z)) o
  | ZbNeg a o => nres_eqb (Ok (- a)) o && valid_zbb (- a)
  | ZbMulUsize a n o => ores_eqb (Ok (exact_zb (a * n))) o
  | ZbSum l o => ores_eqb (Ok (prefix_sum_spec (- M) M 0 l)) o
  | ZbTryIntoU64 a o => res_eqb (ctor_spec 0 M a) o
  | ZbFromZat z o => Z.eqb z o
  | ZatFromU64 x o => res_eqb (ctor_spec 0 M x) o
  | ZatFromNonnegI64 x o => res_eqb (ctor_spec 0 M x) o
  | ZatFromU64Le b o => res_eqb (ctor_spec 0 M (of_le b)) o
  | ZatFromNonnegI64Le b o => res_eqb (ctor_spec 0 M (signed_of_bytes b)) o
  | ZatToI64Le z o => lz_eqb (bytes_of_signed z) o
  | ZatToU64Le z o => lz_eqb (le_bytes 8 z) o
  | ZatRead b o =>
      if (length b <? 8)%nat then rd_eqb (Err Eof) o
      else match ctor_spec 0 M (of_le (firstn 8 b)) with
           | Ok v => rd_eqb (Ok (v, skipn 8 b)) o
           | _ => rd_eqb (Err InvalidData) o
           end
  | ZatWrite z o => lz_eqb (le_bytes 8 z) o
  | ZatAdd a b o => ores_eqb (Ok (exact_zat (a + b))) o
  | ZatSub a b o => ores_eqb (Ok (exact_zat (a - b))) o
  | ZatOptAdd a b o => ores_eqb (Ok (opt_in (fun x y => exact_zat (x + y)) a b)) o
  | ZatOptSub a b o => ores_eqb (Ok (opt_in (fun x y => exact_zat (x - y)) a b)) o
  | ZatMulU64 a n o => ores_eqb (Ok (exact_zat (a * n))) o
  | ZatMulUsize a n o => ores_eqb (Ok (exact_zat (a * n))) o
  | ZatSum l o => ores_eqb (Ok (prefix_sum_spec 0 M 0 l)) o
  | ZatSumRep v n o => ores_eqb (Ok (prefix_sum_spec 0 M 0 (repeat v (N.to_nat n)))) o
  | ZbSumRep v n o => ores_eqb (Ok (prefix_sum_spec (- M) M 0 (repeat v (N.to_nat n)))) o
  | ZatDiv a d o => nres_eqb (Ok (a / d)) o && valid_zatb (a / d)
  | ZatDivRem a d o =>
      match o with
      | Ok (q, r) => Z.eqb (q * d + r) a && (0 <=? r) && (r <? d) && valid_zatb q && valid_zatb r
      | _ => false
      end
  | ZatNeg z o => nres_eqb (Ok (- z)) o && valid_zbb (- z)
  | ZatTryFromZb a o => res_eqb (ctor_spec 0 M a) o
  | ZbConstFromI64 x o => nres_eqb (const_spec (- M) M x) o
  | ZbConstFromU64 x o => nres_eqb (const_spec 0 M x) o
  | ZatConstFromU64 x o => nres_eqb (const_spec 0 M x) o
  | ZbIsPositive a o => Bool.eqb (0 <? a) o
  | ZbIsNegative a o => Bool.eqb (a <? 0) o
  | ZatIsZero z o => Bool.eqb (z =? 0) o
  | ZatIsPositive z o => Bool.eqb (0 <? z) o
  end.

(** Known-finding classes (0 = none). None is open for C09: the one defect found
    ([ZatBalance * usize] with a zero balance and a multiplier above [i64::MAX]) was repaired
    by a fix: commit and is listed as fixed in known_findings.json. *)
Definition known_class (c : case) : N := 0%N.

(** Path tag: which operator, and whether the implementation signalled failure. *)
Definition failed {A E} (o : outcome A E) : N := match o with Ok _ => 0 | Err _ => 1 | Panic => 2 end%N.
Definition ofailed {E} (o : outcome (option Z) E) : N :=
  match o with Ok (Some _) => 0 | Ok None => 1 | Err _ => 1 | Panic => 2 end%N.
Definition tag_case (c : case) : N :=
  (match c with
  | ZbFromI64 _ o => 10 + failed o | ZbFromNonnegI64 _ o => 20 + failed o
  | ZbFromU64 _ o => 30 + failed o | ZbFromI64Le _ o => 40 + failed o
  | ZbFromNonnegI64Le _ o => 50 + failed o | ZbFromU64Le _ o => 60 + failed o
  | ZbToI64Le _ _ => 70 | ZbAdd _ _ o => 80 + ofailed o | ZbSub _ _ o => 90 + ofailed o
  | ZbAddZat _ _ o => 100 + ofailed o | ZbSubZat _ _ o => 110 + ofailed o
  | ZbOptAdd _ _ o => 120 + ofailed o | ZbOptSub _ _ o => 130 + ofailed o
  | ZbOptAddZat _ _ o => 140 + ofailed o | ZbOptSubZat _ _ o => 150 + ofailed o
  | ZbNeg _ o => 160 + failed o | ZbMulUsize _ _ o => 170 + ofailed o
  | ZbSum _ o => 180 + ofailed o | ZbTryIntoU64 _ o => 190 + failed o | ZbFromZat _ _ => 200
  | ZatFromU64 _ o => 210 + failed o | ZatFromNonnegI64 _ o => 220 + failed o
  | ZatFromU64Le _ o => 230 + failed o | ZatFromNonnegI64Le _ o => 240 + failed o
  | ZatToI64Le _ _ => 250 | ZatToU64Le _ _ => 260 | ZatRead _ o => 270 + failed o
  | ZatWrite _ _ => 280 | ZatAdd _ _ o => 290 + ofailed o | ZatSub _ _ o => 300 + ofailed o
  | ZatOptAdd _ _ o => 310 + ofailed o | ZatOptSub _ _ o => 320 + ofailed o
  | ZatMulU64 _ _ o => 330 + ofailed o | ZatMulUsize _ _ o => 340 + ofailed o
  | ZatSum _ o => 350 + ofailed o | ZatSumRep _ _ o => 400 + ofailed o | ZbSumRep _ _ o => 410 + ofailed o | ZatDiv _ _ o => 360 + failed o
  | ZatDivRem _ _ o => 370 + failed o | ZatNeg _ o => 380 + failed o
  | ZatTryFromZb _ o => 390 + failed o
  | ZbConstFromI64 _ o => 420 + failed o | ZbConstFromU64 _ o => 430 + failed o
  | ZatConstFromU64 _ o => 440 + failed o
  | ZbIsPositive _ o => 450 + (if o then 1 else 0) | ZbIsNegative _ o => 460 + (if o then 1 else 0)
  | ZatIsZero _ o => 470 + (if o then 1 else 0) | ZatIsPositive _ o => 480 + (if o then 1 else 0)
  end)%N.
