(** C09 — executable model of components/zcash_protocol/src/value.rs.
    One definition per public item, using the operator the Rust source uses.
    Plain [+]/[-] on i64 are modelled with debug-build semantics ([Panic] on overflow);
    Proofs.v shows [Panic] unreachable for values built through the public constructors,
    so debug and release coincide. No proofs in this file. *)
From V.Lib Require Import Base MachInt.
From V.Gen Require Import C09Consts.
Local Open Scope Z_scope.

Definition MAX_MONEY : Z := C09Consts.MAX_MONEY.
Definition MAX_BALANCE : Z := MAX_MONEY.            (* [MAX_MONEY as i64] *)

Inductive berr := Overflow | Underflow.
Definition berr_eqb (a b : berr) : bool :=
  match a, b with Overflow, Overflow | Underflow, Underflow => true | _, _ => false end.

Definition res := outcome Z berr.

(** i64 arithmetic as compiled with overflow checks: [None] = panic. *)
Definition i64_add_dbg (a b : Z) : option Z := i64_checked (a + b).
Definition i64_sub_dbg (a b : Z) : option Z := i64_checked (a - b).
Definition i64_neg_dbg (a : Z) : option Z := i64_checked (- a).

(** * ZatBalance (wraps an i64) *)

Definition zb_from_i64 (x : Z) : res :=
  if in_range (- MAX_BALANCE) MAX_BALANCE x then Ok x
  else if x <? - MAX_BALANCE then Err Underflow else Err Overflow.

Definition zb_from_nonnegative_i64 (x : Z) : res :=
  if in_range 0 MAX_BALANCE x then Ok x
  else if x <? 0 then Err Underflow else Err Overflow.

Definition zb_from_u64 (x : Z) : res :=
  if x <=? MAX_MONEY then Ok x else Err Overflow.

Definition i64_from_le_bytes (b : list Z) : Z := i64_of_u64 (of_le b).
Definition u64_from_le_bytes (b : list Z) : Z := of_le b.
Definition i64_to_le_bytes (x : Z) : list Z := le_bytes 8 (u64_of_i64 x).
Definition u64_to_le_bytes (x : Z) : list Z := le_bytes 8 x.

Definition zb_from_i64_le_bytes (b : list Z) : res := zb_from_i64 (i64_from_le_bytes b).
Definition zb_from_nonnegative_i64_le_bytes (b : list Z) : res :=
  zb_from_nonnegative_i64 (i64_from_le_bytes b).
Definition zb_from_u64_le_bytes (b : list Z) : res := zb_from_u64 (u64_from_le_bytes b).
Definition zb_to_i64_le_bytes (x : Z) : list Z := i64_to_le_bytes x.

Definition ok_opt (r : res) : option Z := match r with Ok v => Some v | _ => None end.

(** Binary operators return [outcome (option Z)]: the Rust returns [Option<_>], and the
    unchecked i64 operator may panic. *)
Definition ores := outcome (option Z) unit.

Definition lift_dbg (o : option Z) : ores :=
  match o with
  | None => Panic
  | Some s => Ok (ok_opt (zb_from_i64 s))
  end.

Definition zb_add (a b : Z) : ores := lift_dbg (i64_add_dbg a b).
Definition zb_sub (a b : Z) : ores := lift_dbg (i64_sub_dbg a b).
(** [rhs.into_i64()] is [self.0 as i64]. *)
Definition zat_into_i64 (z : Z) : Z := i64_of_u64 z.
Definition zb_add_zat (a z : Z) : ores := lift_dbg (i64_add_dbg a (zat_into_i64 z)).
Definition zb_sub_zat (a z : Z) : ores := lift_dbg (i64_sub_dbg a (zat_into_i64 z)).

Definition opt_lift (f : Z -> Z -> ores) (a : option Z) (b : Z) : ores :=
  match a with None => Ok None | Some x => f x b end.

Definition zb_neg (a : Z) : outcome Z unit :=
  match i64_neg_dbg a with None => Panic | Some r => Ok r end.

(** [Mul<usize>]: both operands widened to i128 ([i128::try_from(usize)] cannot fail),
    [checked_mul] in i128, then [i64::try_from], then [ZatBalance::try_from]. *)
Definition i128_min : Z := - 2 ^ 127.
Definition i128_max : Z := 2 ^ 127 - 1.
Definition zb_mul_usize (a n : Z) : option Z :=
  match checked i128_min i128_max n with
  | None => None
  | Some r => match checked i128_min i128_max (a * r) with
              | None => None
              | Some p => match i64_checked p with
                          | None => None
                          | Some q => ok_opt (zb_from_i64 q)
                          end
              end
  end.

(** [sum] / [Sum for Option<ZatBalance>]: try_fold from zero with [+]. *)
Fixpoint zb_sum_from (acc : Z) (l : list Z) : ores :=
  match l with
  | [] => Ok (Some acc)
  | x :: r => match zb_add acc x with
              | Ok (Some s) => zb_sum_from s r
              | o => o
              end
  end.
Definition zb_sum (l : list Z) : ores := zb_sum_from 0 l.

(** [TryFrom<ZatBalance> for u64]: [i64 -> u64] try_into, failure mapped to Underflow. *)
Definition zb_try_into_u64 (a : Z) : res := if a <? 0 then Err Underflow else Ok a.

(** * Zatoshis (wraps a u64) *)

Definition zat_from_u64 (x : Z) : res :=
  if in_range 0 MAX_MONEY x then Ok x else Err Overflow.

Definition zat_from_nonnegative_i64 (x : Z) : res :=
  if x <? 0 then Err Underflow else zat_from_u64 x.

Definition zat_from_u64_le_bytes (b : list Z) : res := zat_from_u64 (u64_from_le_bytes b).
Definition zat_from_nonnegative_i64_le_bytes (b : list Z) : res :=
  zat_from_nonnegative_i64 (i64_from_le_bytes b).
Definition zat_to_i64_le_bytes (z : Z) : list Z := i64_to_le_bytes (i64_of_u64 z).
Definition zat_to_u64_le_bytes (z : Z) : list Z := u64_to_le_bytes z.

(** [read]: 8 bytes via read_exact; fewer => UnexpectedEof; out of range => InvalidData.
    Returns the value and the unread rest. *)
Inductive rerr := Eof | InvalidData.
Definition rerr_eqb (a b : rerr) : bool :=
  match a, b with Eof, Eof | InvalidData, InvalidData => true | _, _ => false end.

Definition zat_read (b : list Z) : outcome (Z * list Z) rerr :=
  if (length b <? 8)%nat then Err Eof
  else match zat_from_u64_le_bytes (firstn 8 b) with
       | Ok v => Ok (v, skipn 8 b)
       | _ => Err InvalidData
       end.
Definition zat_write (z : Z) : list Z := zat_to_u64_le_bytes z.

Definition zat_add (a b : Z) : option Z :=
  match u64_checked (a + b) with None => None | Some s => ok_opt (zat_from_u64 s) end.
Definition zat_sub (a b : Z) : option Z :=
  match u64_checked (a - b) with None => None | Some s => ok_opt (zat_from_u64 s) end.
Definition zat_mul_u64 (a n : Z) : option Z :=
  match u64_checked (a * n) with None => None | Some s => ok_opt (zat_from_u64 s) end.
(** usize -> u64 never fails on a 64-bit target. *)
Definition zat_mul_usize (a n : Z) : option Z :=
  match u64_checked n with None => None | Some m => zat_mul_u64 a m end.

Definition oopt_lift (f : Z -> Z -> option Z) (a : option Z) (b : Z) : option Z :=
  match a with None => None | Some x => f x b end.

Fixpoint zat_sum_from (acc : Z) (l : list Z) : option Z :=
  match l with
  | [] => Some acc
  | x :: r => match zat_add acc x with Some s => zat_sum_from s r | None => None end
  end.
Definition zat_sum (l : list Z) : option Z := zat_sum_from 0 l.

(** divisor is NonZeroU64 *)
Definition zat_div (a d : Z) : Z := a / d.
Definition zat_div_with_remainder (a d : Z) : Z * Z := (a / d, a mod d).

Definition zat_neg (z : Z) : outcome Z unit := zb_neg (i64_of_u64 z).
Definition zb_from_zat (z : Z) : Z := i64_of_u64 z.
Definition zat_try_from_zb (a : Z) : res := zat_from_nonnegative_i64 a.

(** * [const fn] constructors: [assert!] on the range, so [Panic] is the documented failure
    signal outside it; inside, the value is returned unchanged ([amount as i64] for u64). *)
Definition zb_const_from_i64 (x : Z) : outcome Z unit :=
  if (- MAX_BALANCE <=? x) && (x <=? MAX_BALANCE) then Ok x else Panic.
Definition zb_const_from_u64 (x : Z) : outcome Z unit :=
  if x <=? MAX_MONEY then Ok (i64_of_u64 x) else Panic.
Definition zat_const_from_u64 (x : Z) : outcome Z unit :=
  if x <=? MAX_MONEY then Ok x else Panic.

(** Sign predicates: [i64::is_positive]/[is_negative] on the wrapped value; [Zatoshis]
    compares with [Zatoshis::ZERO]. *)
Definition zb_is_positive (a : Z) : bool := 0 <? a.
Definition zb_is_negative (a : Z) : bool := a <? 0.
Definition zat_is_zero (z : Z) : bool := z =? 0.
Definition zat_is_positive (z : Z) : bool := 0 <? z.
