From V.Lib Require Import Base MachInt.
From V.C09 Require Import Model Spec.
From Coq Require Import ZifyBool.
Local Open Scope Z_scope.

Lemma max_money_val : MAX_MONEY = 2100000000000000.
Proof. reflexivity. Qed.

Ltac unfold_all :=
  unfold zb_add, zb_sub, zb_add_zat, zb_sub_zat, zb_neg, zb_mul_usize, zb_try_into_u64,
    zat_add, zat_sub, zat_mul_u64, zat_mul_usize, zat_neg, zat_try_from_zb, zb_from_zat,
    zat_from_nonnegative_i64, zat_from_u64, zb_from_i64, zb_from_nonnegative_i64, zb_from_u64,
    lift_dbg, i64_add_dbg, i64_sub_dbg, i64_neg_dbg, zat_into_i64, i64_of_u64, u64_of_i64,
    i64_checked, u64_checked, checked, ok_opt, exact_zb, exact_zat, exact_in, ctor_spec,
    in_range, valid_zb, valid_zat, valid_zbb, valid_zatb, MAX_BALANCE, usize_max,
    i64_min, i64_max, u64_max in *;
  rewrite ?max_money_val in *.

Ltac crush :=
  unfold_all; unfold_all;
  repeat match goal with
         | |- context [if ?b then _ else _] => destruct b eqn:?
         end;
  try reflexivity; try (f_equal; lia); try lia; try (exfalso; lia).

(** * Constructors *)
Lemma zb_from_i64_spec x : zb_from_i64 x = ctor_spec (- MAX_MONEY) MAX_MONEY x.
Proof. crush. Qed.
Lemma zb_from_nonnegative_i64_spec x : zb_from_nonnegative_i64 x = ctor_spec 0 MAX_MONEY x.
Proof. crush. Qed.
Lemma zb_from_u64_spec x : 0 <= x -> zb_from_u64 x = ctor_spec 0 MAX_MONEY x.
Proof. intros; crush. Qed.
Lemma zat_from_u64_spec x : 0 <= x -> zat_from_u64 x = ctor_spec 0 MAX_MONEY x.
Proof. intros; crush. Qed.
Lemma zat_from_nonnegative_i64_spec x : zat_from_nonnegative_i64 x = ctor_spec 0 MAX_MONEY x.
Proof. crush. Qed.
Lemma zb_try_into_u64_spec a : valid_zb a -> zb_try_into_u64 a = ctor_spec 0 MAX_MONEY a.
Proof. intros; crush. Qed.
Lemma zat_try_from_zb_spec a : zat_try_from_zb a = ctor_spec 0 MAX_MONEY a.
Proof. crush. Qed.

Lemma ctor_spec_ok lo hi x v : ctor_spec lo hi x = Ok v <-> v = x /\ lo <= x <= hi.
Proof.
  unfold ctor_spec. destruct (x <? lo) eqn:?, (hi <? x) eqn:?; split;
    try discriminate; try (intros [= <-]; lia); try (intros [-> ?]; try lia; reflexivity).
Qed.
Lemma ctor_spec_underflow lo hi x : ctor_spec lo hi x = Err Underflow <-> x < lo.
Proof.
  unfold ctor_spec. destruct (x <? lo) eqn:?, (hi <? x) eqn:?; split; try discriminate; try lia; reflexivity.
Qed.
Lemma ctor_spec_overflow lo hi x : ctor_spec lo hi x = Err Overflow <-> lo <= x /\ hi < x.
Proof.
  unfold ctor_spec. destruct (x <? lo) eqn:?, (hi <? x) eqn:?; split; try discriminate; try lia; reflexivity.
Qed.

Lemma exact_in_some lo hi e r : exact_in lo hi e = Some r <-> r = e /\ lo <= e <= hi.
Proof.
  unfold exact_in, in_range. destruct ((lo <=? e) && (e <=? hi)) eqn:E; split;
    try discriminate; try (intros [= <-]; lia); try (intros [-> ?]; try lia; reflexivity).
Qed.
Lemma exact_in_none lo hi e : exact_in lo hi e = None <-> ~ (lo <= e <= hi).
Proof.
  unfold exact_in, in_range. destruct ((lo <=? e) && (e <=? hi)) eqn:E; split; try discriminate; try lia; reflexivity.
Qed.

Lemma i64_of_u64_small z : 0 <= z <= i64_max -> i64_of_u64 z = z.
Proof. unfold i64_of_u64, i64_max. intros. destruct (z <=? 9223372036854775807) eqn:?; lia. Qed.
Lemma zat_i64 z : valid_zat z -> i64_of_u64 z = z.
Proof. intros H. apply i64_of_u64_small. unfold valid_zat, i64_max in *. rewrite max_money_val in H. lia. Qed.
Lemma zat_zb z : valid_zat z -> valid_zb z.
Proof. unfold valid_zat, valid_zb. rewrite max_money_val. lia. Qed.

(** * ZatBalance operators: never panic on valid operands, equal the exact result. *)
Lemma zb_add_exact a b : valid_zb a -> valid_zb b -> zb_add a b = Ok (exact_zb (a + b)).
Proof. intros; crush. Qed.
Lemma zb_sub_exact a b : valid_zb a -> valid_zb b -> zb_sub a b = Ok (exact_zb (a - b)).
Proof. intros; crush. Qed.
Lemma zb_add_zat_exact a z : valid_zb a -> valid_zat z -> zb_add_zat a z = Ok (exact_zb (a + z)).
Proof. intros Ha Hz. unfold zb_add_zat, zat_into_i64. rewrite zat_i64 by assumption. apply zb_add_exact; auto using zat_zb. Qed.
Lemma zb_sub_zat_exact a z : valid_zb a -> valid_zat z -> zb_sub_zat a z = Ok (exact_zb (a - z)).
Proof. intros Ha Hz. unfold zb_sub_zat, zat_into_i64. rewrite zat_i64 by assumption. apply zb_sub_exact; auto using zat_zb. Qed.
Lemma zb_neg_exact a : valid_zb a -> zb_neg a = Ok (- a) /\ valid_zb (- a).
Proof. intros; split; crush. Qed.
Lemma zat_neg_exact z : valid_zat z -> zat_neg z = Ok (- z) /\ valid_zb (- z).
Proof. intros Hz. unfold zat_neg. rewrite zat_i64 by assumption. apply zb_neg_exact, zat_zb, Hz. Qed.
Lemma zb_from_zat_exact z : valid_zat z -> zb_from_zat z = z /\ valid_zb z.
Proof. intros Hz. unfold zb_from_zat. rewrite zat_i64 by assumption. auto using zat_zb. Qed.

(** [Mul<usize>]: exact for every multiplier (after the fix: computed in i128). *)
Lemma zb_mul_usize_exact a n :
  valid_zb a -> 0 <= n <= usize_max -> zb_mul_usize a n = exact_zb (a * n).
Proof.
  intros Ha Hn. unfold zb_mul_usize, i128_min, i128_max.
  unfold_all; unfold_all.
  change (2 ^ 127) with 170141183460469231731687303715884105728.
  repeat match goal with
         | |- context [if ?b then _ else _] => destruct b eqn:?
         end; try reflexivity; exfalso; try lia; nia.
Qed.

(** * Zatoshis operators *)
Lemma zat_add_exact a b : valid_zat a -> valid_zat b -> zat_add a b = exact_zat (a + b).
Proof. intros; crush. Qed.
Lemma zat_sub_exact a b : valid_zat a -> valid_zat b -> zat_sub a b = exact_zat (a - b).
Proof. intros; crush. Qed.
Lemma zat_mul_u64_exact a n : valid_zat a -> 0 <= n <= u64_max -> zat_mul_u64 a n = exact_zat (a * n).
Proof.
  intros Ha Hn. unfold_all.
  destruct ((0 <=? a * n) && (a * n <=? 18446744073709551615)) eqn:E1;
  destruct ((0 <=? a * n) && (a * n <=? 2100000000000000)) eqn:E2; try reflexivity.
  exfalso; lia.
Qed.
Lemma zat_mul_usize_exact a n : valid_zat a -> 0 <= n <= usize_max -> zat_mul_usize a n = exact_zat (a * n).
Proof.
  intros Ha Hn. unfold zat_mul_usize. 
  replace (u64_checked n) with (Some n). { apply zat_mul_u64_exact; auto. }
  unfold_all. destruct ((0 <=? n) && (n <=? 18446744073709551615)) eqn:E; [reflexivity | lia].
Qed.
Lemma zat_div_exact a d : valid_zat a -> 0 < d -> zat_div a d = a / d /\ valid_zat (a / d).
Proof.
  intros Ha Hd. split; [reflexivity|]. unfold_all.
  split; [apply Z.div_pos; lia|]. 
  assert (a / d <= a) by (apply Z.div_le_upper_bound; nia). lia.
Qed.
Lemma zat_div_rem_exact a d : valid_zat a -> 0 < d ->
  let '(q, r) := zat_div_with_remainder a d in
  q * d + r = a /\ 0 <= r < d /\ valid_zat q /\ valid_zat r.
Proof.
  intros Ha Hd. unfold zat_div_with_remainder.
  pose proof (Z.div_mod a d ltac:(lia)). pose proof (Z.mod_pos_bound a d Hd).
  destruct (zat_div_exact a d Ha Hd) as [_ Hq]. unfold_all.
  assert (a mod d <= a) by (apply Z.mod_le; lia). repeat split; try lia; nia.
Qed.

(** * Sums *)
Lemma zb_sum_from_spec l : forall acc, valid_zb acc -> Forall valid_zb l ->
  zb_sum_from acc l = Ok (prefix_sum_spec (- MAX_MONEY) MAX_MONEY acc l).
Proof.
  induction l as [|x r IH]; intros acc Ha Hl; [reflexivity|].
  inversion Hl as [|? ? Hx Hr]; subst.
  cbn [zb_sum_from prefix_sum_spec]. rewrite zb_add_exact by assumption.
  unfold exact_zb. destruct (exact_in (- MAX_MONEY) MAX_MONEY (acc + x)) as [s|] eqn:E; [|reflexivity].
  apply IH; [|assumption]. apply exact_in_some in E. unfold valid_zb. lia.
Qed.
Lemma zb_sum_spec l : Forall valid_zb l -> zb_sum l = Ok (prefix_sum_spec (- MAX_MONEY) MAX_MONEY 0 l).
Proof. intros; apply zb_sum_from_spec; [unfold valid_zb; rewrite max_money_val; lia | assumption]. Qed.

Lemma zat_sum_from_spec l : forall acc, valid_zat acc -> Forall valid_zat l ->
  zat_sum_from acc l = prefix_sum_spec 0 MAX_MONEY acc l.
Proof.
  induction l as [|x r IH]; intros acc Ha Hl; [reflexivity|].
  inversion Hl as [|? ? Hx Hr]; subst.
  cbn [zat_sum_from prefix_sum_spec]. rewrite zat_add_exact by assumption.
  unfold exact_zat. destruct (exact_in 0 MAX_MONEY (acc + x)) as [s|] eqn:E; [|reflexivity].
  apply IH; [|assumption]. apply exact_in_some in E. unfold valid_zat. lia.
Qed.
Lemma zat_sum_spec l : Forall valid_zat l -> zat_sum l = prefix_sum_spec 0 MAX_MONEY 0 l.
Proof. intros; apply zat_sum_from_spec; [unfold valid_zat; rewrite max_money_val; lia | assumption]. Qed.

(** Meaning of the prefix discipline: success iff every prefix sum is in range, and then the
    result is the exact total. *)
Fixpoint prefixes_in (lo hi acc : Z) (l : list Z) : Prop :=
  match l with [] => True | x :: r => lo <= acc + x <= hi /\ prefixes_in lo hi (acc + x) r end.
Lemma prefix_sum_spec_some lo hi l : forall acc s,
  prefix_sum_spec lo hi acc l = Some s <-> (s = acc + fold_right Z.add 0 l /\ prefixes_in lo hi acc l).
Proof.
  induction l as [|x r IH]; intros acc s; cbn [prefix_sum_spec fold_right prefixes_in].
  - split; [intros [= <-]; split; [lia|exact I] | intros [-> _]; f_equal; lia].
  - destruct (exact_in lo hi (acc + x)) as [t|] eqn:E.
    + apply exact_in_some in E. destruct E as [-> E]. rewrite IH. split; intros [? ?]; split; try lia; tauto.
    + apply exact_in_none in E. split; [discriminate | intros [_ [? _]]; lia].
Qed.
Lemma prefix_sum_spec_none lo hi l : forall acc,
  prefix_sum_spec lo hi acc l = None <-> ~ prefixes_in lo hi acc l.
Proof.
  induction l as [|x r IH]; intros acc; cbn [prefix_sum_spec prefixes_in].
  - split; [discriminate | tauto].
  - destruct (exact_in lo hi (acc + x)) as [t|] eqn:E.
    + apply exact_in_some in E. destruct E as [-> E]. rewrite IH. tauto.
    + apply exact_in_none in E. split; [tauto | reflexivity].
Qed.

(** * Byte encodings *)
Lemma pow64 : 2 ^ 64 = 18446744073709551616. Proof. reflexivity. Qed.
Lemma pow63 : 2 ^ 63 = 9223372036854775808. Proof. reflexivity. Qed.
Lemma pow256_8 : 256 ^ Z.of_nat 8 = 18446744073709551616. Proof. reflexivity. Qed.

Definition bytes8P (b : list Z) : Prop := length b = 8%nat /\ Forall (fun x => 0 <= x < 256) b.

Lemma of_le_u64 b : bytes8P b -> 0 <= of_le b < 18446744073709551616.
Proof. intros [L F]. pose proof (of_le_bound b F) as H. rewrite L, pow256_8 in H. exact H. Qed.

Lemma i64_from_le_bytes_spec b : bytes8P b -> i64_from_le_bytes b = signed_of_bytes b.
Proof.
  intros Hb. pose proof (of_le_u64 b Hb). unfold i64_from_le_bytes, signed_of_bytes, i64_of_u64, i64_max.
  rewrite pow63, pow64. destruct (of_le b <=? 9223372036854775807) eqn:?, (of_le b <? 9223372036854775808) eqn:?; lia.
Qed.
Lemma i64_to_le_bytes_spec x : i64_min <= x <= i64_max -> i64_to_le_bytes x = bytes_of_signed x.
Proof.
  intros Hx. unfold i64_to_le_bytes, bytes_of_signed, u64_of_i64, i64_min, i64_max in *. rewrite pow64.
  f_equal. destruct (x <? 0) eqn:?.
  - rewrite <- (Z.mod_add x 1) by lia. rewrite Z.mod_small; lia.
  - rewrite Z.mod_small; lia.
Qed.

Lemma signed_roundtrip x : i64_min <= x <= i64_max -> signed_of_bytes (bytes_of_signed x) = x.
Proof.
  intros Hx. unfold signed_of_bytes, bytes_of_signed, i64_min, i64_max in *. rewrite pow63, pow64.
  assert (Hm : 0 <= x mod 18446744073709551616 < 18446744073709551616) by (apply Z.mod_pos_bound; lia).
  rewrite of_le_le_bytes by (rewrite pow256_8; exact Hm).
  destruct (x <? 0) eqn:?.
  - assert (x mod 18446744073709551616 = x + 18446744073709551616).
    { rewrite <- (Z.mod_add x 1) by lia. rewrite Z.mod_small; lia. }
    destruct (x mod 18446744073709551616 <? 9223372036854775808) eqn:?; lia.
  - rewrite Z.mod_small by lia. destruct (x <? 9223372036854775808) eqn:?; lia.
Qed.
Lemma bytes_of_signed_bytes8 x : bytes8P (bytes_of_signed x).
Proof. split; [apply le_bytes_length | apply le_bytes_bytes]. Qed.
Lemma signed_of_bytes_range b : bytes8P b -> i64_min <= signed_of_bytes b <= i64_max.
Proof.
  intros Hb. pose proof (of_le_u64 b Hb). unfold signed_of_bytes, i64_min, i64_max. rewrite pow63, pow64.
  destruct (of_le b <? 9223372036854775808) eqn:?; lia.
Qed.
Lemma bytes_signed_roundtrip b : bytes8P b -> bytes_of_signed (signed_of_bytes b) = b.
Proof.
  intros Hb. pose proof (of_le_u64 b Hb) as Hu. destruct Hb as [L F].
  unfold bytes_of_signed, signed_of_bytes. rewrite pow63, pow64.
  transitivity (le_bytes (length b) (of_le b)); [| apply le_bytes_of_le; assumption].
  rewrite L. f_equal.
  destruct (of_le b <? 9223372036854775808) eqn:?.
  - apply Z.mod_small; lia.
  - rewrite <- (Z.mod_add _ 1) by lia. rewrite Z.mod_small; lia.
Qed.

(** Round trips and rejection for the five encodings. *)
Lemma zb_i64_bytes_roundtrip a : valid_zb a -> zb_from_i64_le_bytes (zb_to_i64_le_bytes a) = Ok a.
Proof.
  intros Ha. assert (Hr : i64_min <= a <= i64_max) by (unfold_all; lia).
  unfold zb_from_i64_le_bytes, zb_to_i64_le_bytes.
  rewrite i64_to_le_bytes_spec, i64_from_le_bytes_spec, signed_roundtrip by (auto using bytes_of_signed_bytes8).
  rewrite zb_from_i64_spec. apply ctor_spec_ok. unfold valid_zb in Ha. split; [reflexivity | lia].
Qed.
Lemma zb_i64_bytes_accept b v : bytes8P b ->
  (zb_from_i64_le_bytes b = Ok v <-> valid_zb v /\ b = zb_to_i64_le_bytes v).
Proof.
  intros Hb. unfold zb_from_i64_le_bytes, zb_to_i64_le_bytes.
  rewrite i64_from_le_bytes_spec, zb_from_i64_spec, ctor_spec_ok by assumption. split.
  - intros [-> Hr]. split; [exact Hr|]. rewrite i64_to_le_bytes_spec by (apply signed_of_bytes_range; assumption).
    symmetry; apply bytes_signed_roundtrip; assumption.
  - intros [Hv ->]. assert (i64_min <= v <= i64_max) by (unfold_all; lia).
    rewrite i64_to_le_bytes_spec, signed_roundtrip by assumption. split; [reflexivity | exact Hv].
Qed.
Lemma zat_u64_bytes_roundtrip z : valid_zat z -> zat_from_u64_le_bytes (zat_to_u64_le_bytes z) = Ok z.
Proof.
  intros Hz. unfold zat_from_u64_le_bytes, zat_to_u64_le_bytes, u64_from_le_bytes, u64_to_le_bytes.
  rewrite of_le_le_bytes by (rewrite pow256_8; unfold_all; lia).
  rewrite zat_from_u64_spec by (unfold valid_zat in Hz; lia). apply ctor_spec_ok. split; [reflexivity | exact Hz].
Qed.
Lemma zat_u64_bytes_accept b v : bytes8P b ->
  (zat_from_u64_le_bytes b = Ok v <-> valid_zat v /\ b = zat_to_u64_le_bytes v).
Proof.
  intros Hb. pose proof (of_le_u64 b Hb) as Hu. destruct Hb as [L F].
  unfold zat_from_u64_le_bytes, zat_to_u64_le_bytes, u64_from_le_bytes, u64_to_le_bytes.
  rewrite zat_from_u64_spec, ctor_spec_ok by lia. split.
  - intros [-> Hr]. split; [exact Hr|]. rewrite <- L. symmetry; apply le_bytes_of_le; assumption.
  - intros [Hv ->]. rewrite of_le_le_bytes by (rewrite pow256_8; unfold_all; lia). split; [reflexivity | exact Hv].
Qed.
Lemma zat_i64_bytes_roundtrip z : valid_zat z -> zat_from_nonnegative_i64_le_bytes (zat_to_i64_le_bytes z) = Ok z.
Proof.
  intros Hz. assert (Hr : i64_min <= z <= i64_max) by (unfold_all; lia).
  unfold zat_from_nonnegative_i64_le_bytes, zat_to_i64_le_bytes.
  replace (i64_of_u64 z) with z by (unfold_all; destruct (z <=? 9223372036854775807) eqn:?; lia).
  rewrite i64_to_le_bytes_spec, i64_from_le_bytes_spec, signed_roundtrip by (auto using bytes_of_signed_bytes8).
  rewrite zat_from_nonnegative_i64_spec. apply ctor_spec_ok. split; [reflexivity | exact Hz].
Qed.
Lemma zb_u64_bytes_spec b : bytes8P b -> zb_from_u64_le_bytes b = ctor_spec 0 MAX_MONEY (of_le b).
Proof. intros Hb. pose proof (of_le_u64 b Hb). apply zb_from_u64_spec. lia. Qed.
Lemma zb_nonneg_i64_bytes_spec b : bytes8P b ->
  zb_from_nonnegative_i64_le_bytes b = ctor_spec 0 MAX_MONEY (signed_of_bytes b).
Proof. intros Hb. unfold zb_from_nonnegative_i64_le_bytes. rewrite i64_from_le_bytes_spec by assumption. apply zb_from_nonnegative_i64_spec. Qed.

(** [read] consumes exactly 8 bytes and rejects out-of-range values. *)
Lemma zat_read_spec b : Forall (fun x => 0 <= x < 256) b ->
  match zat_read b with
  | Ok (v, r) => valid_zat v /\ b = zat_write v ++ r
  | Err Eof => (length b < 8)%nat
  | Err InvalidData => (8 <= length b)%nat /\ ~ valid_zat (of_le (firstn 8 b))
  | Panic => False
  end.
Proof.
  intros F. unfold zat_read. destruct (length b <? 8)%nat eqn:E; [apply Nat.ltb_lt in E; exact E|].
  apply Nat.ltb_ge in E.
  assert (Hb : bytes8P (firstn 8 b)).
  { split; [rewrite firstn_length; lia |].
    pose proof F as F'. rewrite <- (firstn_skipn 8 b) in F'. apply Forall_app in F'. tauto. }
  pose proof (of_le_u64 _ Hb) as Hu.
  unfold zat_from_u64_le_bytes, u64_from_le_bytes. rewrite zat_from_u64_spec by lia.
  destruct (ctor_spec 0 MAX_MONEY (of_le (firstn 8 b))) as [v|e|] eqn:C.
  - apply ctor_spec_ok in C. destruct C as [-> Hv]. split; [exact Hv|].
    unfold zat_write, zat_to_u64_le_bytes, u64_to_le_bytes.
    destruct Hb as [L Fb]. rewrite <- L at 1. rewrite le_bytes_of_le by assumption. symmetry; apply firstn_skipn.
  - split; [exact E|]. intros Hv. unfold valid_zat in Hv.
    assert (ctor_spec 0 MAX_MONEY (of_le (firstn 8 b)) = Ok (of_le (firstn 8 b))) by (apply ctor_spec_ok; split; [reflexivity|lia]).
    congruence.
  - unfold ctor_spec in C.
    destruct (of_le (firstn 8 b) <? 0); [discriminate|].
    destruct (MAX_MONEY <? of_le (firstn 8 b)); discriminate.
Qed.

(** * [const fn] constructors and sign predicates *)
Lemma const_spec_ok lo hi x v : const_spec lo hi x = Ok v <-> v = x /\ lo <= x <= hi.
Proof.
  unfold const_spec, in_range. destruct ((lo <=? x) && (x <=? hi)) eqn:E.
  - split; [intros H; inversion H; subst; split; [reflexivity | lia] | intros [-> _]; reflexivity].
  - split; [discriminate | intros [_ H]; exfalso; lia].
Qed.
Lemma const_spec_panic lo hi x : const_spec lo hi x = Panic <-> ~ (lo <= x <= hi).
Proof.
  unfold const_spec, in_range. destruct ((lo <=? x) && (x <=? hi)) eqn:E.
  - split; [discriminate | intros H; exfalso; apply H; lia].
  - split; [intros _; lia | reflexivity].
Qed.
Lemma const_spec_never_err lo hi x (e : unit) : const_spec lo hi x <> Err e.
Proof. unfold const_spec. destruct (in_range lo hi x); discriminate. Qed.
Lemma zb_const_from_i64_spec x : zb_const_from_i64 x = const_spec (- MAX_MONEY) MAX_MONEY x.
Proof. unfold zb_const_from_i64, const_spec, in_range, MAX_BALANCE. reflexivity. Qed.
Lemma zb_const_from_u64_spec x : 0 <= x -> zb_const_from_u64 x = const_spec 0 MAX_MONEY x.
Proof.
  intros H. unfold zb_const_from_u64, const_spec, in_range, i64_of_u64, i64_max.
  rewrite max_money_val.
  destruct (x <=? 2100000000000000) eqn:E1; destruct (0 <=? x) eqn:E0; cbn [andb]; try reflexivity; try lia.
  destruct (x <=? 9223372036854775807) eqn:E2; [reflexivity | lia].
Qed.
Lemma zat_const_from_u64_spec x : 0 <= x -> zat_const_from_u64 x = const_spec 0 MAX_MONEY x.
Proof.
  intros H. unfold zat_const_from_u64, const_spec, in_range.
  destruct (x <=? MAX_MONEY) eqn:E1; destruct (0 <=? x) eqn:E0; cbn [andb]; try reflexivity; lia.
Qed.
Lemma zb_is_positive_spec a : zb_is_positive a = true <-> 0 < a.
Proof. unfold zb_is_positive. lia. Qed.
Lemma zb_is_negative_spec a : zb_is_negative a = true <-> a < 0.
Proof. unfold zb_is_negative. lia. Qed.
Lemma zb_sign_trichotomy a :
  (zb_is_positive a = true /\ zb_is_negative a = false) \/ (zb_is_positive a = false /\ zb_is_negative a = true)
  \/ (a = 0 /\ zb_is_positive a = false /\ zb_is_negative a = false).
Proof. unfold zb_is_positive, zb_is_negative. lia. Qed.
Lemma zat_is_zero_spec z : zat_is_zero z = true <-> z = 0.
Proof. unfold zat_is_zero. lia. Qed.
Lemma zat_is_positive_spec z : valid_zat z -> zat_is_positive z = negb (zat_is_zero z).
Proof. unfold zat_is_positive, zat_is_zero, valid_zat. lia. Qed.
