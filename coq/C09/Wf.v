(** C09 — domain of the theorems as a boolean on cases: operands built through the public
    constructors are in range; raw integers fit their Rust type. *)
From V.Lib Require Import Base MachInt Hex.
From V.C09 Require Import Model Spec Corr.
Local Open Scope Z_scope.

Definition vzb := valid_zbb.
Definition vzat := valid_zatb.
Definition vopt (f : Z -> bool) (o : option Z) : bool := match o with None => true | Some x => f x end.

Definition wf_case (c : case) : bool :=
  match c with
  | ZbFromI64 x _ | ZbFromNonnegI64 x _ | ZatFromNonnegI64 x _ => in_i64 x
  | ZbFromU64 x _ | ZatFromU64 x _ => in_u64 x
  | ZbFromI64Le b _ | ZbFromNonnegI64Le b _ | ZbFromU64Le b _
  | ZatFromU64Le b _ | ZatFromNonnegI64Le b _ => bytes8 b
  | ZbToI64Le a _ | ZbNeg a _ | ZbTryIntoU64 a _ | ZatTryFromZb a _ => vzb a
  | ZbAdd a b _ | ZbSub a b _ => vzb a && vzb b
  | ZbAddZat a z _ | ZbSubZat a z _ => vzb a && vzat z
  | ZbOptAdd a b _ | ZbOptSub a b _ => vopt vzb a && vzb b
  | ZbOptAddZat a z _ | ZbOptSubZat a z _ => vopt vzb a && vzat z
  | ZbMulUsize a n _ => vzb a && in_u64 n
  | ZbSum l _ => forallb vzb l
  | ZbFromZat z _ | ZatToI64Le z _ | ZatToU64Le z _ | ZatWrite z _ | ZatNeg z _ => vzat z
  | ZatRead b _ => forallb is_byteZ b
  | ZatAdd a b _ | ZatSub a b _ => vzat a && vzat b
  | ZatOptAdd a b _ | ZatOptSub a b _ => vopt vzat a && vzat b
  | ZatMulU64 a n _ | ZatMulUsize a n _ => vzat a && in_u64 n
  | ZatSum l _ => forallb vzat l
  | ZatSumRep v _ _ => vzat v
  | ZbSumRep v _ _ => vzb v
  | ZatDiv a d _ | ZatDivRem a d _ => vzat a && (0 <? d) && in_u64 d
  | ZbConstFromI64 x _ => in_i64 x
  | ZbConstFromU64 x _ | ZatConstFromU64 x _ => in_u64 x
  | ZbIsPositive a _ | ZbIsNegative a _ => vzb a
  | ZatIsZero z _ | ZatIsPositive z _ => vzat z
  end.

