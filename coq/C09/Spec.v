(** C09 — the property, stated without machine arithmetic: every operator returns the exact
    integer result when it lies in the valid range and signals failure otherwise. *)
From V.Lib Require Import Base MachInt.
From V.C09 Require Import Model.
Local Open Scope Z_scope.

Definition valid_zb (x : Z) : Prop := - MAX_MONEY <= x <= MAX_MONEY.
Definition valid_zat (x : Z) : Prop := 0 <= x <= MAX_MONEY.
Definition valid_zbb (x : Z) : bool := in_range (- MAX_MONEY) MAX_MONEY x.
Definition valid_zatb (x : Z) : bool := in_range 0 MAX_MONEY x.

(** The exact result if it is in [lo, hi], failure otherwise. *)
Definition exact_in (lo hi e : Z) : option Z := if in_range lo hi e then Some e else None.
Definition exact_zb := exact_in (- MAX_MONEY) MAX_MONEY.
Definition exact_zat := exact_in 0 MAX_MONEY.

(** Constructors: value if in range, [Underflow] below, [Overflow] above. *)
Definition ctor_spec (lo hi x : Z) : res :=
  if x <? lo then Err Underflow else if hi <? x then Err Overflow else Ok x.

(** [const fn] constructors: the value if in range, a panic (the documented failure signal of
    a constructor that cannot return an error) otherwise; never an out-of-range value. *)
Definition const_spec (lo hi x : Z) : outcome Z unit :=
  if in_range lo hi x then Ok x else Panic.

(** Sum of a sequence with the "every prefix in range" discipline of [try_fold]. *)
Fixpoint prefix_sum_spec (lo hi acc : Z) (l : list Z) : option Z :=
  match l with
  | [] => Some acc
  | x :: r => match exact_in lo hi (acc + x) with
              | Some s => prefix_sum_spec lo hi s r
              | None => None
              end
  end.

(** Two's-complement value of 8 little-endian bytes. *)
Definition signed_of_bytes (b : list Z) : Z :=
  let u := of_le b in if u <? 2 ^ 63 then u else u - 2 ^ 64.
Definition bytes_of_signed (x : Z) : list Z := le_bytes 8 (x mod 2 ^ 64).
