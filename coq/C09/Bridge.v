(** C09 — bridge: on a well-formed case outside the known-finding class, agreement of the
    implementation with the model ([run_case]) implies the property on the implementation's
    outcome ([prop_case]).  So correspondence + theorems give the property on every case the
    implementation agrees on; [prop_case] is nevertheless evaluated independently at run time. *)
From V.Lib Require Import Base MachInt Hex.
From V.C09 Require Import Model Spec Corr Wf Proofs.
From Coq Require Import ZifyBool.
Local Open Scope Z_scope.

Lemma vzb_P x : vzb x = true -> valid_zb x.
Proof. unfold vzb, valid_zbb, valid_zb, in_range. lia. Qed.
Lemma vzat_P x : vzat x = true -> valid_zat x.
Proof. unfold vzat, valid_zatb, valid_zat, in_range. lia. Qed.
Lemma P_vzb x : valid_zb x -> valid_zbb x = true.
Proof. unfold valid_zbb, valid_zb, in_range. lia. Qed.
Lemma P_vzat x : valid_zat x -> valid_zatb x = true.
Proof. unfold valid_zatb, valid_zat, in_range. lia. Qed.
Lemma bytes8_P b : bytes8 b = true -> bytes8P b.
Proof.
  unfold bytes8, bytes8P. rewrite andb_true_iff, Nat.eqb_eq, forallb_forall, Forall_forall.
  intros [L F]; split; [exact L|]. intros x Hx. specialize (F x Hx). unfold is_byteZ in F. lia.
Qed.
Lemma forallb_Forall {A} (f : A -> bool) (P : A -> Prop) l :
  (forall x, f x = true -> P x) -> forallb f l = true -> Forall P l.
Proof. intros H. rewrite forallb_forall, Forall_forall. auto. Qed.

Ltac split_wf :=
  repeat match goal with
         | H : _ && _ = true |- _ => apply andb_true_iff in H; destruct H
         end.

Theorem agree_implies_property c :
  wf_case c = true -> known_class c = 0%N -> run_case c = true -> prop_case c = true.
Proof.
  destruct c; cbn [wf_case known_class run_case prop_case]; intros W K R; unfold M in *; split_wf;
    repeat match goal with
           | H : vzb _ = true |- _ => apply vzb_P in H
           | H : vzat _ = true |- _ => apply vzat_P in H
           | H : bytes8 _ = true |- _ => apply bytes8_P in H
           end.
  - rewrite <- zb_from_i64_spec; exact R.
  - rewrite <- zb_from_nonnegative_i64_spec; exact R.
  - rewrite <- zb_from_u64_spec by (unfold in_u64, in_range in W; lia); exact R.
  - unfold zb_from_i64_le_bytes in R. rewrite i64_from_le_bytes_spec, zb_from_i64_spec in R by assumption. exact R.
  - rewrite <- zb_nonneg_i64_bytes_spec by assumption; exact R.
  - rewrite <- zb_u64_bytes_spec by assumption; exact R.
  - unfold zb_to_i64_le_bytes in R. rewrite i64_to_le_bytes_spec in R; [exact R|].
    unfold valid_zb, i64_min, i64_max in *. rewrite max_money_val in *. lia.
  - rewrite <- zb_add_exact by assumption; exact R.
  - rewrite <- zb_sub_exact by assumption; exact R.
  - rewrite <- zb_add_zat_exact by assumption; exact R.
  - rewrite <- zb_sub_zat_exact by assumption; exact R.
  - destruct a as [a|]; cbn [opt_lift opt_in vopt] in *; [apply vzb_P in H; rewrite <- zb_add_exact by assumption|]; exact R.
  - destruct a as [a|]; cbn [opt_lift opt_in vopt] in *; [apply vzb_P in H; rewrite <- zb_sub_exact by assumption|]; exact R.
  - destruct a as [a|]; cbn [opt_lift opt_in vopt] in *; [apply vzb_P in H; rewrite <- zb_add_zat_exact by assumption|]; exact R.
  - destruct a as [a|]; cbn [opt_lift opt_in vopt] in *; [apply vzb_P in H; rewrite <- zb_sub_zat_exact by assumption|]; exact R.
  - destruct (zb_neg_exact a W) as [E V]. rewrite <- E, R. apply P_vzb in V. rewrite V. reflexivity.
  - rewrite <- zb_mul_usize_exact; [exact R | assumption | unfold in_u64, in_range, usize_max in *; lia].
  - rewrite <- zb_sum_spec; [exact R|]. eapply forallb_Forall; [|exact W]. exact vzb_P.
  - rewrite <- zb_try_into_u64_spec by assumption; exact R.
  - destruct (zb_from_zat_exact z W) as [E _]. rewrite E in R. exact R.
  - rewrite <- zat_from_u64_spec by (unfold in_u64, in_range in W; lia); exact R.
  - rewrite <- zat_from_nonnegative_i64_spec; exact R.
  - unfold zat_from_u64_le_bytes, u64_from_le_bytes in R. pose proof (of_le_u64 b W).
    rewrite zat_from_u64_spec in R by lia. exact R.
  - unfold zat_from_nonnegative_i64_le_bytes in R. rewrite i64_from_le_bytes_spec, zat_from_nonnegative_i64_spec in R by assumption. exact R.
  - unfold zat_to_i64_le_bytes in R. rewrite zat_i64, i64_to_le_bytes_spec in R; [exact R| |assumption].
    unfold valid_zat, i64_min, i64_max in *. rewrite max_money_val in *. lia.
  - exact R.
  - (* read *)
    unfold zat_read in R. destruct (length b <? 8)%nat eqn:E; [exact R|].
    apply Nat.ltb_ge in E.
    assert (Hb : bytes8P (firstn 8 b)).
    { split; [rewrite firstn_length; lia |].
      assert (F : Forall (fun x => 0 <= x < 256) b).
      { eapply forallb_Forall; [|exact W]. unfold is_byteZ. intros; lia. }
      rewrite <- (firstn_skipn 8 b) in F. apply Forall_app in F. tauto. }
    pose proof (of_le_u64 _ Hb).
    unfold zat_from_u64_le_bytes, u64_from_le_bytes in R. rewrite zat_from_u64_spec in R by lia.
    destruct (ctor_spec 0 MAX_MONEY (of_le (firstn 8 b))); exact R.
  - exact R.
  - rewrite <- zat_add_exact by assumption; exact R.
  - rewrite <- zat_sub_exact by assumption; exact R.
  - destruct a as [a|]; cbn [oopt_lift opt_in vopt] in *; [apply vzat_P in H; rewrite <- zat_add_exact by assumption|]; exact R.
  - destruct a as [a|]; cbn [oopt_lift opt_in vopt] in *; [apply vzat_P in H; rewrite <- zat_sub_exact by assumption|]; exact R.
  - rewrite <- zat_mul_u64_exact; [exact R | assumption | unfold in_u64, in_range in *; lia].
  - rewrite <- zat_mul_usize_exact; [exact R | assumption | unfold in_u64, in_range, usize_max in *; lia].
  - rewrite <- zat_sum_spec; [exact R|]. eapply forallb_Forall; [|exact W]. exact vzat_P.
  - rewrite <- zat_sum_spec; [exact R|]. apply Forall_forall. intros x Hx. apply repeat_spec in Hx. subst x. exact W.
  - rewrite <- zb_sum_spec; [exact R|]. apply Forall_forall. intros x Hx. apply repeat_spec in Hx. subst x. exact W.
  - destruct (zat_div_exact a d) as [E V]; [assumption | lia |]. rewrite E in R. rewrite R. apply P_vzat in V. rewrite V. reflexivity.
  - pose proof (zat_div_rem_exact a d ltac:(assumption) ltac:(lia)) as Hd.
    destruct o as [[q r]| |]; cbn in R; try discriminate.
    unfold zat_div_with_remainder in *. unfold pair_eqb in R. cbn in R.
    apply andb_true_iff in R. destruct R as [Rq Rr]. apply Z.eqb_eq in Rq, Rr. subst q r.
    destruct Hd as (A & B & C & D). apply P_vzat in C, D. rewrite C, D.
    repeat (apply andb_true_iff; split); lia.
  - destruct (zat_neg_exact z W) as [E V]. rewrite <- E, R. apply P_vzb in V. rewrite V. reflexivity.
  - rewrite <- zat_try_from_zb_spec; exact R.
  - rewrite <- zb_const_from_i64_spec; exact R.
  - rewrite <- zb_const_from_u64_spec by (unfold in_u64, in_range in W; lia); exact R.
  - rewrite <- zat_const_from_u64_spec by (unfold in_u64, in_range in W; lia); exact R.
  - exact R.
  - exact R.
  - exact R.
  - exact R.
Qed.
