(** C07 — a refusal for lack of funds is truthful. *)
From V.Lib Require Import Base MachInt.
From V.Gen Require Import C07Consts.
From V.C07 Require Import Model Spec Proofs Inv Balance FeeMono Balance2.
From Coq Require Import ZifyBool.
Local Open Scope Z_scope.

Lemma clean_split_values n : forall first q r, clean (split_values n first q r).
Proof.
  induction n; intros; cbn [split_values]; [exact I|].
  apply clean_bind; [destruct first; cl|intros v]. apply clean_bind; [apply IHn|intros; exact I].
Qed.
Lemma clean_simple wt p cm split tc tf : clean (simple_case wt p cm split tc tf).
Proof. unfold simple_case, A.zat_div_with_remainder. destruct wt; [exact I|]. cl. apply clean_split_values. Qed.
Lemma clean_split_of c w p : clean (split_of c w p).
Proof. unfold split_of. destruct w; [exact I|]. destruct (strat c); [exact I|]. cl; [apply clean_tnc | apply clean_tv]. Qed.

(** where an [InsufficientFunds] can come from *)
Lemma dust_insuff c wt p cm ti split tc tf a r :
  dust_decision c wt p cm ti split tc tf = Err (InsufficientFunds a r) -> 0 <= ti ->
  a = ti /\ ti < r.
Proof.
  unfold dust_decision. fold (threshold c). intros H Hti.
  pose proof (clean_simple wt p cm split tc tf) as CS.
  remember (simple_case wt p cm split tc tf) as sc eqn:Esc. clear Esc.
  destruct (tc <? threshold c) eqn:Et; [|rewrite H in CS; destruct CS].
  destruct (dust_act c).
  - destruct (tc =? 0) eqn:E0; [rewrite H in CS; destruct CS|].
    destruct (A.zat_sub (threshold c) tc) as [sf|] eqn:Es; [|discriminate]. apply zat_sub_some in Es.
    apply bind_err in H as [H | (req & Er & H)].
    + destruct (A.zat_add ti sf); cbn in H; discriminate.
    + apply or_overflow_ok in Er. apply zat_add_some in Er. inversion H; subst. lia.
  - rewrite H in CS; destruct CS.
  - exfalso. revert H.
    match goal with |- ?t = _ -> False => assert (C : clean t) end.
    { cl; try exact CS; destruct cm; exact I. }
    intros H. rewrite H in C. exact C.
Qed.

Lemma core_insuff x c sin wt ft cm p tcc tcs ti so mf towmf a r :
  core_change x c sin wt ft cm p tcc tcs ti so mf towmf = Err (InsufficientFunds a r) ->
  rule_pos c -> 0 <= ti <= A.MAX_MONEY -> towmf = so + mf -> 0 <= so ->
  fee_for x c sin M_ZERO false = Ok mf ->
  a = ti /\ ti < r /\ so + mf <= r.
Proof.
  unfold core_change. intros H (Rm & Rpi & Rpo) Hti Ht Hso Hmf.
  destruct (ti <? towmf) eqn:E1; [inversion H; subst; lia|].
  destruct ((ti =? towmf) && ft); [discriminate|].
  apply bind_err in H as [H | (f2 & _ & H)]; [pose proof (clean_fee_for x c sin tcs wt) as C; rewrite H in C; destruct C|].
  apply bind_err in H as [H | (towmx & _ & H)]; [match type of H with ?t = _ => assert (C : clean t) by apply clean_or_overflow end; rewrite H in C; destruct C|].
  apply bind_err in H as [H | (split & Es & H)]; [match type of H with ?t = _ => assert (C : clean t) by apply clean_split_of end; rewrite H in C; destruct C|].
  apply split_of_ge1 in Es.
  apply bind_err in H as [H | (tf & Etf & H)].
  { match type of H with ?t = _ => assert (C : clean t) end.
    { apply clean_if; [apply clean_fee_for | exact I]. }
    rewrite H in C; destruct C. }
  assert (mf <= tf).
  { destruct (split <? tcc); [|inversion Etf; lia].
    eapply (fee_for_mono x c sin M_ZERO (for_pool p split) false false); eauto.
    - apply m_zero_nonneg.
    - apply m_zero_le_for_pool; lia. }
  apply bind_err in H as [H | (tout & Eo & H)]; [match type of H with ?t = _ => assert (C : clean t) by apply clean_or_overflow end; rewrite H in C; destruct C|].
  apply or_overflow_ok in Eo. apply zat_add_some in Eo.
  destruct (A.zat_sub ti tout) as [tc|] eqn:Et.
  - apply zat_sub_some in Et. apply dust_insuff in H as (-> & ?); lia.
  - inversion H; subst. apply zat_sub_none in Et; lia.
Qed.

(** the change-less fee of the specification is the model's [min_fee] *)
Lemma final_manifest_eph c :
  final_manifest (eph_list c) = {| m_t := b2z (eph_is_out (ephemeral c)); m_s := 0; m_o := 0; m_i := 0 |}.
Proof. unfold eph_list, eph_out_amount, eph_is_out. destruct (ephemeral c) as [[v|v]|]; reflexivity. Qed.

Lemma canonical_eph_zero x c :
  ironwood_is_canonical_crossing x c (final_manifest (eph_list c)) = ironwood_is_canonical_crossing x c M_ZERO.
Proof.
  rewrite final_manifest_eph. unfold ironwood_is_canonical_crossing, M_ZERO. cbn [m_t m_s m_o m_i].
  destruct (eph_is_out (ephemeral c)); cbn [b2z negb]; [|reflexivity].
  repeat match goal with |- context [?a && false] => rewrite (andb_false_r a) end.
  cbn [Z.eqb andb]. repeat match goal with |- context [?a && false] => rewrite (andb_false_r a) end.
  repeat rewrite andb_false_l. reflexivity.
Qed.

Lemma tin_bytes_sizes x c : tin_bytes x c = zsum (map known_size (t_input_sizes x (ephemeral c))).
Proof.
  unfold tin_bytes, t_input_sizes, eph_in_amount. rewrite map_app, zsum_app, map_map.
  destruct (ephemeral c) as [[v|v]|]; cbn; lia.
Qed.
Lemma tout_bytes_eph x c : tout_bytes x (eph_list c) = zsum (t_output_sizes x (ephemeral c)).
Proof.
  unfold tout_bytes, t_output_sizes, eph_list, eph_out_amount, count_pool, len. rewrite zsum_app.
  destruct (ephemeral c) as [[v|v]|]; cbn [filter is_transparent_cv length Z.of_nat zsum fold_right]; try lia.
Qed.

Lemma changeless_fee_is_min_fee x c sin mf : rule_pos c ->
  num_spends (s_type x) (len (s_in x)) = Some sin ->
  fee_for x c sin M_ZERO false = Ok mf ->
  changeless_fee x c = Some mf /\ marginal (rule c) * grace (rule c) <= mf.
Proof.
  intros (Rm & Rpi & Rpo) Hs H. apply fee_for_ok in H as (so & oa & ia & A1 & A2 & A3 & -> & _); auto.
  cbn [M_ZERO m_s m_o m_i] in A1, A2, A3. rewrite !Z.add_0_r in A1, A2, A3.
  assert (EL : (match ephemeral c with Some (EphOut v) => [CEphemeral v] | _ => [] end) = eph_list c)
    by (unfold eph_list, eph_out_amount; destruct (ephemeral c) as [[?|?]|]; reflexivity).
  unfold changeless_fee. rewrite EL. rewrite canonical_eph_zero, A1, A2, A3, Hs. cbn [opt_z].
  unfold fee_formula. rewrite tin_bytes_sizes, tout_bytes_eph, Z.add_0_r. split; [reflexivity|].
  unfold zip317_fee. apply Z.mul_le_mono_nonneg_l; lia.
Qed.

Theorem insufficient_is_true x c a r :
  compute_balance x c = Err (InsufficientFunds a r) -> rule_pos c ->
  insufficient_truthful x c a r = true.
Proof.
  intros H Rp. apply compute_insuff_inv in H as (nf & ti & so & sin & mf & towmf & tcc & St & Hc).
  destruct St as [Snf Sti Sso Ssin Smf Stow Stcc].
  apply flows_ok in Snf. destruct Snf as [F1 F2 F3 F4 F5 F6 F7 F8 Fr].
  apply total_in_ok in Sti. apply total_out_ok in Sso. apply zat_add_some in Stow.
  unfold core_of in Hc. apply core_insuff in Hc as (-> & Hlt & Hge); auto; try lia.
  destruct (changeless_fee_is_min_fee x c sin mf Rp Ssin Smf) as (Ecf & Hmin).
  unfold insufficient_truthful. rewrite Ecf.
  unfold total_inputs, payments, eph_in_v, eph_out_v, eph_in_amount, eph_out_amount, opt_z in *.
  destruct (ephemeral c) as [[v|v]|]; lia.
Qed.

(** partial form of "fee >= ZIP 317 fee of the final shape": the fee is at least the ZIP 317 fee
    of the change-less shape (itself at least marginal * grace).  The comparison with the shape
    *including the change actually proposed* is evaluated by [prop_case] on every case but is
    not proved here. *)
Theorem fee_at_least_changeless x c b : compute_balance x c = Ok b -> rule_pos c ->
  exists f0, changeless_fee x c = Some f0 /\ f0 <= fee b /\ marginal (rule c) * grace (rule c) <= f0.
Proof.
  intros H Rp. apply compute_ok_facts in H as (nf & ti & so & sin & mf & towmf & tcc & chg & St & _ & _ & _ & _ & Hmf & _); auto.
  destruct St as [_ _ _ Ssin Smf _ _].
  destruct (changeless_fee_is_min_fee x c sin mf Rp Ssin Smf) as (E & Hmin).
  exists mf. auto.
Qed.
