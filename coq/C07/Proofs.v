(** C07 — lemmas: amount algebra facts, the ZIP 317 formula, inversion of the model. *)
From V.Lib Require Import Base MachInt.
From V.Gen Require Import C07Consts.
From V.C07 Require Import Model Spec.
From Coq Require Import ZifyBool.
Local Open Scope Z_scope.

Lemma max_money_eq : A.MAX_MONEY = C07Consts.MAX_MONEY.
Proof. reflexivity. Qed.
Lemma max_money_val : A.MAX_MONEY = 2100000000000000.
Proof. reflexivity. Qed.
Lemma usize_val : usize_max = 18446744073709551615.
Proof. reflexivity. Qed.

(** * Amount operators (C09 model) *)

Lemma zat_from_u64_some x v : A.ok_opt (A.zat_from_u64 x) = Some v -> v = x /\ 0 <= x <= A.MAX_MONEY.
Proof.
  unfold A.zat_from_u64, in_range. destruct ((0 <=? x) && (x <=? A.MAX_MONEY)) eqn:E; cbn; intros H; [|discriminate].
  inversion H; subst. lia.
Qed.

Lemma zat_add_some a b s : A.zat_add a b = Some s -> s = a + b /\ 0 <= s <= A.MAX_MONEY.
Proof.
  unfold A.zat_add, u64_checked, checked. destruct (in_range 0 u64_max (a + b)); [|discriminate].
  intros H. apply zat_from_u64_some in H. lia.
Qed.
Lemma zat_sub_some a b s : A.zat_sub a b = Some s -> s = a - b /\ 0 <= s <= A.MAX_MONEY.
Proof.
  unfold A.zat_sub, u64_checked, checked. destruct (in_range 0 u64_max (a - b)); [|discriminate].
  intros H. apply zat_from_u64_some in H. lia.
Qed.
Lemma zat_sub_none a b : 0 <= a <= A.MAX_MONEY -> 0 <= b -> A.zat_sub a b = None -> a < b.
Proof.
  rewrite max_money_val. unfold A.zat_sub, u64_checked, checked, in_range, u64_max.
  intros Ha Hb. destruct ((0 <=? a - b) && (a - b <=? 18446744073709551615)) eqn:E.
  - unfold A.zat_from_u64, in_range. rewrite max_money_val.
    destruct ((0 <=? a - b) && (a - b <=? 2100000000000000)) eqn:E2; cbn; [discriminate|]. lia.
  - lia.
Qed.
Lemma zat_add_total a b : 0 <= a -> 0 <= b -> a + b <= A.MAX_MONEY -> A.zat_add a b = Some (a + b).
Proof.
  rewrite max_money_val. intros. unfold A.zat_add, u64_checked, checked, in_range, u64_max.
  replace ((0 <=? a + b) && (a + b <=? 18446744073709551615)) with true by lia.
  unfold A.zat_from_u64, in_range. rewrite max_money_val.
  replace ((0 <=? a + b) && (a + b <=? 2100000000000000)) with true by lia. reflexivity.
Qed.
Lemma zat_sub_total a b : 0 <= b <= a -> a <= A.MAX_MONEY -> A.zat_sub a b = Some (a - b).
Proof.
  rewrite max_money_val. intros. unfold A.zat_sub, u64_checked, checked, in_range, u64_max.
  replace ((0 <=? a - b) && (a - b <=? 18446744073709551615)) with true by lia.
  unfold A.zat_from_u64, in_range. rewrite max_money_val.
  replace ((0 <=? a - b) && (a - b <=? 2100000000000000)) with true by lia. reflexivity.
Qed.

Lemma zat_sum_from_some l : forall acc s, A.zat_sum_from acc l = Some s -> s = acc + zsum l.
Proof.
  induction l as [|x r IH]; cbn [A.zat_sum_from zsum fold_right]; intros acc s H.
  - inversion H; lia.
  - destruct (A.zat_add acc x) eqn:E; [|discriminate]. apply zat_add_some in E. apply IH in H.
    unfold zsum in H. lia.
Qed.
Lemma zat_sum_some l s : A.zat_sum l = Some s -> s = zsum l.
Proof. intros H. apply zat_sum_from_some in H. lia. Qed.
Lemma zat_sum_from_range l : forall acc s, 0 <= acc <= A.MAX_MONEY ->
  A.zat_sum_from acc l = Some s -> 0 <= s <= A.MAX_MONEY.
Proof.
  induction l as [|x r IH]; cbn [A.zat_sum_from]; intros acc s Ha H.
  - inversion H; subst; lia.
  - destruct (A.zat_add acc x) eqn:E; [|discriminate]. apply zat_add_some in E. eapply IH; [|exact H]. lia.
Qed.
Lemma zat_sum_range l s : A.zat_sum l = Some s -> 0 <= s <= A.MAX_MONEY.
Proof. apply zat_sum_from_range. rewrite max_money_val. lia. Qed.

Lemma zsum_app a b : zsum (a ++ b) = zsum a + zsum b.
Proof. unfold zsum. induction a; cbn [app fold_right]; lia. Qed.
Lemma zsum_nonneg l : Forall (fun v => 0 <= v) l -> 0 <= zsum l.
Proof. unfold zsum. induction 1; cbn [fold_right]; lia. Qed.

Lemma zat_mul_usize_spec m n : 0 <= m -> 0 <= n <= usize_max ->
  A.zat_mul_usize m n = if m * n <=? A.MAX_MONEY then Some (m * n) else None.
Proof.
  rewrite max_money_val, usize_val. intros Hm Hn.
  unfold A.zat_mul_usize, A.zat_mul_u64, u64_checked, checked, in_range, u64_max.
  replace ((0 <=? n) && (n <=? 18446744073709551615)) with true by lia.
  assert (0 <= m * n) by nia.
  destruct (Z.leb_spec (m * n) 2100000000000000).
  - replace ((0 <=? m * n) && (m * n <=? 18446744073709551615)) with true by lia.
    unfold A.zat_from_u64, in_range. rewrite max_money_val.
    replace ((0 <=? m * n) && (m * n <=? 2100000000000000)) with true by lia. reflexivity.
  - destruct ((0 <=? m * n) && (m * n <=? 18446744073709551615)); [|reflexivity].
    unfold A.zat_from_u64, in_range. rewrite max_money_val.
    replace ((0 <=? m * n) && (m * n <=? 2100000000000000)) with false by lia. reflexivity.
Qed.

(** * [fee_required] *)

Lemma usize_add_some a b : 0 <= a + b <= usize_max -> usize_add a b = Some (a + b).
Proof. intros. unfold usize_add, checked, in_range. replace ((0 <=? a + b) && (a + b <=? usize_max)) with true by lia. reflexivity. Qed.
Lemma usize_add_inv a b s : usize_add a b = Some s -> s = a + b /\ 0 <= s <= usize_max.
Proof. unfold usize_add, checked, in_range. destruct ((0 <=? a + b) && (a + b <=? usize_max)) eqn:E; [|discriminate]. intros H; inversion H; subst. lia. Qed.

Definition tsize_nonneg (s : tsize) : Prop := match s with Known n => 0 <= n | Unknown _ => True end.

Lemma tin_loop_spec l : forall acc unk, 0 <= acc -> Forall tsize_nonneg l ->
  acc + zsum (map known_size l) <= usize_max ->
  tin_loop acc unk l = Some (acc + zsum (map known_size l), rev unk ++ unknown_ids l).
Proof.
  induction l as [|s r IH]; intros acc unk Ha Hl Hs; cbn [tin_loop map zsum fold_right unknown_ids flat_map].
  - rewrite app_nil_r. f_equal. f_equal. lia.
  - inversion Hl as [|? ? Hs0 Hr]; subst.
    assert (0 <= zsum (map known_size r)) by (apply zsum_nonneg; clear -Hr; induction Hr as [|y]; cbn; constructor; auto; destruct y; cbn in *; lia).
    cbn [map zsum fold_right] in Hs. fold (zsum (map known_size r)) in *.
    destruct s as [n|id]; cbn [known_size tsize_nonneg] in *.
    + rewrite usize_add_some by lia. rewrite IH by (auto; lia). cbn [app]. f_equal; f_equal; lia.
    + rewrite IH by (auto; lia). cbn [rev]. rewrite <- app_assoc. cbn [app]. f_equal; f_equal; lia.
Qed.

Lemma usize_sum_spec l : forall acc, 0 <= acc -> Forall (fun v => 0 <= v) l ->
  acc + zsum l <= usize_max -> usize_sum acc l = Some (acc + zsum l).
Proof.
  induction l as [|x r IH]; intros acc Ha Hl Hs; cbn [usize_sum zsum fold_right].
  - f_equal; lia.
  - inversion Hl; subst. assert (0 <= zsum r) by (apply zsum_nonneg; auto).
    cbn [zsum fold_right] in Hs. fold (zsum r) in *.
    rewrite usize_add_some by lia. rewrite IH by (auto; lia). f_equal. lia.
Qed.

Lemma div_ceil_cdiv n d : 0 <= n -> 0 < d -> div_ceil n d = cdiv n d.
Proof.
  intros Hn Hd. unfold div_ceil, cdiv.
  pose proof (Z.div_mod n d ltac:(lia)) as E. pose proof (Z.mod_pos_bound n d Hd) as B.
  destruct (0 <? n mod d) eqn:C.
  - apply Z.div_unique with (r := n mod d - 1); lia.
  - assert (n mod d = 0) by lia. apply Z.div_unique with (r := d - 1); lia.
Qed.
Lemma cdiv_nonneg n d : 0 <= n -> 0 < d -> 0 <= cdiv n d.
Proof. intros. unfold cdiv. apply Z.div_pos; lia. Qed.

Definition rule_ok (fr : feerule) : Prop :=
  0 <= marginal fr /\ 0 <= grace fr <= usize_max /\ 0 < p_in fr /\ 0 < p_out fr.

Theorem fee_required_formula fr tins touts sin sout orch iron :
  rule_ok fr -> Forall tsize_nonneg tins -> Forall (fun v => 0 <= v) touts ->
  0 <= sin -> 0 <= sout -> 0 <= orch -> 0 <= iron ->
  fee_args_fit fr tins touts sin sout orch iron ->
  fee_required fr tins touts sin sout orch iron = fee_required_spec fr tins touts sin sout orch iron.
Proof.
  intros (Hm & Hg & Hpi & Hpo) Hti Hto Hs1 Hs2 Ho Hi (F1 & F2 & F3).
  unfold fee_required, fee_required_spec.
  rewrite tin_loop_spec by (auto; lia). cbn [rev app]. replace (0 + zsum (map known_size tins)) with (zsum (map known_size tins)) by lia.
  destruct (unknown_ids tins) as [|u us]; [|reflexivity].
  rewrite usize_sum_spec by (auto; lia). replace (0 + zsum touts) with (zsum touts) by lia.
  replace ((p_in fr =? 0) || (p_out fr =? 0)) with false by lia.
  assert (0 <= zsum (map known_size tins)).
  { apply zsum_nonneg. clear -Hti. induction Hti as [|y]; cbn; constructor; auto. destruct y; cbn in *; lia. }
  assert (0 <= zsum touts) by (apply zsum_nonneg; auto).
  rewrite !div_ceil_cdiv by lia.
  pose proof (cdiv_nonneg (zsum (map known_size tins)) (p_in fr) ltac:(lia) Hpi).
  pose proof (cdiv_nonneg (zsum touts) (p_out fr) ltac:(lia) Hpo).
  unfold logical_actions in F3.
  set (ci := cdiv (zsum (map known_size tins)) (p_in fr)) in *.
  set (co := cdiv (zsum touts) (p_out fr)) in *.
  rewrite (usize_add_some (Z.max ci co) (Z.max sin sout)) by lia.
  rewrite (usize_add_some (Z.max ci co + Z.max sin sout) orch) by lia.
  rewrite (usize_add_some (Z.max ci co + Z.max sin sout + orch) iron) by lia.
  rewrite zat_mul_usize_spec by lia.
  unfold zip317_fee, logical_actions. fold ci co. rewrite max_money_eq.
  destruct (_ <=? C07Consts.MAX_MONEY); reflexivity.
Qed.
