(** C07 — the fee equals the ZIP 317 fee of the final shape, unless dust was folded into it
    (AddDustToFee) or a costed transparent change output came out zero and was omitted. *)
From V.Lib Require Import Base MachInt.
From V.Gen Require Import C07Consts.
From V.C07 Require Import Model Spec Proofs Inv Balance FeeMono Balance2 Refuse FeeShape.
From Coq Require Import ZifyBool.
Local Open Scope Z_scope.

(** the crossing test ignores the ephemeral output's contribution to the transparent count:
    with an ephemeral output it is false outright *)
Lemma canonical_eph_shift x c t s o i :
  ironwood_is_canonical_crossing x c {| m_t := t + b2z (eph_is_out (ephemeral c)); m_s := s; m_o := o; m_i := i |}
  = ironwood_is_canonical_crossing x c {| m_t := t; m_s := s; m_o := o; m_i := i |}.
Proof.
  unfold ironwood_is_canonical_crossing. cbn [m_t m_s m_o m_i].
  destruct (eph_is_out (ephemeral c)); cbn [b2z negb]; [|rewrite Z.add_0_r; reflexivity].
  repeat match goal with |- context [?a && false] => rewrite (andb_false_r a) end.
  repeat rewrite andb_false_l.
  repeat match goal with |- context [?a && false] => rewrite (andb_false_r a) end.
  repeat rewrite andb_false_l. reflexivity.
Qed.

Lemma shape_eq x c chg f b sin m ex F k :
  finish x c chg f = Ok b -> rule_pos c ->
  num_spends (s_type x) (len (s_in x)) = Some sin ->
  fee_for x c sin m ex = Ok F ->
  m_s (final_manifest chg) = m_s m -> m_o (final_manifest chg) = m_o m -> m_i (final_manifest chg) = m_i m ->
  ironwood_is_canonical_crossing x c (final_manifest chg) = ironwood_is_canonical_crossing x c m ->
  m_t (final_manifest chg) + k = (if ex then 1 else 0) ->
  shape_fee x c (change b) (dummies b) k = F.
Proof.
  intros Hf (Rm & Rpi & Rpo) Hs HF Es Eo Ei Ec Ek.
  apply finish_ok in Hf as (Hch & _ & _ & Hd & _).
  apply fee_for_ok in HF as (so & oa & ia & A1 & A2 & A3 & -> & _); auto.
  unfold dummies_match in Hd. destruct (dummies b) as [[sd od] id_].
  set (l := change b) in *. set (FM := final_manifest l) in *.
  assert (EFM : FM = {| m_t := m_t (final_manifest chg) + b2z (eph_is_out (ephemeral c));
                        m_s := m_s (final_manifest chg); m_o := m_o (final_manifest chg); m_i := m_i (final_manifest chg) |}).
  { subst FM l. rewrite Hch. apply final_manifest_app. }
  assert (Ms : m_s FM = m_s m) by (rewrite EFM; exact Es).
  assert (Mo : m_o FM = m_o m) by (rewrite EFM; exact Eo).
  assert (Mi : m_i FM = m_i m) by (rewrite EFM; exact Ei).
  assert (Mt : m_t FM = m_t (final_manifest chg) + b2z (eph_is_out (ephemeral c))) by (rewrite EFM; reflexivity).
  assert (Cn : ironwood_is_canonical_crossing x c FM = ironwood_is_canonical_crossing x c m).
  { rewrite EFM, canonical_eph_shift. rewrite <- Ec. destruct (final_manifest chg); reflexivity. }
  rewrite Ms, Mo, Mi, Cn, A1, A2, A3 in Hd.
  unfold shape_fee. fold l.
  replace (count_pool (is_pool_cv Sapling) l) with (m_s FM) by reflexivity.
  replace (count_pool (is_pool_cv Orchard) l) with (m_o FM) by reflexivity.
  replace (count_pool (is_pool_cv Ironwood) l) with (m_i FM) by reflexivity.
  rewrite Hs, Ms, Mo, Mi. cbn [opt_z].
  replace (len (s_out x) + m_s m + sd) with so by lia.
  replace (len (o_out x) + m_o m + od) with oa by lia.
  replace (len (i_out x) + m_i m + id_) with ia by lia.
  unfold fee_formula. rewrite <- tin_bytes_sizes. f_equal.
  unfold tout_bytes. replace (count_pool is_transparent_cv l) with (m_t FM) by reflexivity. rewrite Mt.
  unfold t_output_sizes, eph_out_amount, eph_is_out in *. rewrite zsum_app.
  unfold P2PKH_STANDARD_OUTPUT_SIZE in *.
  destruct (ephemeral c) as [[v|v]|]; destruct ex; cbn [b2z zsum fold_right] in *; lia.
Qed.

(** * Which fee evaluation the returned fee is *)

Inductive fee_origin (x : txin) (c : config) (sin : Z) (wt : bool) (p : pool) (chg : list cv) (f : Z) : Prop :=
| FO_exact (m : manifest) (ex : bool) (k : Z) :
    fee_for x c sin m ex = Ok f ->
    m_s (final_manifest chg) = m_s m -> m_o (final_manifest chg) = m_o m -> m_i (final_manifest chg) = m_i m ->
    m_t (final_manifest chg) + k = (if ex then 1 else 0) ->
    (k = 0 \/ (k = 1 /\ wt = true /\ chg = [])) ->
    (* the crossing test agrees, or the flows are transparent (then it is false for every manifest) *)
    (wt = true \/ ironwood_is_canonical_crossing x c (final_manifest chg) = ironwood_is_canonical_crossing x c m) ->
    fee_origin x c sin wt p chg f
| FO_dust :
    dust_act c = AddDustToFee -> (chg = [] \/ chg = [CShielded p 0 true]) ->
    fee_origin x c sin wt p chg f.

Lemma simple_origin x c sin wt p cm split tc tf chg f m ex :
  simple_case wt p cm split tc tf = Ok (chg, f) -> 1 <= split ->
  fee_for x c sin m ex = Ok tf ->
  (wt = true -> m = T_ONE /\ ex = true) ->
  (wt = false -> m = for_pool p split /\ ex = false) ->
  fee_origin x c sin wt p chg f.
Proof.
  unfold simple_case, A.zat_div_with_remainder. intros H Hs HF Hw Hn. destruct wt.
  - destruct (Hw eq_refl) as (-> & ->). inversion H; subst; clear H.
    destruct (tc =? 0) eqn:E.
    + eapply (FO_exact _ _ _ _ _ _ _ T_ONE true 1); eauto; cbn; auto.
    + eapply (FO_exact _ _ _ _ _ _ _ T_ONE true 0); eauto; cbn; auto.
  - destruct (Hn eq_refl) as (-> & ->).
    apply bind_ok in H as (vs & Ev & H). inversion H; subst; clear H.
    apply split_values_spec in Ev as (L & _ & _).
    assert (E : final_manifest (map (fun v => CShielded p v cm) vs) = for_pool p split).
    { rewrite fm_shielded. unfold len. rewrite L, Z2Nat.id by lia. reflexivity. }
    eapply (FO_exact _ _ _ _ _ _ _ (for_pool p split) false 0); eauto; rewrite E; auto;
      unfold for_pool; cbn; lia.
Qed.

Lemma dust_origin x c sin wt p cm ti split tc tf chg f m ex :
  dust_decision c wt p cm ti split tc tf = Ok (chg, f) -> 1 <= split -> (wt = true -> cm = false) ->
  fee_for x c sin m ex = Ok tf ->
  (wt = true -> m = T_ONE /\ ex = true) ->
  (wt = false -> m = for_pool p split /\ ex = false) ->
  fee_origin x c sin wt p chg f.
Proof.
  unfold dust_decision. intros H Hs Hw HF Hwt Hnt.
  assert (S : forall chg f, simple_case wt p cm split tc tf = Ok (chg, f) -> fee_origin x c sin wt p chg f).
  { intros. eapply simple_origin; eauto. }
  destruct (tc <? _); [|apply S; exact H].
  destruct (dust_act c) eqn:Ea.
  - destruct (tc =? 0); [apply S; exact H|].
    destruct (A.zat_sub _ tc); [|discriminate]. apply bind_ok in H as (? & _ & H). discriminate.
  - apply S; exact H.
  - apply bind_ok in H as (fwd & E1 & H). apply bind_ok in H as (ten & _ & H). apply bind_ok in H as (rf & _ & H).
    destruct (rf <? fwd); [apply S; exact H|].
    destruct cm; inversion H; subst; apply FO_dust; auto.
Qed.

Lemma m_zero_fm : final_manifest [] = M_ZERO. Proof. reflexivity. Qed.

Lemma core_origin x c sin wt ft cm p tcc tcs ti so mf towmf chg f :
  core_change x c sin wt ft cm p tcc tcs ti so mf towmf = Ok (chg, f) ->
  rule_pos c -> (wt = true -> cm = false) ->
  fee_for x c sin M_ZERO false = Ok mf ->
  (wt = true -> tcc = 1 /\ tcs = T_ONE) -> (wt = false -> tcs = for_pool p tcc) ->
  (forall pr s, wt = false -> split_of c false pr = Ok s -> s <= tcc) ->
  fee_origin x c sin wt p chg f.
Proof.
  unfold core_change. intros H (Rm & Rpi & Rpo) Hw Hmf Hwt Hnt Hsp.
  destruct (ti <? towmf); [discriminate|].
  destruct ((ti =? towmf) && ft).
  - inversion H; subst. eapply (FO_exact _ _ _ _ _ _ _ M_ZERO false 0); eauto.
  - apply bind_ok in H as (f2 & Ef2 & H). apply bind_ok in H as (towmx & _ & H).
    apply bind_ok in H as (split & Es & H). pose proof (split_of_ge1 _ _ _ _ Es) as Hs1.
    apply bind_ok in H as (tf & Etf & H).
    apply bind_ok in H as (tout & Eo & H).
    destruct (A.zat_sub ti tout) as [tc|] eqn:Et; [|discriminate].
    destruct wt.
    + destruct (Hwt eq_refl) as (-> & ->).
      replace (split <? 1) with false in Etf by lia. inversion Etf; subst tf.
      assert (mf <= f2).
      { eapply (fee_for_mono x c sin M_ZERO T_ONE false true); eauto.
        - apply m_zero_nonneg.
        - unfold m_le, M_ZERO, T_ONE; cbn; lia. }
      replace (Z.max mf f2) with f2 in H by lia.
      eapply dust_origin; eauto; intros; try discriminate; auto.
    + rewrite (Hnt eq_refl) in Ef2. specialize (Hsp _ _ eq_refl Es).
      destruct (split <? tcc) eqn:Elt.
      * eapply dust_origin; eauto; intros; try discriminate; auto.
      * inversion Etf; subst tf. assert (split = tcc) by lia. subst split.
        assert (mf <= f2).
        { eapply (fee_for_mono x c sin M_ZERO (for_pool p tcc) false false); eauto.
          - apply m_zero_nonneg.
          - apply m_zero_le_for_pool; lia. }
        replace (Z.max mf f2) with f2 in H by lia.
        eapply dust_origin; eauto; intros; try discriminate; auto.
Qed.

(** fully transparent flows are never a canonical crossing: the sole Ironwood output would have
    to carry a positive (canonical) value *)
Lemma transparent_not_canonical x e nf : flows_spec x e nf -> flows_is_transparent nf = true ->
  sole_output_canonical x = false.
Proof.
  intros FS Ht. destruct FS as [_ _ _ _ _ _ _ Fio _]. unfold flows_is_transparent, pos in Ht.
  unfold sole_output_canonical. destruct (i_out x) as [|v [|w r]]; try reflexivity.
  cbn [zsum fold_right] in Fio. unfold is_canonical_denomination.
  destruct ((v <? MAX_RESIDUAL_VALUE) || (DENOM_CAP <? v)) eqn:E; [reflexivity|].
  unfold MAX_RESIDUAL_VALUE in E. lia.
Qed.
Lemma not_canonical_any x c m : sole_output_canonical x = false -> ironwood_is_canonical_crossing x c m = false.
Proof. unfold ironwood_is_canonical_crossing. intros ->. rewrite !andb_false_r. cbn [andb]. rewrite ?andb_false_r. reflexivity. Qed.

Theorem fee_exact_unless_holds x c b : compute_balance x c = Ok b -> rule_pos c ->
  fee_exact_unless x c b = true.
Proof.
  intros H Rp.
  pose proof (compute_ok_facts _ _ _ H Rp) as (nf0 & ti0 & so0 & sin0 & mf0 & tw0 & tcc0 & chg0 & _ & _ & Hch0 & Hr0 & _).
  apply compute_ok_inv in H as (nf & ti & so & sin & mf & towmf & tcc & [chg f] & St & Hc & Hf).
  destruct St as [Snf Sti Sso Ssin Smf Stow Stcc]. cbn [fst snd] in Hf.
  pose proof (flows_ok _ _ _ Snf) as FS.
  unfold core_of in Hc.
  assert (Hw : wt_of c nf = true -> memo c && negb (eph_is_in (ephemeral c)) = false).
  { unfold wt_of, ft_of. intros W. destruct (memo c && negb (eph_is_in (ephemeral c))); [|reflexivity].
    rewrite andb_false_r in W. discriminate. }
  pose proof (finish_ok _ _ _ _ _ Hf) as (Hch & Hfee & _).
  assert (Heq : chg0 = chg) by (rewrite Hch in Hch0; apply app_inv_tail in Hch0; congruence).
  rewrite Heq in Hr0.
  apply core_origin in Hc; auto.
  - unfold fee_exact_unless. destruct Hc as [m ex k HF Es Eo Ei Ek Hk Hcan | Hd Hchg].
    + assert (Ecan : ironwood_is_canonical_crossing x c (final_manifest chg) = ironwood_is_canonical_crossing x c m).
      { destruct Hcan as [W|E]; [|exact E].
        unfold wt_of, ft_of in W. apply andb_prop in W as (W & _). apply andb_prop in W as (W & _).
        pose proof (transparent_not_canonical _ _ _ FS W) as N. rewrite !(not_canonical_any x c _ N). reflexivity. }
      pose proof (shape_eq _ _ _ _ _ _ _ _ _ k Hf Rp Ssin HF Es Eo Ei Ecan Ek) as E. rewrite Hfee in *.
      destruct Hk as [-> | (-> & W & ->)].
      * apply orb_true_iff; left; apply orb_true_iff; left. apply Z.eqb_eq. symmetry. exact E.
      * apply orb_true_iff; right. unfold transparent_change_omitted. rewrite Hr0.
        unfold wt_of in W. apply andb_prop in W as (_ & ->). cbn [is_nil andb].
        apply Z.eqb_eq. rewrite Hfee. symmetry. exact E.
    + unfold dust_folded, is_add_dust. rewrite Hd, Hr0.
      destruct Hchg as [-> | ->]; cbn; rewrite orb_true_r; reflexivity.
  - intros W. unfold wt_of, ft_of in W. rewrite W in Stcc. unfold target_change_count_of in Stcc.
    inversion Stcc. split; [reflexivity|]. unfold tc_of, wt_of, ft_of. rewrite W. reflexivity.
  - intros W. unfold tc_of. rewrite W. reflexivity.
  - intros pr s W Hs. unfold wt_of, ft_of in W. rewrite W in Stcc. eapply split_le_tcc; eauto.
Qed.
