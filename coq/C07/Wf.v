(** C07 — domain of the theorems as a boolean on cases: amounts are valid [Zatoshis], script
    sizes and counts are usize values small enough that no length arithmetic overflows, heights
    are u32, the anchor interval is non-zero. *)
From V.Lib Require Import Base MachInt.
From V.Gen Require Import C07Consts.
From V.C07 Require Import Model Spec Corr.
Local Open Scope Z_scope.

Definition vzat (v : Z) : bool := (0 <=? v) && (v <=? C07Consts.MAX_MONEY).
Definition small (v : Z) : bool := (0 <=? v) && (v <=? 2147483648).
Definition in_usize (v : Z) : bool := (0 <=? v) && (v <=? usize_max).
Definition tsize_ok (s : tsize) : bool := match s with Known n => small n | Unknown id => 0 <=? id end.

Definition wf_tx (x : txin) : bool :=
  forallb (fun i => vzat (fst i) && tsize_ok (snd i)) (t_in x)
  && forallb (fun o => vzat (fst o) && small (snd o)) (t_out x)
  && forallb vzat (s_in x) && forallb vzat (s_out x)
  && forallb vzat (o_in x) && forallb vzat (o_out x)
  && forallb vzat (i_in x) && forallb vzat (i_out x)
  && small (len (t_in x)) && small (len (t_out x)) && small (len (s_in x)) && small (len (s_out x))
  && small (len (o_in x)) && small (len (o_out x)) && small (len (i_in x)) && small (len (i_out x)).

Definition wf_strat (s : strategy) : bool :=
  match s with
  | Single => true
  | Multi t ms wm =>
    (1 <=? t) && small t
    && match ms with Some m => vzat m | None => t =? 1 end
    && (length wm =? 3)%nat
    && forallb (fun m => match m with Some (n, v) => small n && vzat v | None => true end) wm
  end.

Definition wf_cfg (c : config) : bool :=
  wf_strat (strat c)
  && match dust_thr c with Some t => vzat t | None => true end
  && match ephemeral c with Some (EphIn v) | Some (EphOut v) => vzat v | None => true end
  && match network c with LocalNet (Some h) => small h | _ => true end
  && small (target_height c) && small (anchor_height c) && (1 <=? interval c) && small (interval c)
  && (marginal (rule c) =? MARGINAL_FEE) && (grace (rule c) =? GRACE_ACTIONS)
  && (p_in (rule c) =? P2PKH_STANDARD_INPUT_SIZE) && (p_out (rule c) =? P2PKH_STANDARD_OUTPUT_SIZE).

Definition wf_case (k : case) : bool :=
  match k with
  | FeeReq _ tins touts sin sout orch iron _ =>
      forallb (fun s => match s with Known n => in_usize n | Unknown id => 0 <=? id end) tins
      && forallb in_usize touts && in_usize sin && in_usize sout && in_usize orch && in_usize iron
  | Bal x c _ => wf_tx x && wf_cfg c
  end.
