(** C07 — Reject policy, per output: outside the known-finding class (a split minimum below the
    dust threshold) every change output is zero-valued or reaches the threshold. *)
From V.Lib Require Import Base MachInt.
From V.Gen Require Import C07Consts.
From V.C07 Require Import Model Spec Proofs Inv Balance FeeMono Balance2.
From Coq Require Import ZifyBool.
Local Open Scope Z_scope.

Definition counts_nonneg (wm : meta) : Prop := Forall (fun v => 0 <= v) (flatten (map (option_map fst) wm)).

(** outside the known-finding class: a single change output is produced anyway (single-output
    strategy, or a target of one note), or the split minimum is at least the dust threshold *)
Definition split_guard (c : config) : Prop :=
  match strat c with
  | Single => True
  | Multi t ms wm => (t = 1 /\ counts_nonneg wm) \/ exists m, ms = Some m /\ threshold c <= m
  end.

Lemma split_loop_spec fuel : forall count tc mv, 1 <= count ->
  let r := split_loop fuel count tc mv in r = 1 \/ mv <= tc / r.
Proof.
  induction fuel as [|f IH]; intros count tc mv Hc; cbv zeta; cbn [split_loop]; [left; reflexivity|].
  destruct (mv <=? tc / count) eqn:E; [right; apply Z.leb_le in E; exact E|].
  destruct (count - 1 =? 0) eqn:E2; [left; reflexivity|]. apply IH. lia.
Qed.

Lemma reduce_usize_inv l : forall acc s, 0 <= acc -> reduce_usize acc l = Some s -> 0 <= s.
Proof.
  induction l as [|x r IH]; intros acc s Ha H; cbn [reduce_usize] in H; [inversion H; lia|].
  destruct (usize_add acc x) as [a|] eqn:E; [|discriminate]. apply usize_add_inv in E. eapply IH; [|exact H]. lia.
Qed.
Lemma total_note_count_nonneg wm nc : counts_nonneg wm -> total_note_count wm = Ok nc ->
  match nc with Some n => 0 <= n | None => True end.
Proof.
  unfold counts_nonneg, total_note_count. intros F. destruct (flatten _) as [|a r]; [intros H; inversion H; exact I|].
  inversion F; subst. destruct (reduce_usize a r) eqn:E; [|discriminate]. intros H; inversion H; subst.
  eapply reduce_usize_inv; [|exact E]. assumption.
Qed.

Lemma split_of_guarded c wt proposed s : split_of c wt proposed = Ok s -> split_guard c ->
  s = 1 \/ threshold c <= proposed / s.
Proof.
  unfold split_of, split_guard. destruct wt; [intros H; inversion H; auto|].
  destruct (strat c) as [|t ms wm]; [intros H; inversion H; auto|].
  intros H G. apply bind_ok in H as (nc & Enc & H). apply bind_ok in H as (tv & _ & H). inversion H; subst s; clear H.
  unfold split_count.
  set (c0 := usize_sat_sub t _). set (count := if c0 =? 0 then 1 else c0).
  assert (1 <= count) by (subst count c0; unfold usize_sat_sub; destruct (Z.max 0 _ =? 0) eqn:E; lia).
  destruct G as [(-> & Cn) | (m & -> & Hm)].
  - left. pose proof (total_note_count_nonneg _ _ Cn Enc) as Hn.
    assert (count = 1).
    { subst count c0. unfold usize_sat_sub. destruct nc as [n|]; [|rewrite usize_val]; destruct (Z.max 0 _ =? 0) eqn:E; lia. }
    rewrite H0.
    destruct ms as [v|]; [|destruct (A.oopt_lift _ tv proposed); [|reflexivity]];
      match goal with |- split_loop _ 1 _ ?mv = 1 => pose proof (split_loop_ge1 (Z.to_nat 1) 1 proposed mv ltac:(lia)); lia end.
  - pose proof (split_loop_spec (Z.to_nat count) count proposed m H) as S. cbv zeta in S.
    destruct S as [S|S]; [left; exact S|right]. lia.
Qed.

Definition each_ok (c : config) (v : cv) : Prop := cv_value v = 0 \/ threshold c <= cv_value v.

Lemma simple_each c wt p cm split tc tf chg f :
  simple_case wt p cm split tc tf = Ok (chg, f) -> 1 <= split -> 0 <= tc ->
  (tc = 0 \/ threshold c <= tc) -> (split = 1 \/ threshold c <= tc / split) ->
  Forall (each_ok c) chg.
Proof.
  unfold simple_case, A.zat_div_with_remainder. intros H Hs Ht Htc Hq. destruct wt.
  - inversion H; subst. destruct (tc =? 0) eqn:E; [constructor|]. constructor; [|constructor]. unfold each_ok. cbn. lia.
  - apply bind_ok in H as (vs & Ev & H). inversion H; subst; clear H.
    apply split_values_spec in Ev as (_ & _ & F).
    pose proof (Z.mod_pos_bound tc split ltac:(lia)) as Bm.
    assert (Q : tc / split = 0 /\ tc mod split = 0 \/ threshold c <= tc / split).
    { destruct Htc as [-> | Htc].
      - left. rewrite Z.div_0_l, Z.mod_0_l by lia. lia.
      - destruct Hq as [-> | Hq]; [|right; exact Hq]. right. rewrite Z.div_1_r. exact Htc. }
    induction F as [|v vs Hv _ IH]; cbn [map]; constructor; auto.
    unfold each_ok. cbn [cv_value]. lia.
Qed.

Lemma core_each x c sin wt ft cm p tcc tcs ti so mf towmf chg f :
  core_change x c sin wt ft cm p tcc tcs ti so mf towmf = Ok (chg, f) ->
  dust_act c = Reject -> split_guard c -> rule_pos c ->
  (wt = false -> tcs = for_pool p tcc) -> (wt = true -> tcc = 1) -> 0 <= ti <= A.MAX_MONEY ->
  Forall (each_ok c) chg.
Proof.
  unfold core_change. intros H Hr G (Rm & Rpi & Rpo) Htcs Htcc Hti.
  destruct (ti <? towmf); [discriminate|].
  destruct ((ti =? towmf) && ft); [inversion H; constructor|].
  apply bind_ok in H as (f2 & Ef2 & H).
  apply bind_ok in H as (towmx & Ex & H). apply or_overflow_ok in Ex. apply zat_add_some in Ex.
  apply bind_ok in H as (split & Es & H).
  pose proof (split_of_ge1 _ _ _ _ Es) as Hs1. apply split_of_guarded in Es; [|exact G].
  apply bind_ok in H as (tf & Etf & H).
  assert (Hle : tf <= Z.max mf f2).
  { destruct (split <? tcc) eqn:Elt; [|inversion Etf; lia].
    destruct wt.
    - specialize (Htcc eq_refl). lia.
    - assert (tf <= f2); [|lia]. rewrite (Htcs eq_refl) in Ef2.
      eapply (fee_for_mono x c sin (for_pool p split) (for_pool p tcc) false false); eauto.
      + unfold m_nonneg, for_pool; cbn; destruct p; cbn; lia.
      + unfold m_le, for_pool; cbn; destruct p; cbn; lia. }
  apply bind_ok in H as (tout & Eo & H). apply or_overflow_ok in Eo. apply zat_add_some in Eo.
  destruct (A.zat_sub ti tout) as [tc|] eqn:Et; [|discriminate]. apply zat_sub_some in Et.
  unfold dust_decision in H. fold (threshold c) in H. rewrite Hr in H.
  assert (Hp : (match A.zat_sub ti towmx with Some v => v | None => 0 end) <= tc).
  { destruct (A.zat_sub ti towmx) eqn:E; [apply zat_sub_some in E|]; lia. }
  assert (Hq : (tc = 0 \/ threshold c <= tc) -> split = 1 \/ threshold c <= tc / split).
  { intros _. destruct Es as [Es|Es]; [left; exact Es|right].
    etransitivity; [exact Es|]. apply Z.div_le_mono; lia. }
  destruct (tc <? threshold c) eqn:Elt.
  - destruct (tc =? 0) eqn:E0.
    + eapply simple_each; eauto; try lia; try (apply Hq; lia).
    + destruct (A.zat_sub _ tc); [|discriminate]. apply bind_ok in H as (? & _ & H). discriminate.
  - eapply simple_each; eauto; try lia; try (apply Hq; lia).
Qed.

Lemma tcc_wt c tcc : target_change_count_of c true = Ok tcc -> tcc = 1.
Proof. unfold target_change_count_of. intros H; inversion H; reflexivity. Qed.

Theorem no_dust_each_guarded x c b : compute_balance x c = Ok b -> rule_pos c -> split_guard c ->
  no_dust_each c b = true.
Proof.
  intros H Rp G. unfold no_dust_each, is_reject. destruct (dust_act c) eqn:Ea; cbn [negb orb]; try reflexivity.
  pose proof (compute_ok_facts _ _ _ H Rp) as (nf0 & ti0 & so0 & sin0 & mf0 & tw0 & tcc0 & chg0 & _ & _ & Hch0 & Hr0 & Fe0 & _).
  apply compute_ok_inv in H as (nf & ti & so & sin & mf & towmf & tcc & [chg f] & St & Hc & Hf).
  destruct St as [Snf Sti Sso Ssin Smf Stow Stcc]. cbn [fst snd] in Hf.
  apply total_in_ok in Sti.
  apply finish_ok in Hf as (Hch & _ & _ & _ & _).
  unfold core_of in Hc.
  assert (Fe : Forall (each_ok c) chg).
  { eapply core_each; eauto; try lia.
    - unfold tc_of. intros ->. reflexivity.
    - intros W. unfold wt_of, ft_of in W. rewrite W in Stcc. apply tcc_wt in Stcc. exact Stcc. }
  assert (Heq : chg0 = chg).
  { rewrite Hch in Hch0. apply app_inv_tail in Hch0. congruence. }
  rewrite Hr0, Heq. apply forallb_forall. intros v Hv.
  rewrite Forall_forall in Fe. specialize (Fe v Hv). unfold each_ok in Fe. lia.
Qed.

(** The guard is needed: with a split minimum below the threshold the per-output clause fails
    (known finding C07-split-change-below-dust-threshold; confirmed on the implementation). *)
Lemma no_dust_each_refuted : exists x c b,
  compute_balance x c = Ok b /\ dust_act c = Reject /\ rule_pos c /\
  no_dust_total c b = true /\ no_dust_each c b = false.
Proof.
  exists (Build_txin [] [] (STx false) [40000] [] OrchardV2 [] [] IronwoodV3 [] []).
  exists (Build_config standard_rule (Multi 5 (Some 1) [Some (0, 1000000); None; None]) Reject None Sapling
            false false None (LocalNet (Some 1000)) 500 144 144).
  exists (Build_balance [CShielded Sapling 3000 false; CShielded Sapling 3000 false; CShielded Sapling 3000 false;
                         CShielded Sapling 3000 false; CShielded Sapling 3000 false] 25000 40000 (0, 0, 0)).
  split; [vm_compute; reflexivity|]. split; [reflexivity|].
  split; [unfold rule_pos; cbn; unfold MARGINAL_FEE, P2PKH_STANDARD_INPUT_SIZE, P2PKH_STANDARD_OUTPUT_SIZE; lia|].
  split; vm_compute; reflexivity.
Qed.
