(** C07 — [check_for_uneconomic_inputs]: what a [DustInputs] refusal reports, and that within
    [compute_balance] such a refusal can only come from there. *)
From V.Lib Require Import Base MachInt.
From V.Gen Require Import C07Consts.
From V.C07 Require Import Model Spec Proofs Inv FeeMono.
From Coq Require Import ZifyBool.
Local Open Scope Z_scope.

(** * Which errors a stage can produce *)
Definition plain (e : cerr) : Prop :=
  match e with StrategyBalance _ | StrategyP2sh _ | BundleError => True | _ => False end.
Definition errs_in {T} (S : cerr -> Prop) (r : R T) : Prop := match r with Err e => S e | _ => True end.

Lemma ei_bind {T U} S (x : R T) (f : T -> R U) : errs_in S x -> (forall a, errs_in S (f a)) -> errs_in S (bind x f).
Proof. destruct x; cbn; auto. Qed.
Lemma ei_weaken {T} (S S' : cerr -> Prop) (r : R T) : (forall e, S e -> S' e) -> errs_in S r -> errs_in S' r.
Proof. destruct r; cbn; auto. Qed.
Lemma ei_ok {T} S (a : T) : errs_in S (Ok a). Proof. exact I. Qed.
Lemma ei_panic {T} S : errs_in S (@Panic T cerr). Proof. exact I. Qed.
Lemma ei_or_overflow o : errs_in plain (or_overflow o). Proof. destruct o; exact I. Qed.
Lemma ei_or_bundle o : errs_in plain (or_bundle o). Proof. destruct o; exact I. Qed.
Lemma ei_or_panic {T} (o : option T) : errs_in plain (or_panic o). Proof. destruct o; exact I. Qed.
Lemma ei_of_fee o : errs_in plain (of_fee o). Proof. destruct o as [|[|]|]; exact I. Qed.
Lemma ei_csu a b : errs_in plain (checked_sub_unwrap a b).
Proof. unfold checked_sub_unwrap. destruct (a <? b); exact I. Qed.
Lemma ei_split_off a l : errs_in plain (split_off a l).
Proof. unfold split_off. destruct (len l <? a); exact I. Qed.
Lemma ei_if {T} S (b : bool) (x y : R T) : errs_in S x -> errs_in S y -> errs_in S (if b then x else y).
Proof. destruct b; auto. Qed.

Ltac ei :=
  repeat first
    [ apply ei_ok | apply ei_panic | apply ei_or_overflow | apply ei_or_bundle
    | apply ei_or_panic | apply ei_of_fee | apply ei_csu | apply ei_split_off
    | apply ei_bind; [|intros ?] | apply ei_if ].

Lemma ei_flows x e : errs_in plain (calculate_net_flows x e).
Proof. unfold calculate_net_flows. ei. Qed.
Lemma ei_fee_for x c sin m b : errs_in plain (fee_for x c sin m b).
Proof. unfold fee_for, sapling_output_count, orchard_action_count, ironwood_action_count. ei. Qed.
Lemma ei_tnc wm : errs_in plain (total_note_count wm).
Proof. unfold total_note_count. destruct (flatten _); [exact I|]. destruct (reduce_usize _ _); exact I. Qed.
Lemma ei_tv wm : errs_in plain (total_value wm).
Proof. unfold total_value. destruct (flatten _); [exact I|]. destruct (reduce_zat _ _); exact I. Qed.
Lemma ei_tcc c w : errs_in plain (target_change_count_of c w).
Proof. unfold target_change_count_of. destruct w; [exact I|]. destruct (strat c); [exact I|]. ei. apply ei_tnc. Qed.
Lemma ei_split_of c w p : errs_in plain (split_of c w p).
Proof. unfold split_of. destruct w; [exact I|]. destruct (strat c); [exact I|]. ei; [apply ei_tnc | apply ei_tv]. Qed.
Lemma ei_finish x c chg f : errs_in plain (finish x c chg f).
Proof. unfold finish, sapling_output_count, orchard_action_count, ironwood_action_count. ei. Qed.
Lemma ei_hyp x c tol m a b d e f g h i : errs_in plain (hypothetical_actions x c tol m a b d e f g h i).
Proof. unfold hypothetical_actions. ei. Qed.
Lemma ei_allowed x c td sd od id_ tn sn on_ in_ tol m : errs_in plain (allowed_dust x c td sd od id_ tn sn on_ in_ tol m).
Proof.
  unfold allowed_dust. apply ei_bind; [apply ei_hyp|intros ?].
  repeat first [ apply ei_ok | apply ei_hyp | apply ei_bind; [|intros ?] | apply ei_if ].
Qed.
Lemma ei_collect x c td sd od id_ tn sn on_ in_ tol l : errs_in plain (collect_allowed x c td sd od id_ tn sn on_ in_ tol l).
Proof. induction l; cbn [collect_allowed]; [exact I|]. apply ei_bind; [apply ei_allowed|intros]. apply ei_bind; [exact IHl|intros; exact I]. Qed.

Definition not_insuff_nor_dust := plain.
Definition insuff_or_plain (e : cerr) : Prop := match e with DustInputs _ _ _ _ => False | _ => True end.

Lemma ei_split_values n : forall first q r, errs_in plain (split_values n first q r).
Proof.
  induction n; intros; cbn [split_values]; [exact I|].
  apply ei_bind; [destruct first; ei|intros v]. apply ei_bind; [apply IHn|intros; exact I].
Qed.
Lemma ei_simple wt p cm split tc tf : errs_in plain (simple_case wt p cm split tc tf).
Proof. unfold simple_case, A.zat_div_with_remainder. destruct wt; [exact I|]. ei. apply ei_split_values. Qed.
Lemma ei_dust_decision c wt p cm ti split tc tf : errs_in insuff_or_plain (dust_decision c wt p cm ti split tc tf).
Proof.
  unfold dust_decision.
  pose proof (ei_weaken plain insuff_or_plain _ (fun e => match e with DustInputs _ _ _ _ => fun H => H | _ => fun _ => I end) (ei_simple wt p cm split tc tf)) as CS.
  remember (simple_case wt p cm split tc tf) as sc eqn:Esc. clear Esc.
  destruct (tc <? _); [|exact CS].
  destruct (dust_act c); [| exact CS |].
  - destruct (tc =? 0); [exact CS|]. destruct (A.zat_sub _ tc); [|exact I].
    destruct (A.zat_add ti z); exact I.
  - apply ei_bind; [destruct (A.zat_add tc tf); exact I|intros ?].
    apply ei_bind; [destruct (A.zat_mul_u64 _ _); exact I|intros ?].
    apply ei_bind; [destruct (A.zat_add tf a0); exact I|intros ?].
    destruct (_ <? _); [exact CS|]. destruct cm; exact I.
Qed.
Lemma plain_iop e : plain e -> insuff_or_plain e. Proof. destruct e; cbn; auto. Qed.
Lemma ei_core x c sin wt ft cm p tcc tcs ti so mf towmf :
  errs_in insuff_or_plain (core_change x c sin wt ft cm p tcc tcs ti so mf towmf).
Proof.
  unfold core_change. destruct (ti <? towmf); [exact I|]. destruct (_ && ft); [exact I|].
  apply ei_bind; [eapply ei_weaken; [exact plain_iop|apply ei_fee_for]|intros ?].
  apply ei_bind; [eapply ei_weaken; [exact plain_iop|apply ei_or_overflow]|intros ?].
  apply ei_bind; [eapply ei_weaken; [exact plain_iop|apply ei_split_of]|intros ?].
  apply ei_bind; [eapply ei_weaken; [exact plain_iop|apply ei_if; [apply ei_fee_for|exact I]]|intros ?].
  apply ei_bind; [eapply ei_weaken; [exact plain_iop|apply ei_or_overflow]|intros ?].
  destruct (A.zat_sub ti a3); [apply ei_dust_decision | exact I].
Qed.

(** * Dust positions *)
Lemma dust_ids_spec mf l : forall i0 id,
  In id (dust_ids mf i0 l) <-> (i0 <= id < i0 + len l /\ nth (Z.to_nat (id - i0)) l (mf + 1) <= mf).
Proof.
  induction l as [|v r IH]; intros i0 id; cbn [dust_ids].
  - unfold len; cbn. split; [intros []|lia].
  - assert (L : len (v :: r) = 1 + len r) by (unfold len; cbn [length]; lia). rewrite L.
    assert (Step : forall id, i0 + 1 <= id -> nth (Z.to_nat (id - i0)) (v :: r) (mf + 1) = nth (Z.to_nat (id - (i0 + 1))) r (mf + 1)).
    { intros j Hj. replace (Z.to_nat (j - i0)) with (S (Z.to_nat (j - (i0 + 1)))) by lia. reflexivity. }
    pose proof (len_nonneg r).
    destruct (v <=? mf) eqn:E.
    + cbn [In]. rewrite IH. split.
      * intros [<- | (Hr & Hn)]; [split; [lia|]; rewrite Z.sub_diag; change (Z.to_nat 0) with O; cbn [nth]; lia|]. rewrite Step by lia. lia.
      * intros (Hr & Hn). destruct (Z.eq_dec i0 id) as [->|Ne]; [left; reflexivity|right].
        rewrite Step in Hn by lia. lia.
    + rewrite IH. split.
      * intros (Hr & Hn). rewrite Step by lia. lia.
      * intros (Hr & Hn). destruct (Z.eq_dec i0 id) as [->|Ne].
        -- rewrite Z.sub_diag in Hn. change (Z.to_nat 0) with O in Hn. cbn [nth] in Hn. lia.
        -- rewrite Step in Hn by lia. lia.
Qed.
Lemma dust_ids_len mf l : forall i0, len (dust_ids mf i0 l) <= len l.
Proof.
  induction l as [|v r IH]; intros i0; cbn [dust_ids]; [lia|].
  specialize (IH (i0 + 1)). unfold len in *. destruct (v <=? mf); cbn [length]; lia.
Qed.
Lemma skipn_In {T} n (l : list T) a : In a (skipn n l) -> In a l.
Proof. intros H. rewrite <- (firstn_skipn n l). apply in_or_app. right. exact H. Qed.

(** * Inversion of a [DustInputs] refusal *)
Definition all_nil (t s o i : list Z) : bool := is_nil t && is_nil s && is_nil o && is_nil i.

Lemma split_off_ok a l r : split_off a l = Ok r -> r = skipn (Z.to_nat a) l /\ a <= len l.
Proof. unfold split_off. destruct (len l <? a) eqn:E; [discriminate|]. intros H; inversion H. split; [reflexivity|lia]. Qed.

Lemma check_dust_inv x c pc t s o i :
  check_for_uneconomic_inputs x c pc = Err (DustInputs t s o i) ->
  let mf := marginal (rule c) in
  let td := dust_ids mf 0 (map fst (t_in x)) in let sd := dust_ids mf 0 (s_in x) in
  let od := dust_ids mf 0 (o_in x) in let id_ := dust_ids mf 0 (i_in x) in
  exists (a0 : manifest) (rest : list manifest),
    (* the per-pool allowance: the least, over the possible change manifests, of [allowed_dust] *)
    collect_allowed x c td sd od id_
      (len (t_in x) + b2z (eph_is_in (ephemeral c)) - len td) (len (s_in x) - len sd)
      (len (o_in x) - len od) (len (i_in x) - len id_)
      (len (t_out x) + b2z (eph_is_out (ephemeral c))) pc = Ok (a0 :: rest) /\
    let a := fold_left manifest_min rest a0 in
    t = skipn (Z.to_nat (m_t a)) td /\ s = skipn (Z.to_nat (m_s a)) sd /\
    o = skipn (Z.to_nat (m_o a)) od /\ i = skipn (Z.to_nat (m_i a)) id_ /\
    all_nil t s o i = false.
Proof.
  unfold check_for_uneconomic_inputs. cbv zeta.
  set (mf := marginal (rule c)). set (td := dust_ids mf 0 (map fst (t_in x))). set (sd := dust_ids mf 0 (s_in x)).
  set (od := dust_ids mf 0 (o_in x)). set (id_ := dust_ids mf 0 (i_in x)).
  destruct (is_nil td && is_nil sd && is_nil od && is_nil id_); [discriminate|]. intros H.
  apply bind_err in H as [H | (tn & Etn & H)]; [pose proof (ei_csu (len (t_in x) + b2z (eph_is_in (ephemeral c))) (len td)) as C; rewrite H in C; destruct C|].
  apply bind_err in H as [H | (sn & Esn & H)]; [pose proof (ei_csu (len (s_in x)) (len sd)) as C; rewrite H in C; destruct C|].
  apply bind_err in H as [H | (on_ & Eon & H)]; [pose proof (ei_csu (len (o_in x)) (len od)) as C; rewrite H in C; destruct C|].
  apply bind_err in H as [H | (in_ & Ein & H)]; [pose proof (ei_csu (len (i_in x)) (len id_)) as C; rewrite H in C; destruct C|].
  apply checked_sub_ok in Etn as (-> & _), Esn as (-> & _), Eon as (-> & _), Ein as (-> & _).
  apply bind_err in H as [H | (al & Eal & H)].
  { match type of H with ?t = _ => assert (C : errs_in plain t) by apply ei_collect end. rewrite H in C; destruct C. }
  destruct al as [|a0 rest]; [discriminate|].
  set (a := fold_left manifest_min rest a0) in *.
  apply bind_err in H as [H | (t' & Et & H)]; [pose proof (ei_split_off (m_t a) td) as C; rewrite H in C; destruct C|].
  apply bind_err in H as [H | (s' & Es & H)]; [pose proof (ei_split_off (m_s a) sd) as C; rewrite H in C; destruct C|].
  apply bind_err in H as [H | (o' & Eo & H)]; [pose proof (ei_split_off (m_o a) od) as C; rewrite H in C; destruct C|].
  apply bind_err in H as [H | (i' & Ei & H)]; [pose proof (ei_split_off (m_i a) id_) as C; rewrite H in C; destruct C|].
  apply split_off_ok in Et as (Et & _), Es as (Es & _), Eo as (Eo & _), Ei as (Ei & _).
  destruct (is_nil t' && is_nil s' && is_nil o' && is_nil i') eqn:En; [discriminate|].
  inversion H; subst t s o i. exists a0, rest. split; [exact Eal|]. cbv zeta. fold a. repeat split; try assumption.
Qed.

Lemma dust_ids_ok_skip mf vals n :
  dust_ids_ok mf vals (skipn n (dust_ids mf 0 vals)) = true.
Proof.
  unfold dust_ids_ok. apply forallb_forall. intros id Hin. apply skipn_In in Hin.
  apply dust_ids_spec in Hin. rewrite Z.sub_0_r in Hin. lia.
Qed.

Theorem uneconomic_report_truthful x c pc t s o i :
  check_for_uneconomic_inputs x c pc = Err (DustInputs t s o i) -> dust_truthful x c t s o i = true.
Proof.
  intros H. apply check_dust_inv in H as (a0 & rest & _ & -> & -> & -> & -> & Hn).
  unfold dust_truthful. rewrite !dust_ids_ok_skip. unfold all_nil in Hn. rewrite Hn. reflexivity.
Qed.

(** within [compute_balance] a [DustInputs] refusal is the report of [check_for_uneconomic_inputs] *)
Theorem compute_dust_truthful x c t s o i :
  compute_balance x c = Err (DustInputs t s o i) -> dust_truthful x c t s o i = true.
Proof.
  unfold compute_balance. cbv zeta. intros H.
  Ltac kill H lem := match type of H with ?tm = _ => let C := fresh "C" in assert (C : errs_in plain tm) by lem; rewrite H in C; destruct C end.
  apply bind_err in H as [H | (nf & _ & H)]; [kill H ltac:(apply ei_flows)|].
  apply bind_err in H as [H | (ti & _ & H)]; [kill H ltac:(apply ei_or_overflow)|].
  apply bind_err in H as [H | (so & _ & H)]; [kill H ltac:(apply ei_or_overflow)|].
  apply bind_err in H as [H | (sin & _ & H)]; [kill H ltac:(apply ei_or_bundle)|].
  apply bind_err in H as [H | (mf & _ & H)]; [kill H ltac:(apply ei_fee_for)|].
  apply bind_err in H as [H | (towmf & _ & H)]; [kill H ltac:(apply ei_or_overflow)|].
  apply bind_err in H as [H | (tcc & _ & H)]; [kill H ltac:(apply ei_tcc)|].
  apply bind_err in H as [H | (u1 & _ & H)]; [destruct (_ || _) in H; discriminate|].
  apply bind_err in H as [H | (u2 & _ & H)].
  - destruct (pos (marginal (rule c))); [|discriminate]. eapply uneconomic_report_truthful; eauto.
  - apply bind_err in H as [H | (cf & _ & H)].
    + match type of H with ?tm = _ => assert (C : errs_in insuff_or_plain tm) by apply ei_core end. rewrite H in C. destruct C.
    + kill H ltac:(apply ei_finish).
Qed.
