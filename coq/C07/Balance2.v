(** C07 — dust policy, turnstile, truthful refusals. *)
From V.Lib Require Import Base MachInt.
From V.Gen Require Import C07Consts.
From V.C07 Require Import Model Spec Proofs Inv Balance FeeMono.
From Coq Require Import ZifyBool.
Local Open Scope Z_scope.

Definition elem_ok (wt : bool) (p : pool) (v : cv) : Prop :=
  (if wt then exists n, v = CTransparent n else exists n m, v = CShielded p n m) /\ 0 <= cv_value v.

Lemma simple_facts wt p cm split tc tf chg f :
  simple_case wt p cm split tc tf = Ok (chg, f) -> 1 <= split -> 0 <= tc ->
  f = tf /\ change_total chg = tc /\ Forall (elem_ok wt p) chg.
Proof.
  intros H Hs Ht. pose proof (simple_conserve _ _ _ _ _ _ _ _ H Hs Ht) as C.
  unfold simple_case, A.zat_div_with_remainder in H. destruct wt.
  - inversion H; subst. split; [reflexivity|]. split; [lia|].
    destruct (tc =? 0) eqn:E; [constructor|]. constructor; [|constructor]. split; [eauto|cbn; lia].
  - apply bind_ok in H as (vs & Ev & H). inversion H; subst; clear H. split; [reflexivity|]. split; [lia|].
    apply split_values_spec in Ev as (_ & _ & F).
    pose proof (Z.div_pos tc split Ht ltac:(lia)). clear C.
    induction F as [|v vs Hv _ IH]; cbn [map]; constructor; auto.
    split; [eauto|]. cbn. lia.
Qed.

Lemma dust_facts c wt p cm ti split tc tf chg f :
  dust_decision c wt p cm ti split tc tf = Ok (chg, f) -> 1 <= split -> 0 <= tc -> (wt = true -> cm = false) ->
  tf <= f /\ Forall (elem_ok wt p) chg /\ change_total chg <= tc /\
  (dust_act c = Reject -> (tc = 0 \/ threshold c <= tc) /\ f = tf /\ change_total chg = tc).
Proof.
  unfold dust_decision. fold (threshold c). intros H Hs Ht Hw.
  assert (S : forall chg f, simple_case wt p cm split tc tf = Ok (chg, f) ->
              tf <= f /\ Forall (elem_ok wt p) chg /\ change_total chg <= tc /\ f = tf /\ change_total chg = tc).
  { intros chg' f' H'. apply simple_facts in H' as (-> & E & F); auto. repeat split; auto; lia. }
  destruct (tc <? threshold c) eqn:Et.
  - destruct (dust_act c) eqn:Ea.
    + destruct (tc =? 0) eqn:E0.
      * apply S in H as (? & ? & ? & ? & ?). repeat split; auto; lia.
      * destruct (A.zat_sub _ tc); [|discriminate]. apply bind_ok in H as (? & _ & H). discriminate.
    + apply S in H as (? & ? & ? & ? & ?). repeat split; auto; discriminate.
    + apply bind_ok in H as (fwd & E1 & H). apply or_overflow_ok in E1. apply zat_add_some in E1.
      apply bind_ok in H as (ten & _ & H). apply bind_ok in H as (rf & _ & H).
      destruct (rf <? fwd).
      * apply S in H as (? & ? & ? & ? & ?). repeat split; auto; discriminate.
      * destruct cm.
        -- destruct wt; [specialize (Hw eq_refl); discriminate|].
           inversion H; subst. split; [lia|]. split; [|split; [cbn; lia | discriminate]].
           constructor; [|constructor]. split; [eauto|cbn; lia].
        -- inversion H; subst. split; [lia|]. split; [constructor|]. split; [cbn; lia | discriminate].
  - apply S in H as (? & ? & ? & ? & ?). repeat split; auto; lia.
Qed.

Definition rule_pos (c : config) : Prop := 0 <= marginal (rule c) /\ 0 < p_in (rule c) /\ 0 < p_out (rule c).

Lemma m_zero_le_for_pool p n : 0 <= n -> m_le M_ZERO (for_pool p n).
Proof. unfold m_le, M_ZERO, for_pool. cbn. destruct p; cbn; lia. Qed.
Lemma m_zero_nonneg : m_nonneg M_ZERO. Proof. unfold m_nonneg, M_ZERO; cbn; lia. Qed.

Lemma core_facts x c sin wt ft cm p tcc tcs ti so mf towmf chg f :
  core_change x c sin wt ft cm p tcc tcs ti so mf towmf = Ok (chg, f) ->
  rule_pos c -> (wt = true -> cm = false) -> 0 <= ti <= A.MAX_MONEY ->
  fee_for x c sin M_ZERO false = Ok mf ->
  mf <= f /\ Forall (elem_ok wt p) chg /\
  (dust_act c = Reject -> change_total chg = 0 \/ threshold c <= change_total chg).
Proof.
  unfold core_change. intros H (Rm & Rpi & Rpo) Hw Hti Hmf.
  destruct (ti <? towmf); [discriminate|].
  destruct ((ti =? towmf) && ft) eqn:E.
  - inversion H; subst. split; [lia|]. split; [constructor|]. intros _. left. reflexivity.
  - apply bind_ok in H as (f2 & _ & H). apply bind_ok in H as (towmx & _ & H).
    apply bind_ok in H as (split & Es & H). apply split_of_ge1 in Es.
    apply bind_ok in H as (tf & Etf & H).
    assert (mf <= tf).
    { destruct (split <? tcc); [|inversion Etf; lia].
      eapply (fee_for_mono x c sin M_ZERO (for_pool p split) false false); eauto.
      - apply m_zero_nonneg.
      - apply m_zero_le_for_pool; lia. }
    apply bind_ok in H as (tout & Eo & H). apply or_overflow_ok in Eo. apply zat_add_some in Eo.
    destruct (A.zat_sub ti tout) as [tc|] eqn:Et; [|discriminate]. apply zat_sub_some in Et.
    apply dust_facts in H as (? & ? & ? & R); try lia; auto.
    split; [lia|]. split; [assumption|]. intros Hr. destruct (R Hr) as (? & ? & ?). lia.
Qed.

Lemma elem_not_eph wt p chg : Forall (elem_ok wt p) chg -> real_change chg = chg.
Proof.
  induction 1 as [|v l [Hv _] _ IH]; [reflexivity|]. unfold real_change in *. cbn [filter].
  destruct wt; [destruct Hv as (n & ->) | destruct Hv as (n & m & ->)]; cbn; f_equal; exact IH.
Qed.
Lemma real_change_app a b : real_change (a ++ b) = real_change a ++ real_change b.
Proof. unfold real_change. apply filter_app. Qed.
Lemma real_change_eph c : real_change (eph_list c) = [].
Proof. unfold eph_list. destruct (eph_out_amount (ephemeral c)); reflexivity. Qed.

(** what every successful run establishes, gathered once *)
Lemma compute_ok_facts x c b : compute_balance x c = Ok b -> rule_pos c ->
  exists nf ti so sin mf towmf tcc chg,
    stages x c nf ti so sin mf towmf tcc /\ flows_spec x (ephemeral c) nf /\
    change b = chg ++ eph_list c /\ real_change (change b) = chg /\
    Forall (elem_ok (wt_of c nf) (pool_of c nf ti towmf)) chg /\
    mf <= fee b /\ change_total chg + fee b = ti - so /\ towmf = so + mf /\ towmf <= ti /\
    0 <= ti <= A.MAX_MONEY /\
    (dust_act c = Reject -> change_total chg = 0 \/ threshold c <= change_total chg).
Proof.
  intros H Rp. apply compute_ok_inv in H as (nf & ti & so & sin & mf & towmf & tcc & [chg f] & St & Hc & Hf).
  pose proof St as St'. destruct St' as [Snf Sti Sso Ssin Smf Stow Stcc]. cbn [fst snd] in Hf.
  pose proof (flows_ok _ _ _ Snf) as FS.
  apply total_in_ok in Sti. apply zat_add_some in Stow.
  apply finish_ok in Hf as (Hch & Hfee & _ & _ & _).
  unfold core_of in Hc.
  assert (Hw : wt_of c nf = true -> memo c && negb (eph_is_in (ephemeral c)) = false).
  { unfold wt_of, ft_of. intros W. destruct (memo c && negb (eph_is_in (ephemeral c))); [|reflexivity].
    rewrite andb_false_r in W. discriminate. }
  pose proof (core_conserve _ _ _ _ _ _ _ _ _ _ _ _ _ _ _ Hc ltac:(lia) ltac:(lia)) as Cons.
  assert (towmf <= ti).
  { unfold core_change in Hc. destruct (ti <? towmf) eqn:E; [discriminate|lia]. }
  apply core_facts in Hc as (Hmf & Fe & Rj); auto; try lia.
  assert (RC : real_change (change b) = chg).
  { rewrite Hch, real_change_app, real_change_eph, app_nil_r. eapply elem_not_eph; eauto. }
  exists nf, ti, so, sin, mf, towmf, tcc, chg. rewrite Hfee.
  split; [exact St|]. split; [exact FS|].
  repeat split; auto; try lia.
Qed.

Theorem no_dust_change x c b : compute_balance x c = Ok b -> rule_pos c -> no_dust_total c b = true.
Proof.
  intros H Rp. apply compute_ok_facts in H as (nf & ti & so & sin & mf & towmf & tcc & chg & _ & _ & _ & Hr & _ & _ & _ & _ & _ & _ & Rj); auto.
  unfold no_dust_total, is_reject. rewrite Hr. destruct (dust_act c); cbn [negb orb]; try reflexivity.
  destruct (Rj eq_refl); lia.
Qed.

Lemma pool_change_total_le wt p chg q : Forall (elem_ok wt p) chg ->
  0 <= change_total (pool_change q chg) <= change_total chg.
Proof.
  unfold pool_change, change_total. induction 1 as [|v l [_ Hv] _ IH]; cbn [filter map zsum fold_right]; [lia|].
  fold (zsum (map cv_value l)). destruct (is_pool_cv q v); cbn [map zsum fold_right]; fold (zsum (map cv_value (filter (is_pool_cv q) l))); lia.
Qed.
Lemma pool_change_nonempty wt p chg q : Forall (elem_ok wt p) chg -> pool_change q chg <> [] -> wt = false /\ p = q.
Proof.
  unfold pool_change. induction 1 as [|v l [Hv _] _ IH]; cbn [filter]; [congruence|].
  destruct (is_pool_cv q v) eqn:E; [|exact IH]. intros _.
  destruct wt; [destruct Hv as (n & ->); discriminate|]. destruct Hv as (n & m & ->). cbn in E.
  split; [reflexivity|]. destruct q, p; cbn in E; congruence.
Qed.
Lemma pool_change_app q a b : pool_change q (a ++ b) = pool_change q a ++ pool_change q b.
Proof. apply filter_app. Qed.
Lemma pool_change_eph q c : pool_change q (eph_list c) = [].
Proof. unfold eph_list. destruct (eph_out_amount (ephemeral c)); reflexivity. Qed.

Theorem orchard_turnstile x c b : compute_balance x c = Ok b -> rule_pos c -> turnstile x c b = true.
Proof.
  intros H Rp. apply compute_ok_facts in H as (nf & ti & so & sin & mf & towmf & tcc & chg & St & FS & Hch & _ & Fe & Hmf & Cons & Ht & Hle & Hti & _); auto.
  unfold turnstile. destruct (nu6_3_active c) eqn:Nu; [|reflexivity]. cbn [negb orb].
  rewrite Hch, pool_change_app, pool_change_eph, app_nil_r.
  pose proof (pool_change_total_le _ _ _ Orchard Fe) as B.
  destruct (pool_change Orchard chg) as [|v l] eqn:Epc.
  - cbn [is_nil orb andb]. unfold change_total. cbn [map zsum fold_right].
    destruct FS as [_ _ _ _ Foi _ _ _ Frng]. destruct Frng as (_ & _ & _ & _ & ? & _).
    destruct (o_out x); cbn [is_nil negb orb]; [|reflexivity]. cbn [zsum fold_right]. lia.
  - assert (Hne : pool_change Orchard chg <> []) by (rewrite Epc; discriminate).
    apply (pool_change_nonempty _ _ _ _ Fe) in Hne as (_ & Hp).
    unfold pool_of, select_change_pool in Hp. rewrite Nu in Hp. cbn [andb] in Hp.
    pose proof (zat_add_some _ _ _ (st_towmf _ _ _ _ _ _ _ _ _ St)) as Rtow.
    rewrite (zat_sub_total ti towmf) in Hp by lia.
    destruct FS as [_ _ _ _ Foi _ _ _ Frng]. rewrite Foi in Hp.
    match type of Hp with (if ?cnd then _ else ?pref) = _ => destruct cnd eqn:Ec; [discriminate|]; destruct (pool_eqb pref Orchard) eqn:Ep end.
    2:{ rewrite Hp in Ep. discriminate. }
    cbn [andb] in Ec. unfold pos in Ec.
    cbn [is_nil orb]. rewrite <- Epc.
    rewrite <- Epc in B. assert (change_total (pool_change Orchard chg) < zsum (o_in x)) by lia.
    destruct (o_out x); cbn [is_nil negb orb]; cbn [zsum fold_right]; lia.
Qed.
