(** C07 — property theorems only; each closed by [exact] of a lemma proved in
    Proofs.v / FeeMono.v / Balance.v / Balance2.v, audited by Print Assumptions. *)
From V.Lib Require Import Base MachInt.
From V.Gen Require Import C07Consts.
From V.C07 Require Import Model Spec Corr Wf Proofs Inv Balance FeeMono Balance2 Refuse Dust FeeShape Exact Uneconomic NoPanic Valid Bridge.
Local Open Scope Z_scope.

(** [FeeRule::fee_required] returns marginal * max(grace, logical actions) — the ZIP 317 formula
    over ceil(tin/p_in), ceil(tout/p_out), max(sapling in, out), orchard and ironwood actions —
    [UnknownP2shInputs] (all unknown outpoints, in order) if any input size is unknown, and
    [Balance(Overflow)] iff the product exceeds MAX_MONEY; for every rule with non-zero standard
    sizes and all arguments for which the usize action count does not overflow. *)
Theorem C07_fee_rule_formula : forall fr tins touts sin sout orch iron,
  rule_ok fr -> Forall tsize_nonneg tins -> Forall (fun v => 0 <= v) touts ->
  0 <= sin -> 0 <= sout -> 0 <= orch -> 0 <= iron ->
  fee_args_fit fr tins touts sin sout orch iron ->
  fee_required fr tins touts sin sout orch iron = fee_required_spec fr tins touts sin sout orch iron.
Proof. exact fee_required_formula. Qed.

(** Whenever [fee_required] returns a fee it is the formula value (no size hypotheses at all). *)
Theorem C07_fee_rule_ok_is_formula : forall fr tins touts sin sout orch iron f,
  0 < p_in fr -> 0 < p_out fr ->
  fee_required fr tins touts sin sout orch iron = Ok f ->
  f = zip317_fee fr (zsum (map known_size tins)) (zsum touts) sin sout orch iron /\ 0 <= f <= A.MAX_MONEY.
Proof. exact fee_required_ok. Qed.

(** One fee evaluation of the change computation is the formula over the builders' padded
    counts, and it never decreases when change outputs are added. *)
Theorem C07_fee_monotone_in_change : forall x c sin a b ea eb fa fb,
  0 <= marginal (rule c) -> 0 < p_in (rule c) -> 0 < p_out (rule c) ->
  m_nonneg a -> m_le a b -> (ea = true -> eb = true) ->
  fee_for x c sin a ea = Ok fa -> fee_for x c sin b eb = Ok fb -> fa <= fb.
Proof. exact fee_for_mono. Qed.

(** Conservation: inputs = payments + proposed change (incl. ephemeral output) + fee, exactly,
    and the cached total is change + fee.  For every input, configuration and strategy. *)
Theorem C07_conservation : forall x c b, compute_balance x c = Ok b -> conserves x c b = true.
Proof. exact conservation. Qed.

(** The recorded dummy-output counts are those of the builders' padding rules applied to the
    final change list (what C14's builder reads back). *)
Theorem C07_dummy_counts_match_builder : forall x c b, compute_balance x c = Ok b ->
  dummies_match x c (change b) (dummies b) = true.
Proof. exact dummy_counts_match_builder. Qed.

(** Reject policy: the change proper is zero-valued or, in total, at least the dust threshold. *)
Theorem C07_no_dust_change_total : forall x c b, compute_balance x c = Ok b -> rule_pos c ->
  no_dust_total c b = true.
Proof. exact no_dust_change. Qed.

(** After NU6.3: change returned to Orchard is worth strictly less than the Orchard notes spent,
    and with no Orchard payments requested the Orchard pool does not gain value. *)
Theorem C07_orchard_turnstile : forall x c b, compute_balance x c = Ok b -> rule_pos c ->
  turnstile x c b = true.
Proof. exact orchard_turnstile. Qed.

(** The fee returned is never below the change-less minimum fee, the change proper sits in one
    pool (or is one transparent output), and nothing is negative. *)
Theorem C07_balance_structure : forall x c b, compute_balance x c = Ok b -> rule_pos c ->
  exists nf ti so sin mf towmf tcc chg,
    stages x c nf ti so sin mf towmf tcc /\ flows_spec x (ephemeral c) nf /\
    change b = chg ++ eph_list c /\ real_change (change b) = chg /\
    Forall (elem_ok (wt_of c nf) (pool_of c nf ti towmf)) chg /\
    mf <= fee b /\ change_total chg + fee b = ti - so /\ towmf = so + mf /\ towmf <= ti /\
    0 <= ti <= A.MAX_MONEY /\
    (dust_act c = Reject -> change_total chg = 0 \/ threshold c <= change_total chg).
Proof. exact compute_ok_facts. Qed.

(** The fee is at least the ZIP 317 fee of the final transaction shape: the requested inputs and
    outputs, the change actually proposed (ephemeral output included) and the dummy outputs the
    balance records. *)
Theorem C07_fee_at_least_final_shape : forall x c b, compute_balance x c = Ok b -> rule_pos c ->
  fee_at_least x c b = true.
Proof. exact fee_at_least_shape. Qed.

(** ... and at least the ZIP 317 fee of the change-less shape, itself >= marginal * grace. *)
Theorem C07_fee_at_least_changeless : forall x c b, compute_balance x c = Ok b -> rule_pos c ->
  exists f0, changeless_fee x c = Some f0 /\ f0 <= fee b /\ marginal (rule c) * grace (rule c) <= f0.
Proof. exact fee_at_least_changeless. Qed.

(** A refusal for lack of funds is truthful: [available] is the input total, it is below
    [required], and [required] is at least payments + the change-less ZIP 317 fee. *)
Theorem C07_insufficient_is_true : forall x c a r,
  compute_balance x c = Err (InsufficientFunds a r) -> rule_pos c ->
  insufficient_truthful x c a r = true.
Proof. exact insufficient_is_true. Qed.

(** Reject policy, per output, outside the known-finding class (split minimum >= threshold, or the
    single-output strategy): every change output is zero-valued or at least the dust threshold. *)
Theorem C07_no_dust_change_each_guarded : forall x c b, compute_balance x c = Ok b -> rule_pos c ->
  split_guard c -> no_dust_each c b = true.
Proof. exact no_dust_each_guarded. Qed.

(** The guard is necessary (known finding C07-split-change-below-dust-threshold). *)
Theorem C07_no_dust_change_each_refuted : exists x c b,
  compute_balance x c = Ok b /\ dust_act c = Reject /\ rule_pos c /\
  no_dust_total c b = true /\ no_dust_each c b = false.
Proof. exact no_dust_each_refuted. Qed.

(** The fee EQUALS the ZIP 317 fee of the final shape, unless (a) AddDustToFee folded the dust
    into it (then the change proper is empty or one zero-valued memo carrier), or (b) transparent
    change was costed, came out zero and was omitted (then the fee is exactly the fee of the shape
    with that one extra 34-byte output).  This is the boolean [prop_case] evaluates. *)
Theorem C07_fee_exact_unless : forall x c b, compute_balance x c = Ok b -> rule_pos c ->
  fee_exact_unless x c b = true.
Proof. exact fee_exact_unless_holds. Qed.

(** Every proposed change value and the fee are valid amounts. *)
Theorem C07_change_valid : forall x c b, compute_balance x c = Ok b -> rule_pos c -> eph_valid c ->
  change_valid b = true.
Proof. exact change_valid_holds. Qed.

(** No panic: valid amounts, lengths/sizes/counts at most 2^31, the standard rule, and wallet
    metadata whose pool totals fit MAX_MONEY => none of the unwrap/expect/assert!/overflow sites
    of the model is reached. *)
Theorem C07_no_panic : forall x c, wf_tx x = true -> wf_cfg c = true -> meta_ok c = true ->
  compute_balance x c <> Panic.
Proof. exact no_panic. Qed.

(** [check_for_uneconomic_inputs]: the positions [dust_ids] are exactly the inputs worth at most
    the marginal fee, and a DustInputs refusal reports, per pool, the tail of that list beyond the
    allowed count; in particular every reported input exists and is worth at most the marginal
    fee, and the report is non-empty. *)
Theorem C07_dust_positions_exact : forall mf l i0 id,
  In id (dust_ids mf i0 l) <-> (i0 <= id < i0 + len l /\ nth (Z.to_nat (id - i0)) l (mf + 1) <= mf).
Proof. exact dust_ids_spec. Qed.
Theorem C07_uneconomic_report : forall x c pc t s o i,
  check_for_uneconomic_inputs x c pc = Err (DustInputs t s o i) ->
  let mf := marginal (rule c) in
  let td := dust_ids mf 0 (map fst (t_in x)) in let sd := dust_ids mf 0 (s_in x) in
  let od := dust_ids mf 0 (o_in x) in let id_ := dust_ids mf 0 (i_in x) in
  exists (a0 : manifest) (rest : list manifest),
    collect_allowed x c td sd od id_
      (len (t_in x) + b2z (eph_is_in (ephemeral c)) - len td) (len (s_in x) - len sd)
      (len (o_in x) - len od) (len (i_in x) - len id_)
      (len (t_out x) + b2z (eph_is_out (ephemeral c))) pc = Ok (a0 :: rest) /\
    let a := fold_left manifest_min rest a0 in
    t = skipn (Z.to_nat (m_t a)) td /\ s = skipn (Z.to_nat (m_s a)) sd /\
    o = skipn (Z.to_nat (m_o a)) od /\ i = skipn (Z.to_nat (m_i a)) id_ /\
    all_nil t s o i = false.
Proof. exact check_dust_inv. Qed.
(** never more inputs are kept than there are dust inputs *)
Theorem C07_uneconomic_allowed_bounds : forall x c td sd od id_ tn sn on_ in_ tol m a,
  allowed_dust x c td sd od id_ tn sn on_ in_ tol m = Ok a ->
  m_t a <= len td /\ m_s a <= len sd /\ m_o a <= len od /\ m_i a <= len id_.
Proof. exact allowed_bounds. Qed.
(** a DustInputs refusal of [compute_balance] is truthful *)
Theorem C07_dust_inputs_truthful : forall x c t s o i,
  compute_balance x c = Err (DustInputs t s o i) -> dust_truthful x c t s o i = true.
Proof. exact compute_dust_truthful. Qed.

(** Bridge: agreement with the model implies the property on the implementation's outcome. *)
Theorem C07_agree_implies_property : forall k,
  wf_case k = true -> known_class k = 0%N -> run_case k = true -> prop_case k = true.
Proof. exact agree_implies_property. Qed.

(** Non-vacuity: the model produces balances, refusals and the repaired crossing case. *)
Example C07_nonvacuous :
  compute_balance
    (Build_txin [] [] (STx false) [55000] [40000] OrchardV2 [] [] IronwoodV3 [] [])
    (Build_config standard_rule Single Reject None Sapling false false None (LocalNet None) 10 1 144)
  = Ok (Build_balance [CShielded Sapling 5000 false] 10000 15000 (0, 0, 0))
  /\ fee_required standard_rule [Known 150; Known 150] [34; 34; 34] 0 0 2 1 = Ok 30000
  /\ rule_ok standard_rule.
Proof. split; [vm_compute; reflexivity|]. split; [vm_compute; reflexivity|]. unfold rule_ok, standard_rule; cbn [marginal grace p_in p_out]. rewrite usize_val. unfold MARGINAL_FEE, GRACE_ACTIONS, P2PKH_STANDARD_INPUT_SIZE, P2PKH_STANDARD_OUTPUT_SIZE. lia. Qed.
