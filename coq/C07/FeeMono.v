(** C07 — what an [Ok] fee evaluation returns (the ZIP 317 formula over the builders' padded
    counts), and its monotonicity in the change manifest. *)
From V.Lib Require Import Base MachInt.
From V.Gen Require Import C07Consts.
From V.C07 Require Import Model Spec Proofs Inv.
From Coq Require Import ZifyBool.
Local Open Scope Z_scope.

Lemma tin_loop_inv l : forall acc unk t u, 0 <= acc -> tin_loop acc unk l = Some (t, u) ->
  t = acc + zsum (map known_size l) /\ 0 <= t /\ u = rev unk ++ unknown_ids l.
Proof.
  induction l as [|s r IH]; intros acc unk t u Ha H; cbn [tin_loop] in H.
  - inversion H; subst. cbn. rewrite app_nil_r. repeat split; lia.
  - destruct s as [n|id].
    + destruct (usize_add acc n) as [a|] eqn:E; [|discriminate]. apply usize_add_inv in E.
      apply IH in H as (? & ? & ?); [|lia]. cbn [map zsum fold_right known_size unknown_ids flat_map app].
      fold (zsum (map known_size r)). repeat split; try lia. assumption.
    + apply IH in H as (? & ? & ?); [|lia]. cbn [map zsum fold_right known_size unknown_ids flat_map app].
      fold (zsum (map known_size r)). repeat split; try lia. subst u. cbn [rev]. rewrite <- app_assoc. reflexivity.
Qed.
Lemma usize_sum_inv l : forall acc s, 0 <= acc -> usize_sum acc l = Some s -> s = acc + zsum l /\ 0 <= s.
Proof.
  induction l as [|x r IH]; intros acc s Ha H; cbn [usize_sum] in H.
  - inversion H; subst. cbn. lia.
  - destruct (usize_add acc x) as [a|] eqn:E; [|discriminate]. apply usize_add_inv in E.
    apply IH in H; [|lia]. cbn [zsum fold_right]. fold (zsum r). lia.
Qed.

Lemma zat_mul_usize_some m n f : A.zat_mul_usize m n = Some f -> f = m * n /\ 0 <= f <= A.MAX_MONEY.
Proof.
  unfold A.zat_mul_usize, A.zat_mul_u64, u64_checked, checked.
  destruct (in_range 0 u64_max n); [|discriminate].
  destruct (in_range 0 u64_max (m * n)); [|discriminate].
  intros H. apply zat_from_u64_some in H. lia.
Qed.

Lemma fee_required_ok fr tins touts sin sout orch iron f :
  0 < p_in fr -> 0 < p_out fr ->
  fee_required fr tins touts sin sout orch iron = Ok f ->
  f = zip317_fee fr (zsum (map known_size tins)) (zsum touts) sin sout orch iron
  /\ 0 <= f <= A.MAX_MONEY.
Proof.
  intros Hpi Hpo. unfold fee_required.
  destruct (tin_loop 0 [] tins) as [[t u]|] eqn:E1; [|discriminate].
  apply tin_loop_inv in E1 as (Et & Ht & Eu); [|lia].
  destruct u; [|discriminate].
  destruct (usize_sum 0 touts) as [to|] eqn:E2; [|discriminate]. apply usize_sum_inv in E2 as (Eto & Hto); [|lia].
  replace ((p_in fr =? 0) || (p_out fr =? 0)) with false by lia.
  destruct (usize_add _ (Z.max sin sout)) as [l1|] eqn:E3; [|discriminate]. apply usize_add_inv in E3.
  destruct (usize_add l1 orch) as [l2|] eqn:E4; [|discriminate]. apply usize_add_inv in E4.
  destruct (usize_add l2 iron) as [l3|] eqn:E5; [|discriminate]. apply usize_add_inv in E5.
  destruct (A.zat_mul_usize _ _) as [v|] eqn:E6; [|discriminate]. apply zat_mul_usize_some in E6.
  intros H; inversion H; subst f; clear H.
  rewrite !div_ceil_cdiv in E3 by lia.
  unfold zip317_fee, logical_actions. split; [|lia].
  replace (zsum (map known_size tins)) with t by lia. replace (zsum touts) with to by lia.
  destruct E6 as [E6 _]. rewrite E6. f_equal. f_equal. lia.
Qed.

(** * Padding rules are monotone in the number of outputs *)
Lemma num_outputs_mono bt rs a b va vb : a <= b -> 0 <= a ->
  num_outputs bt rs a = Some va -> num_outputs bt rs b = Some vb -> va <= vb.
Proof.
  unfold num_outputs. destruct bt as [br|].
  - intros Hab Ha H1 H2. inversion H1; inversion H2; subst; clear H1 H2.
    destruct br; cbn [orb]; [lia|].
    destruct (0 <? rs); cbn [orb]; [lia|]. destruct (0 <? a) eqn:E1, (0 <? b) eqn:E2; lia.
  - destruct (rs =? 0); [|discriminate]. intros ? ? H1 H2; inversion H1; inversion H2; lia.
Qed.

Definition pad_le (p q : padding) : Prop :=
  fst p = fst q /\ (match snd p with Some a => a | None => ORCHARD_DEFAULT_MIN_ACTIONS end)
                   <= (match snd q with Some a => a | None => ORCHARD_DEFAULT_MIN_ACTIONS end).

Lemma num_actions_mono p q v ns a b va vb : pad_le p q -> a <= b -> 0 <= ns -> 0 <= a ->
  num_actions p v ns a = Some va -> num_actions q v ns b = Some vb -> va <= vb.
Proof.
  unfold num_actions, pad_le. destruct p as [br pm], q as [br' qm]. cbn [fst snd].
  intros (-> & Hm) Hab Hns Ha.
  destruct (cross_enabled v).
  - intros H1 H2; inversion H1; inversion H2; subst; clear H1 H2.
    destruct br'; cbn [orb]; [lia|].
    destruct (0 <? Z.max ns a) eqn:E1, (0 <? Z.max ns b) eqn:E2; lia.
  - destruct (usize_add ns a) as [ra|] eqn:E1; [|discriminate]. destruct (usize_add ns b) as [rb|] eqn:E2; [|discriminate].
    apply usize_add_inv in E1, E2.
    intros H1 H2; inversion H1; inversion H2; subst; clear H1 H2.
    destruct br'; cbn [orb]; [lia|].
    destruct (0 <? ra) eqn:F1, (0 <? rb) eqn:F2; lia.
Qed.

Lemma pad_le_refl p : pad_le p p. Proof. split; [reflexivity|lia]. Qed.
Lemma pad_unpadded_default : pad_le PAD_UNPADDED PAD_DEFAULT.
Proof. split; [reflexivity|]. cbn. unfold ORCHARD_DEFAULT_MIN_ACTIONS. lia. Qed.

Definition m_nonneg (m : manifest) : Prop := 0 <= m_t m /\ 0 <= m_s m /\ 0 <= m_o m /\ 0 <= m_i m.
Definition m_le (a b : manifest) : Prop := m_t a <= m_t b /\ m_s a <= m_s b /\ m_o a <= m_o b /\ m_i a <= m_i b.

(** the crossing test only gets harder with more change *)
Lemma canonical_antimono x c a b : m_nonneg a -> m_le a b ->
  ironwood_is_canonical_crossing x c b = true -> ironwood_is_canonical_crossing x c a = true.
Proof. unfold ironwood_is_canonical_crossing, m_nonneg, m_le. intros. lia. Qed.

Lemma zsum_snd_nonneg_app l k : zsum (l ++ k) = zsum l + zsum k. Proof. apply zsum_app. Qed.

Lemma len_nonneg {T} (l : list T) : 0 <= len l. Proof. unfold len. lia. Qed.

Lemma zip317_fee_mono fr ti to to' s so so' o o' i i' :
  0 <= marginal fr -> 0 < p_out fr -> to <= to' -> so <= so' -> o <= o' -> i <= i' ->
  zip317_fee fr ti to s so o i <= zip317_fee fr ti to' s so' o' i'.
Proof.
  intros Hm Hp H1 H2 H3 H4. unfold zip317_fee, logical_actions.
  assert (cdiv to (p_out fr) <= cdiv to' (p_out fr)) by (unfold cdiv; apply Z.div_le_mono; lia).
  apply Z.mul_le_mono_nonneg_l; lia.
Qed.

(** Fee of a manifest, as a closed formula. *)
Definition fee_formula (x : txin) (c : config) (sin so oa ia : Z) (extra : bool) : Z :=
  zip317_fee (rule c) (zsum (map known_size (t_input_sizes x (ephemeral c))))
    (zsum (t_output_sizes x (ephemeral c)) + (if extra then P2PKH_STANDARD_OUTPUT_SIZE else 0)) sin so oa ia.

Lemma fee_for_ok x c sin m extra f : 0 < p_in (rule c) -> 0 < p_out (rule c) ->
  fee_for x c sin m extra = Ok f ->
  exists so oa ia,
    num_outputs (s_type x) (len (s_in x)) (len (s_out x) + m_s m) = Some so /\
    num_actions PAD_DEFAULT (o_ver x) (len (o_in x)) (len (o_out x) + m_o m) = Some oa /\
    num_actions (if ironwood_is_canonical_crossing x c m then PAD_UNPADDED else PAD_DEFAULT)
                (i_ver x) (len (i_in x)) (len (i_out x) + m_i m) = Some ia /\
    f = fee_formula x c sin so oa ia extra /\ 0 <= f <= A.MAX_MONEY.
Proof.
  intros Hpi Hpo. unfold fee_for, sapling_output_count, orchard_action_count, ironwood_action_count. intros H.
  apply bind_ok in H as (so & E1 & H). apply or_bundle_ok in E1.
  apply bind_ok in H as (oa & E2 & H). apply or_bundle_ok in E2.
  apply bind_ok in H as (ia & E3 & H). apply or_bundle_ok in E3.
  exists so, oa, ia. repeat split; try assumption;
  destruct (fee_required _ _ _ _ _ _ _) as [v|[|]|] eqn:E; cbn in H; try discriminate;
  inversion H; subst v; apply fee_required_ok in E as (E & R); try assumption; try lia.
  rewrite E. unfold fee_formula. rewrite zsum_app. destruct extra; cbn [zsum fold_right]; f_equal; lia.
Qed.

Theorem fee_for_mono x c sin a b ea eb fa fb :
  0 <= marginal (rule c) -> 0 < p_in (rule c) -> 0 < p_out (rule c) ->
  m_nonneg a -> m_le a b -> (ea = true -> eb = true) ->
  fee_for x c sin a ea = Ok fa -> fee_for x c sin b eb = Ok fb -> fa <= fb.
Proof.
  intros Hm Hpi Hpo Na Lab He Ha Hb.
  apply fee_for_ok in Ha as (so & oa & ia & A1 & A2 & A3 & -> & _); try assumption.
  apply fee_for_ok in Hb as (so' & oa' & ia' & B1 & B2 & B3 & -> & _); try assumption.
  destruct Na as (? & ? & ? & ?), Lab as (? & ? & ? & ?).
  pose proof (len_nonneg (s_out x)). pose proof (len_nonneg (o_out x)). pose proof (len_nonneg (i_out x)).
  pose proof (len_nonneg (o_in x)). pose proof (len_nonneg (i_in x)).
  assert (so <= so') by (eapply num_outputs_mono; [| |exact A1|exact B1]; lia).
  assert (oa <= oa') by (eapply num_actions_mono; [apply pad_le_refl| | | |exact A2|exact B2]; lia).
  assert (ia <= ia').
  { eapply num_actions_mono; [| | | |exact A3|exact B3]; try lia.
    destruct (ironwood_is_canonical_crossing x c b) eqn:Cb.
    - rewrite (canonical_antimono x c a b) by (unfold m_nonneg, m_le; auto). apply pad_le_refl.
    - destruct (ironwood_is_canonical_crossing x c a); [apply pad_unpadded_default | apply pad_le_refl]. }
  unfold fee_formula. apply zip317_fee_mono; try assumption.
  destruct ea, eb; try lia; try (specialize (He eq_refl); discriminate); unfold P2PKH_STANDARD_OUTPUT_SIZE; lia.
Qed.
