(** C07 — every proposed change value and the fee are valid amounts. *)
From V.Lib Require Import Base MachInt.
From V.Gen Require Import C07Consts.
From V.C07 Require Import Model Spec Proofs Inv Balance FeeMono Balance2.
From Coq Require Import ZifyBool.
Local Open Scope Z_scope.

Lemma elem_le_total wt p l : Forall (elem_ok wt p) l -> Forall (fun v => 0 <= cv_value v <= change_total l) l.
Proof.
  induction 1 as [|v r (_ & Hv) Hr IH]; [constructor|].
  assert (0 <= change_total r).
  { clear IH. unfold change_total. induction Hr as [|w r' (_ & Hw) _ IH']; cbn [map zsum fold_right]; [lia|]. fold (zsum (map cv_value r')). lia. }
  unfold change_total in *. cbn [map zsum fold_right]. fold (zsum (map cv_value r)).
  constructor; [lia|]. eapply Forall_impl; [|exact IH]. cbn. intros; lia.
Qed.

Definition eph_valid (c : config) : Prop :=
  match ephemeral c with Some (EphOut v) => 0 <= v <= A.MAX_MONEY | _ => True end.

Theorem change_valid_holds x c b : compute_balance x c = Ok b -> rule_pos c -> eph_valid c -> change_valid b = true.
Proof.
  intros H Rp Ev.
  apply compute_ok_facts in H as (nf & ti & so & sin & mf & towmf & tcc & chg & St & FS & Hch & _ & Fe & Hmf & Cons & Ht & Hle & Hti & _); auto.
  destruct St as [_ _ Sso _ Smf Stow _]. apply total_out_ok in Sso.
  destruct Rp as (Rm & Rpi & Rpo). apply fee_for_ok in Smf as (? & ? & ? & _ & _ & _ & _ & Rmf); auto.
  apply elem_le_total in Fe.
  assert (0 <= change_total chg).
  { destruct chg as [|v r]; [unfold change_total; cbn; lia|]. inversion Fe; subst. lia. }
  unfold change_valid. rewrite <- max_money_eq.
  apply andb_true_intro. split; [apply andb_true_intro; split|]; try lia.
  rewrite Hch. rewrite forallb_app. apply andb_true_intro. split.
  - apply forallb_forall. intros v Hv. rewrite Forall_forall in Fe. specialize (Fe v Hv). lia.
  - unfold eph_list, eph_out_amount, eph_valid in *. destruct (ephemeral c) as [[v|v]|]; cbn [forallb cv_value]; try reflexivity. lia.
Qed.
