(** C07 — the property, stated over unbounded integers and the *observable* result
    (the returned [TransactionBalance] or error), not over the model's intermediate values.

    The only definitions shared with Model.v are its data types and the re-modelled rules of
    the external builders (sapling [num_spends]/[num_outputs], orchard [num_actions], the
    ZIP 318 canonical-denomination test): they define what "the final transaction shape including
    padding" means. *)
From V.Lib Require Import Base MachInt.
From V.Gen Require Import C07Consts.
From V.C07 Require Import Model.
Local Open Scope Z_scope.

Definition zsum (l : list Z) : Z := fold_right Z.add 0 l.

(** ceiling division and the ZIP 317 conventional fee *)
Definition cdiv (n d : Z) : Z := (n + d - 1) / d.
Definition logical_actions (fr : feerule) (tin_bytes tout_bytes sin sout orch iron : Z) : Z :=
  Z.max (cdiv tin_bytes (p_in fr)) (cdiv tout_bytes (p_out fr)) + Z.max sin sout + orch + iron.
Definition zip317_fee (fr : feerule) (tin_bytes tout_bytes sin sout orch iron : Z) : Z :=
  marginal fr * Z.max (grace fr) (logical_actions fr tin_bytes tout_bytes sin sout orch iron).

Definition known_size (s : tsize) : Z := match s with Known n => n | Unknown _ => 0 end.
Definition unknown_ids (l : list tsize) : list Z :=
  flat_map (fun s => match s with Unknown id => [id] | Known _ => [] end) l.

(** What [fee_required] must return when no machine-integer overflow occurs. *)
Definition fee_required_spec (fr : feerule) (tins : list tsize) (touts : list Z)
  (sin sout orch iron : Z) : outcome Z feeerr :=
  match unknown_ids tins with
  | (_ :: _) as u => Err (UnknownP2sh u)
  | [] =>
    let f := zip317_fee fr (zsum (map known_size tins)) (zsum touts) sin sout orch iron in
    if f <=? C07Consts.MAX_MONEY then Ok f else Err (FeeBalance A.Overflow)
  end.

(** no usize overflow anywhere in the action count *)
Definition fee_args_fit (fr : feerule) (tins : list tsize) (touts : list Z) (sin sout orch iron : Z) : Prop :=
  zsum (map known_size tins) <= usize_max /\ zsum touts <= usize_max /\
  logical_actions fr (zsum (map known_size tins)) (zsum touts) sin sout orch iron <= usize_max.
Definition fee_args_fitb (fr : feerule) (tins : list tsize) (touts : list Z) (sin sout orch iron : Z) : bool :=
  (zsum (map known_size tins) <=? usize_max) && (zsum touts <=? usize_max) &&
  (logical_actions fr (zsum (map known_size tins)) (zsum touts) sin sout orch iron <=? usize_max).

(** * The transaction and its balance *)

Definition eph_in_v (c : config) : Z := match ephemeral c with Some (EphIn v) => v | _ => 0 end.
Definition eph_out_v (c : config) : Z := match ephemeral c with Some (EphOut v) => v | _ => 0 end.

Definition total_inputs (x : txin) (c : config) : Z :=
  zsum (map fst (t_in x)) + eph_in_v c + zsum (s_in x) + zsum (o_in x) + zsum (i_in x).
(** requested payments; an ephemeral output is part of the proposed change, not of these *)
Definition payments (x : txin) : Z :=
  zsum (map fst (t_out x)) + zsum (s_out x) + zsum (o_out x) + zsum (i_out x).
Definition change_total (l : list cv) : Z := zsum (map cv_value l).

Definition is_eph (v : cv) : bool := match v with CEphemeral _ => true | _ => false end.
(** change proper (everything but the ephemeral output) *)
Definition real_change (l : list cv) : list cv := filter (fun v => negb (is_eph v)) l.
Definition pool_change (p : pool) (l : list cv) : list cv := filter (is_pool_cv p) l.

(** ** The final shape and its ZIP 317 fee.  [extra_t] = additional 34-byte transparent outputs. *)
Definition tin_bytes (x : txin) (c : config) : Z :=
  zsum (map (fun i => known_size (snd i)) (t_in x))
  + (match ephemeral c with Some (EphIn _) => P2PKH_STANDARD_INPUT_SIZE | _ => 0 end).
Definition tout_bytes (x : txin) (l : list cv) : Z :=
  zsum (map snd (t_out x)) + P2PKH_STANDARD_OUTPUT_SIZE * count_pool is_transparent_cv l.

Definition opt_z (o : option Z) : Z := match o with Some v => v | None => 0 end.

(** Fee of the shape: real outputs plus the dummy outputs the balance reports. *)
Definition shape_fee (x : txin) (c : config) (l : list cv) (d : Z * Z * Z) (extra_t : Z) : Z :=
  let '(sd, od, id_) := d in
  zip317_fee (rule c) (tin_bytes x c) (tout_bytes x l + P2PKH_STANDARD_OUTPUT_SIZE * extra_t)
    (opt_z (num_spends (s_type x) (len (s_in x))))
    (len (s_out x) + count_pool (is_pool_cv Sapling) l + sd)
    (len (o_out x) + count_pool (is_pool_cv Orchard) l + od)
    (len (i_out x) + count_pool (is_pool_cv Ironwood) l + id_).

(** The dummy counts are those of the builders' padding rules applied to the final change. *)
Definition dummies_match (x : txin) (c : config) (l : list cv) (d : Z * Z * Z) : bool :=
  let '(sd, od, id_) := d in
  let fm := final_manifest l in
  match num_outputs (s_type x) (len (s_in x)) (len (s_out x) + m_s fm),
        num_actions PAD_DEFAULT (o_ver x) (len (o_in x)) (len (o_out x) + m_o fm),
        num_actions (if ironwood_is_canonical_crossing x c fm then PAD_UNPADDED else PAD_DEFAULT)
                    (i_ver x) (len (i_in x)) (len (i_out x) + m_i fm) with
  | Some a, Some b, Some e =>
    (sd =? a - (len (s_out x) + m_s fm)) && (od =? b - (len (o_out x) + m_o fm))
    && (id_ =? e - (len (i_out x) + m_i fm)) && (0 <=? sd) && (0 <=? od) && (0 <=? id_)
  | _, _, _ => false
  end.

Definition threshold (c : config) : Z := match dust_thr c with Some t => t | None => marginal (rule c) end.
Definition is_add_dust (c : config) : bool := match dust_act c with AddDustToFee => true | _ => false end.
Definition is_reject (c : config) : bool := match dust_act c with Reject => true | _ => false end.

(** ** Clauses on a returned balance *)

(** inputs = payments + proposed change (incl. the ephemeral output) + fee, exactly;
    and the cached [total] is change + fee *)
Definition conserves (x : txin) (c : config) (b : balance) : bool :=
  (total_inputs x c =? payments x + change_total (change b) + fee b)
  && (total b =? change_total (change b) + fee b).

Definition fee_at_least (x : txin) (c : config) (b : balance) : bool :=
  shape_fee x c (change b) (dummies b) 0 <=? fee b.

(** the documented ways the fee may exceed the exact ZIP 317 fee of the final shape *)
Definition dust_folded (c : config) (b : balance) : bool :=
  is_add_dust c && forallb (fun v => cv_value v =? 0) (real_change (change b))
  && (len (real_change (change b)) <=? 1).
Definition transparent_change_omitted (x : txin) (c : config) (b : balance) : bool :=
  tchange_allowed c && is_nil (real_change (change b))
  && (fee b =? shape_fee x c (change b) (dummies b) 1).
Definition fee_exact_unless (x : txin) (c : config) (b : balance) : bool :=
  (fee b =? shape_fee x c (change b) (dummies b) 0) || dust_folded c b || transparent_change_omitted x c b.

(** Reject policy: the change is zero-valued or reaches the threshold (in total ...) *)
Definition no_dust_total (c : config) (b : balance) : bool :=
  negb (is_reject c)
  || (change_total (real_change (change b)) =? 0)
  || (threshold c <=? change_total (real_change (change b))).
(** ... and per output *)
Definition no_dust_each (c : config) (b : balance) : bool :=
  negb (is_reject c)
  || forallb (fun v => (cv_value v =? 0) || (threshold c <=? cv_value v)) (real_change (change b)).

(** After NU6.3 any change returned to the Orchard pool is worth strictly less than the Orchard
    notes spent; with no Orchard payments requested the pool therefore never gains value. *)
Definition turnstile (x : txin) (c : config) (b : balance) : bool :=
  negb (nu6_3_active c)
  || (let oc := pool_change Orchard (change b) in
      (is_nil oc || (change_total oc <? zsum (o_in x)))
      && (negb (is_nil (o_out x)) || (change_total oc + zsum (o_out x) <=? zsum (o_in x)))).

(** every change output is a valid amount *)
Definition change_valid (b : balance) : bool :=
  forallb (fun v => (0 <=? cv_value v) && (cv_value v <=? C07Consts.MAX_MONEY)) (change b)
  && (0 <=? fee b) && (fee b <=? C07Consts.MAX_MONEY).

Definition balance_ok (x : txin) (c : config) (b : balance) : bool :=
  conserves x c b && fee_at_least x c b && fee_exact_unless x c b && no_dust_total c b
  && turnstile x c b && dummies_match x c (change b) (dummies b) && change_valid b.

(** ** Refusals *)

(** the fee of the change-less shape: the least any strategy could pay *)
Definition changeless_fee (x : txin) (c : config) : option Z :=
  let l := match ephemeral c with Some (EphOut v) => [CEphemeral v] | _ => [] end in
  let fm := final_manifest l in
  match num_outputs (s_type x) (len (s_in x)) (len (s_out x)),
        num_actions PAD_DEFAULT (o_ver x) (len (o_in x)) (len (o_out x)),
        num_actions (if ironwood_is_canonical_crossing x c fm then PAD_UNPADDED else PAD_DEFAULT)
                    (i_ver x) (len (i_in x)) (len (i_out x)) with
  | Some a, Some b, Some e =>
    Some (zip317_fee (rule c) (tin_bytes x c) (tout_bytes x l)
            (opt_z (num_spends (s_type x) (len (s_in x)))) a b e)
  | _, _, _ => None
  end.

(** [available] is the input total, it is less than [required], and [required] is at least the
    payments plus the minimum (change-less) ZIP 317 fee, itself at least marginal * grace. *)
Definition insufficient_truthful (x : txin) (c : config) (a r : Z) : bool :=
  (a =? total_inputs x c) && (a <? r)
  && match changeless_fee x c with
     | Some f => (payments x + eph_out_v c + f <=? r) && (marginal (rule c) * grace (rule c) <=? f)
     | None => false
     end.

(** reported dust inputs exist and are worth at most the marginal fee *)
Definition dust_ids_ok (mf : Z) (vals ids : list Z) : bool :=
  forallb (fun i => (0 <=? i) && (i <? len vals) && (nth (Z.to_nat i) vals (mf + 1) <=? mf)) ids.
Definition dust_truthful (x : txin) (c : config) (t s o i : list Z) : bool :=
  let mf := marginal (rule c) in
  dust_ids_ok mf (map fst (t_in x)) t && dust_ids_ok mf (s_in x) s
  && dust_ids_ok mf (o_in x) o && dust_ids_ok mf (i_in x) i
  && negb (is_nil t && is_nil s && is_nil o && is_nil i).

(** wallet metadata whose pool totals are jointly a valid amount
    ([AccountMeta::total_value] otherwise panics by its own [expect]) *)
Definition meta_ok (c : config) : bool :=
  match strat c with
  | Single => true
  | Multi _ _ wm => zsum (flatten (map (option_map snd) wm)) <=? C07Consts.MAX_MONEY
  end.
