(** C07 — inversion of the model: what an [Ok] / [InsufficientFunds] result of
    [compute_balance] implies about the intermediate values. *)
From V.Lib Require Import Base MachInt.
From V.Gen Require Import C07Consts.
From V.C07 Require Import Model Spec Proofs.
From Coq Require Import ZifyBool.
Local Open Scope Z_scope.

Lemma bind_ok {T U} (x : R T) (f : T -> R U) b : bind x f = Ok b -> exists a, x = Ok a /\ f a = Ok b.
Proof. destruct x; cbn; intros H; try discriminate. eauto. Qed.
Lemma bind_err {T U} (x : R T) (f : T -> R U) e :
  bind x f = Err e -> x = Err e \/ exists a, x = Ok a /\ f a = Err e.
Proof. destruct x; cbn; intros H; try discriminate; [right; eauto | left; congruence]. Qed.

Lemma or_overflow_ok o v : or_overflow o = Ok v -> o = Some v.
Proof. destruct o; cbn; congruence. Qed.
Lemma or_bundle_ok o v : or_bundle o = Ok v -> o = Some v.
Proof. destruct o; cbn; congruence. Qed.
Lemma or_panic_ok {T} (o : option T) v : or_panic o = Ok v -> o = Some v.
Proof. destruct o; cbn; congruence. Qed.
Lemma checked_sub_ok a b v : checked_sub_unwrap a b = Ok v -> v = a - b /\ b <= a.
Proof. unfold checked_sub_unwrap. destruct (a <? b) eqn:E; [discriminate|]. intros H; inversion H. lia. Qed.

(** [clean r]: [r] is not an [InsufficientFunds] error *)
Definition clean {T} (r : R T) : Prop := match r with Err (InsufficientFunds _ _) => False | _ => True end.
Lemma clean_bind {T U} (x : R T) (f : T -> R U) : clean x -> (forall a, clean (f a)) -> clean (bind x f).
Proof. destruct x; cbn; auto. Qed.
Lemma clean_ok {T} (a : T) : clean (Ok a). Proof. exact I. Qed.
Lemma clean_panic {T} : clean (@Panic T cerr). Proof. exact I. Qed.
Lemma clean_or_overflow o : clean (or_overflow o). Proof. destruct o; exact I. Qed.
Lemma clean_or_bundle o : clean (or_bundle o). Proof. destruct o; exact I. Qed.
Lemma clean_or_panic {T} (o : option T) : clean (or_panic o). Proof. destruct o; exact I. Qed.
Lemma clean_of_fee o : clean (of_fee o). Proof. destruct o as [|[|]|]; exact I. Qed.
Lemma clean_csu a b : clean (checked_sub_unwrap a b).
Proof. unfold checked_sub_unwrap. destruct (a <? b); exact I. Qed.
Lemma clean_split_off a l : clean (split_off a l).
Proof. unfold split_off. destruct (len l <? a); exact I. Qed.
Lemma clean_if {T} (b : bool) (x y : R T) : clean x -> clean y -> clean (if b then x else y).
Proof. destruct b; auto. Qed.

Ltac cl :=
  repeat first
    [ apply clean_ok | apply clean_panic | apply clean_or_overflow | apply clean_or_bundle
    | apply clean_or_panic | apply clean_of_fee | apply clean_csu | apply clean_split_off
    | apply clean_bind; [|intros ?] | apply clean_if ].

Lemma clean_flows x e : clean (calculate_net_flows x e).
Proof. unfold calculate_net_flows. cl. Qed.
Lemma clean_fee_for x c sin m b : clean (fee_for x c sin m b).
Proof. unfold fee_for, sapling_output_count, orchard_action_count, ironwood_action_count. cl. Qed.
Lemma clean_tnc wm : clean (total_note_count wm).
Proof. unfold total_note_count. destruct (flatten _); [exact I|]. destruct (reduce_usize _ _); exact I. Qed.
Lemma clean_tv wm : clean (total_value wm).
Proof. unfold total_value. destruct (flatten _); [exact I|]. destruct (reduce_zat _ _); exact I. Qed.
Lemma clean_tcc c w : clean (target_change_count_of c w).
Proof. unfold target_change_count_of. destruct w; [exact I|]. destruct (strat c); [exact I|]. cl. apply clean_tnc. Qed.
Lemma clean_hyp x c tol m a b d e f g h i : clean (hypothetical_actions x c tol m a b d e f g h i).
Proof. unfold hypothetical_actions. cl. Qed.
Lemma clean_allowed x c td sd od id_ tn sn on_ in_ tol m : clean (allowed_dust x c td sd od id_ tn sn on_ in_ tol m).
Proof.
  unfold allowed_dust. apply clean_bind; [apply clean_hyp|intros ?].
  repeat first [ apply clean_ok | apply clean_hyp | apply clean_bind; [|intros ?] | apply clean_if ].
Qed.
Lemma clean_collect x c td sd od id_ tn sn on_ in_ tol l : clean (collect_allowed x c td sd od id_ tn sn on_ in_ tol l).
Proof. induction l; cbn [collect_allowed]; [exact I|]. apply clean_bind; [apply clean_allowed|intros]. apply clean_bind; [exact IHl|intros; exact I]. Qed.
Lemma clean_uneconomic x c pc : clean (check_for_uneconomic_inputs x c pc).
Proof.
  unfold check_for_uneconomic_inputs. apply clean_if; [exact I|].
  cl; try apply clean_collect.
  match goal with |- clean (match ?al with _ => _ end) => destruct al; [exact I|] end.
  cl; exact I.
Qed.
Lemma clean_finish x c chg f : clean (finish x c chg f).
Proof. unfold finish, sapling_output_count, orchard_action_count, ironwood_action_count. cl. Qed.

(** * Net flows *)
Record flows_spec (x : txin) (e : option eph) (nf : flows) : Prop := {
  fs_ti : f_t_in nf = zsum (map fst (t_in x)) + opt_z (eph_in_amount e);
  fs_to : f_t_out nf = zsum (map fst (t_out x)) + opt_z (eph_out_amount e);
  fs_si : f_s_in nf = zsum (s_in x); fs_so : f_s_out nf = zsum (s_out x);
  fs_oi : f_o_in nf = zsum (o_in x); fs_oo : f_o_out nf = zsum (o_out x);
  fs_ii : f_i_in nf = zsum (i_in x); fs_io : f_i_out nf = zsum (i_out x);
  fs_rng : 0 <= f_t_in nf <= A.MAX_MONEY /\ 0 <= f_t_out nf <= A.MAX_MONEY /\
           0 <= f_s_in nf <= A.MAX_MONEY /\ 0 <= f_s_out nf <= A.MAX_MONEY /\
           0 <= f_o_in nf <= A.MAX_MONEY /\ 0 <= f_o_out nf <= A.MAX_MONEY /\
           0 <= f_i_in nf <= A.MAX_MONEY /\ 0 <= f_i_out nf <= A.MAX_MONEY
}.

Lemma zsum_opt_list o : zsum (opt_list o) = opt_z o.
Proof. destruct o; cbn; lia. Qed.

Lemma flows_ok x e nf : calculate_net_flows x e = Ok nf -> flows_spec x e nf.
Proof.
  unfold calculate_net_flows. intros H.
  repeat (apply bind_ok in H; let E := fresh "E" in destruct H as (? & E & H); apply or_overflow_ok in E).
  inversion H; subst; clear H.
  repeat match goal with
         | E : A.zat_sum _ = Some _ |- _ =>
           pose proof (zat_sum_some _ _ E); pose proof (zat_sum_range _ _ E); clear E
         end.
  constructor; cbn [f_t_in f_t_out f_s_in f_s_out f_o_in f_o_out f_i_in f_i_out];
    rewrite ?zsum_app, ?zsum_opt_list in *; try lia.
Qed.

Lemma opt_add_some a b s : opt_add a b = Some s -> exists a', a = Some a' /\ s = a' + b /\ 0 <= s <= A.MAX_MONEY.
Proof. destruct a as [a'|]; cbn; [|discriminate]. intros H. apply zat_add_some in H. eauto. Qed.
Lemma total_in_ok nf t : flows_total_in nf = Some t ->
  t = f_t_in nf + f_s_in nf + f_o_in nf + f_i_in nf /\ 0 <= t <= A.MAX_MONEY.
Proof.
  unfold flows_total_in. intros H.
  apply opt_add_some in H as (a & H & ? & ?). apply opt_add_some in H as (b & H & ? & ?).
  apply zat_add_some in H. lia.
Qed.
Lemma total_out_ok nf t : flows_total_out nf = Some t ->
  t = f_t_out nf + f_s_out nf + f_o_out nf + f_i_out nf /\ 0 <= t <= A.MAX_MONEY.
Proof.
  unfold flows_total_out. intros H.
  apply opt_add_some in H as (a & H & ? & ?). apply opt_add_some in H as (b & H & ? & ?).
  apply zat_add_some in H. lia.
Qed.

(** * Inversion of [compute_balance] *)

Section Inv.
  Variables (x : txin) (c : config).
  Let e := ephemeral c.
  Let cm := memo c && negb (eph_is_in e).

  Record stages (nf : flows) (ti so sin mf towmf tcc : Z) : Prop := {
    st_nf : calculate_net_flows x e = Ok nf;
    st_ti : flows_total_in nf = Some ti;
    st_so : flows_total_out nf = Some so;
    st_sin : num_spends (s_type x) (len (s_in x)) = Some sin;
    st_mf : fee_for x c sin M_ZERO false = Ok mf;
    st_towmf : A.zat_add so mf = Some towmf;
    st_tcc : target_change_count_of c (flows_is_transparent nf && negb cm && tchange_allowed c) = Ok tcc;
  }.

  Definition ft_of (nf : flows) := flows_is_transparent nf && negb cm.
  Definition wt_of (nf : flows) := ft_of nf && tchange_allowed c.
  Definition pool_of (nf : flows) (ti towmf : Z) :=
    select_change_pool nf (fallback c) (nu6_3_active c)
      (match A.zat_sub ti towmf with Some v => v | None => 0 end).
  Definition tc_of (nf : flows) (ti towmf tcc : Z) :=
    if wt_of nf then {| m_t := 1; m_s := 0; m_o := 0; m_i := 0 |} else for_pool (pool_of nf ti towmf) tcc.
  Definition core_of (nf : flows) (ti so sin mf towmf tcc : Z) :=
    core_change x c sin (wt_of nf) (ft_of nf) cm (pool_of nf ti towmf) tcc (tc_of nf ti towmf tcc) ti so mf towmf.

  Lemma compute_ok_inv b : compute_balance x c = Ok b ->
    exists nf ti so sin mf towmf tcc cf,
      stages nf ti so sin mf towmf tcc /\
      core_of nf ti so sin mf towmf tcc = Ok cf /\ finish x c (fst cf) (snd cf) = Ok b.
  Proof.
    unfold compute_balance. cbv zeta. fold e. fold cm. intros H.
    apply bind_ok in H as (nf & E1 & H).
    apply bind_ok in H as (ti & E2 & H). apply or_overflow_ok in E2.
    apply bind_ok in H as (so & E3 & H). apply or_overflow_ok in E3.
    apply bind_ok in H as (sin & E4 & H). apply or_bundle_ok in E4.
    apply bind_ok in H as (mf & E5 & H).
    apply bind_ok in H as (towmf & E6 & H). apply or_overflow_ok in E6.
    apply bind_ok in H as (tcc & E7 & H).
    apply bind_ok in H as (u1 & E8 & H).
    apply bind_ok in H as (u2 & E9 & H).
    apply bind_ok in H as (cf & E10 & H).
    exists nf, ti, so, sin, mf, towmf, tcc, cf. split; [constructor; assumption|]. split; assumption.
  Qed.

  Lemma compute_insuff_inv a r : compute_balance x c = Err (InsufficientFunds a r) ->
    exists nf ti so sin mf towmf tcc,
      stages nf ti so sin mf towmf tcc /\
      core_of nf ti so sin mf towmf tcc = Err (InsufficientFunds a r).
  Proof.
    unfold compute_balance. cbv zeta. fold e. fold cm. intros H.
    apply bind_err in H as [H | (nf & E1 & H)]; [pose proof (clean_flows x e) as C; rewrite H in C; destruct C|].
    apply bind_err in H as [H | (ti & E2 & H)]; [pose proof (clean_or_overflow (flows_total_in nf)) as C; rewrite H in C; destruct C|]. apply or_overflow_ok in E2.
    apply bind_err in H as [H | (so & E3 & H)]; [pose proof (clean_or_overflow (flows_total_out nf)) as C; rewrite H in C; destruct C|]. apply or_overflow_ok in E3.
    apply bind_err in H as [H | (sin & E4 & H)]; [match type of H with ?t = _ => assert (C : clean t) by apply clean_or_bundle end; rewrite H in C; destruct C|]. apply or_bundle_ok in E4.
    apply bind_err in H as [H | (mf & E5 & H)]; [pose proof (clean_fee_for x c sin M_ZERO false) as C; rewrite H in C; destruct C|].
    apply bind_err in H as [H | (towmf & E6 & H)]; [match type of H with ?t = _ => assert (C : clean t) by apply clean_or_overflow end; rewrite H in C; destruct C|]. apply or_overflow_ok in E6.
    apply bind_err in H as [H | (tcc & E7 & H)]; [match type of H with ?t = _ => assert (C : clean t) by apply clean_tcc end; rewrite H in C; destruct C|].
    apply bind_err in H as [H | (u1 & E8 & H)]; [destruct (_ || _) in H; discriminate|].
    apply bind_err in H as [H | (u2 & E9 & H)].
    { match type of H with ?t = _ => assert (C : clean t) end.
      { apply clean_if; [apply clean_uneconomic | exact I]. }
      rewrite H in C; destruct C. }
    apply bind_err in H as [H | (cf & E10 & H)].
    - exists nf, ti, so, sin, mf, towmf, tcc. split; [constructor; assumption | exact H].
    - pose proof (clean_finish x c (fst cf) (snd cf)) as C. rewrite H in C. destruct C.
  Qed.
End Inv.
