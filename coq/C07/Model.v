(** C07 — executable model of the ZIP 317 fee rule
    (zcash_primitives/src/transaction/fees/zip317.rs, [FeeRule::fee_required]) and of the change
    computation of zcash_client_backend/src/fees/common.rs ([single_pool_output_balance],
    [calculate_net_flows], [select_change_pool], [check_for_uneconomic_inputs]) as called by
    [SingleOutputChangeStrategy::compute_balance] and [MultiOutputChangeStrategy::compute_balance]
    (fees/zip317.rs), with [SplitPolicy::split_count], [TransactionBalance::new],
    [AccountMeta::total_note_count/total_value] (fees.rs, data_api.rs).

    Same branches, same order of checks.  Amounts use the operators of the C09 model
    ([A.zat_add] = [Zatoshis + Zatoshis -> Option], ...).  usize arithmetic that the Rust performs
    with plain [+] is modelled with debug semantics ([Panic] on overflow).  [unwrap]/[expect]/
    [assert!] sites are modelled as [Panic] when their condition fails.  External code re-modelled
    here (few lines each): sapling [BundleType::num_spends/num_outputs], orchard
    [BundleType::num_actions], [BundleVersion::default_flags] (cross-address bit),
    [zip318::is_canonical_within], [AnchorBucketInterval::is_boundary], [Parameters::is_nu_active].
    No proofs in this file. *)
From V.Lib Require Import Base MachInt.
From V.Gen Require Import C07Consts.
From V.C09 Require Model.
Module A := V.C09.Model.
Local Open Scope Z_scope.

(** * Types *)

(** [transparent::InputSize]: the outpoint of an [Unknown] is represented by an integer id. *)
Inductive tsize := Known (n : Z) | Unknown (id : Z).

Inductive pool := Sapling | Orchard | Ironwood.
Definition pool_eqb (a b : pool) : bool :=
  match a, b with Sapling, Sapling | Orchard, Orchard | Ironwood, Ironwood => true | _, _ => false end.

Inductive dust_action := Reject | AllowDustChange | AddDustToFee.
Inductive eph := EphIn (v : Z) | EphOut (v : Z).

(** [sapling::builder::BundleType] *)
Inductive sbt := STx (bundle_required : bool) | SCoinbase.
(** [orchard::bundle::BundleVersion] constructors that exist in orchard 0.15.3 *)
Inductive bver := OrchardInsecureV1 | OrchardV2 | OrchardV3 | IronwoodV3.
(** [BundleVersion::permits_cross_address_transfers] = cross-address bit of [default_flags] *)
Definition cross_enabled (v : bver) : bool := match v with OrchardV3 => false | _ => true end.

Record feerule := { marginal : Z; grace : Z; p_in : Z; p_out : Z }.
Definition standard_rule : feerule :=
  {| marginal := MARGINAL_FEE; grace := GRACE_ACTIONS;
     p_in := P2PKH_STANDARD_INPUT_SIZE; p_out := P2PKH_STANDARD_OUTPUT_SIZE |}.

Inductive feeerr := FeeBalance (e : A.berr) | UnknownP2sh (ids : list Z).

(** * [zip317::FeeRule::fee_required] *)

Definition usize_add (a b : Z) : option Z := checked 0 usize_max (a + b).

(** the [for] loop: [t_in_total_size += s] (debug overflow = panic), unknown outpoints collected *)
Fixpoint tin_loop (acc : Z) (unk : list Z) (l : list tsize) : option (Z * list Z) :=
  match l with
  | [] => Some (acc, rev unk)
  | Known s :: r => match usize_add acc s with Some a => tin_loop a unk r | None => None end
  | Unknown id :: r => tin_loop acc (id :: unk) r
  end.

(** [Iterator::sum::<usize>] *)
Fixpoint usize_sum (acc : Z) (l : list Z) : option Z :=
  match l with
  | [] => Some acc
  | x :: r => match usize_add acc x with Some a => usize_sum a r | None => None end
  end.

(** [usize::div_ceil] *)
Definition div_ceil (n d : Z) : Z := if 0 <? n mod d then n / d + 1 else n / d.

Definition fee_required (fr : feerule) (tins : list tsize) (touts : list Z)
  (sin sout orch iron : Z) : outcome Z feeerr :=
  match tin_loop 0 [] tins with
  | None => Panic
  | Some (t_in_total, unk) =>
    match unk with
    | _ :: _ => Err (UnknownP2sh unk)
    | [] =>
      match usize_sum 0 touts with
      | None => Panic
      | Some t_out_total =>
        if (p_in fr =? 0) || (p_out fr =? 0) then Panic else
        match usize_add (Z.max (div_ceil t_in_total (p_in fr)) (div_ceil t_out_total (p_out fr)))
                        (Z.max sin sout) with
        | None => Panic
        | Some l1 =>
          match usize_add l1 orch with
          | None => Panic
          | Some l2 =>
            match usize_add l2 iron with
            | None => Panic
            | Some logical =>
              match A.zat_mul_usize (marginal fr) (Z.max (grace fr) logical) with
              | Some f => Ok f
              | None => Err (FeeBalance A.Overflow)
              end
            end
          end
        end
      end
    end
  end.

(** * Re-modelled external padding rules *)

Definition num_spends (bt : sbt) (req : Z) : option Z :=
  match bt with
  | STx br => Some (if br || (0 <? req) then Z.max req 1 else 0)
  | SCoinbase => if req =? 0 then Some 0 else None
  end.

Definition num_outputs (bt : sbt) (rs ro : Z) : option Z :=
  match bt with
  | STx br => Some (if br || (0 <? rs) || (0 <? ro) then Z.max ro SAPLING_MIN_SHIELDED_OUTPUTS else 0)
  | SCoinbase => if rs =? 0 then Some ro else None
  end.

(** [BundlePadding]: (bundle_required, pad_to_minimum) *)
Definition padding := (bool * option Z)%type.
Definition PAD_DEFAULT : padding := (false, None).
Definition PAD_UNPADDED : padding := (false, Some 1).

(** [orchard_fees::transactional_action_count] = [BundleType::Transactional{..}.num_actions
    (version.default_flags(), ns, no)]; default flags always enable spends and outputs. *)
Definition num_actions (pad : padding) (v : bver) (ns no : Z) : option Z :=
  let '(br, ptm) := pad in
  match (if cross_enabled v then Some (Z.max ns no) else usize_add ns no) with
  | None => None
  | Some req =>
    let m0 := match ptm with Some p => p | None => ORCHARD_DEFAULT_MIN_ACTIONS end in
    let min_actions := if br then Z.max m0 1 else m0 in
    Some (if br || (0 <? req) then Z.max req min_actions else 0)
  end.

(** [zip318::is_canonical_within value MAX_RESIDUAL_VALUE DENOM_CAP] *)
Fixpoint strip_radix (fuel : nat) (n : Z) : Z :=
  match fuel with
  | O => n
  | S f => if n mod DENOMINATION_RADIX =? 0 then strip_radix f (n / DENOMINATION_RADIX) else n
  end.
Definition is_canonical_denomination (v : Z) : bool :=
  if (v <? MAX_RESIDUAL_VALUE) || (DENOM_CAP <? v) then false
  else let n := strip_radix 20 v in (n =? DENOM_A) || (n =? DENOM_B) || (n =? DENOM_C).

(** * Inputs of [compute_balance] *)

Record txin := {
  t_in : list (Z * tsize);          (* transparent inputs: coin value, serialized_size() *)
  t_out : list (Z * Z);             (* transparent outputs: value, serialized_size() *)
  s_type : sbt;
  s_in : list Z; s_out : list Z;
  o_ver : bver; o_in : list Z; o_out : list Z;
  i_ver : bver; i_in : list Z; i_out : list Z;
}.

(** [AccountMeta]: per pool [Option<PoolMeta(note_count, value)>] in the order sapling, orchard, ironwood *)
Definition meta := list (option (Z * Z)).

Inductive strategy :=
| Single
| Multi (target_count : Z) (min_split : option Z) (wm : meta).

Inductive net := MainNet | TestNet | LocalNet (nu6_3 : option Z).
Definition nu6_3_height (n : net) : option Z :=
  match n with MainNet => Some MAIN_NU6_3 | TestNet => Some TEST_NU6_3 | LocalNet h => h end.

Record config := {
  rule : feerule;
  strat : strategy;
  dust_act : dust_action; dust_thr : option Z;
  fallback : pool;
  tchange_allowed : bool;           (* TransparentChangePolicy::TransparentChangeAllowed *)
  memo : bool;                      (* a change memo is configured *)
  ephemeral : option eph;
  network : net; target_height : Z;
  anchor_height : Z; interval : Z;
}.

Inductive cv :=
| CShielded (p : pool) (v : Z) (has_memo : bool)
| CEphemeral (v : Z)
| CTransparent (v : Z).
Definition cv_value (c : cv) : Z := match c with CShielded _ v _ | CEphemeral v | CTransparent v => v end.

Record balance := {
  change : list cv; fee : Z; total : Z;
  dummies : Z * Z * Z;               (* sapling, orchard, ironwood dummy outputs *)
}.

Inductive cerr :=
| InsufficientFunds (available required : Z)
| DustInputs (t s o i : list Z)     (* positions of the inputs within their pool's list *)
| StrategyBalance (e : A.berr)
| StrategyP2sh (ids : list Z)
| BundleError.

Definition R (T : Type) := outcome T cerr.
Definition bind {T U} (x : R T) (f : T -> R U) : R U :=
  match x with Ok a => f a | Err e => Err e | Panic => Panic end.
Notation "'let*' x ':=' e 'in' k" := (bind e (fun x => k)) (at level 200, x pattern, right associativity).

Definition or_overflow (o : option Z) : R Z := match o with Some v => Ok v | None => Err (StrategyBalance A.Overflow) end.
Definition or_bundle (o : option Z) : R Z := match o with Some v => Ok v | None => Err BundleError end.
Definition or_panic {T} (o : option T) : R T := match o with Some v => Ok v | None => Panic end.
Definition of_fee (o : outcome Z feeerr) : R Z :=
  match o with
  | Ok f => Ok f
  | Err (FeeBalance e) => Err (StrategyBalance e)
  | Err (UnknownP2sh ids) => Err (StrategyP2sh ids)
  | Panic => Panic
  end.

Definition len {T} (l : list T) : Z := Z.of_nat (length l).
Definition opt_list (o : option Z) : list Z := match o with Some v => [v] | None => [] end.
Definition b2z (b : bool) : Z := if b then 1 else 0.

Definition eph_in_amount (e : option eph) : option Z := match e with Some (EphIn v) => Some v | _ => None end.
Definition eph_out_amount (e : option eph) : option Z := match e with Some (EphOut v) => Some v | _ => None end.
Definition eph_is_in (e : option eph) : bool := match e with Some (EphIn _) => true | _ => false end.
Definition eph_is_out (e : option eph) : bool := match e with Some (EphOut _) => true | _ => false end.

(** * [NetFlows] *)
Record flows := {
  f_t_in : Z; f_t_out : Z; f_s_in : Z; f_s_out : Z;
  f_o_in : Z; f_o_out : Z; f_i_in : Z; f_i_out : Z;
}.

Definition calculate_net_flows (x : txin) (e : option eph) : R flows :=
  let* ti := or_overflow (A.zat_sum (map fst (t_in x) ++ opt_list (eph_in_amount e))) in
  let* to := or_overflow (A.zat_sum (map fst (t_out x) ++ opt_list (eph_out_amount e))) in
  let* si := or_overflow (A.zat_sum (s_in x)) in
  let* so := or_overflow (A.zat_sum (s_out x)) in
  let* oi := or_overflow (A.zat_sum (o_in x)) in
  let* oo := or_overflow (A.zat_sum (o_out x)) in
  let* ii := or_overflow (A.zat_sum (i_in x)) in
  let* io := or_overflow (A.zat_sum (i_out x)) in
  Ok {| f_t_in := ti; f_t_out := to; f_s_in := si; f_s_out := so;
        f_o_in := oi; f_o_out := oo; f_i_in := ii; f_i_out := io |}.

Definition opt_add (a : option Z) (b : Z) : option Z := A.oopt_lift A.zat_add a b.
Definition flows_total_in (f : flows) : option Z :=
  opt_add (opt_add (A.zat_add (f_t_in f) (f_s_in f)) (f_o_in f)) (f_i_in f).
Definition flows_total_out (f : flows) : option Z :=
  opt_add (opt_add (A.zat_add (f_t_out f) (f_s_out f)) (f_o_out f)) (f_i_out f).
Definition pos (v : Z) : bool := 0 <? v.
Definition flows_is_transparent (f : flows) : bool :=
  negb (pos (f_s_in f) || pos (f_s_out f) || pos (f_o_in f) || pos (f_o_out f)
        || pos (f_i_in f) || pos (f_i_out f)).

Definition select_change_pool (f : flows) (fb : pool) (ironwood_active : bool) (max_change : Z) : pool :=
  let preferred :=
    if pos (f_o_in f) || pos (f_o_out f) then Orchard
    else if pos (f_i_in f) || pos (f_i_out f) then Ironwood
    else if pos (f_s_in f) || pos (f_s_out f) then Sapling
    else fb in
  if ironwood_active && pool_eqb preferred Orchard
     && (negb (pos (f_o_in f)) || (f_o_in f <=? max_change))
  then Ironwood else preferred.

(** * [OutputManifest] *)
Record manifest := { m_t : Z; m_s : Z; m_o : Z; m_i : Z }.
Definition M_ZERO : manifest := {| m_t := 0; m_s := 0; m_o := 0; m_i := 0 |}.
Definition for_pool (p : pool) (count : Z) : manifest :=
  {| m_t := 0;
     m_s := if pool_eqb p Sapling then count else 0;
     m_o := if pool_eqb p Orchard then count else 0;
     m_i := if pool_eqb p Ironwood then count else 0 |}.
Definition total_shielded (m : manifest) : Z := m_s m + m_o m + m_i m.

Definition is_boundary (interval h : Z) : bool := h mod interval =? 0.

(** the closures of [single_pool_output_balance] *)
Definition sapling_output_count (x : txin) (change_count : Z) : R Z :=
  or_bundle (num_outputs (s_type x) (len (s_in x)) (len (s_out x) + change_count)).
Definition orchard_action_count (x : txin) (change_count : Z) : R Z :=
  or_bundle (num_actions PAD_DEFAULT (o_ver x) (len (o_in x)) (len (o_out x) + change_count)).
Definition sole_output_canonical (x : txin) : bool :=
  match i_out x with [v] => is_canonical_denomination v | _ => false end.
Definition ironwood_is_canonical_crossing (x : txin) (c : config) (m : manifest) : bool :=
  (len (o_in x) =? 1) && (len (i_in x) =? 0) && (m_i m =? 0) && (m_o m <=? 1) && (m_s m =? 0)
  && (m_t m =? 0) && negb (eph_is_out (ephemeral c))
  && sole_output_canonical x && is_boundary (interval c) (anchor_height c).
Definition ironwood_action_count (x : txin) (c : config) (m : manifest) : R Z :=
  let pad := if ironwood_is_canonical_crossing x c m then PAD_UNPADDED else PAD_DEFAULT in
  or_bundle (num_actions pad (i_ver x) (len (i_in x)) (len (i_out x) + m_i m)).

Definition t_input_sizes (x : txin) (e : option eph) : list tsize :=
  map snd (t_in x) ++ (match eph_in_amount e with Some _ => [Known (P2PKH_STANDARD_INPUT_SIZE)] | None => [] end).
Definition t_output_sizes (x : txin) (e : option eph) : list Z :=
  map snd (t_out x) ++ (match eph_out_amount e with Some _ => [P2PKH_STANDARD_OUTPUT_SIZE] | None => [] end).

(** one fee evaluation: the three padded counts (in the Rust's argument order), then the rule *)
Definition fee_for (x : txin) (c : config) (sin : Z) (m : manifest) (extra_t_out : bool) : R Z :=
  let* so := sapling_output_count x (m_s m) in
  let* oa := orchard_action_count x (m_o m) in
  let* ia := ironwood_action_count x c m in
  of_fee (fee_required (rule c) (t_input_sizes x (ephemeral c))
            (t_output_sizes x (ephemeral c) ++ (if extra_t_out then [P2PKH_STANDARD_OUTPUT_SIZE] else []))
            sin so oa ia).

(** * [AccountMeta] *)
Fixpoint flatten {T} (l : list (option T)) : list T :=
  match l with [] => [] | Some v :: r => v :: flatten r | None :: r => flatten r end.

(** [.flatten().reduce(|a, b| a + b)] on usize: [Ok None] when every pool is [None]; panic on overflow *)
Fixpoint reduce_usize (acc : Z) (l : list Z) : option Z :=
  match l with [] => Some acc | x :: r => match usize_add acc x with Some a => reduce_usize a r | None => None end end.
Definition total_note_count (wm : meta) : R (option Z) :=
  match flatten (map (option_map fst) wm) with
  | [] => Ok None
  | a :: r => match reduce_usize a r with Some v => Ok (Some v) | None => Panic end
  end.
(** [.reduce(|a, b| (a + b).expect(..))] on Zatoshis *)
Fixpoint reduce_zat (acc : Z) (l : list Z) : option Z :=
  match l with [] => Some acc | x :: r => match A.zat_add acc x with Some a => reduce_zat a r | None => None end end.
Definition total_value (wm : meta) : R (option Z) :=
  match flatten (map (option_map snd) wm) with
  | [] => Ok None
  | a :: r => match reduce_zat a r with Some v => Ok (Some v) | None => Panic end
  end.

Definition usize_sat_sub (a b : Z) : Z := Z.max 0 (a - b).
Definition usize_sat_mul (a b : Z) : Z := Z.min usize_max (a * b).

(** * [SplitPolicy::split_count] *)
Fixpoint split_loop (fuel : nat) (count total_change minv : Z) : Z :=
  match fuel with
  | O => 1
  | S f =>
    if minv <=? total_change / count then count
    else if count - 1 =? 0 then 1
    else split_loop f (count - 1) total_change minv
  end.

Definition split_count (target : Z) (min_split : option Z)
  (existing_notes existing_total : option Z) (total_change : Z) : Z :=
  let c0 := usize_sat_sub target (match existing_notes with Some n => n | None => usize_max end) in
  let count := if c0 =? 0 then 1 else c0 in
  let minv :=
    match min_split with
    | Some v => Some v
    | None =>
      match A.oopt_lift (fun a b => A.zat_add a b) existing_total total_change with
      | Some total => Some (total / usize_sat_mul target 4)
      | None => None
      end
    end in
  match minv with
  | Some mv => split_loop (Z.to_nat count) count total_change mv
  | None => 1
  end.

(** * [check_for_uneconomic_inputs] *)

(** positions (from 0) of the values that are at most the marginal fee *)
Fixpoint dust_ids (mf : Z) (i : Z) (l : list Z) : list Z :=
  match l with
  | [] => []
  | v :: r => if v <=? mf then i :: dust_ids mf (i + 1) r else dust_ids mf (i + 1) r
  end.

(** [Vec::split_off]: panics if [at > len] *)
Definition split_off (at_ : Z) (l : list Z) : R (list Z) :=
  if len l <? at_ then Panic else Ok (skipn (Z.to_nat at_) l).

Definition checked_sub_unwrap (a b : Z) : R Z := if a <? b then Panic else Ok (a - b).

Definition is_nil {T} (l : list T) : bool := match l with [] => true | _ => false end.

Section Uneconomic.
  Variables (x : txin) (c : config).
  Variables (td sd od id_ : list Z).               (* dust positions per pool *)
  Variables (t_non s_non o_non i_non : Z).         (* non-dust input counts *)
  Variables (t_outs_len : Z).

  Definition hypothetical_actions (m : manifest) (t_req s_req o_req i_req : Z)
    (te se oe ie : Z) : R Z :=
    let* s_spend := or_bundle (num_spends (s_type x) (s_req + se)) in
    let* s_outc := or_bundle (num_outputs (s_type x) (s_req + se) (len (s_out x) + m_s m)) in
    let* o_act := or_bundle (num_actions PAD_DEFAULT (o_ver x) (o_req + oe) (len (o_out x) + m_o m)) in
    let canonical := (o_req + oe =? 1) && (i_req + ie =? 0) && (m_i m =? 0)
                     && sole_output_canonical x && is_boundary (interval c) (anchor_height c) in
    let* i_act := or_bundle (num_actions (if canonical then PAD_UNPADDED else PAD_DEFAULT) (i_ver x)
                               (i_req + ie) (len (i_out x) + m_i m)) in
    Ok (Z.max (t_req + te) (t_outs_len + m_t m) + Z.max s_spend s_outc + o_act + i_act).

  Definition allowed_dust (m : manifest) : R manifest :=
    let t_allowed := Z.min (len td) (usize_sat_sub (t_outs_len + m_t m) t_non) in
    let s_allowed := Z.min (len sd) (usize_sat_sub (len (s_out x) + m_s m) s_non) in
    let o_allowed := Z.min (len od) (usize_sat_sub (len (o_out x) + m_o m) o_non) in
    let i_allowed := Z.min (len id_) (usize_sat_sub (len (i_out x) + m_i m) i_non) in
    let t_req := t_non + t_allowed in
    let s_req := s_non + s_allowed in
    let o_req := o_non + o_allowed in
    let i_req := i_non + i_allowed in
    let hyp := hypothetical_actions m t_req s_req o_req i_req in
    let* baseline := hyp 0 0 0 0 in
    let done te se oe ie : R manifest :=
      Ok {| m_t := t_allowed + te; m_s := s_allowed + se; m_o := o_allowed + oe; m_i := i_allowed + ie |} in
    if grace (rule c) <=? baseline then done 0 0 0 0
    else
      let* bt := (if t_allowed <? len td then let* h := hyp 1 0 0 0 in Ok (h <=? baseline) else Ok false) in
      if bt then done 1 0 0 0 else
      let* bs := (if s_allowed <? len sd then let* h := hyp 0 1 0 0 in Ok (h <=? baseline) else Ok false) in
      if bs then done 0 1 0 0 else
      let* bo := (if o_allowed <? len od then let* h := hyp 0 0 1 0 in Ok (h <=? baseline) else Ok false) in
      if bo then done 0 0 1 0 else
      let* bi := (if i_allowed <? len id_ then let* h := hyp 0 0 0 1 in Ok (h <=? baseline) else Ok false) in
      if bi then done 0 0 0 1 else done 0 0 0 0.

  (** [.map(allowed_dust).collect::<Result<Vec<_>,_>>()] *)
  Fixpoint collect_allowed (l : list manifest) : R (list manifest) :=
    match l with
    | [] => Ok []
    | m :: r => let* a := allowed_dust m in let* rest := collect_allowed r in Ok (a :: rest)
    end.
End Uneconomic.

Definition manifest_min (l r : manifest) : manifest :=
  {| m_t := Z.min (m_t l) (m_t r); m_s := Z.min (m_s l) (m_s r);
     m_o := Z.min (m_o l) (m_o r); m_i := Z.min (m_i l) (m_i r) |}.

Definition check_for_uneconomic_inputs (x : txin) (c : config) (possible_change : list manifest) : R unit :=
  let mf := marginal (rule c) in
  let td := dust_ids mf 0 (map fst (t_in x)) in
  let sd := dust_ids mf 0 (s_in x) in
  let od := dust_ids mf 0 (o_in x) in
  let id_ := dust_ids mf 0 (i_in x) in
  if is_nil td && is_nil sd && is_nil od && is_nil id_ then Ok tt else
  let t_inputs_len := len (t_in x) + b2z (eph_is_in (ephemeral c)) in
  let t_outputs_len := len (t_out x) + b2z (eph_is_out (ephemeral c)) in
  let* t_non := checked_sub_unwrap t_inputs_len (len td) in
  let* s_non := checked_sub_unwrap (len (s_in x)) (len sd) in
  let* o_non := checked_sub_unwrap (len (o_in x)) (len od) in
  let* i_non := checked_sub_unwrap (len (i_in x)) (len id_) in
  let* alloweds := collect_allowed x c td sd od id_ t_non s_non o_non i_non t_outputs_len possible_change in
  match alloweds with
  | [] => Panic                                    (* .expect("possible_change is nonempty") *)
  | a0 :: rest =>
    let allowed := fold_left manifest_min rest a0 in
    let* td' := split_off (m_t allowed) td in
    let* sd' := split_off (m_s allowed) sd in
    let* od' := split_off (m_o allowed) od in
    let* id' := split_off (m_i allowed) id_ in
    if is_nil td' && is_nil sd' && is_nil od' && is_nil id' then Ok tt
    else Err (DustInputs td' sd' od' id')
  end.

(** * [single_pool_output_balance] *)

(** shielded change values: remainder on the first output ([.unwrap()] of the checked sum) *)
Fixpoint split_values (n : nat) (first : bool) (q r : Z) : R (list Z) :=
  match n with
  | O => Ok []
  | S n' =>
    let* v := (if first then or_panic (A.zat_add q r) else Ok q) in
    let* rest := split_values n' false q r in
    Ok (v :: rest)
  end.

Definition count_pool (f : cv -> bool) (l : list cv) : Z := len (filter f l).
Definition is_transparent_cv (c : cv) : bool := match c with CShielded _ _ _ => false | _ => true end.
Definition is_pool_cv (p : pool) (c : cv) : bool := match c with CShielded q _ _ => pool_eqb p q | _ => false end.

(** wallet_meta.map_or(1, ..) / the split policy's view of the wallet *)
Definition target_change_count_of (c : config) (wants_t : bool) : R Z :=
  if wants_t then Ok 1 else
  match strat c with
  | Single => Ok 1
  | Multi target _ wm =>
    let* nc := total_note_count wm in
    Ok (Z.max (usize_sat_sub target (match nc with Some n => n | None => usize_max end)) 1)
  end.

Definition split_of (c : config) (wants_t : bool) (proposed : Z) : R Z :=
  if wants_t then Ok 1 else
  match strat c with
  | Single => Ok 1
  | Multi target min_split wm =>
    let* nc := total_note_count wm in
    let* tv := total_value wm in
    Ok (split_count target min_split nc tv proposed)
  end.

Definition simple_case (wants_t : bool) (change_pool : pool) (change_memo : bool)
  (split total_change total_fee : Z) : R (list cv * Z) :=
  let '(q, r) := A.zat_div_with_remainder total_change split in
  if wants_t then
    Ok (if total_change =? 0 then [] else [CTransparent total_change], total_fee)
  else
    let* vs := split_values (Z.to_nat split) true q r in
    Ok (map (fun v => CShielded change_pool v change_memo) vs, total_fee).

(** the arms taken once the balance with the final fee is known *)
Definition dust_decision (c : config) (wants_t : bool) (change_pool : pool) (change_memo : bool)
  (total_in split total_change total_fee : Z) : R (list cv * Z) :=
  let simple := simple_case wants_t change_pool change_memo split total_change total_fee in
  let threshold := match dust_thr c with Some t => t | None => marginal (rule c) end in
  if total_change <? threshold then
    match dust_act c with
    | Reject =>
      if total_change =? 0 then simple
      else
        match A.zat_sub threshold total_change with
        | None => Err (StrategyBalance A.Underflow)
        | Some shortfall =>
          let* req := or_overflow (A.zat_add total_in shortfall) in
          Err (InsufficientFunds total_in req)
        end
    | AllowDustChange => simple
    | AddDustToFee =>
      let* fee_with_dust := or_overflow (A.zat_add total_change total_fee) in
      let* ten := or_panic (A.zat_mul_u64 MINIMUM_FEE REASONABLE_FEE_MULTIPLE) in
      let* reasonable_fee := or_overflow (A.zat_add total_fee ten) in
      if reasonable_fee <? fee_with_dust then simple
      else if change_memo then Ok ([CShielded change_pool 0 true], fee_with_dust)
      else Ok ([], fee_with_dust)
    end
  else simple.

(** the [match total_in.cmp(&total_out_with_min_fee)] *)
Definition core_change (x : txin) (c : config) (sin : Z) (wants_t fully_transparent change_memo : bool)
  (change_pool : pool) (target_change_count : Z) (target_counts : manifest)
  (total_in subtotal_out min_fee total_out_with_min_fee : Z) : R (list cv * Z) :=
  if total_in <? total_out_with_min_fee then
    Err (InsufficientFunds total_in total_out_with_min_fee)
  else if (total_in =? total_out_with_min_fee) && fully_transparent then
    Ok ([], min_fee)
  else
    let* f2 := fee_for x c sin target_counts wants_t in
    let max_fee := Z.max min_fee f2 in
    let* total_out_with_max_fee := or_overflow (A.zat_add subtotal_out max_fee) in
    let* split :=
      split_of c wants_t (match A.zat_sub total_in total_out_with_max_fee with Some v => v | None => 0 end) in
    let* total_fee :=
      (if split <? target_change_count then fee_for x c sin (for_pool change_pool split) false
       else Ok max_fee) in
    let* total_out := or_overflow (A.zat_add subtotal_out total_fee) in
    match A.zat_sub total_in total_out with
    | None => Err (InsufficientFunds total_in total_out)
    | Some total_change =>
      dust_decision c wants_t change_pool change_memo total_in split total_change total_fee
    end.

Definition final_manifest (chg : list cv) : manifest :=
  {| m_t := count_pool is_transparent_cv chg;
     m_s := count_pool (is_pool_cv Sapling) chg;
     m_o := count_pool (is_pool_cv Orchard) chg;
     m_i := count_pool (is_pool_cv Ironwood) chg |}.

(** ephemeral output appended, dummy-output counts recorded, [TransactionBalance::new] *)
Definition finish (x : txin) (c : config) (chg0 : list cv) (fee_ : Z) : R balance :=
  let chg := chg0 ++ (match eph_out_amount (ephemeral c) with Some v => [CEphemeral v] | None => [] end) in
  let fm := final_manifest chg in
  let* soc := sapling_output_count x (m_s fm) in
  let* s_dummy := checked_sub_unwrap soc (len (s_out x) + m_s fm) in
  let* oac := orchard_action_count x (m_o fm) in
  let* o_dummy := checked_sub_unwrap oac (len (o_out x) + m_o fm) in
  let* iac := ironwood_action_count x c fm in
  let* i_dummy := checked_sub_unwrap iac (len (i_out x) + m_i fm) in
  let* tot := or_overflow (A.zat_sum (map cv_value chg ++ [fee_])) in
  Ok {| change := chg; fee := fee_; total := tot; dummies := (s_dummy, o_dummy, i_dummy) |}.

Definition nu6_3_active (c : config) : bool :=
  match nu6_3_height (network c) with Some h => h <=? target_height c | None => false end.

Definition possible_change (c : config) (fully_transparent change_memo : bool) (target_counts : manifest) : list manifest :=
  if fully_transparent || (match dust_act c with AddDustToFee => negb change_memo | _ => false end)
  then [M_ZERO; target_counts] else [target_counts].

Definition compute_balance (x : txin) (c : config) : R balance :=
  let e := ephemeral c in
  let change_memo := memo c && negb (eph_is_in e) in
  let* nf := calculate_net_flows x e in
  let fully_transparent := flows_is_transparent nf && negb change_memo in
  let wants_t := fully_transparent && tchange_allowed c in
  let* total_in := or_overflow (flows_total_in nf) in
  let* subtotal_out := or_overflow (flows_total_out nf) in
  let* sin := or_bundle (num_spends (s_type x) (len (s_in x))) in
  let* min_fee := fee_for x c sin M_ZERO false in
  let* total_out_with_min_fee := or_overflow (A.zat_add subtotal_out min_fee) in
  let change_pool :=
    select_change_pool nf (fallback c) (nu6_3_active c)
      (match A.zat_sub total_in total_out_with_min_fee with Some v => v | None => 0 end) in
  let* target_change_count := target_change_count_of c wants_t in
  let target_counts :=
    if wants_t then {| m_t := 1; m_s := 0; m_o := 0; m_i := 0 |}
    else for_pool change_pool target_change_count in
  (* assert!(target_change_counts.total_shielded() == target_change_count) *)
  let* a_ok := (if wants_t || (total_shielded target_counts =? target_change_count) then Ok tt else Panic) in
  let* d_ok :=
    (if pos (marginal (rule c)) then
       check_for_uneconomic_inputs x c (possible_change c fully_transparent change_memo target_counts)
     else Ok tt) in
  let* cf := core_change x c sin wants_t fully_transparent change_memo change_pool
               target_change_count target_counts total_in subtotal_out min_fee total_out_with_min_fee in
  finish x c (fst cf) (snd cf).
