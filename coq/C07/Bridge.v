(** C07 — bridge: on a well-formed case outside the known-finding class, agreement of the
    implementation with the model ([run_case]) implies the property on the implementation's
    outcome ([prop_case]). *)
From V.Lib Require Import Base MachInt.
From V.Gen Require Import C07Consts.
From V.C07 Require Import Model Spec Corr Wf Proofs Inv Balance FeeMono Balance2 Refuse Dust FeeShape Exact Uneconomic NoPanic Valid.
From Coq Require Import ZifyBool.
Local Open Scope Z_scope.

(** * boolean equalities are equalities *)
Lemma lz_eqb_eq a b : lz_eqb a b = true -> a = b.
Proof. apply list_eqb_spec. intros; apply Z.eqb_eq. Qed.
Lemma lz_eqb_refl a : lz_eqb a a = true.
Proof. apply list_eqb_spec; [intros; apply Z.eqb_eq|reflexivity]. Qed.
Lemma berr_eqb_eq a b : berr_eqb a b = true -> a = b.
Proof. destruct a, b; cbn; congruence. Qed.
Lemma feeerr_eqb_eq a b : feeerr_eqb a b = true -> a = b.
Proof. destruct a, b; cbn; try discriminate; intros H; f_equal; [apply berr_eqb_eq|apply lz_eqb_eq]; exact H. Qed.
Lemma feeerr_eqb_refl a : feeerr_eqb a a = true.
Proof. destruct a as [[|]|l]; cbn; [reflexivity|reflexivity|apply lz_eqb_refl]. Qed.
Lemma pool_eqb_eq a b : pool_eqb a b = true -> a = b.
Proof. destruct a, b; cbn; congruence. Qed.
Lemma cv_eqb_eq a b : cv_eqb a b = true -> a = b.
Proof.
  destruct a, b; cbn; try discriminate; intros H.
  - apply andb_prop in H as (H & Hm). apply andb_prop in H as (Hp & Hv).
    apply pool_eqb_eq in Hp. apply Z.eqb_eq in Hv. apply Bool.eqb_prop in Hm. congruence.
  - apply Z.eqb_eq in H. congruence.
  - apply Z.eqb_eq in H. congruence.
Qed.
Lemma balance_eqb_eq a b : balance_eqb a b = true -> a = b.
Proof.
  destruct a as [ca fa ta [[x1 y1] z1]], b as [cb fb tb [[x2 y2] z2]]. unfold balance_eqb. cbn [change fee total dummies].
  intros H. repeat match goal with H : _ && _ = true |- _ => apply andb_prop in H; destruct H end.
  f_equal; try (apply Z.eqb_eq; assumption).
  - eapply list_eqb_spec; [|eassumption]. intros u v. split; [apply cv_eqb_eq|].
    intros ->. destruct v; cbn; rewrite ?Z.eqb_refl, ?Bool.eqb_reflx; try reflexivity. destruct p; reflexivity.
  - repeat f_equal; apply Z.eqb_eq; assumption.
Qed.
Lemma cerr_eqb_eq a b : cerr_eqb a b = true -> a = b.
Proof.
  destruct a, b; cbn [cerr_eqb]; try discriminate; intros H; try reflexivity;
    repeat match goal with H : _ && _ = true |- _ => apply andb_prop in H; destruct H end;
    f_equal; try (apply Z.eqb_eq; assumption); try (apply lz_eqb_eq; assumption); try (apply berr_eqb_eq; assumption).
Qed.
Lemma outcome_eqb_eq {T E} (ea : T -> T -> bool) (ee : E -> E -> bool) :
  (forall a b, ea a b = true -> a = b) -> (forall a b, ee a b = true -> a = b) ->
  forall x y, outcome_eqb ea ee x y = true -> x = y.
Proof. intros Ha He [a|e|] [b|f|]; cbn; try discriminate; intros H; f_equal; auto. Qed.

(** * [FeeReq] *)
Lemma tin_loop_le l : forall acc unk t u, acc <= usize_max -> tin_loop acc unk l = Some (t, u) -> t <= usize_max.
Proof.
  induction l as [|s r IH]; intros acc unk t u Ha H; cbn [tin_loop] in H; [inversion H; lia|].
  destruct s as [n|id]; [|eapply IH; eauto].
  destruct (usize_add acc n) as [a|] eqn:E; [|discriminate]. apply usize_add_inv in E. eapply IH; [|exact H]. lia.
Qed.
Lemma usize_sum_le l : forall acc s, acc <= usize_max -> usize_sum acc l = Some s -> s <= usize_max.
Proof.
  induction l as [|x r IH]; intros acc s Ha H; cbn [usize_sum] in H; [inversion H; lia|].
  destruct (usize_add acc x) as [a|] eqn:E; [|discriminate]. apply usize_add_inv in E. eapply IH; [|exact H]. lia.
Qed.

Lemma fee_required_cases tins touts sin sout orch iron :
  Forall tsize_nonneg tins -> Forall (fun v => 0 <= v) touts -> 0 <= sin -> 0 <= sout -> 0 <= orch -> 0 <= iron ->
  let r := fee_required standard_rule tins touts sin sout orch iron in
  (r = Panic /\ fee_args_fitb standard_rule tins touts sin sout orch iron = false)
  \/ (r <> Panic /\ r = fee_required_spec standard_rule tins touts sin sout orch iron).
Proof.
  intros Hti Hto Hs1 Hs2 Ho Hi. cbv zeta.
  assert (Rk : rule_ok standard_rule).
  { unfold rule_ok, standard_rule; cbn [marginal grace p_in p_out]. rewrite usize_val.
    unfold MARGINAL_FEE, GRACE_ACTIONS, P2PKH_STANDARD_INPUT_SIZE, P2PKH_STANDARD_OUTPUT_SIZE. lia. }
  assert (N1 : 0 <= zsum (map known_size tins)).
  { apply zsum_nonneg. clear -Hti. induction Hti as [|y]; cbn; constructor; auto. destruct y; cbn in *; lia. }
  assert (N2 : 0 <= zsum touts) by (apply zsum_nonneg; auto).
  destruct (Z_le_gt_dec (zsum (map known_size tins)) usize_max) as [L1|G1].
  2:{ left. split.
      - unfold fee_required. destruct (tin_loop 0 [] tins) as [[t u]|] eqn:E; [|reflexivity].
        assert (U0 : 0 <= usize_max) by (rewrite usize_val; lia). pose proof (tin_loop_le tins 0 [] t u U0 E).
        apply tin_loop_inv in E as (Et & _); lia.
      - unfold fee_args_fitb. replace (zsum (map known_size tins) <=? usize_max) with false by lia. reflexivity. }
  destruct (unknown_ids tins) as [|u0 us] eqn:Eu.
  2:{ right. unfold fee_required, fee_required_spec. rewrite tin_loop_spec by (auto; lia). cbn [rev app]. rewrite Eu.
      split; [discriminate|reflexivity]. }
  destruct (fee_args_fitb standard_rule tins touts sin sout orch iron) eqn:Ef.
  - right. assert (F : fee_args_fit standard_rule tins touts sin sout orch iron) by (unfold fee_args_fitb in Ef; unfold fee_args_fit; lia).
    rewrite fee_required_formula by assumption. split; [|reflexivity].
    unfold fee_required_spec. rewrite Eu. destruct (_ <=? _); discriminate.
  - left. split; [|reflexivity]. unfold fee_required. rewrite tin_loop_spec by (auto; lia). cbn [rev app]. rewrite Eu.
    replace (0 + zsum (map known_size tins)) with (zsum (map known_size tins)) by lia.
    destruct (usize_sum 0 touts) as [to|] eqn:E2; [|reflexivity].
    assert (U0 : 0 <= usize_max) by (rewrite usize_val; lia). pose proof (usize_sum_le touts 0 to U0 E2). apply usize_sum_inv in E2 as (E2 & _); [|lia].
    destruct Rk as (_ & _ & Hpi & Hpo).
    replace ((p_in standard_rule =? 0) || (p_out standard_rule =? 0)) with false by lia.
    rewrite !div_ceil_cdiv by lia.
    pose proof (cdiv_nonneg (zsum (map known_size tins)) (p_in standard_rule) ltac:(lia) Hpi).
    pose proof (cdiv_nonneg to (p_out standard_rule) ltac:(lia) Hpo).
    destruct (usize_add _ (Z.max sin sout)) as [l1|] eqn:E3; [|reflexivity]. apply usize_add_inv in E3.
    destruct (usize_add l1 orch) as [l2|] eqn:E4; [|reflexivity]. apply usize_add_inv in E4.
    destruct (usize_add l2 iron) as [l3|] eqn:E5; [|reflexivity]. apply usize_add_inv in E5.
    exfalso. unfold fee_args_fitb, logical_actions in Ef. replace (0 + zsum touts) with (zsum touts) in E2 by lia. subst to. lia.
Qed.

Lemma in_usize_nonneg v : in_usize v = true -> 0 <= v. Proof. unfold in_usize. lia. Qed.

Lemma bridge_fee std tins touts sin sout orch iron o :
  wf_case (FeeReq std tins touts sin sout orch iron o) = true ->
  run_case (FeeReq std tins touts sin sout orch iron o) = true ->
  prop_case (FeeReq std tins touts sin sout orch iron o) = true.
Proof.
  cbn [wf_case run_case prop_case]. intros W R.
  repeat match goal with H : _ && _ = true |- _ => apply andb_prop in H; destruct H end.
  apply (outcome_eqb_eq Z.eqb feeerr_eqb) in R; [|intros a b; apply Z.eqb_eq|exact feeerr_eqb_eq].
  assert (Hti : Forall tsize_nonneg tins).
  { eapply forallb_Forall'; [|eassumption]. intros [n|id] E; cbn; [apply in_usize_nonneg; exact E|exact I]. }
  assert (Hto : Forall (fun v => 0 <= v) touts) by (eapply forallb_Forall'; [exact in_usize_nonneg|eassumption]).
  pose proof (fee_required_cases tins touts sin sout orch iron Hti Hto
                ltac:(apply in_usize_nonneg; assumption) ltac:(apply in_usize_nonneg; assumption)
                ltac:(apply in_usize_nonneg; assumption) ltac:(apply in_usize_nonneg; assumption)) as C.
  cbv zeta in C. rewrite R in C. destruct C as [(-> & Hf) | (Hn & ->)].
  - rewrite Hf. reflexivity.
  - destruct (fee_required_spec _ _ _ _ _ _ _) as [f|e|] eqn:E; [| |congruence]; cbn [outcome_eqb].
    + apply Z.eqb_refl.
    + apply feeerr_eqb_refl.
Qed.

(** * [Bal] *)
Lemma wf_eph_valid c : wf_cfg c = true -> eph_valid c.
Proof.
  unfold wf_cfg, eph_valid. intros H.
  repeat match goal with H : _ && _ = true |- _ => apply andb_prop in H; destruct H end.
  destruct (ephemeral c) as [[v|v]|]; try exact I. apply vzat_P. assumption.
Qed.

Lemma wf_strat_guard c : wf_cfg c = true ->
  (match strat c with Multi t (Some m) _ => (1 <? t) && (m <? threshold c) | _ => false end) = false ->
  split_guard c.
Proof.
  unfold wf_cfg, split_guard. intros H K.
  repeat match goal with H : _ && _ = true |- _ => apply andb_prop in H; destruct H end.
  destruct (strat c) as [|t ms wm]; [exact I|].
  match goal with H : wf_strat _ = true |- _ => rename H into Ws end. cbn [wf_strat] in Ws.
  repeat match goal with H : _ && _ = true |- _ => apply andb_prop in H; destruct H end.
  assert (Cn : counts_nonneg wm).
  { unfold counts_nonneg.
    match goal with H : forallb _ wm = true |- _ => rename H into Fw end.
    clear -Fw. induction wm as [|m r IH]; cbn [map flatten]; [constructor|].
    cbn [forallb] in Fw. apply andb_prop in Fw as (Hm & Hr).
    destruct m as [[n v]|]; cbn [option_map fst flatten]; [constructor; [|apply IH; exact Hr]|apply IH; exact Hr].
    apply andb_prop in Hm as (Hn & _). unfold small in Hn. lia. }
  destruct ms as [m|].
  - destruct (1 <? t) eqn:E1; [|left; split; [lia|exact Cn]].
    cbn [andb] in K. right. exists m. split; [reflexivity|lia].
  - left. split; [|exact Cn]. match goal with H : (t =? 1) = true |- _ => apply Z.eqb_eq in H; exact H end.
Qed.

Lemma bridge_bal x c o :
  wf_case (Bal x c o) = true -> known_class (Bal x c o) = 0%N -> run_case (Bal x c o) = true ->
  prop_case (Bal x c o) = true.
Proof.
  cbn [wf_case run_case prop_case]. intros W K R.
  apply andb_prop in W as (Wx & Wc).
  apply (outcome_eqb_eq balance_eqb cerr_eqb) in R; [|exact balance_eqb_eq|exact cerr_eqb_eq].
  pose proof (std_rule_pos c (wf_cfg_std c Wc)) as Rp.
  destruct o as [b|e|].
  - assert (Bo : balance_ok x c b = true).
    { unfold balance_ok.
      rewrite (conservation _ _ _ R), (fee_at_least_shape _ _ _ R Rp), (fee_exact_unless_holds _ _ _ R Rp),
              (no_dust_change _ _ _ R Rp), (orchard_turnstile _ _ _ R Rp), (dummy_counts_match_builder _ _ _ R),
              (change_valid_holds _ _ _ R Rp (wf_eph_valid c Wc)). reflexivity. }
    rewrite Bo. cbn [andb]. cbn [known_class] in K. rewrite Bo in K. cbn [andb] in K.
    destruct (no_dust_each c b) eqn:Ne; [reflexivity|]. cbn [negb andb] in K.
    destruct (match strat c with Multi t (Some m) _ => (1 <? t) && (m <? threshold c) | _ => false end) eqn:Ec; [discriminate|].
    pose proof (no_dust_each_guarded _ _ _ R Rp (wf_strat_guard c Wc Ec)). congruence.
  - destruct e as [a r|t s o i|e|ids|]; try reflexivity.
    + exact (insufficient_is_true _ _ _ _ R Rp).
    + exact (compute_dust_truthful _ _ _ _ _ _ R).
  - destruct (meta_ok c) eqn:M; [|reflexivity]. exfalso. exact (no_panic x c Wx Wc M R).
Qed.

Theorem agree_implies_property k :
  wf_case k = true -> known_class k = 0%N -> run_case k = true -> prop_case k = true.
Proof.
  destruct k as [std tins touts sin sout orch iron o | x c o]; intros W K R.
  - exact (bridge_fee _ _ _ _ _ _ _ _ W R).
  - exact (bridge_bal _ _ _ W K R).
Qed.
