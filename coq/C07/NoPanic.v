(** C07 — no panic: for valid amounts, sizes/lengths within the stated bounds and wallet
    metadata whose pool totals are jointly a valid amount, [compute_balance] never reaches any
    of its [unwrap]/[expect]/[assert!]/overflow sites. *)
From V.Lib Require Import Base MachInt.
From V.Gen Require Import C07Consts.
From V.C07 Require Import Model Spec Corr Wf Proofs Inv Balance FeeMono Balance2 FeeShape Uneconomic.
From Coq Require Import ZifyBool.
Local Open Scope Z_scope.

Definition np {T} (r : R T) : Prop := r <> Panic.
Lemma np_bind {T U} (x : R T) (f : T -> R U) : np x -> (forall a, x = Ok a -> np (f a)) -> np (bind x f).
Proof. unfold np. destruct x; cbn; auto; congruence. Qed.
Lemma np_ok {T} (a : T) : np (Ok a). Proof. discriminate. Qed.
Lemma np_err {T} e : np (@Err T cerr e). Proof. discriminate. Qed.
Lemma np_or_overflow o : np (or_overflow o). Proof. destruct o; discriminate. Qed.
Lemma np_or_bundle o : np (or_bundle o). Proof. destruct o; discriminate. Qed.
Lemma np_if {T} (b : bool) (x y : R T) : np x -> np y -> np (if b then x else y).
Proof. destruct b; auto. Qed.

Definition B31 : Z := 2147483648.
Definition bounded (v : Z) : Prop := 0 <= v <= B31.

Lemma small_P v : small v = true -> bounded v. Proof. unfold small, bounded, B31. lia. Qed.
Lemma vzat_P v : vzat v = true -> 0 <= v <= A.MAX_MONEY.
Proof. unfold vzat. rewrite max_money_eq. lia. Qed.

Lemma zsum_bounded l B : 0 <= B -> Forall (fun v => 0 <= v <= B) l -> 0 <= zsum l <= B * len l.
Proof.
  intros HB. induction 1 as [|v r Hv _ IH]; [unfold len; cbn; lia|].
  cbn [zsum fold_right]. fold (zsum r). unfold len in *. cbn [length]. nia.
Qed.

(** * the padding rules return at least the requested outputs *)
Lemma num_spends_bound bt n s : 0 <= n -> num_spends bt n = Some s -> 0 <= s <= Z.max n 1.
Proof. unfold num_spends. destruct bt as [br|]; [|destruct (n =? 0)]; intros ? H; inversion H; try lia. destruct (br || (0 <? n)); lia. Qed.
Lemma num_outputs_bound bt rs ro s : 0 <= ro -> num_outputs bt rs ro = Some s -> ro <= s <= Z.max ro 2.
Proof.
  unfold num_outputs, SAPLING_MIN_SHIELDED_OUTPUTS. destruct bt as [br|]; [|destruct (rs =? 0)]; intros ? H; inversion H; try lia.
  destruct (br || (0 <? rs) || (0 <? ro)) eqn:E; lia.
Qed.
Lemma num_actions_bound pad v ns no s : (pad = PAD_DEFAULT \/ pad = PAD_UNPADDED) -> 0 <= ns -> 0 <= no ->
  num_actions pad v ns no = Some s -> no <= s <= ns + no + 2.
Proof.
  unfold num_actions, ORCHARD_DEFAULT_MIN_ACTIONS, PAD_DEFAULT, PAD_UNPADDED.
  intros [-> | ->] Hs Ho; cbn [orb];
  (destruct (cross_enabled v); [|destruct (usize_add ns no) as [r|] eqn:E; [apply usize_add_inv in E|discriminate]];
   intros H; inversion H; subst; clear H;
   match goal with |- context [0 <? ?r] => destruct (0 <? r) eqn:E2 end; lia).
Qed.

(** * [fee_for] *)
Record tx_ok (x : txin) : Prop := {
  ok_tin : Forall (fun i => 0 <= fst i <= A.MAX_MONEY /\ match snd i with Known n => bounded n | Unknown id => 0 <= id end) (t_in x);
  ok_tout : Forall (fun o => 0 <= fst o <= A.MAX_MONEY /\ bounded (snd o)) (t_out x);
  ok_si : Forall (fun v => 0 <= v <= A.MAX_MONEY) (s_in x); ok_so : Forall (fun v => 0 <= v <= A.MAX_MONEY) (s_out x);
  ok_oi : Forall (fun v => 0 <= v <= A.MAX_MONEY) (o_in x); ok_oo : Forall (fun v => 0 <= v <= A.MAX_MONEY) (o_out x);
  ok_ii : Forall (fun v => 0 <= v <= A.MAX_MONEY) (i_in x); ok_io : Forall (fun v => 0 <= v <= A.MAX_MONEY) (i_out x);
  ok_len : bounded (len (t_in x)) /\ bounded (len (t_out x)) /\ bounded (len (s_in x)) /\ bounded (len (s_out x)) /\
           bounded (len (o_in x)) /\ bounded (len (o_out x)) /\ bounded (len (i_in x)) /\ bounded (len (i_out x));
}.

Lemma forallb_Forall' {T} (f : T -> bool) (P : T -> Prop) l :
  (forall a, f a = true -> P a) -> forallb f l = true -> Forall P l.
Proof. intros H. rewrite forallb_forall, Forall_forall. auto. Qed.

Lemma wf_tx_ok x : wf_tx x = true -> tx_ok x.
Proof.
  unfold wf_tx. intros H.
  repeat match goal with H : _ && _ = true |- _ => apply andb_prop in H; destruct H end.
  constructor.
  - eapply forallb_Forall'; [|eassumption]. intros [v s] E. cbn [fst snd] in *. apply andb_prop in E as (E1 & E2).
    split; [apply vzat_P; exact E1|]. destruct s; cbn [tsize_ok] in E2; [apply small_P; exact E2|apply Z.leb_le in E2; exact E2].
  - eapply forallb_Forall'; [|eassumption]. intros [v s] E. cbn [fst snd] in *. apply andb_prop in E as (E1 & E2).
    split; [apply vzat_P; exact E1|apply small_P; exact E2].
  - eapply forallb_Forall'; [exact vzat_P|eassumption].
  - eapply forallb_Forall'; [exact vzat_P|eassumption].
  - eapply forallb_Forall'; [exact vzat_P|eassumption].
  - eapply forallb_Forall'; [exact vzat_P|eassumption].
  - eapply forallb_Forall'; [exact vzat_P|eassumption].
  - eapply forallb_Forall'; [exact vzat_P|eassumption].
  - repeat split; apply small_P; assumption.
Qed.

Definition std_rule (c : config) : Prop :=
  marginal (rule c) = MARGINAL_FEE /\ grace (rule c) = GRACE_ACTIONS /\
  p_in (rule c) = P2PKH_STANDARD_INPUT_SIZE /\ p_out (rule c) = P2PKH_STANDARD_OUTPUT_SIZE.
Lemma std_rule_pos c : std_rule c -> rule_pos c.
Proof. unfold std_rule, rule_pos, MARGINAL_FEE, P2PKH_STANDARD_INPUT_SIZE, P2PKH_STANDARD_OUTPUT_SIZE. lia. Qed.
Lemma std_rule_ok c : std_rule c -> rule_ok (rule c).
Proof. unfold std_rule, rule_ok. rewrite usize_val. unfold MARGINAL_FEE, GRACE_ACTIONS, P2PKH_STANDARD_INPUT_SIZE, P2PKH_STANDARD_OUTPUT_SIZE. lia. Qed.

Lemma cdiv_le n d : 0 <= n -> 1 <= d -> 0 <= cdiv n d <= n.
Proof.
  intros Hn Hd. unfold cdiv. split; [apply Z.div_pos; lia|].
  destruct (Z.eq_dec n 0) as [->|Ne]; [rewrite Z.div_small; lia|].
  apply Z.div_le_upper_bound; nia.
Qed.

Definition m_bounded (m : manifest) : Prop := bounded (m_t m) /\ bounded (m_s m) /\ bounded (m_o m) /\ bounded (m_i m).

Lemma fee_for_np x c sin m ex : tx_ok x -> std_rule c -> 0 <= sin <= B31 -> m_bounded m -> np (fee_for x c sin m ex).
Proof.
  intros Tx Sr Hsin (Mt & Ms & Mo & Mi). unfold fee_for, sapling_output_count, orchard_action_count, ironwood_action_count.
  destruct Tx as [Ti To _ _ _ _ _ _ (Lti & Lto & Lsi & Lso & Loi & Loo & Lii & Lio)]. unfold bounded, B31 in *.
  apply np_bind; [apply np_or_bundle|intros so Eso]. apply or_bundle_ok in Eso. apply num_outputs_bound in Eso; [|lia].
  apply np_bind; [apply np_or_bundle|intros oa Eoa]. apply or_bundle_ok in Eoa. apply num_actions_bound in Eoa; auto; try lia.
  apply np_bind; [apply np_or_bundle|intros ia Eia]. apply or_bundle_ok in Eia.
  apply num_actions_bound in Eia; try lia; [|destruct (ironwood_is_canonical_crossing x c m); auto].
  set (tins := t_input_sizes x (ephemeral c)). set (touts := t_output_sizes x (ephemeral c) ++ _).
  assert (Ftin : Forall tsize_nonneg tins /\ 0 <= zsum (map known_size tins) <= B31 * B31 + 150).
  { subst tins. unfold t_input_sizes. split.
    - apply Forall_app. split.
      + apply Forall_map. eapply Forall_impl; [|exact Ti]. intros [v s] (_ & H). cbn [fst snd] in *. destruct s; cbn [tsize_nonneg]; [lia|exact I].
      + destruct (eph_in_amount _); repeat constructor. cbn [tsize_nonneg]. unfold P2PKH_STANDARD_INPUT_SIZE. lia.
    - rewrite map_app, zsum_app.
      assert (0 <= zsum (map known_size (map snd (t_in x))) <= B31 * len (map known_size (map snd (t_in x)))).
      { apply zsum_bounded; [unfold B31; lia|]. apply Forall_map. apply Forall_map.
        eapply Forall_impl; [|exact Ti]. intros [v s] (_ & H). cbn [fst snd] in *. destruct s; cbn [known_size]; unfold B31; lia. }
      unfold len in H. rewrite !map_length in H. unfold len in Lti. unfold B31 in *.
      destruct (eph_in_amount _); cbn [map zsum fold_right known_size]; unfold P2PKH_STANDARD_INPUT_SIZE; nia. }
  assert (Ftout : Forall (fun v => 0 <= v) touts /\ 0 <= zsum touts <= B31 * B31 + 68).
  { subst touts. unfold t_output_sizes. split.
    - apply Forall_app. split; [apply Forall_app; split|].
      + apply Forall_map. eapply Forall_impl; [|exact To]. intros [v s] (_ & H). cbn [fst snd] in *. lia.
      + destruct (eph_out_amount _); repeat constructor. unfold P2PKH_STANDARD_OUTPUT_SIZE. lia.
      + destruct ex; repeat constructor. unfold P2PKH_STANDARD_OUTPUT_SIZE. lia.
    - rewrite !zsum_app.
      assert (0 <= zsum (map snd (t_out x)) <= B31 * len (map snd (t_out x))).
      { apply zsum_bounded; [unfold B31; lia|]. apply Forall_map.
        eapply Forall_impl; [|exact To]. intros [v s] (_ & H). cbn [fst snd] in *. unfold B31; lia. }
      unfold len in H. rewrite !map_length in H. unfold len in Lto. unfold B31 in *.
      destruct (eph_out_amount _); destruct ex; cbn [zsum fold_right]; unfold P2PKH_STANDARD_OUTPUT_SIZE; nia. }
  destruct Ftin as (Ftin & Stin), Ftout as (Ftout & Stout). unfold B31 in *.
  rewrite fee_required_formula; try assumption; try lia.
  - unfold fee_required_spec. destruct (unknown_ids tins); [|discriminate].
    destruct (_ <=? _); discriminate.
  - apply std_rule_ok; assumption.
  - destruct Sr as (_ & _ & Epi & Epo). unfold fee_args_fit, logical_actions. rewrite usize_val, Epi, Epo.
    unfold P2PKH_STANDARD_INPUT_SIZE, P2PKH_STANDARD_OUTPUT_SIZE.
    pose proof (cdiv_le (zsum (map known_size tins)) 150 ltac:(lia) ltac:(lia)).
    pose proof (cdiv_le (zsum touts) 34 ltac:(lia) ltac:(lia)). lia.
Qed.

(** * wallet metadata *)
Lemma reduce_usize_spec l : forall acc, 0 <= acc -> Forall (fun v => 0 <= v) l ->
  acc + zsum l <= usize_max -> reduce_usize acc l = Some (acc + zsum l).
Proof.
  induction l as [|v r IH]; intros acc Ha Hl Hs; cbn [reduce_usize zsum fold_right]; [f_equal; lia|].
  inversion Hl; subst. assert (0 <= zsum r) by (apply zsum_nonneg; auto).
  cbn [zsum fold_right] in Hs. fold (zsum r) in *.
  rewrite usize_add_some by lia. rewrite IH by (auto; lia). f_equal. lia.
Qed.
Lemma reduce_zat_spec l : forall acc, 0 <= acc -> Forall (fun v => 0 <= v) l ->
  acc + zsum l <= A.MAX_MONEY -> reduce_zat acc l = Some (acc + zsum l).
Proof.
  induction l as [|v r IH]; intros acc Ha Hl Hs; cbn [reduce_zat zsum fold_right]; [f_equal; lia|].
  inversion Hl; subst. assert (0 <= zsum r) by (apply zsum_nonneg; auto).
  cbn [zsum fold_right] in Hs. fold (zsum r) in *.
  rewrite zat_add_total by lia. rewrite IH by (auto; lia). f_equal. lia.
Qed.

Definition meta_wf (wm : meta) : Prop :=
  (length wm <= 3)%nat /\ Forall (fun m => match m with Some (n, v) => bounded n /\ 0 <= v <= A.MAX_MONEY | None => True end) wm.

Lemma flatten_fst_bounded wm : Forall (fun m => match m with Some (n, v) => bounded n /\ 0 <= v <= A.MAX_MONEY | None => True end) wm ->
  Forall bounded (flatten (map (option_map fst) wm)) /\ Forall (fun v => 0 <= v) (flatten (map (option_map snd) wm))
  /\ (length (flatten (map (option_map fst) wm)) <= length wm)%nat.
Proof.
  induction 1 as [|m r Hm _ (IH1 & IH2 & IH3)]; cbn [map flatten length]; [repeat split; constructor|].
  destruct m as [[n v]|]; cbn [option_map fst snd flatten length].
  - destruct Hm as (Hn & Hv). split; [constructor; assumption|]. split; [constructor; [lia|assumption]|lia].
  - split; [assumption|]. split; [assumption|lia].
Qed.

Lemma total_note_count_ok wm : meta_wf wm -> exists nc, total_note_count wm = Ok nc /\ match nc with Some n => 0 <= n | None => True end.
Proof.
  intros (L & F). apply flatten_fst_bounded in F as (F1 & _ & F3). unfold total_note_count.
  destruct (flatten (map (option_map fst) wm)) as [|a r] eqn:E; [exists None; auto|].
  inversion F1 as [|? ? Ha Hr]; subst.
  assert (0 <= zsum r <= B31 * len r).
  { apply zsum_bounded; [unfold B31; lia|]. eapply Forall_impl; [|exact Hr]. unfold bounded. intros; lia. }
  cbn [length] in F3. unfold bounded, B31, len in *.
  rewrite reduce_usize_spec; [eexists; split; [reflexivity|cbv beta iota; lia]|lia| |rewrite usize_val; nia].
  eapply Forall_impl; [|exact Hr]. cbn. intros; lia.
Qed.
Lemma total_value_ok wm : meta_wf wm -> zsum (flatten (map (option_map snd) wm)) <= A.MAX_MONEY ->
  exists tv, total_value wm = Ok tv.
Proof.
  intros (L & F) Hs. apply flatten_fst_bounded in F as (_ & F2 & _). unfold total_value.
  destruct (flatten (map (option_map snd) wm)) as [|a r] eqn:E; [exists None; auto|].
  inversion F2; subst. cbn [zsum fold_right] in Hs. fold (zsum r) in Hs.
  rewrite reduce_zat_spec; eauto.
Qed.

Definition strat_ok (s : strategy) : Prop :=
  match s with
  | Single => True
  | Multi t ms wm => 1 <= t <= B31 /\ meta_wf wm /\ zsum (flatten (map (option_map snd) wm)) <= A.MAX_MONEY
  end.

Lemma tcc_ok c w : strat_ok (strat c) -> exists tcc, target_change_count_of c w = Ok tcc /\ 1 <= tcc <= B31.
Proof.
  unfold target_change_count_of, strat_ok, B31. intros S. destruct w; [exists 1; split; [reflexivity|lia]|].
  destruct (strat c) as [|t ms wm]; [exists 1; split; [reflexivity|lia]|].
  destruct S as (Ht & Mw & _). destruct (total_note_count_ok wm Mw) as (nc & -> & Hn). cbn [bind].
  eexists; split; [reflexivity|]. unfold usize_sat_sub. destruct nc; [|rewrite usize_val]; lia.
Qed.
Lemma split_ok c w pr : strat_ok (strat c) -> exists s, split_of c w pr = Ok s.
Proof.
  unfold split_of, strat_ok. intros S. destruct w; [eauto|]. destruct (strat c) as [|t ms wm]; [eauto|].
  destruct S as (Ht & Mw & Hv). destruct (total_note_count_ok wm Mw) as (nc & -> & _).
  destruct (total_value_ok wm Mw Hv) as (tv & ->). cbn [bind]. eauto.
Qed.

(** * [check_for_uneconomic_inputs] *)
Lemma hyp_np x c tol m a b d e f g h i : np (hypothetical_actions x c tol m a b d e f g h i).
Proof. unfold hypothetical_actions. repeat (apply np_bind; [apply np_or_bundle|intros ? _]). apply np_ok. Qed.

Lemma allowed_bounds x c td sd od id_ tn sn on_ in_ tol m a :
  allowed_dust x c td sd od id_ tn sn on_ in_ tol m = Ok a ->
  m_t a <= len td /\ m_s a <= len sd /\ m_o a <= len od /\ m_i a <= len id_.
Proof.
  unfold allowed_dust. cbv zeta. intros H.
  apply bind_ok in H as (baseline & _ & H).
  pose proof (len_nonneg td). pose proof (len_nonneg sd). pose proof (len_nonneg od). pose proof (len_nonneg id_).
  destruct (grace (rule c) <=? baseline); [inversion H; cbn; lia|].
  apply bind_ok in H as (bt & Ebt & H).
  destruct bt.
  { destruct (_ <? len td) eqn:E in Ebt; [|discriminate]. inversion H; cbn; lia. }
  apply bind_ok in H as (bs & Ebs & H).
  destruct bs.
  { destruct (_ <? len sd) eqn:E in Ebs; [|discriminate]. inversion H; cbn; lia. }
  apply bind_ok in H as (bo & Ebo & H).
  destruct bo.
  { destruct (_ <? len od) eqn:E in Ebo; [|discriminate]. inversion H; cbn; lia. }
  apply bind_ok in H as (bi & Ebi & H).
  destruct bi.
  { destruct (_ <? len id_) eqn:E in Ebi; [|discriminate]. inversion H; cbn; lia. }
  inversion H; cbn; lia.
Qed.

Lemma allowed_np x c td sd od id_ tn sn on_ in_ tol m : np (allowed_dust x c td sd od id_ tn sn on_ in_ tol m).
Proof.
  unfold allowed_dust. cbv zeta. apply np_bind; [apply hyp_np|intros baseline _].
  apply np_if; [apply np_ok|].
  repeat (apply np_bind; [apply np_if; [apply np_bind; [apply hyp_np|intros; apply np_ok]|apply np_ok]|intros ? _];
          apply np_if; [apply np_ok|]).
  apply np_ok.
Qed.
Lemma collect_np x c td sd od id_ tn sn on_ in_ tol l : np (collect_allowed x c td sd od id_ tn sn on_ in_ tol l).
Proof.
  induction l; cbn [collect_allowed]; [apply np_ok|].
  apply np_bind; [apply allowed_np|intros ? _]. apply np_bind; [exact IHl|intros; apply np_ok].
Qed.
Lemma collect_inv x c td sd od id_ tn sn on_ in_ tol l al :
  collect_allowed x c td sd od id_ tn sn on_ in_ tol l = Ok al ->
  length al = length l /\ Forall (fun a => m_t a <= len td /\ m_s a <= len sd /\ m_o a <= len od /\ m_i a <= len id_) al.
Proof.
  revert al. induction l as [|m r IH]; intros al H; cbn [collect_allowed] in H.
  - inversion H; subst. split; [reflexivity|constructor].
  - apply bind_ok in H as (a & Ea & H). apply bind_ok in H as (rest & Er & H). inversion H; subst.
    apply IH in Er as (L & F). apply allowed_bounds in Ea. cbn [length]. split; [lia|constructor; assumption].
Qed.
Lemma fold_min_le rest : forall a0, 
  let a := fold_left manifest_min rest a0 in
  m_t a <= m_t a0 /\ m_s a <= m_s a0 /\ m_o a <= m_o a0 /\ m_i a <= m_i a0.
Proof.
  induction rest as [|m r IH]; intros a0; cbv zeta; cbn [fold_left]; [lia|].
  specialize (IH (manifest_min a0 m)). cbv zeta in IH.
  assert (E : m_t (manifest_min a0 m) <= m_t a0 /\ m_s (manifest_min a0 m) <= m_s a0 /\
              m_o (manifest_min a0 m) <= m_o a0 /\ m_i (manifest_min a0 m) <= m_i a0)
    by (unfold manifest_min; cbn [m_t m_s m_o m_i]; lia).
  lia.
Qed.

Lemma check_np x c pc : pc <> [] -> np (check_for_uneconomic_inputs x c pc).
Proof.
  intros Hpc. unfold check_for_uneconomic_inputs. cbv zeta.
  set (mf := marginal (rule c)). set (td := dust_ids mf 0 (map fst (t_in x))). set (sd := dust_ids mf 0 (s_in x)).
  set (od := dust_ids mf 0 (o_in x)). set (id_ := dust_ids mf 0 (i_in x)).
  apply np_if; [apply np_ok|].
  assert (Lt : len td <= len (t_in x)).
  { subst td. pose proof (dust_ids_len mf (map fst (t_in x)) 0) as L. unfold len in *. rewrite map_length in L. exact L. }
  pose proof (dust_ids_len mf (s_in x) 0 : len sd <= _) as Ls.
  pose proof (dust_ids_len mf (o_in x) 0 : len od <= _) as Lo.
  pose proof (dust_ids_len mf (i_in x) 0 : len id_ <= _) as Li.
  unfold checked_sub_unwrap.
  replace (len (t_in x) + b2z (eph_is_in (ephemeral c)) <? len td) with false by (destruct (eph_is_in _); cbn [b2z]; lia).
  replace (len (s_in x) <? len sd) with false by lia.
  replace (len (o_in x) <? len od) with false by lia.
  replace (len (i_in x) <? len id_) with false by lia.
  cbn [bind].
  apply np_bind; [apply collect_np|intros al Eal]. apply collect_inv in Eal as (L & F).
  destruct al as [|a0 rest]; [destruct pc; [congruence|discriminate]|].
  inversion F as [|? ? Ha0 _]; subst.
  pose proof (fold_min_le rest a0) as B. cbv zeta in B. set (a := fold_left manifest_min rest a0) in *.
  unfold split_off.
  replace (len td <? m_t a) with false by lia. replace (len sd <? m_s a) with false by lia.
  replace (len od <? m_o a) with false by lia. replace (len id_ <? m_i a) with false by lia.
  cbn [bind]. apply np_if; [apply np_ok|apply np_err].
Qed.

(** * the change computation proper *)
Lemma split_values_np n : forall first q r, 0 <= q -> 0 <= r -> q + r <= A.MAX_MONEY -> np (split_values n first q r).
Proof.
  induction n; intros first q r Hq Hr Hs; cbn [split_values]; [apply np_ok|].
  apply np_bind.
  - destruct first; [rewrite zat_add_total by lia; discriminate|apply np_ok].
  - intros v _. apply np_bind; [apply IHn; assumption|intros; apply np_ok].
Qed.
Lemma simple_np wt p cm split tc tf : 1 <= split -> 0 <= tc <= A.MAX_MONEY -> np (simple_case wt p cm split tc tf).
Proof.
  intros Hs Ht. unfold simple_case, A.zat_div_with_remainder. destruct wt; [apply np_ok|].
  pose proof (Z.div_mod tc split ltac:(lia)). pose proof (Z.mod_pos_bound tc split ltac:(lia)).
  pose proof (Z.div_pos tc split ltac:(lia) ltac:(lia)).
  apply np_bind; [apply split_values_np; nia|intros; apply np_ok].
Qed.
Lemma ten_min_fee : A.zat_mul_u64 MINIMUM_FEE REASONABLE_FEE_MULTIPLE = Some 100000.
Proof. vm_compute. reflexivity. Qed.
Lemma dust_np c wt p cm ti split tc tf : 1 <= split -> 0 <= tc <= A.MAX_MONEY ->
  np (dust_decision c wt p cm ti split tc tf).
Proof.
  intros Hs Ht. unfold dust_decision. pose proof (simple_np wt p cm split tc tf Hs Ht) as S.
  remember (simple_case wt p cm split tc tf) as sc eqn:Esc. clear Esc.
  apply np_if; [|exact S]. destruct (dust_act c); [|exact S|].
  - apply np_if; [exact S|]. destruct (A.zat_sub _ tc); [|apply np_err].
    apply np_bind; [apply np_or_overflow|intros; apply np_err].
  - apply np_bind; [apply np_or_overflow|intros ? _]. rewrite ten_min_fee. cbn [or_panic bind].
    apply np_bind; [apply np_or_overflow|intros ? _]. apply np_if; [exact S|]. destruct cm; apply np_ok.
Qed.

Lemma for_pool_bounded p n : bounded n -> m_bounded (for_pool p n).
Proof. unfold m_bounded, bounded, for_pool, B31. cbn. destruct p; cbn; lia. Qed.

Lemma core_np x c sin wt ft cm p tcc tcs ti so mf towmf :
  tx_ok x -> std_rule c -> strat_ok (strat c) -> 0 <= sin <= B31 -> m_bounded tcs -> 1 <= tcc <= B31 ->
  (forall pr s, split_of c wt pr = Ok s -> s <= tcc) ->
  np (core_change x c sin wt ft cm p tcc tcs ti so mf towmf).
Proof.
  intros Tx Sr So Hsin Mb Htcc Hsp. unfold core_change.
  apply np_if; [apply np_err|]. apply np_if; [apply np_ok|].
  apply np_bind; [apply fee_for_np; assumption|intros f2 _].
  apply np_bind; [apply np_or_overflow|intros towmx _].
  apply np_bind.
  { destruct (split_ok c wt (match A.zat_sub ti towmx with Some v => v | None => 0 end) So) as (s & ->). discriminate. }
  intros split Es. pose proof (split_of_ge1 _ _ _ _ Es) as Hs1. apply Hsp in Es.
  apply np_bind.
  { apply np_if; [|apply np_ok]. apply fee_for_np; try assumption. apply for_pool_bounded. unfold bounded, B31 in *. lia. }
  intros tf _. apply np_bind; [apply np_or_overflow|intros tout _].
  destruct (A.zat_sub ti tout) as [tc|] eqn:Et; [|apply np_err]. apply zat_sub_some in Et.
  apply dust_np; lia.
Qed.

Lemma finish_np x c chg f : tx_ok x -> np (finish x c chg f).
Proof.
  intros Tx. destruct Tx as [_ _ _ _ _ _ _ _ (Lti & Lto & Lsi & Lso & Loi & Loo & Lii & Lio)]. unfold bounded in *.
  unfold finish, sapling_output_count, orchard_action_count, ironwood_action_count. cbv zeta.
  set (l := chg ++ _). set (fm := final_manifest l).
  pose proof (count_pool_nonneg (is_pool_cv Sapling) l). pose proof (count_pool_nonneg (is_pool_cv Orchard) l).
  pose proof (count_pool_nonneg (is_pool_cv Ironwood) l).
  assert (m_s fm = count_pool (is_pool_cv Sapling) l) by reflexivity.
  assert (m_o fm = count_pool (is_pool_cv Orchard) l) by reflexivity.
  assert (m_i fm = count_pool (is_pool_cv Ironwood) l) by reflexivity.
  apply np_bind; [apply np_or_bundle|intros soc E1]. apply or_bundle_ok in E1. apply num_outputs_bound in E1; [|lia].
  unfold checked_sub_unwrap at 1. replace (soc <? len (s_out x) + m_s fm) with false by lia. cbn [bind].
  apply np_bind; [apply np_or_bundle|intros oac E2]. apply or_bundle_ok in E2. apply num_actions_bound in E2; auto; try lia.
  unfold checked_sub_unwrap at 1. replace (oac <? len (o_out x) + m_o fm) with false by lia. cbn [bind].
  apply np_bind; [apply np_or_bundle|intros iac E3]. apply or_bundle_ok in E3.
  apply num_actions_bound in E3; try lia; [|destruct (ironwood_is_canonical_crossing x c fm); auto].
  unfold checked_sub_unwrap at 1. replace (iac <? len (i_out x) + m_i fm) with false by lia. cbn [bind].
  apply np_bind; [apply np_or_overflow|intros; apply np_ok].
Qed.

(** * the whole function *)
Definition cfg_ok (c : config) : Prop := std_rule c /\ strat_ok (strat c).

Theorem no_panic_P x c : tx_ok x -> cfg_ok c -> compute_balance x c <> Panic.
Proof.
  intros Tx (Sr & So). change (np (compute_balance x c)). unfold compute_balance. cbv zeta.
  pose proof Tx as Tx'. destruct Tx' as [_ _ _ _ _ _ _ _ (Lti & Lto & Lsi & Lso & Loi & Loo & Lii & Lio)].
  apply np_bind.
  { unfold calculate_net_flows. repeat (apply np_bind; [apply np_or_overflow|intros ? _]). apply np_ok. }
  intros nf _.
  apply np_bind; [apply np_or_overflow|intros ti Eti]. apply or_overflow_ok in Eti. apply total_in_ok in Eti.
  apply np_bind; [apply np_or_overflow|intros so _].
  apply np_bind; [apply np_or_bundle|intros sin Esin]. apply or_bundle_ok in Esin.
  apply num_spends_bound in Esin; [|apply len_nonneg].
  assert (Hsin : 0 <= sin <= B31) by (unfold bounded, B31 in *; lia).
  assert (Mz : m_bounded M_ZERO) by (unfold m_bounded, bounded, M_ZERO, B31; cbn; lia).
  apply np_bind; [apply fee_for_np; assumption|intros mf _].
  apply np_bind; [apply np_or_overflow|intros towmf _].
  set (wt := _ && tchange_allowed c).
  destruct (tcc_ok c wt So) as (tcc & Etcc & Htcc). rewrite Etcc. cbn [bind].
  set (p := select_change_pool _ _ _ _).
  set (tcs := if wt then _ else for_pool p tcc).
  assert (Mb : m_bounded tcs).
  { subst tcs. destruct wt; [unfold m_bounded, bounded, B31; cbn; lia|apply for_pool_bounded; unfold bounded; lia]. }
  apply np_bind.
  { destruct wt; cbn [orb]; [apply np_ok|]. subst tcs. unfold total_shielded, for_pool. cbn [m_s m_o m_i].
    replace ((if pool_eqb p Sapling then tcc else 0) + (if pool_eqb p Orchard then tcc else 0) + (if pool_eqb p Ironwood then tcc else 0) =? tcc) with true
      by (destruct p; cbn; lia). apply np_ok. }
  intros _ _.
  apply np_bind.
  { apply np_if; [|apply np_ok]. apply check_np. unfold possible_change. destruct (_ || _); discriminate. }
  intros _ _.
  apply np_bind.
  - apply core_np; try assumption. intros pr s Hs. destruct wt eqn:W.
    + unfold split_of in Hs. inversion Hs. lia.
    + eapply split_le_tcc; eauto.
  - intros cf _. apply finish_np. assumption.
Qed.

Lemma wf_cfg_std c : wf_cfg c = true -> std_rule c.
Proof.
  unfold wf_cfg, std_rule. intros H.
  repeat match goal with H : _ && _ = true |- _ => apply andb_prop in H; destruct H end.
  repeat split; apply Z.eqb_eq; assumption.
Qed.

Lemma wf_cfg_ok c : wf_cfg c = true -> meta_ok c = true -> cfg_ok c.
Proof.
  intros W M. split; [apply wf_cfg_std; exact W|].
  unfold wf_cfg in W. repeat match goal with H : _ && _ = true |- _ => apply andb_prop in H; destruct H end.
  unfold meta_ok in M. unfold strat_ok. destruct (strat c) as [|t ms wm]; [exact I|].
  match goal with H : wf_strat _ = true |- _ => rename H into Ws end. cbn [wf_strat] in Ws.
  repeat match goal with H : _ && _ = true |- _ => apply andb_prop in H; destruct H end.
  match goal with H : small t = true |- _ => apply small_P in H; unfold bounded in H end.
  split; [lia|]. split.
  - split.
    + match goal with H : (length wm =? 3)%nat = true |- _ => apply Nat.eqb_eq in H; rewrite H end. constructor.
    + eapply forallb_Forall'; [|eassumption]. intros [[n v]|] E; [|exact I].
      apply andb_prop in E as (E1 & E2). split; [apply small_P; exact E1|apply vzat_P; exact E2].
  - rewrite max_money_eq. lia.
Qed.

Theorem no_panic x c : wf_tx x = true -> wf_cfg c = true -> meta_ok c = true -> compute_balance x c <> Panic.
Proof. intros Wx Wc M. apply no_panic_P; [apply wf_tx_ok; exact Wx | apply wf_cfg_ok; assumption]. Qed.
