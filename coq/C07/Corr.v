(** C07 — correspondence cases.  The harness prints one constructor application per executed
    API call: inputs followed by the implementation's observed outcome.  [run_case] compares the
    model with the implementation; [prop_case] evaluates the property (Spec.v) on the
    implementation's outcome alone. *)
From V.Lib Require Import Base MachInt.
From V.Gen Require Import C07Consts.
From V.C07 Require Import Model Spec.
Local Open Scope Z_scope.

Definition lz_eqb := list_eqb Z.eqb.
Definition berr_eqb := A.berr_eqb.
Definition feeerr_eqb (a b : feeerr) : bool :=
  match a, b with
  | FeeBalance x, FeeBalance y => berr_eqb x y
  | UnknownP2sh x, UnknownP2sh y => lz_eqb x y
  | _, _ => false
  end.
Definition cv_eqb (a b : cv) : bool :=
  match a, b with
  | CShielded p v m, CShielded q w n => pool_eqb p q && (v =? w) && Bool.eqb m n
  | CEphemeral v, CEphemeral w => v =? w
  | CTransparent v, CTransparent w => v =? w
  | _, _ => false
  end.
Definition balance_eqb (a b : balance) : bool :=
  list_eqb cv_eqb (change a) (change b) && (fee a =? fee b) && (total a =? total b)
  && (let '(x1, y1, z1) := dummies a in let '(x2, y2, z2) := dummies b in
      (x1 =? x2) && (y1 =? y2) && (z1 =? z2)).
Definition cerr_eqb (a b : cerr) : bool :=
  match a, b with
  | InsufficientFunds x y, InsufficientFunds u v => (x =? u) && (y =? v)
  | DustInputs t s o i, DustInputs t' s' o' i' => lz_eqb t t' && lz_eqb s s' && lz_eqb o o' && lz_eqb i i'
  | StrategyBalance x, StrategyBalance y => berr_eqb x y
  | StrategyP2sh x, StrategyP2sh y => lz_eqb x y
  | BundleError, BundleError => true
  | _, _ => false
  end.

Inductive case :=
(** [FeeRule::fee_required]; [std] = through [StandardFeeRule::Zip317] *)
| FeeReq (std : bool) (tins : list tsize) (touts : list Z) (sin sout orch iron : Z) (o : outcome Z feeerr)
(** [ChangeStrategy::compute_balance] of the strategy selected by [strat c] *)
| Bal (x : txin) (c : config) (o : outcome balance cerr).

Definition run_case (k : case) : bool :=
  match k with
  | FeeReq _ tins touts sin sout orch iron o =>
      outcome_eqb Z.eqb feeerr_eqb (fee_required standard_rule tins touts sin sout orch iron) o
  | Bal x c o => outcome_eqb balance_eqb cerr_eqb (compute_balance x c) o
  end.

(** The property, evaluated on the implementation's outcome. *)
Definition prop_case (k : case) : bool :=
  match k with
  | FeeReq _ tins touts sin sout orch iron o =>
      match o with
      | Panic => negb (fee_args_fitb standard_rule tins touts sin sout orch iron)
      | _ => outcome_eqb Z.eqb feeerr_eqb (fee_required_spec standard_rule tins touts sin sout orch iron) o
      end
  | Bal x c o =>
      match o with
      | Ok b => balance_ok x c b && no_dust_each c b
      | Err (InsufficientFunds a r) => insufficient_truthful x c a r
      | Err (DustInputs t s o i) => dust_truthful x c t s o i
      | Err _ => true
      | Panic => negb (meta_ok c)
      end
  end.

(** Known-finding classes (0 = none).
    1: Reject policy, a multi-output split whose per-output value is below the dust threshold
       although the total change is not (the split policy's minimum is below the threshold). *)
Definition known_class (k : case) : N :=
  match k with
  | Bal x c (Ok b) =>
      if balance_ok x c b && negb (no_dust_each c b)
         && (match strat c with Multi t (Some m) _ => (1 <? t) && (m <? threshold c) | _ => false end)
      then 1%N else 0%N
  | _ => 0%N
  end.

(** Path tags. *)
Definition tag_z (k : case) : Z :=
  match k with
  | FeeReq std _ _ _ _ _ _ o =>
      (if std then 1 else 0) + match o with Ok _ => 2 | Err (FeeBalance _) => 4 | Err (UnknownP2sh _) => 6 | Panic => 8 end
  | Bal x c o =>
      let s := match strat c with Single => 0 | Multi _ _ _ => 1 end in
      let a := match dust_act c with Reject => 0 | AllowDustChange => 1 | AddDustToFee => 2 end in
      let nu := if nu6_3_active c then 1 else 0 in
      match o with
      | Ok b =>
        let rc := real_change (change b) in
        let shape :=
          match rc with
          | [] => 0
          | CTransparent _ :: _ => 1
          | CShielded Sapling _ _ :: _ => 2
          | CShielded Orchard _ _ :: _ => 3
          | CShielded Ironwood _ _ :: _ => 4
          | _ => 5
          end in
        let multi := if 1 <? len rc then 1 else 0 in
        let exact := if fee b =? shape_fee x c (change b) (dummies b) 0 then 0
                     else if dust_folded c b then 1 else 2 in
        let canon := if ironwood_is_canonical_crossing x c (final_manifest (change b)) then 1 else 0 in
        100 + s + 2 * a + 6 * nu + 12 * shape + 72 * multi + 144 * exact + 432 * canon
      | Err (InsufficientFunds a' r) =>
        let need := payments x + eph_out_v c + opt_z (changeless_fee x c) in
        1000 + s + 2 * a + 6 * (if a' <? need then 0 else if r - a' <? threshold c then 1 else 2)
      | Err (DustInputs t s' o' i) =>
        1100 + (if is_nil t then 0 else 1) + (if is_nil s' then 0 else 2) + (if is_nil o' then 0 else 4) + (if is_nil i then 0 else 8)
      | Err (StrategyBalance A.Overflow) => 1200
      | Err (StrategyBalance A.Underflow) => 1201
      | Err (StrategyP2sh _) => 1210
      | Err BundleError => 1220
      | Panic => 1300
      end
  end.
Definition tag_case (k : case) : N := Z.to_N (tag_z k).
