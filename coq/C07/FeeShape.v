(** C07 — the fee is at least the ZIP 317 fee of the final shape (change and padding included). *)
From V.Lib Require Import Base MachInt.
From V.Gen Require Import C07Consts.
From V.C07 Require Import Model Spec Proofs Inv Balance FeeMono Balance2 Refuse.
From Coq Require Import ZifyBool.
Local Open Scope Z_scope.

Lemma count_pool_app f a b : count_pool f (a ++ b) = count_pool f a + count_pool f b.
Proof. unfold count_pool, len. rewrite filter_app, app_length. lia. Qed.
Lemma count_pool_nonneg f l : 0 <= count_pool f l. Proof. unfold count_pool. apply len_nonneg. Qed.

Lemma final_manifest_app chg c :
  final_manifest (chg ++ eph_list c) =
  {| m_t := m_t (final_manifest chg) + b2z (eph_is_out (ephemeral c));
     m_s := m_s (final_manifest chg); m_o := m_o (final_manifest chg); m_i := m_i (final_manifest chg) |}.
Proof.
  unfold final_manifest. cbn [m_t m_s m_o m_i]. rewrite !count_pool_app.
  unfold eph_list, eph_out_amount, eph_is_out. destruct (ephemeral c) as [[v|v]|]; cbn [count_pool]; f_equal;
    unfold count_pool, len; cbn; lia.
Qed.

Lemma shape_le x c chg f b sin m ex F :
  finish x c chg f = Ok b -> rule_pos c ->
  num_spends (s_type x) (len (s_in x)) = Some sin ->
  fee_for x c sin m ex = Ok F ->
  m_le (final_manifest chg) m -> m_t (final_manifest chg) <= (if ex then 1 else 0) ->
  shape_fee x c (change b) (dummies b) 0 <= F.
Proof.
  intros Hf (Rm & Rpi & Rpo) Hs HF (Lt & Ls & Lo & Li) Lex.
  apply finish_ok in Hf as (Hch & _ & _ & Hd & _).
  apply fee_for_ok in HF as (so & oa & ia & A1 & A2 & A3 & -> & _); auto.
  unfold dummies_match in Hd. destruct (dummies b) as [[sd od] id_].
  set (l := change b) in *. set (FM := final_manifest l) in *.
  destruct (num_outputs _ _ (len (s_out x) + m_s FM)) as [a|] eqn:B1; [|discriminate].
  destruct (num_actions PAD_DEFAULT _ _ (len (o_out x) + m_o FM)) as [b'|] eqn:B2; [|discriminate].
  destruct (num_actions (if ironwood_is_canonical_crossing x c FM then _ else _) _ _ _) as [e|] eqn:B3; [|discriminate].
  assert (EFM : FM = {| m_t := m_t (final_manifest chg) + b2z (eph_is_out (ephemeral c));
                        m_s := m_s (final_manifest chg); m_o := m_o (final_manifest chg); m_i := m_i (final_manifest chg) |}).
  { subst FM l. rewrite Hch. apply final_manifest_app. }
  pose proof (count_pool_nonneg is_transparent_cv chg). pose proof (count_pool_nonneg (is_pool_cv Sapling) chg).
  pose proof (count_pool_nonneg (is_pool_cv Orchard) chg). pose proof (count_pool_nonneg (is_pool_cv Ironwood) chg).
  pose proof (len_nonneg (s_out x)). pose proof (len_nonneg (o_out x)). pose proof (len_nonneg (i_out x)).
  pose proof (len_nonneg (o_in x)). pose proof (len_nonneg (i_in x)).
  assert (Ms : m_s FM = m_s (final_manifest chg)) by (rewrite EFM; reflexivity).
  assert (Mo : m_o FM = m_o (final_manifest chg)) by (rewrite EFM; reflexivity).
  assert (Mi : m_i FM = m_i (final_manifest chg)) by (rewrite EFM; reflexivity).
  assert (Mt : m_t FM = m_t (final_manifest chg) + b2z (eph_is_out (ephemeral c))) by (rewrite EFM; reflexivity).
  cbn [final_manifest m_t m_s m_o m_i] in Ms, Mo, Mi, Mt, Lt, Ls, Lo, Li, Lex.
  assert (a <= so) by (eapply num_outputs_mono; [| |exact B1|exact A1]; lia).
  assert (b' <= oa) by (eapply num_actions_mono; [apply pad_le_refl| | | |exact B2|exact A2]; lia).
  assert (e <= ia).
  { eapply num_actions_mono; [| | | |exact B3|exact A3]; try lia.
    destruct (ironwood_is_canonical_crossing x c m) eqn:Cm; [|destruct (ironwood_is_canonical_crossing x c FM); [apply pad_unpadded_default|apply pad_le_refl]].
    assert (CF : ironwood_is_canonical_crossing x c FM = true); [|rewrite CF; apply pad_le_refl].
    unfold ironwood_is_canonical_crossing in *. rewrite Ms, Mo, Mi, Mt.
    destruct (eph_is_out (ephemeral c)); cbn [b2z negb] in *; lia. }
  unfold shape_fee. fold l.
  replace (count_pool (is_pool_cv Sapling) l) with (m_s FM) by reflexivity.
  replace (count_pool (is_pool_cv Orchard) l) with (m_o FM) by reflexivity.
  replace (count_pool (is_pool_cv Ironwood) l) with (m_i FM) by reflexivity.
  rewrite Hs. cbn [opt_z].
  replace (len (s_out x) + m_s FM + sd) with a by lia.
  replace (len (o_out x) + m_o FM + od) with b' by lia.
  replace (len (i_out x) + m_i FM + id_) with e by lia.
  unfold fee_formula. rewrite <- tin_bytes_sizes.
  apply zip317_fee_mono; try assumption.
  unfold tout_bytes. replace (count_pool is_transparent_cv l) with (m_t FM) by reflexivity. rewrite Mt.
  unfold t_output_sizes, eph_out_amount, eph_is_out in *. rewrite zsum_app.
  unfold P2PKH_STANDARD_OUTPUT_SIZE in *.
  destruct (ephemeral c) as [[v|v]|]; destruct ex; cbn [b2z zsum fold_right] in *; lia.
Qed.

Lemma count_shielded_t p cm vs : count_pool is_transparent_cv (map (fun v => CShielded p v cm) vs) = 0.
Proof. unfold count_pool, len. induction vs; cbn [map filter is_transparent_cv length] in *; lia. Qed.
Lemma count_shielded_q q p cm vs :
  count_pool (is_pool_cv q) (map (fun v => CShielded p v cm) vs) = if pool_eqb q p then len vs else 0.
Proof.
  unfold count_pool, len. induction vs as [|v vs IH]; cbn [map filter is_pool_cv length].
  - destruct (pool_eqb q p); reflexivity.
  - destruct (pool_eqb q p); cbn [length] in *; lia.
Qed.
Lemma pool_eqb_sym a b : pool_eqb a b = pool_eqb b a. Proof. destruct a, b; reflexivity. Qed.
Lemma fm_shielded p cm vs : final_manifest (map (fun v => CShielded p v cm) vs) = for_pool p (len vs).
Proof.
  unfold final_manifest, for_pool. rewrite count_shielded_t, !count_shielded_q.
  rewrite (pool_eqb_sym Sapling), (pool_eqb_sym Orchard), (pool_eqb_sym Ironwood). reflexivity.
Qed.

Definition T_ONE : manifest := {| m_t := 1; m_s := 0; m_o := 0; m_i := 0 |}.

Lemma for_pool_le p a b : a <= b -> 0 <= a -> m_le (for_pool p a) (for_pool p b).
Proof. unfold m_le, for_pool; cbn. destruct p; cbn; lia. Qed.

Lemma simple_shape wt p cm split tc tf chg f :
  simple_case wt p cm split tc tf = Ok (chg, f) -> 1 <= split ->
  f = tf /\ m_le (final_manifest chg) (if wt then T_ONE else for_pool p split) /\
  m_t (final_manifest chg) <= (if wt then 1 else 0).
Proof.
  unfold simple_case, A.zat_div_with_remainder. intros H Hs. destruct wt.
  - inversion H; subst. split; [reflexivity|]. destruct (tc =? 0); unfold m_le, T_ONE; cbn; lia.
  - apply bind_ok in H as (vs & Ev & H). inversion H; subst; clear H. split; [reflexivity|].
    apply split_values_spec in Ev as (L & _ & _).
    rewrite fm_shielded. unfold len. rewrite L, Z2Nat.id by lia.
    split; [apply for_pool_le; lia | unfold for_pool; cbn; lia].
Qed.

Lemma dust_shape c wt p cm ti split tc tf chg f :
  dust_decision c wt p cm ti split tc tf = Ok (chg, f) -> 1 <= split -> 0 <= tc -> (wt = true -> cm = false) ->
  tf <= f /\ m_le (final_manifest chg) (if wt then T_ONE else for_pool p split) /\
  m_t (final_manifest chg) <= (if wt then 1 else 0).
Proof.
  unfold dust_decision. intros H Hs Ht Hw.
  assert (S : forall chg f, simple_case wt p cm split tc tf = Ok (chg, f) ->
     tf <= f /\ m_le (final_manifest chg) (if wt then T_ONE else for_pool p split) /\
     m_t (final_manifest chg) <= (if wt then 1 else 0)).
  { intros chg' f' H'. apply simple_shape in H' as (-> & ? & ?); auto. split; [lia|]. split; assumption. }
  destruct (tc <? _); [|apply S; exact H].
  destruct (dust_act c).
  - destruct (tc =? 0); [apply S; exact H|].
    destruct (A.zat_sub _ tc); [|discriminate]. apply bind_ok in H as (? & _ & H). discriminate.
  - apply S; exact H.
  - apply bind_ok in H as (fwd & E1 & H). apply or_overflow_ok in E1. apply zat_add_some in E1.
    apply bind_ok in H as (ten & _ & H). apply bind_ok in H as (rf & _ & H).
    destruct (rf <? fwd); [apply S; exact H|].
    destruct cm.
    + destruct wt; [specialize (Hw eq_refl); discriminate|]. inversion H; subst.
      split; [lia|]. change [CShielded p 0 true] with (map (fun v => CShielded p v true) [0]).
      rewrite fm_shielded. split; [apply for_pool_le; cbn; lia | unfold for_pool; cbn; lia].
    + inversion H; subst. split; [lia|].
      destruct wt; unfold m_le, T_ONE, for_pool; cbn; destruct p; cbn; lia.
Qed.

Lemma split_le_tcc c tcc pr s : target_change_count_of c false = Ok tcc -> split_of c false pr = Ok s -> s <= tcc.
Proof.
  unfold target_change_count_of, split_of. destruct (strat c) as [|t ms wm].
  - intros H1 H2; inversion H1; inversion H2; lia.
  - intros H1 H2. apply bind_ok in H1 as (nc & E1 & H1). apply bind_ok in H2 as (nc' & E2 & H2).
    rewrite E1 in E2. inversion E2; subst nc'. apply bind_ok in H2 as (tv & _ & H2).
    inversion H1; inversion H2; subst; clear H1 H2.
    unfold split_count. set (c0 := usize_sat_sub t _). set (count := if c0 =? 0 then 1 else c0).
    assert (0 <= c0) by (subst c0; unfold usize_sat_sub; lia).
    assert (1 <= count /\ count <= Z.max c0 1) by (subst count; destruct (c0 =? 0) eqn:E; lia).
    destruct ms as [v|].
    + pose proof (split_loop_ge1 (Z.to_nat count) count pr v ltac:(lia)). lia.
    + destruct (A.oopt_lift _ tv pr); [|lia].
      match goal with |- split_loop _ _ _ ?mv <= _ => pose proof (split_loop_ge1 (Z.to_nat count) count pr mv ltac:(lia)) end. lia.
Qed.

Lemma core_witness x c sin wt ft cm p tcc tcs ti so mf towmf chg f :
  core_change x c sin wt ft cm p tcc tcs ti so mf towmf = Ok (chg, f) ->
  rule_pos c -> (wt = true -> cm = false) -> 0 <= ti <= A.MAX_MONEY ->
  fee_for x c sin M_ZERO false = Ok mf ->
  (wt = true -> tcc = 1 /\ tcs = T_ONE) -> (wt = false -> tcs = for_pool p tcc) ->
  (forall pr s, wt = false -> split_of c false pr = Ok s -> s <= tcc) ->
  exists m ex F, fee_for x c sin m ex = Ok F /\ F <= f /\
                 m_le (final_manifest chg) m /\ m_t (final_manifest chg) <= (if ex then 1 else 0).
Proof.
  unfold core_change. intros H Rp Hw Hti Hmf Hwt Hnt Hsp.
  destruct (ti <? towmf); [discriminate|].
  destruct ((ti =? towmf) && ft).
  - inversion H; subst. exists M_ZERO, false, f. split; [exact Hmf|]. split; [lia|].
    unfold m_le, M_ZERO; cbn; lia.
  - apply bind_ok in H as (f2 & Ef2 & H). apply bind_ok in H as (towmx & _ & H).
    apply bind_ok in H as (split & Es & H). pose proof (split_of_ge1 _ _ _ _ Es) as Hs1.
    apply bind_ok in H as (tf & Etf & H).
    apply bind_ok in H as (tout & Eo & H). apply or_overflow_ok in Eo. apply zat_add_some in Eo.
    destruct (A.zat_sub ti tout) as [tc|] eqn:Et; [|discriminate]. apply zat_sub_some in Et.
    apply dust_shape in H as (Hf & Hm & Ht); try lia; auto.
    destruct wt.
    + destruct (Hwt eq_refl) as (-> & ->).
      replace (split <? 1) with false in Etf by lia. inversion Etf; subst tf.
      exists T_ONE, true, f2. split; [exact Ef2|]. split; [lia|]. split; assumption.
    + rewrite (Hnt eq_refl) in Ef2. specialize (Hsp _ _ eq_refl Es).
      destruct (split <? tcc) eqn:Elt.
      * exists (for_pool p split), false, tf. split; [exact Etf|]. split; [lia|]. split; assumption.
      * inversion Etf; subst tf. assert (split = tcc) by lia. subst split.
        exists (for_pool p tcc), false, f2. split; [exact Ef2|]. split; [lia|]. split; assumption.
Qed.

Theorem fee_at_least_shape x c b : compute_balance x c = Ok b -> rule_pos c -> fee_at_least x c b = true.
Proof.
  intros H Rp. apply compute_ok_inv in H as (nf & ti & so & sin & mf & towmf & tcc & [chg f] & St & Hc & Hf).
  destruct St as [Snf Sti Sso Ssin Smf Stow Stcc]. cbn [fst snd] in Hf.
  apply total_in_ok in Sti.
  unfold core_of in Hc.
  assert (Hw : wt_of c nf = true -> memo c && negb (eph_is_in (ephemeral c)) = false).
  { unfold wt_of, ft_of. intros W. destruct (memo c && negb (eph_is_in (ephemeral c))); [|reflexivity].
    rewrite andb_false_r in W. discriminate. }
  apply core_witness in Hc as (m & ex & F & HF & HFle & Hm & Ht); auto; try lia.
  - pose proof (finish_ok _ _ _ _ _ Hf) as (_ & Hfee & _).
    unfold fee_at_least. rewrite Hfee. apply Z.leb_le.
    etransitivity; [eapply shape_le; eauto | exact HFle].
  - intros W. unfold wt_of, ft_of in W. rewrite W in Stcc. unfold target_change_count_of in Stcc.
    inversion Stcc. split; [reflexivity|]. unfold tc_of, wt_of, ft_of. rewrite W. reflexivity.
  - intros W. unfold tc_of. rewrite W. reflexivity.
  - intros pr s W Hs. unfold wt_of, ft_of in W. rewrite W in Stcc. eapply split_le_tcc; eauto.
Qed.
