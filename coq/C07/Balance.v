(** C07 — theorems about a returned balance: conservation, dust policy, turnstile, recorded
    padding, truthful refusals. *)
From V.Lib Require Import Base MachInt.
From V.Gen Require Import C07Consts.
From V.C07 Require Import Model Spec Proofs Inv.
From Coq Require Import ZifyBool.
Local Open Scope Z_scope.

(** * [finish] *)
Definition eph_list (c : config) : list cv :=
  match eph_out_amount (ephemeral c) with Some v => [CEphemeral v] | None => [] end.

Lemma change_total_app a b : change_total (a ++ b) = change_total a + change_total b.
Proof. unfold change_total. rewrite map_app, zsum_app. reflexivity. Qed.

Lemma eph_list_total c : change_total (eph_list c) = eph_out_v c.
Proof. unfold eph_list, eph_out_v, eph_out_amount. destruct (ephemeral c) as [[v|v]|]; cbn; lia. Qed.

Lemma finish_ok x c chg f b : finish x c chg f = Ok b ->
  change b = chg ++ eph_list c /\ fee b = f /\ total b = change_total (change b) + f /\
  dummies_match x c (change b) (dummies b) = true /\ 0 <= total b <= A.MAX_MONEY.
Proof.
  unfold finish. fold (eph_list c). set (l := chg ++ eph_list c). intros H.
  apply bind_ok in H as (soc & E1 & H). apply or_bundle_ok in E1.
  apply bind_ok in H as (sd & E2 & H). apply checked_sub_ok in E2.
  apply bind_ok in H as (oac & E3 & H). apply or_bundle_ok in E3.
  apply bind_ok in H as (od & E4 & H). apply checked_sub_ok in E4.
  apply bind_ok in H as (iac & E5 & H). apply or_bundle_ok in E5.
  apply bind_ok in H as (id_ & E6 & H). apply checked_sub_ok in E6.
  apply bind_ok in H as (tot & E7 & H). apply or_overflow_ok in E7.
  inversion H; subst b; clear H. cbn [change fee total dummies].
  pose proof (zat_sum_some _ _ E7) as S. pose proof (zat_sum_range _ _ E7).
  rewrite zsum_app in S. cbn in S.
  repeat split; try lia.
  - unfold change_total. lia.
  - unfold dummies_match. rewrite E1, E3, E5. lia.
Qed.

(** * Splitting *)
Lemma split_loop_ge1 fuel : forall count tc mv, 1 <= count -> 1 <= split_loop fuel count tc mv <= count.
Proof.
  induction fuel as [|f IH]; intros count tc mv Hc; cbn [split_loop]; [lia|].
  destruct (mv <=? tc / count); [lia|]. destruct (count - 1 =? 0) eqn:E; [lia|].
  specialize (IH (count - 1) tc mv ltac:(lia)). lia.
Qed.
Lemma split_count_ge1 t ms en et tc : 1 <= split_count t ms en et tc.
Proof.
  unfold split_count.
  set (c0 := usize_sat_sub t _). set (count := if c0 =? 0 then 1 else c0).
  assert (1 <= count) by (subst count c0; unfold usize_sat_sub; destruct (Z.max 0 _ =? 0) eqn:E; lia).
  destruct ms as [v|]; [apply split_loop_ge1; assumption|].
  destruct (A.oopt_lift _ et tc); [apply split_loop_ge1; assumption | lia].
Qed.
Lemma split_of_ge1 c w p s : split_of c w p = Ok s -> 1 <= s.
Proof.
  unfold split_of. destruct w; [intros H; inversion H; lia|].
  destruct (strat c); [intros H; inversion H; lia|].
  intros H. apply bind_ok in H as (? & _ & H). apply bind_ok in H as (? & _ & H).
  inversion H. apply split_count_ge1.
Qed.

Lemma split_values_spec n : forall first q r vs, split_values n first q r = Ok vs ->
  length vs = n /\ zsum vs = Z.of_nat n * q + (if first then (if (0 <? Z.of_nat n) then r else 0) else 0) /\
  Forall (fun v => v = q \/ (v = q + r /\ 0 <= v <= A.MAX_MONEY)) vs.
Proof.
  induction n as [|n IH]; intros first q r vs H.
  - cbn in H. inversion H; subst. cbn. destruct first; repeat split; try lia; constructor.
  - cbn [split_values] in H.
    apply bind_ok in H as (v & Ev & H). apply bind_ok in H as (rest & Er & H). inversion H; subst; clear H.
    apply IH in Er as (L & S & F). cbn [length zsum fold_right]. fold (zsum rest). rewrite S.
    rewrite Nat2Z.inj_succ. replace (0 <? Z.succ (Z.of_nat n)) with true by lia.
    split; [lia|]. split.
    + destruct first; [apply or_panic_ok in Ev; apply zat_add_some in Ev | inversion Ev]; lia.
    + constructor; [|exact F].
      destruct first; [apply or_panic_ok in Ev; apply zat_add_some in Ev; right | inversion Ev; left]; lia.
Qed.

Lemma change_total_shielded p m vs : change_total (map (fun v => CShielded p v m) vs) = zsum vs.
Proof. unfold change_total. rewrite map_map. cbn. rewrite map_id. reflexivity. Qed.

Lemma simple_conserve wt p cm split tc tf chg f :
  simple_case wt p cm split tc tf = Ok (chg, f) -> 1 <= split -> 0 <= tc ->
  change_total chg + f = tc + tf.
Proof.
  unfold simple_case, A.zat_div_with_remainder. intros H Hs Ht.
  destruct wt.
  - inversion H; subst. destruct (tc =? 0) eqn:E; cbn; lia.
  - apply bind_ok in H as (vs & Ev & H). inversion H; subst; clear H.
    apply split_values_spec in Ev as (_ & S & _). rewrite change_total_shielded, S.
    rewrite Z2Nat.id by lia. replace (0 <? split) with true by lia.
    pose proof (Z.div_mod tc split ltac:(lia)). lia.
Qed.

Lemma dust_conserve c wt p cm ti split tc tf chg f :
  dust_decision c wt p cm ti split tc tf = Ok (chg, f) -> 1 <= split -> 0 <= tc ->
  change_total chg + f = tc + tf.
Proof.
  unfold dust_decision. intros H Hs Ht.
  destruct (tc <? _).
  - destruct (dust_act c).
    + destruct (tc =? 0); [eapply simple_conserve; eauto|].
      destruct (A.zat_sub _ tc); [|discriminate]. apply bind_ok in H as (? & _ & H). discriminate.
    + eapply simple_conserve; eauto.
    + apply bind_ok in H as (fwd & E1 & H). apply or_overflow_ok in E1. apply zat_add_some in E1.
      apply bind_ok in H as (ten & _ & H). apply bind_ok in H as (rf & _ & H).
      destruct (rf <? fwd); [eapply simple_conserve; eauto|].
      destruct cm; inversion H; subst; cbn; lia.
  - eapply simple_conserve; eauto.
Qed.

Lemma core_conserve x c sin wt ft cm p tcc tcs ti so mf towmf chg f :
  core_change x c sin wt ft cm p tcc tcs ti so mf towmf = Ok (chg, f) ->
  towmf = so + mf -> 0 <= ti <= A.MAX_MONEY ->
  change_total chg + f = ti - so.
Proof.
  unfold core_change. intros H Ht Hti.
  destruct (ti <? towmf); [discriminate|].
  destruct ((ti =? towmf) && ft) eqn:E.
  - inversion H; subst. cbn. lia.
  - apply bind_ok in H as (f2 & _ & H). apply bind_ok in H as (towmx & _ & H).
    apply bind_ok in H as (split & Es & H). apply split_of_ge1 in Es.
    apply bind_ok in H as (tf & _ & H).
    apply bind_ok in H as (tout & Eo & H). apply or_overflow_ok in Eo. apply zat_add_some in Eo.
    destruct (A.zat_sub ti tout) as [tc|] eqn:Et; [|discriminate]. apply zat_sub_some in Et.
    apply dust_conserve in H; lia.
Qed.

(** * Conservation *)
Theorem conservation x c b : compute_balance x c = Ok b -> conserves x c b = true.
Proof.
  intros H. apply compute_ok_inv in H as (nf & ti & so & sin & mf & towmf & tcc & [chg f] & St & Hc & Hf).
  destruct St as [Snf Sti Sso Ssin Smf Stow Stcc]. cbn [fst snd] in Hf.
  apply flows_ok in Snf. destruct Snf.
  apply total_in_ok in Sti. apply total_out_ok in Sso. apply zat_add_some in Stow.
  apply core_conserve in Hc; [|lia|lia].
  apply finish_ok in Hf as (Hch & Hfee & Htot & _ & _).
  unfold conserves, total_inputs, payments. rewrite Htot, Hfee, Hch, change_total_app, eph_list_total.
  unfold eph_in_v, eph_out_v, eph_in_amount, eph_out_amount, opt_z in *.
  destruct (ephemeral c) as [[v|v]|]; lia.
Qed.

Theorem dummy_counts_match_builder x c b : compute_balance x c = Ok b ->
  dummies_match x c (change b) (dummies b) = true.
Proof.
  intros H. apply compute_ok_inv in H as (nf & ti & so & sin & mf & towmf & tcc & cf & _ & _ & Hf).
  apply finish_ok in Hf. tauto.
Qed.
