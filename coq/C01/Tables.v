(** C01 — get/put lemmas for the association-list tables of Model.v. *)
From V.Lib Require Import Base.
From V.Gen Require Import C01Consts.
From V.C01 Require Import Model Spec Proofs.
Local Open Scope N_scope.

(** * notes *)

Definition spent_of (k : key) (l : list note) : list N :=
  match find_note k l with Some n => n_spent n | None => [] end.

Lemma key_eqb_neq a b : key_eqb a b = false <-> a <> b.
Proof.
  split.
  - intros H E. subst. rewrite key_eqb_refl in H. discriminate.
  - intros H. destruct (key_eqb a b) eqn:E; [|reflexivity]. apply key_eqb_eq in E. contradiction.
Qed.

Lemma key_eqb_sym a b : key_eqb a b = key_eqb b a.
Proof.
  destruct (key_eqb a b) eqn:E.
  - apply key_eqb_eq in E. subst. symmetry. apply key_eqb_refl.
  - symmetry. apply key_eqb_neq. apply key_eqb_neq in E. congruence.
Qed.

Lemma find_note_In k l n : find_note k l = Some n -> In n l /\ n_key n = k.
Proof.
  induction l as [|a l IH]; cbn [find_note]; [discriminate|].
  destruct (key_eqb (n_key a) k) eqn:E.
  - intros H; inversion H; subst. apply key_eqb_eq in E. split; [left; reflexivity | assumption].
  - intros H. destruct (IH H). split; [right; assumption | assumption].
Qed.

Lemma find_note_None k l : find_note k l = None <-> ~ has_key k l.
Proof.
  unfold has_key. induction l as [|a l IH]; cbn [find_note map].
  - split; [intros _ [] | reflexivity].
  - destruct (key_eqb (n_key a) k) eqn:E.
    + apply key_eqb_eq in E. split; [discriminate | intros H; exfalso; apply H; left; assumption].
    + apply key_eqb_neq in E. rewrite IH. split; [intros H [H1|H1]; auto | intros H H1; apply H; right; assumption].
Qed.

Lemma find_note_has k l : has_key k l <-> exists n, find_note k l = Some n.
Proof.
  destruct (find_note k l) as [n|] eqn:E.
  - split; [eauto|]. intros _. apply find_note_In in E. destruct E as [E1 E2]. unfold has_key. rewrite <- E2. apply in_map. assumption.
  - apply find_note_None in E. split; [contradiction | intros [n H]; discriminate].
Qed.

Lemma In_find_note l n : NoDup (map n_key l) -> In n l -> find_note (n_key n) l = Some n.
Proof.
  induction l as [|a l IH]; intros Hnd Hin; [destruct Hin|].
  cbn [map] in Hnd. inversion Hnd; subst. cbn [find_note].
  destruct Hin as [-> | Hin].
  - rewrite key_eqb_refl. reflexivity.
  - destruct (key_eqb (n_key a) (n_key n)) eqn:E.
    + apply key_eqb_eq in E. exfalso. apply H1. rewrite E. apply in_map. assumption.
    + auto.
Qed.

Definition add1 (tid : N) (n : note) : note :=
  if memN tid (n_spent n) then n
  else mkNote (n_key n) (n_acct n) (n_value n) (n_recv n) (n_idx n) (n_spent n ++ [tid]).

Lemma add1_key tid n : n_key (add1 tid n) = n_key n.
Proof. unfold add1. destruct (memN tid (n_spent n)); reflexivity. Qed.

Lemma add1_spent tid n x : In x (n_spent (add1 tid n)) <-> In x (n_spent n) \/ x = tid.
Proof.
  unfold add1. destruct (memN tid (n_spent n)) eqn:E.
  - apply memN_In in E. split; [auto | intros [H | ->]; assumption].
  - cbn [n_spent]. rewrite in_app_iff. cbn. split; [intros [H | [H | []]]; auto | intros [H | ->]; auto].
Qed.

Lemma find_mark_spent txs k tid : forall l l' k',
  mark_spent txs k tid l = Some l' ->
  find_note k' l' = if key_eqb k k' then option_map (add1 tid) (find_note k' l) else find_note k' l.
Proof.
  induction l as [|n l IH]; intros l' k' H; cbn [mark_spent] in H.
  - inversion H; subst. cbn. destruct (key_eqb k k'); reflexivity.
  - destruct (key_eqb (n_key n) k) eqn:E.
    + destruct (existsb _ (n_spent n)); [discriminate|]. inversion H; subst. clear H.
      apply key_eqb_eq in E. subst k. cbn [find_note].
      assert (Hk : n_key (if memN tid (n_spent n) then n else mkNote (n_key n) (n_acct n) (n_value n) (n_recv n) (n_idx n) (n_spent n ++ [tid])) = n_key n)
        by (destruct (memN tid (n_spent n)); reflexivity).
      rewrite Hk. destruct (key_eqb (n_key n) k') eqn:E'; [|reflexivity].
      cbn [option_map]. unfold add1. reflexivity.
    + destruct (mark_spent txs k tid l) as [r|] eqn:Er; [|discriminate]. inversion H; subst. clear H.
      cbn [find_note]. destruct (key_eqb (n_key n) k') eqn:E'.
      * apply key_eqb_eq in E'. subst k'. rewrite key_eqb_sym, E. reflexivity.
      * apply IH. reflexivity.
Qed.

Lemma mark_spent_of txs k tid l l' k' :
  mark_spent txs k tid l = Some l' ->
  (has_key k' l' <-> has_key k' l)
  /\ (forall x, In x (spent_of k' l') <-> In x (spent_of k' l) \/ (k = k' /\ has_key k' l /\ x = tid)).
Proof.
  intros H. pose proof (find_mark_spent _ _ _ _ _ k' H) as F.
  destruct (key_eqb k k') eqn:E.
  - apply key_eqb_eq in E. subst k'. destruct (find_note k l) as [n|] eqn:En; cbn [option_map] in F.
    + assert (Hh : has_key k l) by (apply find_note_has; eauto).
      split; [split; intros _; [assumption | apply find_note_has; eauto]|].
      intros x. unfold spent_of. rewrite F, En. rewrite add1_spent. tauto.
    + assert (Hh : ~ has_key k l) by (apply find_note_None; assumption).
      assert (Hh' : ~ has_key k l') by (apply find_note_None; assumption).
      split; [tauto|]. intros x. unfold spent_of. rewrite F, En. cbn. tauto.
  - assert (Hne : k <> k') by (apply key_eqb_neq; assumption).
    split; [rewrite !find_note_has, F; reflexivity|].
    intros x. unfold spent_of. rewrite F. tauto.
Qed.

Lemma mark_all_of txs tid : forall ks l l' k',
  mark_all txs ks tid l = Some l' ->
  (has_key k' l' <-> has_key k' l)
  /\ (forall x, In x (spent_of k' l') <-> In x (spent_of k' l) \/ (In k' ks /\ has_key k' l /\ x = tid)).
Proof.
  induction ks as [|k ks IH]; intros l l' k' H; cbn [mark_all] in H.
  - inversion H; subst. split; [reflexivity|]. intros x. split; [auto | intros [? | [[] _]]; assumption].
  - destruct (mark_spent txs k tid l) as [l1|] eqn:E; [|discriminate].
    destruct (mark_spent_of _ _ _ _ _ k' E) as [K1 S1]. destruct (IH _ _ k' H) as [K2 S2].
    split; [rewrite K2; exact K1|]. intros x. rewrite S2, S1, K1. cbn [In].
    intuition (subst; auto).
Qed.

Lemma find_put_note k a v r idx sp : forall l k',
  find_note k' (put_note_k k a v r idx sp l)
  = if key_eqb k k' then Some (mkNote k a v r idx (add_spender sp (spent_of k l))) else find_note k' l.
Proof.
  unfold spent_of. induction l as [|n l IH]; intros k'; cbn [put_note_k find_note].
  - cbn [n_key]. destruct (key_eqb k k'); reflexivity.
  - destruct (key_eqb (n_key n) k) eqn:E.
    + cbn [find_note n_key]. destruct (key_eqb k k') eqn:E'; [reflexivity|].
      apply key_eqb_eq in E. rewrite E, E'. reflexivity.
    + cbn [find_note]. destruct (key_eqb (n_key n) k') eqn:E'.
      * apply key_eqb_eq in E'. subst k'. rewrite key_eqb_sym, E. reflexivity.
      * rewrite IH. reflexivity.
Qed.

Lemma add_spender_In sp l x : In x (add_spender sp l) <-> In x l \/ sp = Some x.
Proof.
  unfold add_spender. destruct sp as [t|].
  - destruct (memN t l) eqn:E.
    + apply memN_In in E. split; [auto | intros [? | H]; [assumption | inversion H; subst; assumption]].
    + rewrite in_app_iff. cbn. split; [intros [? | [-> | []]]; auto | intros [? | H]; [auto | inversion H; auto]].
  - split; [auto | intros [? | ?]; [assumption | discriminate]].
Qed.

Lemma put_note_of k a v r idx sp l k' :
  (has_key k' (put_note_k k a v r idx sp l) <-> has_key k' l \/ k = k')
  /\ (forall x, In x (spent_of k' (put_note_k k a v r idx sp l)) <-> In x (spent_of k' l) \/ (k = k' /\ sp = Some x)).
Proof.
  pose proof (find_put_note k a v r idx sp l k') as F. rewrite !find_note_has. unfold spent_of at 1. rewrite F.
  destruct (key_eqb k k') eqn:E.
  - apply key_eqb_eq in E. subst k'. split; [split; eauto|].
    intros x. cbn [n_spent]. rewrite add_spender_In. split; [intros [?|?]; auto | intros [? | [_ ?]]; auto].
  - apply key_eqb_neq in E. split; [split; [auto | intros [? | ?]; [assumption | contradiction]]|].
    intros x. unfold spent_of. split; [auto | intros [? | [? _]]; [assumption | contradiction]].
Qed.

(** * transactions *)

Lemma find_row_In id l r : find_row id l = Some r -> In r l /\ x_id r = id.
Proof.
  induction l as [|a l IH]; cbn [find_row]; [discriminate|].
  destruct (N.eqb (x_id a) id) eqn:E.
  - intros H; inversion H; subst. apply N.eqb_eq in E. split; [left; reflexivity | assumption].
  - intros H. destruct (IH H). split; [right; assumption | assumption].
Qed.

Lemma find_put_tx_meta id h : forall l id',
  find_row id' (put_tx_meta id h l)
  = if N.eqb id id' then
      Some (match find_row id l with
            | Some r => mkTxRow id (Some h) (x_expiry r) (N.min (x_minobs r) h)
            | None => mkTxRow id (Some h) None h end)
    else find_row id' l.
Proof.
  induction l as [|r l IH]; intros id'; cbn [put_tx_meta find_row].
  - cbn [x_id]. destruct (N.eqb id id'); reflexivity.
  - destruct (N.eqb (x_id r) id) eqn:E.
    + cbn [find_row x_id]. destruct (N.eqb id id') eqn:E'; [reflexivity|].
      apply N.eqb_eq in E. rewrite E, E'. reflexivity.
    + cbn [find_row]. destruct (N.eqb (x_id r) id') eqn:E'.
      * apply N.eqb_eq in E'. subst id'. rewrite N.eqb_sym, E. reflexivity.
      * rewrite IH. reflexivity.
Qed.

Lemma put_tx_meta_In id h l r :
  In r (put_tx_meta id h l) ->
  In r l \/ r = match find_row id l with
                | Some r0 => mkTxRow id (Some h) (x_expiry r0) (N.min (x_minobs r0) h)
                | None => mkTxRow id (Some h) None h end.
Proof.
  induction l as [|a l IH]; cbn [put_tx_meta find_row].
  - intros [<- | []]. right. reflexivity.
  - destruct (N.eqb (x_id a) id) eqn:E.
    + intros [<- | H]; [right; reflexivity | left; right; assumption].
    + intros [<- | H]; [left; left; reflexivity|]. destruct (IH H) as [? | ?]; [left; right; assumption | right; assumption].
Qed.

Lemma row_mined_put id h l id' : row_mined l id' = true \/ id = id' -> row_mined (put_tx_meta id h l) id' = true.
Proof.
  unfold row_mined. rewrite find_put_tx_meta. destruct (N.eqb id id') eqn:E.
  - intros _. destruct (find_row id l); reflexivity.
  - apply N.eqb_neq in E. intros [H | H]; [assumption | contradiction].
Qed.

(** * nullifier map and locators *)

Lemma find_put_nf k v : forall l k', find_nf k' (put_nf k v l) = if key_eqb k k' then Some v else find_nf k' l.
Proof.
  induction l as [|[k0 v0] l IH]; intros k'; cbn [put_nf find_nf].
  - destruct (key_eqb k k'); reflexivity.
  - destruct (key_eqb k0 k) eqn:E.
    + cbn [find_nf]. destruct (key_eqb k k') eqn:E'; [reflexivity|].
      apply key_eqb_eq in E. rewrite E, E'. reflexivity.
    + cbn [find_nf]. destruct (key_eqb k0 k') eqn:E'.
      * apply key_eqb_eq in E'. subst k'. rewrite key_eqb_sym, E. reflexivity.
      * apply IH.
Qed.

Lemma find_put_nfs v : forall ks l k', find_nf k' (put_nfs ks v l) = if mem_key k' ks then Some v else find_nf k' l.
Proof.
  induction ks as [|k ks IH]; intros l k'; cbn [put_nfs]; [reflexivity|].
  rewrite IH, find_put_nf. unfold mem_key. cbn [existsb]. fold (mem_key k' ks).
  rewrite (key_eqb_sym k' k). destruct (mem_key k' ks); destruct (key_eqb k k'); reflexivity.
Qed.

Lemma find_loc_app h i l1 l2 : find_loc h i (l1 ++ l2) = match find_loc h i l1 with Some t => Some t | None => find_loc h i l2 end.
Proof.
  induction l1 as [|[[h' i'] t'] l1 IH]; cbn [app find_loc]; [reflexivity|].
  destruct (N.eqb h' h && N.eqb i' i); [reflexivity | assumption].
Qed.

Lemma find_loc_none_conflicts h i t l : loc_conflicts h i t l = [] -> find_loc h i l = None.
Proof.
  unfold loc_conflicts. induction l as [|[[h' i'] t'] l IH]; cbn [filter find_loc]; [reflexivity|].
  destruct (N.eqb h' h && N.eqb i' i); cbn [orb]; [discriminate|].
  destruct (N.eqb t' t); [discriminate | assumption].
Qed.

Lemma loc_eqb_eq a b : loc_eqb a b = true <-> a = b.
Proof.
  destruct a as [[h i] t], b as [[h' i'] t']. unfold loc_eqb. rewrite !andb_true_iff, !N.eqb_eq.
  split; [intros [[-> ->] ->]; reflexivity | intros E; inversion E; auto].
Qed.

(** after a successful [put_loc] the locator resolves to the transaction; other locators are unchanged *)
Lemma find_put_loc h i t l l' :
  put_loc h i t l = Some l' ->
  find_loc h i l' = Some t
  /\ (forall h' i' t', find_loc h' i' l = Some t' -> find_loc h' i' l' = Some t')
  /\ (forall x, In x l' -> In x l \/ x = (h, i, t)).
Proof.
  unfold put_loc. destruct (loc_conflicts h i t l) as [|x [|y r]] eqn:E.
  - intros H; inversion H; subst. split; [|split].
    + rewrite find_loc_app, (find_loc_none_conflicts _ _ _ _ E). cbn. rewrite !N.eqb_refl. reflexivity.
    + intros h' i' t' H'. rewrite find_loc_app, H'. reflexivity.
    + intros x Hx. apply in_app_or in Hx. destruct Hx as [? | [<- | []]]; auto.
  - destruct (loc_eqb x (h, i, t)) eqn:Ex; [|discriminate]. intros H; inversion H; subst. apply loc_eqb_eq in Ex. subst x.
    split; [|split; auto].
    (* the only conflicting row is (h,i,t) itself, so it is the first row at (h,i) *)
    revert E. unfold loc_conflicts. clear H. induction l' as [|[[h' i'] t'] l IH]; cbn [filter find_loc]; [discriminate|].
    destruct (N.eqb h' h && N.eqb i' i) eqn:E1; cbn [orb].
    + intros H. inversion H; subst. reflexivity.
    + destruct (N.eqb t' t) eqn:E2.
      * intros H. inversion H; subst. rewrite !N.eqb_refl in E1. discriminate.
      * exact IH.
  - discriminate.
Qed.

Lemma find_loc_filter (f : N -> bool) h i l :
  f h = true ->
  find_loc h i (filter (fun x : loc => let '(h', _, _) := x in f h') l) = find_loc h i l.
Proof.
  intros Hf. induction l as [|[[h' i'] t'] l IH]; cbn [filter find_loc]; [reflexivity|].
  destruct (f h') eqn:E; cbn [find_loc].
  - destruct (N.eqb h' h && N.eqb i' i); [reflexivity | assumption].
  - destruct (N.eqb h' h && N.eqb i' i) eqn:E'; [|assumption].
    apply andb_true_iff in E'. destruct E' as [E' _]. apply N.eqb_eq in E'. subst. congruence.
Qed.

Lemma find_nf_filter (g : key * (N * N) -> bool) k v l :
  find_nf k l = Some v -> g (k, v) = true -> find_nf k (filter g l) = Some v.
Proof.
  induction l as [|[k0 v0] l IH]; cbn [find_nf filter]; [discriminate|].
  destruct (key_eqb k0 k) eqn:E.
  - intros H Hg. inversion H; subst. apply key_eqb_eq in E. subst. rewrite Hg. cbn [find_nf]. rewrite key_eqb_refl. reflexivity.
  - intros H Hg. destruct (g (k0, v0)); cbn [find_nf]; [rewrite E|]; auto.
Qed.

(** * blocks *)

Lemma has_block_In bl h : has_block bl h = true <-> exists x, In (h, x) bl.
Proof.
  unfold has_block. induction bl as [|[a y] bl IH]; cbn [find_block].
  - split; [discriminate | intros [x []]].
  - destruct (N.eqb a h) eqn:E.
    + apply N.eqb_eq in E. subst. split; [intros _; exists y; left; reflexivity | reflexivity].
    + apply N.eqb_neq in E. rewrite IH. split; intros [x H]; exists x; [right; assumption|].
      destruct H as [H | H]; [inversion H; contradiction | assumption].
Qed.

Lemma has_block_put_iff h x bl bl' h' :
  put_block h x bl = Some bl' -> (has_block bl' h' = true <-> h' = h \/ has_block bl h' = true).
Proof.
  intros H. split; [apply (has_block_put _ _ _ _ _ H)|].
  unfold put_block in H. destruct (find_block h bl) as [x'|] eqn:E.
  - destruct (N.eqb x' x); [|discriminate]. inversion H; subst. intros [-> | ?]; [|assumption].
    unfold has_block. rewrite E. reflexivity.
  - inversion H; subst. rewrite !has_block_In. intros [-> | [y Hy]].
    + exists x. apply in_or_app. right. left. reflexivity.
    + exists y. apply in_or_app. left. assumption.
Qed.

Lemma has_block_filter_le bl h m :
  has_block (filter (fun p : N * N => fst p <=? h) bl) m = true <-> has_block bl m = true /\ m <= h.
Proof.
  rewrite !has_block_In. split.
  - intros [x Hx]. apply filter_In in Hx. cbn [fst] in Hx. destruct Hx as [H1 H2]. apply N.leb_le in H2. eauto.
  - intros [[x Hx] Hle]. exists x. apply filter_In. cbn [fst]. split; [assumption | apply N.leb_le; assumption].
Qed.

(** * put_outputs *)

Lemma put_outputs_of nfm locs recv : forall os txs notes txs' notes',
  (forall o o', In o os -> In o' os -> pairc o o') ->
  (forall o, In o os -> keyed notes (o_key o) recv (o_idx o)) ->
  put_outputs nfm locs recv os txs notes = (txs', notes') ->
  (forall k', has_key k' notes' <-> has_key k' notes \/ In k' (map o_key os))
  /\ (forall k' x, In x (spent_of k' notes') <->
        In x (spent_of k' notes) \/ (In k' (map o_key os) /\ exists hh, detect_spend nfm locs k' = Some (x, hh))).
Proof.
  induction os as [|o os IH]; intros txs notes txs' notes' Hpair Hkeyed H; cbn [put_outputs] in H.
  - inversion H; subst. split; [intros k'; cbn; tauto|]. intros k' x. cbn. split; [auto | intros [? | [[] _]]; assumption].
  - set (sp := match detect_spend nfm locs (o_key o) with Some (t, _) => Some t | None => None end) in *.
    rewrite (put_note_keyed _ _ _ _ _ _ _ (Hkeyed o (or_introl eq_refl))) in H.
    assert (Hkeyed' : forall o', In o' os -> keyed (put_note_k (o_key o) (out_acct o) (o_value o) recv (o_idx o) sp notes) (o_key o') recv (o_idx o')).
    { intros o' Ho'. apply keyed_put_k; [apply Hkeyed; right; assumption|].
      apply (Hpair o o'); [left; reflexivity | right; assumption]. }
    destruct (IH _ _ _ _ (fun a b Ha Hb => Hpair a b (or_intror Ha) (or_intror Hb)) Hkeyed' H) as [K S].
    split.
    + intros k'. rewrite K. destruct (put_note_of (o_key o) (out_acct o) (o_value o) recv (o_idx o) sp notes k') as [K1 _].
      rewrite K1. cbn [map In]. tauto.
    + intros k' x. rewrite S. destruct (put_note_of (o_key o) (out_acct o) (o_value o) recv (o_idx o) sp notes k') as [_ S1].
      rewrite S1. cbn [map In].
      assert (Hsp : forall y, sp = Some y <-> exists hh, detect_spend nfm locs (o_key o) = Some (y, hh)).
      { intros y. unfold sp. destruct (detect_spend nfm locs (o_key o)) as [[t0 h0]|].
        - split; [intros E; inversion E; subst; eauto | intros [hh E]; inversion E; reflexivity].
        - split; [discriminate | intros [hh E]; discriminate]. }
      split.
      * intros [[H1 | [E1 E2]] | H1]; [auto | | tauto].
        right. split; [left; assumption|]. subst k'. apply Hsp. assumption.
      * intros [H1 | [[E1 | E1] H2]]; [auto | | auto].
        left. right. split; [assumption|]. subst k'. apply Hsp. assumption.
Qed.

Lemma put_outputs_rows (R : list txrow -> Prop) nfm locs recv :
  (forall k t' h' txs, detect_spend nfm locs k = Some (t', h') -> R txs -> R (put_tx_meta t' h' txs)) ->
  forall os txs notes txs' notes',
  put_outputs nfm locs recv os txs notes = (txs', notes') -> R txs -> R txs'.
Proof.
  intros HR. induction os as [|o os IH]; intros txs notes txs' notes' H Hr; cbn [put_outputs] in H.
  - inversion H; subst. assumption.
  - eapply IH; [exact H|]. destruct (detect_spend nfm locs (o_key o)) as [[t0 h0]|] eqn:E; [eapply HR; eauto | assumption].
Qed.

(** * track *)

Lemma NoDup_app_inv {A} (l1 l2 : list A) :
  NoDup (l1 ++ l2) -> NoDup l1 /\ NoDup l2 /\ forall x, In x l1 -> In x l2 -> False.
Proof.
  induction l1 as [|a l1 IH]; cbn [app].
  - intros H. split; [constructor|]. split; [assumption | intros x []].
  - intros H. inversion H; subst. destruct (IH H3) as [I1 [I2 I3]].
    split; [constructor; [intros Hin; apply H2; apply in_or_app; left; assumption | assumption]|].
    split; [assumption|]. intros x [<- | Hx] Hx2; [apply H2; apply in_or_app; right; assumption | eauto].
Qed.


Lemma track_spec h : forall us locs nfm locs' nfm',
  track h us locs nfm = Some (locs', nfm') ->
  NoDup (flat_map (fun e : N * N * list key => snd e) us) ->
  (forall i t ks k, In (i, t, ks) us -> In k ks -> find_nf k nfm' = Some (h, i) /\ find_loc h i locs' = Some t)
  /\ (forall k, ~ In k (flat_map (fun e : N * N * list key => snd e) us) -> find_nf k nfm' = find_nf k nfm)
  /\ (forall h' i' t', find_loc h' i' locs = Some t' -> find_loc h' i' locs' = Some t')
  /\ (forall x, In x locs' -> In x locs \/ exists i t ks, In (i, t, ks) us /\ x = (h, i, t)).
Proof.
  induction us as [|[[i1 t1] ks1] us IH]; intros locs nfm locs' nfm' H Hnd; cbn [track] in H.
  - inversion H; subst. split; [intros i0 t0 ks0 k0 []|]. split; [reflexivity|]. split; [auto|]. intros x Hx. left. assumption.
  - rename i1 into i, t1 into t, ks1 into ks. destruct (put_loc h i t locs) as [locs1|] eqn:E; [|discriminate].
    cbn [flat_map snd] in Hnd. destruct (NoDup_app_inv _ _ Hnd) as [N1 [N2 N3]].
    destruct (find_put_loc _ _ _ _ _ E) as [L1 [L2 L3]].
    destruct (IH _ _ _ _ H N2) as [I1 [I2 [I3 I4]]].
    split; [|split; [|split]].
    + intros i0 t0 ks0 k [Hin | Hin] Hk.
      * inversion Hin; subst. split; [|auto].
        rewrite I2 by (intros Hc; eapply N3; eauto).
        rewrite find_put_nfs. rewrite (proj2 (mem_key_In k ks0) Hk). reflexivity.
      * eauto.
    + intros k Hk. cbn [flat_map snd] in Hk. rewrite I2 by (intros Hc; apply Hk; apply in_or_app; right; assumption).
      rewrite find_put_nfs. destruct (mem_key k ks) eqn:Em; [|reflexivity].
      exfalso. apply Hk. apply in_or_app. left. apply mem_key_In. assumption.
    + intros h' i' t' Hf. auto.
    + intros x Hx. destruct (I4 x Hx) as [Hold | [i0 [t0 [ks0 [Hin ->]]]]].
      * destruct (L3 x Hold) as [? | ->]; [auto|]. right. exists i, t, ks. split; [left; reflexivity | reflexivity].
      * right. exists i0, t0, ks0. split; [right; assumption | reflexivity].
Qed.

Lemma flat_map_filter {A B} (g : A -> list B) (p : B -> bool) l :
  flat_map (fun a => filter p (g a)) l = filter p (flat_map g l).
Proof. induction l as [|a l IH]; cbn [flat_map]; [reflexivity|]. rewrite filter_app, IH. reflexivity. Qed.

Lemma scan_txs_unl nfs : forall ts i0,
  map (fun e : N * N * list key => snd e) (snd (scan_txs nfs i0 ts))
  = map (fun t => filter (fun k => negb (mem_key k nfs)) (t_spends t)) ts.
Proof.
  induction ts as [|t ts IH]; intros i0; cbn [scan_txs]; [reflexivity|].
  specialize (IH (N.succ i0)). destruct (scan_txs nfs (N.succ i0) ts) as [ws us].
  unfold scan_tx. cbn [snd] in *.
  destruct (filter (fun k => mem_key k nfs) (t_spends t)); destruct (filter owned (t_outs t)); cbn [snd map]; rewrite IH; reflexivity.
Qed.

Lemma scan_txs_entry nfs : forall ts i0 j t,
  nth_error ts j = Some t ->
  In (i0 + N.of_nat j, t_id t, filter (fun k => negb (mem_key k nfs)) (t_spends t)) (snd (scan_txs nfs i0 ts)).
Proof.
  induction ts as [|t0 ts IH]; intros i0 j t H; [destruct j; discriminate|].
  cbn [scan_txs]. specialize (IH (N.succ i0)). destruct (scan_txs nfs (N.succ i0) ts) as [ws us]. cbn [snd] in IH.
  assert (Hs : snd (let '(w, u) := scan_tx nfs i0 t0 in (match w with Some x => x :: ws | None => ws end, u :: us))
               = (i0, t_id t0, filter (fun k => negb (mem_key k nfs)) (t_spends t0)) :: us).
  { unfold scan_tx. destruct (filter (fun k => mem_key k nfs) (t_spends t0)); destruct (filter owned (t_outs t0)); reflexivity. }
  rewrite Hs. destruct j as [|j]; cbn [nth_error] in H.
  - inversion H; subst. left. f_equal. f_equal. lia.
  - right. specialize (IH j t H). replace (i0 + N.of_nat (S j)) with (N.succ i0 + N.of_nat j) by lia. assumption.
Qed.

Lemma flat_map_map {A B C} (f : A -> B) (g : B -> list C) l : flat_map g (map f l) = flat_map (fun a => g (f a)) l.
Proof. induction l as [|a l IH]; cbn; [reflexivity | rewrite IH; reflexivity]. Qed.

Lemma scan_txs_unl_flat nfs ts i0 :
  flat_map (fun e : N * N * list key => snd e) (snd (scan_txs nfs i0 ts))
  = filter (fun k => negb (mem_key k nfs)) (flat_map t_spends ts).
Proof.
  rewrite <- flat_map_filter.
  transitivity (flat_map (fun l : list key => l) (map (fun e : N * N * list key => snd e) (snd (scan_txs nfs i0 ts)))).
  - rewrite flat_map_map. reflexivity.
  - rewrite scan_txs_unl, flat_map_map. reflexivity.
Qed.

Lemma put_outputs_mined nfm locs recv : forall os txs notes txs' notes',
  put_outputs nfm locs recv os txs notes = (txs', notes') ->
  (forall id, row_mined txs id = true -> row_mined txs' id = true)
  /\ (forall o x hh, In o os -> detect_spend nfm locs (o_key o) = Some (x, hh) -> row_mined txs' x = true).
Proof.
  induction os as [|o os IH]; intros txs notes txs' notes' H; cbn [put_outputs] in H.
  - inversion H; subst. split; [auto | intros o x hh []].
  - destruct (IH _ _ _ _ H) as [I1 I2]. split.
    + intros id Hm. apply I1. destruct (detect_spend nfm locs (o_key o)) as [[t0 h0]|]; [|assumption].
      apply row_mined_put. left. assumption.
    + intros o' x hh [<- | Hin] Hd; [|eauto]. apply I1. rewrite Hd. apply row_mined_put. right. reflexivity.
Qed.

(** * rows of [transactions] through a scan: every row is an old row or a mined row *)

Definition rows_from (old new : list txrow) : Prop :=
  forall r, In r new -> In r old \/ x_mined r <> None.

Lemma rows_from_refl l : rows_from l l.
Proof. intros r H. left. assumption. Qed.

Lemma rows_from_trans a b c : rows_from a b -> rows_from b c -> rows_from a c.
Proof. intros H1 H2 r Hr. destruct (H2 r Hr) as [H | H]; [apply H1; assumption | right; assumption]. Qed.

Lemma rows_from_put id h l : rows_from l (put_tx_meta id h l).
Proof.
  intros r Hr. destruct (put_tx_meta_In _ _ _ _ Hr) as [H | ->]; [left; assumption|].
  right. destruct (find_row id l); cbn; discriminate.
Qed.

Lemma put_outputs_from nfm locs recv : forall os txs notes txs' notes',
  put_outputs nfm locs recv os txs notes = (txs', notes') -> rows_from txs txs'.
Proof.
  induction os as [|o os IH]; intros txs notes txs' notes' H; cbn [put_outputs] in H.
  - inversion H; subst. apply rows_from_refl.
  - eapply rows_from_trans; [|eapply IH; exact H].
    destruct (detect_spend nfm locs (o_key o)) as [[t0 h0]|]; [apply rows_from_put | apply rows_from_refl].
Qed.

Lemma put_wtxs_from h nfm locs : forall ws txs notes txs' notes',
  put_wtxs h nfm locs ws txs notes = Some (txs', notes') -> rows_from txs txs'.
Proof.
  induction ws as [|w ws IH]; intros txs notes txs' notes' H; cbn [put_wtxs] in H.
  - inversion H; subst. apply rows_from_refl.
  - destruct (put_wtx h nfm locs w txs notes) as [[txs1 notes1]|] eqn:E; [|discriminate].
    unfold put_wtx in E. destruct (mark_all _ (wt_found w) (wt_id w) notes) as [n1|]; [|discriminate]. inversion E as [E'].
    eapply rows_from_trans; [|eapply IH; exact H].
    eapply rows_from_trans; [apply rows_from_put | eapply put_outputs_from; exact E'].
Qed.

Lemma put_sblocks_from floor : forall sbs r r', put_sblocks floor sbs r = Ok r' ->
  rows_from (r_txs r) (r_txs r')
  /\ (forall m, has_block (r_blocks r') m = true <-> has_block (r_blocks r) m = true \/ In m (map sb_height sbs)).
Proof.
  induction sbs as [|sb sbs IH]; intros r r' H; cbn [put_sblocks] in H.
  - inversion H; subst. split; [apply rows_from_refl|]. intros m. cbn. tauto.
  - destruct (put_sblock floor sb r) as [r1| |] eqn:E; try discriminate.
    destruct (IH _ _ H) as [I1 I2]. unfold put_sblock in E.
    destruct (put_block (sb_height sb) (sb_hash sb) (r_blocks r)) as [bl|] eqn:Eb; [|discriminate].
    destruct (put_wtxs (sb_height sb) (r_nfmap r) (r_locs r) (sb_wtxs sb) (r_txs r) (r_notes r)) as [[txs notes]|] eqn:Ew; [|discriminate].
    assert (Hr1 : r_txs r1 = txs /\ r_blocks r1 = bl).
    { destruct (should_track floor (sb_height sb)); [destruct (track _ _ _ _) as [[locs nfm]|]; [|discriminate]|]; inversion E; subst; auto. }
    destruct Hr1 as [E1 E2]. split.
    + eapply rows_from_trans; [|exact I1]. rewrite E1. eapply put_wtxs_from; eauto.
    + intros m. rewrite I2, E2, (has_block_put_iff _ _ _ _ m Eb). cbn [map In]. intuition.
Qed.

Lemma scan_blocks_heights_map : forall bs prior nfs sbs,
  scan_blocks prior nfs bs = Ok sbs -> map sb_height sbs = map b_height bs.
Proof.
  induction bs as [|b bs IH]; intros prior nfs sbs H; cbn [scan_blocks] in H.
  - inversion H; reflexivity.
  - destruct (continuity_ok prior b); [|discriminate].
    destruct (scan_blocks _ _ bs) as [rs| |] eqn:E; try discriminate. inversion H; subst.
    cbn [map]. rewrite (IH _ _ _ E). unfold scan_block. destruct (scan_txs nfs 0 (b_txs b)). reflexivity.
Qed.

(** what a successful scan does to the set of scanned heights, the tip and the unmined rows *)
Lemma scan_effect birthday s bs s' :
  scan birthday s bs = Ok s' ->
  (forall m, has_block (w_blocks s') m = true <-> has_block (w_blocks s) m = true \/ In m (map b_height bs))
  /\ rows_from (w_txs s) (w_txs s')
  /\ w_tip s' = match bs with [] => w_tip s | _ => max_opt (w_tip s) (last_height bs 0) end.
Proof.
  intros H. unfold scan in H. destruct bs as [|b0 bs0].
  - inversion H; subst. split; [intros m; cbn; tauto|]. split; [apply rows_from_refl | reflexivity].
  - destruct (scan_blocks _ (unspent_nfs s) (b0 :: bs0)) as [sbs| |] eqn:E; try discriminate.
    destruct (put_sblocks _ sbs _) as [r| |] eqn:Ep; try discriminate.
    destruct (put_sblocks_from _ _ _ _ Ep) as [F1 F2]. cbn [r_txs r_blocks] in F1, F2.
    rewrite (scan_blocks_heights_map _ _ _ _ E) in F2.
    destruct (fully_scanned birthday (w_blocks s)) as [f|]; [destruct (prune _ _ _) as [locs nfm]|]; inversion H; subst; cbn [w_blocks w_txs w_tip]; auto.
Qed.

Lemma put_nf_In k v : forall l e, In e (put_nf k v l) -> In e l \/ e = (k, v).
Proof.
  induction l as [|[k0 v0] l IH]; intros e; cbn [put_nf].
  - intros [<- | []]. right. reflexivity.
  - destruct (key_eqb k0 k).
    + intros [<- | H]; [right; reflexivity | left; right; assumption].
    + intros [<- | H]; [left; left; reflexivity|]. destruct (IH e H); [left; right; assumption | right; assumption].
Qed.

Lemma put_nfs_In v : forall ks l e, In e (put_nfs ks v l) -> In e l \/ snd e = v.
Proof.
  induction ks as [|k ks IH]; intros l e H; cbn [put_nfs] in H; [left; assumption|].
  destruct (IH _ _ H) as [H1 | H1]; [|right; assumption].
  destruct (put_nf_In _ _ _ _ H1) as [? | ->]; [left; assumption | right; reflexivity].
Qed.

Lemma track_nfm_In h : forall us locs nfm locs' nfm',
  track h us locs nfm = Some (locs', nfm') -> forall e, In e nfm' -> In e nfm \/ fst (snd e) = h.
Proof.
  induction us as [|[[i t] ks] us IH]; intros locs nfm locs' nfm' H e He; cbn [track] in H.
  - inversion H; subst. left. assumption.
  - destruct (put_loc h i t locs) as [locs1|]; [|discriminate].
    destruct (IH _ _ _ _ H e He) as [H1 | H1]; [|right; assumption].
    destruct (put_nfs_In _ _ _ _ H1) as [? | E]; [left; assumption | right; rewrite E; reflexivity].
Qed.
