(** C01 — lemmas. *)
From Coq Require Import Permutation.
From V.Lib Require Import Base.
From V.Gen Require Import C01Consts.
From V.C01 Require Import Model Spec.
Local Open Scope N_scope.

(** * The balance is a sum over the notes table in which every note is counted once *)

Lemma sumN_app a b : sumN (a ++ b) = sumN a + sumN b.
Proof. induction a as [|x a IH]; cbn [sumN fold_right app]; [reflexivity|]. fold (sumN (a ++ b)). fold (sumN a). rewrite IH. lia. Qed.

Lemma sum_split (f : note -> bool) (l : list note) :
  sumN (map n_value (filter f l)) + sumN (map n_value (filter (fun n => negb (f n)) l))
  = sumN (map n_value l).
Proof.
  induction l as [|n l IH]; [reflexivity|].
  cbn [filter]. destruct (f n); cbn [negb map sumN fold_right];
    fold (sumN (map n_value l)); fold (sumN (map n_value (filter f l)));
    fold (sumN (map n_value (filter (fun n => negb (f n)) l))); lia.
Qed.

Lemma balance_is_ledger_lemma (s : wstate) (target acct pool : N) :
  bal_total s target acct pool + bal_uneconomic s target acct pool
  = sumN (map n_value (bal_notes s target acct pool)).
Proof.
  unfold bal_total, bal_uneconomic.
  rewrite <- (sum_split (fun n => MARGINAL_FEE <? n_value n) (bal_notes s target acct pool)).
  f_equal. f_equal. f_equal. apply filter_ext. intros n.
  destruct (N.ltb_spec MARGINAL_FEE (n_value n)); destruct (N.leb_spec (n_value n) MARGINAL_FEE); cbn; try reflexivity; lia.
Qed.

(** * Basic facts about the table helpers *)

Lemma key_eqb_eq a b : key_eqb a b = true <-> a = b.
Proof.
  unfold key_eqb. destruct a as [a1 a2], b as [b1 b2]; cbn [fst snd].
  rewrite andb_true_iff, !N.eqb_eq. split; [intros [-> ->]; reflexivity | intros E; inversion E; auto].
Qed.

Lemma key_eqb_refl a : key_eqb a a = true.
Proof. apply key_eqb_eq; reflexivity. Qed.

Lemma mem_key_In k l : mem_key k l = true <-> In k l.
Proof.
  unfold mem_key. rewrite existsb_exists. split.
  - intros [x [Hx E]]. apply key_eqb_eq in E. subst; assumption.
  - intros H. exists k. split; [assumption | apply key_eqb_refl].
Qed.

Lemma memN_In x l : memN x l = true <-> In x l.
Proof.
  unfold memN. rewrite existsb_exists. split.
  - intros [y [Hy E]]. apply N.eqb_eq in E. subst; assumption.
  - intros H. exists x. split; [assumption | apply N.eqb_refl].
Qed.

Lemma find_nf_In k l v : find_nf k l = Some v -> In (k, v) l.
Proof.
  induction l as [|[k' v'] l IH]; cbn [find_nf]; [discriminate|].
  destruct (key_eqb k' k) eqn:E.
  - intros H; inversion H; subst. apply key_eqb_eq in E; subst. left; reflexivity.
  - intros H. right. auto.
Qed.

Lemma find_loc_In h i l t : find_loc h i l = Some t -> In (h, i, t) l.
Proof.
  induction l as [|[[h' i'] t'] l IH]; cbn [find_loc]; [discriminate|].
  destruct (N.eqb h' h && N.eqb i' i) eqn:E.
  - intros H; inversion H; subst. apply andb_true_iff in E. destruct E as [E1 E2].
    apply N.eqb_eq in E1, E2. subst. left; reflexivity.
  - intros H. right. auto.
Qed.

Lemma find_block_In h l x : find_block h l = Some x -> In (h, x) l.
Proof.
  induction l as [|[h' x'] l IH]; cbn [find_block]; [discriminate|].
  destruct (N.eqb h' h) eqn:E.
  - intros H; inversion H; subst. apply N.eqb_eq in E. subst. left; reflexivity.
  - intros H. right. auto.
Qed.

(** * Where the rows written by a scan come from *)

Lemma scan_txs_spec nfs ts : forall i0,
  (forall w, In w (fst (scan_txs nfs i0 ts)) ->
     exists t, In t ts /\ wt_id w = t_id t /\ incl (wt_found w) (t_spends t)
               /\ incl (wt_owned w) (filter owned (t_outs t)))
  /\ (forall e, In e (snd (scan_txs nfs i0 ts)) ->
     exists j t, nth_error ts j = Some t /\ fst (fst e) = i0 + N.of_nat j /\ snd (fst e) = t_id t
                 /\ incl (snd e) (t_spends t)).
Proof.
  induction ts as [|t ts IH]; intros i0; cbn [scan_txs].
  - split; intros x [].
  - specialize (IH (N.succ i0)). destruct (scan_txs nfs (N.succ i0) ts) as [ws us] eqn:E.
    cbn [fst snd] in IH. destruct IH as [IHw IHu].
    unfold scan_tx.
    set (found := filter (fun k => mem_key k nfs) (t_spends t)).
    set (own := filter owned (t_outs t)).
    assert (Hnew : forall w, w = mkWtx (t_id t) i0 found own ->
       exists t0, In t0 (t :: ts) /\ wt_id w = t_id t0 /\ incl (wt_found w) (t_spends t0)
                  /\ incl (wt_owned w) (filter owned (t_outs t0))).
    { intros w ->. exists t. cbn [wt_id wt_found wt_owned]. split; [left; reflexivity|]. split; [reflexivity|].
      split; [|apply incl_refl]. intros k Hk. unfold found in Hk. apply filter_In in Hk. tauto. }
    split.
    + intros w Hw.
      assert (Hold : In w ws -> exists t0, In t0 (t :: ts) /\ wt_id w = t_id t0 /\ incl (wt_found w) (t_spends t0)
                  /\ incl (wt_owned w) (filter owned (t_outs t0))).
      { intros Hin. destruct (IHw w Hin) as [t0 [H0 H1]]. exists t0. split; [right; assumption | assumption]. }
      destruct found eqn:Ef; destruct own eqn:Eo; cbn [fst] in Hw.
      * auto.
      * destruct Hw as [<- | Hw]; [apply Hnew; reflexivity | auto].
      * destruct Hw as [<- | Hw]; [apply Hnew; reflexivity | auto].
      * destruct Hw as [<- | Hw]; [apply Hnew; reflexivity | auto].
    + intros e He.
      assert (He' : e = (i0, t_id t, filter (fun k => negb (mem_key k nfs)) (t_spends t)) \/ In e us).
      { destruct found; destruct own; cbn [snd] in He; destruct He as [<- | He]; auto. }
      destruct He' as [-> | He'].
      * exists 0%nat, t. cbn [nth_error fst snd]. split; [reflexivity|]. split; [lia|]. split; [reflexivity|].
        intros k Hk. apply filter_In in Hk. tauto.
      * destruct (IHu e He') as [j [t0 [H0 [H1 [H2 H3]]]]].
        exists (S j), t0. cbn [nth_error]. split; [assumption|]. split; [lia|]. split; assumption.
Qed.

(** * Upsert by (pool, txid, output index) versus upsert by nullifier

    The code (and the model) find the row of a received note by (transaction, output index);
    the proofs reason with the nullifier as key.  The two coincide whenever identity and
    nullifier determine each other ([keyed]), which a [valid_universe] guarantees. *)

Fixpoint put_note_k (k : key) (acct value recv idx : N) (sp : option N) (l : list note) : list note :=
  match l with
  | [] => [mkNote k acct value recv idx (add_spender sp [])]
  | n :: l' =>
      if key_eqb (n_key n) k
      then mkNote k acct value recv idx (add_spender sp (n_spent n)) :: l'
      else n :: put_note_k k acct value recv idx sp l'
  end.

Definition keyed (l : list note) (k : key) (recv idx : N) : Prop :=
  forall n, In n l -> id_match n k recv idx = key_eqb (n_key n) k.

Lemma put_note_keyed k a v recv idx sp : forall l,
  keyed l k recv idx -> put_note k a v recv idx sp l = put_note_k k a v recv idx sp l.
Proof.
  induction l as [|n l IH]; intros H; cbn [put_note put_note_k]; [reflexivity|].
  rewrite (H n (or_introl eq_refl)). destruct (key_eqb (n_key n) k); [reflexivity|].
  f_equal. apply IH. intros n' Hn'. apply H. right. assumption.
Qed.

(** (pool, index) and nullifier of two outputs of one transaction determine each other *)
Definition pairc (o o' : out) : Prop :=
  N.eqb (o_pool o) (o_pool o') && N.eqb (o_idx o) (o_idx o') = key_eqb (o_key o) (o_key o').

Lemma keyed_put_k k a v recv idx sp k' idx' : forall l,
  keyed l k' recv idx' ->
  N.eqb (fst k) (fst k') && N.eqb idx idx' = key_eqb k k' ->
  keyed (put_note_k k a v recv idx sp l) k' recv idx'.
Proof.
  intros l Hl Hp.
  assert (Hnew : forall spl, id_match (mkNote k a v recv idx spl) k' recv idx' = key_eqb (n_key (mkNote k a v recv idx spl)) k').
  { intros spl. unfold id_match. cbn [n_key n_recv n_idx]. rewrite N.eqb_refl, andb_true_r. exact Hp. }
  induction l as [|n l IH]; cbn [put_note_k].
  - intros n' [<- | []]. apply Hnew.
  - destruct (key_eqb (n_key n) k).
    + intros n' [<- | Hn']; [apply Hnew | apply Hl; right; assumption].
    + intros n' [<- | Hn']; [apply Hl; left; reflexivity|]. apply IH; [|assumption]. intros x Hx. apply Hl. right. assumption.
Qed.

(** * Soundness invariant: every row of the wallet comes from the chain *)

Section Sound.
Variable c : list block.
(** [U]: every block the wallet was ever offered (the current chain [c] and the branches it left);
    notes and their spenders may stem from any of them, scanned blocks only from [c]. *)
Variable U : list block.
Hypothesis HcU : incl c U.
Hypothesis HU : valid_universe U.

Definition note_sound (n : note) : Prop :=
  (exists b t o, In b U /\ In t (b_txs b) /\ In o (t_outs t) /\ o_owner o = Some (n_acct n)
                 /\ o_key o = n_key n /\ o_value o = n_value n /\ t_id t = n_recv n /\ o_idx o = n_idx n)
  /\ (forall tid, In tid (n_spent n) ->
        exists b t, In b U /\ In t (b_txs b) /\ t_id t = tid /\ In (n_key n) (t_spends t)).

Definition loc_sound (x : loc) : Prop :=
  let '(h, i, tid) := x in
  exists b t, In b c /\ b_height b = h /\ nth_error (b_txs b) (N.to_nat i) = Some t /\ t_id t = tid.

Definition nfe_sound (e : key * (N * N)) : Prop :=
  exists b t, In b c /\ b_height b = fst (snd e) /\ nth_error (b_txs b) (N.to_nat (snd (snd e))) = Some t
              /\ In (fst e) (t_spends t).

Definition blk_sound (p : N * N) : Prop := exists b, In b c /\ b_height b = fst p /\ b_hash b = snd p.

Record sound_rows (bl : list (N * N)) (notes : list note) (locs : list loc) (nfm : list (key * (N * N))) : Prop := {
  sr_blocks : Forall blk_sound bl;
  sr_notes : Forall note_sound notes;
  sr_nodup : NoDup (map n_key notes);
  sr_locs : Forall loc_sound locs;
  sr_nfm : Forall nfe_sound nfm
}.

Definition sound (s : wstate) : Prop := sound_rows (w_blocks s) (w_notes s) (w_locs s) (w_nfmap s).

(** heights identify blocks of the chain *)
Variable birthday : N.
Hypothesis Hheights : heights_from birthday c.

Lemma heights_from_ge : forall l h b, heights_from h l -> In b l -> h <= b_height b.
Proof.
  induction l as [|a l IH]; intros h b H Hin; [destruct Hin|].
  cbn [heights_from] in H. destruct H as [Ha Hl]. destruct Hin as [<- | Hin]; [lia|].
  specialize (IH _ _ Hl Hin). lia.
Qed.

Lemma heights_from_inj : forall l h b b', heights_from h l -> In b l -> In b' l ->
  b_height b = b_height b' -> b = b'.
Proof.
  induction l as [|a l IH]; intros h b b' H Hb Hb' E; [destruct Hb|].
  cbn [heights_from] in H. destruct H as [Ha Hl].
  destruct Hb as [<- | Hb]; destruct Hb' as [<- | Hb'].
  - reflexivity.
  - pose proof (heights_from_ge _ _ _ Hl Hb'). lia.
  - pose proof (heights_from_ge _ _ _ Hl Hb). lia.
  - eapply IH; eauto.
Qed.

Lemma chain_height_inj b b' : In b c -> In b' c -> b_height b = b_height b' -> b = b'.
Proof. intros. eapply heights_from_inj; eauto. Qed.

(** ** mark_spent / mark_all *)

Lemma mark_spent_spec txs k tid : forall l l',
  mark_spent txs k tid l = Some l' ->
  map n_key l' = map n_key l
  /\ Forall2 (fun n n' => n' = n \/ (n_key n = k /\ n' = mkNote (n_key n) (n_acct n) (n_value n) (n_recv n) (n_idx n) (n_spent n ++ [tid]))) l l'.
Proof.
  induction l as [|n l IH]; intros l' H; cbn [mark_spent] in H.
  - inversion H; subst. split; [reflexivity | constructor].
  - destruct (key_eqb (n_key n) k) eqn:E.
    + destruct (existsb _ (n_spent n)); [discriminate|]. inversion H; subst. clear H.
      apply key_eqb_eq in E.
      destruct (memN tid (n_spent n)).
      * split; [reflexivity|]. constructor; [left; reflexivity|].
        clear. induction l; constructor; auto.
      * split; [reflexivity|]. constructor; [right; split; [assumption | reflexivity]|].
        clear. induction l; constructor; auto.
    + destruct (mark_spent txs k tid l) as [r|] eqn:Er; [|discriminate]. inversion H; subst. clear H.
      destruct (IH _ eq_refl) as [Hk Hf]. split; [cbn [map]; f_equal; assumption|].
      constructor; [left; reflexivity | assumption].
Qed.

Lemma mark_spent_sound txs k tid l l' :
  mark_spent txs k tid l = Some l' ->
  (exists b t, In b U /\ In t (b_txs b) /\ t_id t = tid /\ In k (t_spends t)) ->
  Forall note_sound l -> Forall note_sound l' /\ map n_key l' = map n_key l.
Proof.
  intros H Ht Hl. destruct (mark_spent_spec _ _ _ _ _ H) as [Hk Hf]. split; [|assumption].
  clear H Hk. induction Hf as [|n n' l l' Hn Hf IH]; [constructor|].
  inversion Hl; subst. constructor; [|auto].
  destruct Hn as [-> | [Ek ->]]; [assumption|].
  destruct H1 as [Ho Hs]. split; [exact Ho|]. cbn [n_spent n_key].
  intros x Hx. apply in_app_or in Hx. destruct Hx as [Hx | [<- | []]]; [auto|].
  rewrite Ek. exact Ht.
Qed.

Lemma mark_all_sound txs tid : forall ks l l',
  mark_all txs ks tid l = Some l' ->
  (forall k, In k ks -> exists b t, In b U /\ In t (b_txs b) /\ t_id t = tid /\ In k (t_spends t)) ->
  Forall note_sound l -> Forall note_sound l' /\ map n_key l' = map n_key l.
Proof.
  induction ks as [|k ks IH]; intros l l' H Hks Hl; cbn [mark_all] in H.
  - inversion H; subst. auto.
  - destruct (mark_spent txs k tid l) as [l1|] eqn:E; [|discriminate].
    destruct (mark_spent_sound _ _ _ _ _ E (Hks k (or_introl eq_refl)) Hl) as [H1 K1].
    destruct (IH _ _ H (fun k' Hk' => Hks k' (or_intror Hk')) H1) as [H2 K2].
    split; [assumption | congruence].
Qed.

(** ** put_note *)

Lemma put_note_spec k a v r idx sp : forall l,
  NoDup (map n_key l) ->
  NoDup (map n_key (put_note_k k a v r idx sp l))
  /\ forall n', In n' (put_note_k k a v r idx sp l) ->
       In n' l \/ (n_key n' = k /\ n_acct n' = a /\ n_value n' = v /\ n_recv n' = r /\ n_idx n' = idx
                   /\ forall x, In x (n_spent n') -> sp = Some x \/ exists n, In n l /\ n_key n = k /\ In x (n_spent n)).
Proof.
  assert (Hadd : forall x l0, In x (add_spender sp l0) -> sp = Some x \/ In x l0).
  { intros x l0. unfold add_spender. destruct sp as [t|]; [|auto].
    destruct (memN t l0); [auto|]. intros Hx. apply in_app_or in Hx. destruct Hx as [Hx | [<- | []]]; auto. }
  induction l as [|n l IH]; intros Hnd; cbn [put_note_k].
  - split; [cbn; constructor; [intros [] | constructor]|].
    intros n' [<- | []]. right. cbn. repeat split; try reflexivity.
    intros x Hx. destruct (Hadd _ _ Hx) as [? | []]; auto.
  - cbn [map] in Hnd. inversion Hnd as [|? ? Hnin Hnd']; subst.
    destruct (key_eqb (n_key n) k) eqn:E.
    + apply key_eqb_eq in E. split.
      * cbn [map n_key]. rewrite <- E. constructor; assumption.
      * intros n' [<- | Hin]; [|left; right; assumption].
        right. cbn. repeat split; try reflexivity.
        intros x Hx. destruct (Hadd _ _ Hx) as [? | Hx']; [auto|]. right. exists n. split; [left; reflexivity | auto].
    + destruct (IH Hnd') as [IH1 IH2]. split.
      * cbn [map]. constructor; [|assumption].
        intros Hin. apply in_map_iff in Hin. destruct Hin as [n' [Ek Hn']].
        destruct (IH2 _ Hn') as [Hold | [Ek' _]].
        -- apply Hnin. apply in_map_iff. exists n'. split; assumption.
        -- rewrite Ek' in Ek. rewrite <- Ek in E. rewrite key_eqb_refl in E. discriminate.
      * intros n' [<- | Hin]; [left; left; reflexivity|].
        destruct (IH2 _ Hin) as [Hold | [Ek [Ea [Ev [Er [Ei Hs]]]]]]; [left; right; assumption|].
        right. repeat split; try assumption.
        intros x Hx. destruct (Hs x Hx) as [? | [n0 [H0 [H1 H2]]]]; [auto|]. right. exists n0. split; [right; assumption | auto].
Qed.

(** identity and nullifier of the rows of a sound table agree with those of any output of the universe *)
Lemma keyed_of_sound l b t o :
  Forall note_sound l -> In b U -> In t (b_txs b) -> In o (t_outs t) ->
  keyed l (o_key o) (t_id t) (o_idx o).
Proof.
  intros Hs Hb Ht Ho n Hn. rewrite Forall_forall in Hs.
  destruct (Hs _ Hn) as [[bU [tU [oU [HbU [HtU [HoU [_ [Ek [_ [Er Ei]]]]]]]]]] _].
  unfold id_match. destruct (key_eqb (n_key n) (o_key o)) eqn:E.
  - apply key_eqb_eq in E. destruct (vu_out _ HU bU tU oU b t o) as [-> ->]; auto; [congruence|].
    rewrite <- Er, <- Ei, E. cbn [o_key fst]. rewrite !N.eqb_refl. reflexivity.
  - destruct (N.eqb (fst (n_key n)) (fst (o_key o)) && N.eqb (n_recv n) (t_id t) && N.eqb (n_idx n) (o_idx o)) eqn:Em; [|reflexivity].
    exfalso. rewrite !andb_true_iff, !N.eqb_eq in Em. destruct Em as [[Ep Erecv] Eidx].
    assert (tU = t) by (apply (vu_tx _ HU bU tU b t); auto; congruence). subst tU.
    assert (oU = o).
    { apply (vu_idx _ HU b t oU o); auto; [|congruence]. rewrite <- Ek in Ep. cbn [o_key fst] in Ep. assumption. }
    subst oU. rewrite Ek, key_eqb_refl in E. discriminate.
Qed.

Lemma pairc_universe b t o o' : In b U -> In t (b_txs b) -> In o (t_outs t) -> In o' (t_outs t) -> pairc o o'.
Proof.
  intros Hb Ht Ho Ho'. unfold pairc. destruct (key_eqb (o_key o) (o_key o')) eqn:E.
  - apply key_eqb_eq in E. destruct (vu_out _ HU b t o b t o') as [_ ->]; auto. rewrite !N.eqb_refl. reflexivity.
  - destruct (N.eqb (o_pool o) (o_pool o') && N.eqb (o_idx o) (o_idx o')) eqn:Em; [|reflexivity]. exfalso.
    rewrite andb_true_iff, !N.eqb_eq in Em. destruct Em as [Ep Ei].
    assert (o = o') by (apply (vu_idx _ HU b t o o'); auto). subst. rewrite key_eqb_refl in E. discriminate.
Qed.

(** ** detect_spend, put_outputs, put_wtx(s) *)

Lemma detect_spend_sound nfm locs k tid h :
  Forall nfe_sound nfm -> Forall loc_sound locs ->
  detect_spend nfm locs k = Some (tid, h) ->
  exists b t, In b c /\ In t (b_txs b) /\ t_id t = tid /\ In k (t_spends t).
Proof.
  intros Hn Hl H. unfold detect_spend in H.
  destruct (find_nf k nfm) as [[h' i]|] eqn:E1; [|discriminate].
  destruct (find_loc h' i locs) as [t'|] eqn:E2; [|discriminate]. inversion H; subst. clear H.
  apply find_nf_In in E1. apply find_loc_In in E2.
  rewrite Forall_forall in Hn, Hl. specialize (Hn _ E1). specialize (Hl _ E2).
  destruct Hn as [b [t [Hb [Hh [Hnth Hk]]]]]. cbn [fst snd] in *.
  destruct Hl as [b' [t0 [Hb' [Hh' [Hnth' Hid]]]]].
  assert (b = b') by (apply chain_height_inj; congruence). subst b'.
  rewrite Hnth in Hnth'. inversion Hnth'; subst t0.
  exists b, t. repeat split; try assumption. eapply nth_error_In; eauto.
Qed.

Lemma put_outputs_sound nfm locs recv (Hn : Forall nfe_sound nfm) (Hl : Forall loc_sound locs) :
  forall os txs notes txs' notes',
  (forall o, In o os -> owned o = true /\ exists b t, In b c /\ In t (b_txs b) /\ In o (t_outs t) /\ t_id t = recv) ->
  put_outputs nfm locs recv os txs notes = (txs', notes') ->
  Forall note_sound notes -> NoDup (map n_key notes) ->
  Forall note_sound notes' /\ NoDup (map n_key notes').
Proof.
  induction os as [|o os IH]; intros txs notes txs' notes' Hos H Hs Hnd; cbn [put_outputs] in H.
  - inversion H; subst. auto.
  - destruct (Hos o (or_introl eq_refl)) as [Hown [b [t [Hb [Ht [Ho Hid]]]]]].
    assert (Hk : keyed notes (o_key o) recv (o_idx o)).
    { rewrite <- Hid. apply (keyed_of_sound notes b t o Hs (HcU _ Hb) Ht Ho). }
    rewrite (put_note_keyed _ _ _ _ _ _ _ Hk) in H.
    eapply IH in H; [exact H | intros; apply Hos; right; assumption | |].
    + destruct (put_note_spec (o_key o) (out_acct o) (o_value o) recv (o_idx o)
                 (match detect_spend nfm locs (o_key o) with Some (t, _) => Some t | None => None end) notes Hnd) as [_ Hin].
      rewrite Forall_forall. intros n' Hn'. destruct (Hin _ Hn') as [Hold | [Ek [Ea [Ev [Er [Ei Hsp]]]]]].
      * rewrite Forall_forall in Hs. auto.
      * split.
        -- exists b, t, o. repeat split; try assumption; try congruence; [apply HcU; assumption|].
           unfold owned in Hown. unfold out_acct in Ea. destruct (o_owner o); [congruence | discriminate].
        -- intros x Hx. destruct (Hsp x Hx) as [Hd | [n [Hn0 [Hk0 Hx']]]].
           ++ destruct (detect_spend nfm locs (o_key o)) as [[t' h']|] eqn:Ed; [|discriminate].
              inversion Hd; subst. rewrite Ek.
              destruct (detect_spend_sound _ _ _ _ _ Hn Hl Ed) as [b1 [t1 [Hb1 Hrest]]]. exists b1, t1. split; [apply HcU; assumption | assumption].
           ++ rewrite Forall_forall in Hs. destruct (Hs _ Hn0) as [_ Hs2]. rewrite Ek, <- Hk0. auto.
    + apply (put_note_spec (o_key o) (out_acct o) (o_value o) recv (o_idx o) _ notes Hnd).
Qed.

Lemma put_wtxs_sound h nfm locs (Hn : Forall nfe_sound nfm) (Hl : Forall loc_sound locs) :
  forall ws txs notes txs' notes',
  (forall w, In w ws -> exists b t, In b c /\ In t (b_txs b) /\ wt_id w = t_id t /\ incl (wt_found w) (t_spends t)
               /\ incl (wt_owned w) (filter owned (t_outs t))) ->
  put_wtxs h nfm locs ws txs notes = Some (txs', notes') ->
  Forall note_sound notes -> NoDup (map n_key notes) ->
  Forall note_sound notes' /\ NoDup (map n_key notes').
Proof.
  induction ws as [|w ws IH]; intros txs notes txs' notes' Hws H Hs Hnd; cbn [put_wtxs] in H.
  - inversion H; subst. auto.
  - destruct (put_wtx h nfm locs w txs notes) as [[txs1 notes1]|] eqn:E; [|discriminate].
    unfold put_wtx in E.
    destruct (mark_all (put_tx_meta (wt_id w) h txs) (wt_found w) (wt_id w) notes) as [n1|] eqn:Em; [|discriminate].
    inversion E as [E']. clear E.
    destruct (Hws w (or_introl eq_refl)) as [b [t [Hb [Ht [Hid [Hf Ho]]]]]].
    destruct (mark_all_sound _ _ _ _ _ Em) as [Hs1 Hk1]; [|assumption|].
    { intros k Hk. exists b, t. repeat split; try assumption; [apply HcU; assumption | congruence | auto]. }
    assert (Hos : forall o, In o (wt_owned w) -> owned o = true /\ exists b t, In b c /\ In t (b_txs b) /\ In o (t_outs t) /\ t_id t = wt_id w).
    { intros o Ho'. specialize (Ho o Ho'). apply filter_In in Ho. destruct Ho as [Ho1 Ho2]. split; [assumption|].
      exists b, t. repeat split; try assumption. congruence. }
    destruct (put_outputs_sound nfm locs (wt_id w) Hn Hl _ _ _ _ _ Hos E' Hs1) as [Hs2 Hnd2].
    { rewrite Hk1. assumption. }
    eapply IH; eauto. intros w' Hw'. apply Hws. right; assumption.
Qed.

(** ** tracking, pruning *)

Lemma put_loc_sound h i t locs locs' :
  put_loc h i t locs = Some locs' -> loc_sound (h, i, t) -> Forall loc_sound locs -> Forall loc_sound locs'.
Proof.
  unfold put_loc. intros H Hn Hl. destruct (loc_conflicts h i t locs) as [|x [|y r]].
  - inversion H; subst. apply Forall_app. split; [assumption | constructor; [assumption | constructor]].
  - destruct (loc_eqb x (h, i, t)); inversion H; subst; assumption.
  - discriminate.
Qed.

Lemma put_nf_sound k v : forall l, nfe_sound (k, v) -> Forall nfe_sound l -> Forall nfe_sound (put_nf k v l).
Proof.
  induction l as [|[k' v'] l IH]; intros Hn Hl; cbn [put_nf].
  - constructor; [assumption | constructor].
  - inversion Hl; subst. destruct (key_eqb k' k); constructor; auto.
Qed.

Lemma put_nfs_sound v : forall ks l, (forall k, In k ks -> nfe_sound (k, v)) -> Forall nfe_sound l -> Forall nfe_sound (put_nfs ks v l).
Proof.
  induction ks as [|k ks IH]; intros l Hks Hl; cbn [put_nfs]; [assumption|].
  apply IH; [intros; apply Hks; right; assumption|]. apply put_nf_sound; [apply Hks; left; reflexivity | assumption].
Qed.

Lemma track_sound b (Hb : In b c) : forall us locs nfm locs' nfm',
  (forall e, In e us -> exists j t, nth_error (b_txs b) j = Some t /\ fst (fst e) = N.of_nat j /\ snd (fst e) = t_id t
                                   /\ incl (snd e) (t_spends t)) ->
  track (b_height b) us locs nfm = Some (locs', nfm') ->
  Forall loc_sound locs -> Forall nfe_sound nfm -> Forall loc_sound locs' /\ Forall nfe_sound nfm'.
Proof.
  induction us as [|[[i t] ks] us IH]; intros locs nfm locs' nfm' Hus H Hl Hn; cbn [track] in H.
  - inversion H; subst. auto.
  - destruct (put_loc (b_height b) i t locs) as [locs1|] eqn:E; [|discriminate].
    destruct (Hus _ (or_introl eq_refl)) as [j [t0 [Hnth [Hi [Hid Hks]]]]]. cbn [fst snd] in *.
    eapply IH in H; [exact H | intros; apply Hus; right; assumption | |].
    + eapply put_loc_sound; eauto. cbn. exists b, t0. subst i. rewrite Nnat.Nat2N.id. auto.
    + apply put_nfs_sound; [|assumption]. intros k Hk. exists b, t0. cbn [fst snd]. subst i. rewrite Nnat.Nat2N.id. auto.
Qed.

Lemma filter_Forall {A} (P : A -> Prop) f (l : list A) : Forall P l -> Forall P (filter f l).
Proof. rewrite !Forall_forall. intros H x Hx. apply filter_In in Hx. apply H. tauto. Qed.

Lemma filter_map_NoDup {A B} (g : A -> B) f (l : list A) : NoDup (map g l) -> NoDup (map g (filter f l)).
Proof.
  induction l as [|a l IH]; cbn; [auto|]. intros H. inversion H; subst.
  destruct (f a); cbn; [constructor; auto|auto].
  intros Hin. apply H2. apply in_map_iff in Hin. destruct Hin as [x [E Hx]]. apply filter_In in Hx.
  apply in_map_iff. exists x. tauto.
Qed.

(** ** blocks of a batch *)

Lemma put_sblock_sound floor nfs b r r' (Hb : In b c) :
  put_sblock floor (scan_block nfs b) r = Ok r' ->
  sound_rows (r_blocks r) (r_notes r) (r_locs r) (r_nfmap r) ->
  sound_rows (r_blocks r') (r_notes r') (r_locs r') (r_nfmap r').
Proof.
  intros H [S1 S2 S3 S4 S5]. unfold put_sblock, scan_block in H.
  destruct (scan_txs nfs 0 (b_txs b)) as [ws us] eqn:Es.
  pose proof (scan_txs_spec nfs (b_txs b) 0) as Hspec. rewrite Es in Hspec. cbn [fst snd] in Hspec.
  destruct Hspec as [Hw Hu]. cbn [sb_height sb_hash sb_wtxs sb_unl] in H.
  destruct (put_block (b_height b) (b_hash b) (r_blocks r)) as [bl|] eqn:Eb; [|discriminate].
  assert (Hbl : Forall blk_sound bl).
  { unfold put_block in Eb. destruct (find_block (b_height b) (r_blocks r)).
    - destruct (N.eqb n (b_hash b)); inversion Eb; subst; assumption.
    - inversion Eb; subst. apply Forall_app. split; [assumption|]. constructor; [|constructor].
      exists b. auto. }
  destruct (put_wtxs (b_height b) (r_nfmap r) (r_locs r) ws (r_txs r) (r_notes r)) as [[txs notes]|] eqn:Ew; [|discriminate].
  assert (Hw' : forall w, In w ws -> exists b t, In b c /\ In t (b_txs b) /\ wt_id w = t_id t /\ incl (wt_found w) (t_spends t)
               /\ incl (wt_owned w) (filter owned (t_outs t))).
  { intros w Hin. destruct (Hw w Hin) as [t [Ht Hrest]]. exists b, t. tauto. }
  assert (Hu' : forall e, In e us -> exists j t, nth_error (b_txs b) j = Some t /\ fst (fst e) = N.of_nat j /\ snd (fst e) = t_id t
                                   /\ incl (snd e) (t_spends t)).
  { intros e He. destruct (Hu e He) as [j [t [H1 [H2 H3]]]]. exists j, t. split; [assumption|]. split; [lia | assumption]. }
  destruct (put_wtxs_sound _ _ _ S5 S4 _ _ _ _ _ Hw' Ew S2 S3) as [N1 N2].
  destruct (should_track floor (b_height b)).
  - destruct (track (b_height b) us (r_locs r) (r_nfmap r)) as [[locs nfm]|] eqn:Et; [|discriminate].
    inversion H; subst. cbn.
    destruct (track_sound b Hb _ _ _ _ _ Hu' Et S4 S5) as [L1 L2].
    constructor; assumption.
  - inversion H; subst. cbn. constructor; assumption.
Qed.

Lemma put_sblocks_sound floor : forall bs prior nfs sbs r r',
  incl bs c ->
  scan_blocks prior nfs bs = Ok sbs ->
  put_sblocks floor sbs r = Ok r' ->
  sound_rows (r_blocks r) (r_notes r) (r_locs r) (r_nfmap r) ->
  sound_rows (r_blocks r') (r_notes r') (r_locs r') (r_nfmap r').
Proof.
  induction bs as [|b bs IH]; intros prior nfs sbs r r' Hin Hs Hp Hr; cbn [scan_blocks] in Hs.
  - inversion Hs; subst. cbn in Hp. inversion Hp; subst. assumption.
  - destruct (continuity_ok prior b); [|discriminate].
    destruct (scan_blocks (Some (b_height b, b_hash b)) (update_nfs nfs (scan_block nfs b)) bs) as [rs| |] eqn:E; try discriminate.
    inversion Hs; subst. cbn [put_sblocks] in Hp.
    destruct (put_sblock floor (scan_block nfs b) r) as [r1| |] eqn:E1; try discriminate.
    eapply IH; [| exact E | exact Hp |].
    + intros x Hx. apply Hin. right; assumption.
    + eapply put_sblock_sound; eauto. apply Hin. left; reflexivity.
Qed.

Lemma prune_sound p locs nfm :
  Forall loc_sound locs -> Forall nfe_sound nfm ->
  Forall loc_sound (fst (prune p locs nfm)) /\ Forall nfe_sound (snd (prune p locs nfm)).
Proof. intros. unfold prune. cbn [fst snd]. split; apply filter_Forall; assumption. Qed.

(** ** operations *)

Lemma scan_sound s bs s' : incl bs c -> scan birthday s bs = Ok s' -> sound s -> sound s'.
Proof.
  intros Hin H Hs. unfold scan in H. destruct bs as [|b0 bs0]; [inversion H; subst; assumption|].
  destruct (scan_blocks _ (unspent_nfs s) (b0 :: bs0)) as [sbs| |] eqn:E; try discriminate.
  destruct (put_sblocks _ sbs _) as [r| |] eqn:Ep; try discriminate.
  pose proof (put_sblocks_sound _ _ _ _ _ _ _ Hin E Ep Hs) as [R1 R2 R3 R4 R5]. cbn in R1, R2, R3, R4, R5.
  destruct (fully_scanned birthday (w_blocks s)) as [f|].
  - destruct (prune (f - PRUNING_DEPTH) (r_locs r) (r_nfmap r)) as [locs nfm] eqn:Epr.
    inversion H; subst. destruct (prune_sound (f - PRUNING_DEPTH) _ _ R4 R5) as [P1 P2]. rewrite Epr in P1, P2.
    constructor; assumption.
  - inversion H; subst. constructor; assumption.
Qed.

Lemma update_tip_sound s h : sound s -> sound (update_tip birthday s h).
Proof.
  intros Hs. unfold update_tip. destruct (h <? birthday); [assumption|].
  destruct (max_scanned (w_blocks s)) as [m|]; [destruct (h <? m)|]; assumption.
Qed.

Lemma truncate_sound s h : sound s -> sound (truncate s h).
Proof.
  intros [S1 S2 S3 S4 S5]. unfold truncate.
  destruct (max_scanned (w_blocks s)) as [m|]; [destruct (h <? m)|]; constructor; cbn; try assumption;
    apply filter_Forall; assumption.
Qed.

Lemma init_sound : sound init.
Proof. constructor; cbn; constructor. Qed.

Lemma run_sound : forall ops s s',
  (forall bs, In (OScan bs) ops -> incl bs c) ->
  run birthday s ops = Ok s' -> sound s -> sound s'.
Proof.
  induction ops as [|o ops IH]; intros s s' Hops H Hs; cbn [run] in H.
  - inversion H; subst. assumption.
  - destruct (step birthday s o) as [s1| |] eqn:E; try discriminate.
    eapply IH; [intros; apply Hops; right; assumption | exact H |].
    destruct o as [bs|h|h]; cbn [step] in E.
    + eapply scan_sound; eauto. apply Hops. left; reflexivity.
    + inversion E; subst. apply update_tip_sound; assumption.
    + inversion E; subst. apply truncate_sound; assumption.
Qed.

End Sound.

(** * Receipt completeness: no owned output of a scanned block is lost *)

Section Complete.
Variable c : list block.
Variable birthday : N.
Hypothesis Hheights : heights_from birthday c.

Definition has_key (k : key) (notes : list note) : Prop := In k (map n_key notes).

Definition block_received (b : block) (notes : list note) : Prop :=
  forall t o, In t (b_txs b) -> In o (t_outs t) -> owned o = true -> has_key (o_key o) notes.

Definition receipts (bl : list (N * N)) (notes : list note) : Prop :=
  forall b, In b c -> has_block bl (b_height b) = true -> block_received b notes.

Lemma mark_all_keys txs tid : forall ks l l', mark_all txs ks tid l = Some l' -> map n_key l' = map n_key l.
Proof.
  induction ks as [|k ks IH]; intros l l' H; cbn [mark_all] in H; [inversion H; reflexivity|].
  destruct (mark_spent txs k tid l) as [l1|] eqn:E; [|discriminate].
  destruct (mark_spent_spec _ _ _ _ _ E) as [K _]. rewrite (IH _ _ H). exact K.
Qed.

Lemma scan_txs_owned nfs : forall ts i0 t o,
  In t ts -> In o (t_outs t) -> owned o = true ->
  exists w, In w (fst (scan_txs nfs i0 ts)) /\ In o (wt_owned w).
Proof.
  induction ts as [|t0 ts IH]; intros i0 t o Ht Ho Hown; [destruct Ht|].
  cbn [scan_txs]. destruct (scan_txs nfs (N.succ i0) ts) as [ws us] eqn:E.
  destruct Ht as [<- | Ht].
  - unfold scan_tx.
    assert (Hin : In o (filter owned (t_outs t0))) by (apply filter_In; auto).
    destruct (filter (fun k => mem_key k nfs) (t_spends t0)); destruct (filter owned (t_outs t0)) eqn:Eo;
      try (destruct Hin; fail); cbn [fst];
      (eexists; split; [left; reflexivity | cbn [wt_owned]; assumption]).
  - destruct (IH (N.succ i0) t o Ht Ho Hown) as [w [Hw Hwo]]. rewrite E in Hw. cbn [fst] in Hw.
    exists w. split; [|assumption]. destruct (scan_tx nfs i0 t0) as [[x|] u]; cbn [fst]; [right|]; assumption.
Qed.

Lemma has_block_put h x bl bl' h' :
  put_block h x bl = Some bl' -> has_block bl' h' = true -> h' = h \/ has_block bl h' = true.
Proof.
  unfold put_block, has_block. destruct (find_block h bl) as [x'|] eqn:E.
  - destruct (N.eqb x' x); [|discriminate]. intros H; inversion H; subst. auto.
  - intros H; inversion H; subst. clear H. intros H.
    destruct (N.eq_dec h' h) as [->|Hne]; [auto|]. right.
    revert H. clear E. induction bl as [|[a y] bl IH]; cbn [app find_block].
    + rewrite (proj2 (N.eqb_neq h h')) by auto. discriminate.
    + destruct (N.eqb a h'); [reflexivity | assumption].
Qed.

Lemma has_block_filter f bl h : has_block (filter f bl) h = true -> has_block bl h = true.
Proof.
  unfold has_block. induction bl as [|[a x] bl IH]; cbn [filter find_block]; [auto|].
  destruct (f (a, x)); cbn [find_block]; destruct (N.eqb a h); auto.
Qed.

End Complete.

(** * Orphaned transactions stop counting *)

Lemma orphan_expires target r :
  x_mined r = None -> x_expiry r = None -> x_minobs r + DEFAULT_TX_EXPIRY_DELTA < target ->
  row_unexpired target r = false.
Proof.
  intros Hm He Hlt. unfold row_unexpired. rewrite Hm, He. cbn [orb].
  apply N.leb_gt. assumption.
Qed.

Lemma truncate_unmines s h r :
  In r (w_txs (truncate s h)) -> match x_mined r with Some m => m <= h | None => True end.
Proof.
  assert (H : forall r0, match x_mined (unmine h r0) with Some m => m <= h | None => True end).
  { intros r0. unfold unmine. destruct (x_mined r0) as [m|] eqn:E; [|rewrite E; exact I].
    destruct (N.ltb_spec h m); cbn; [exact I | rewrite E; assumption]. }
  unfold truncate. destruct (max_scanned (w_blocks s)) as [m|]; [destruct (h <? m)|]; cbn [w_txs];
    intros Hin; apply in_map_iff in Hin; destruct Hin as [r0 [<- _]]; apply H.
Qed.

(** * The note recorded for an owned output carries its owner and value *)

Lemma NoDup_map_eq {A B} (f : A -> B) : forall l x y, NoDup (map f l) -> In x l -> In y l -> f x = f y -> x = y.
Proof.
  induction l as [|a l IH]; intros x y H Hx Hy E; [destruct Hx|].
  cbn [map] in H. inversion H; subst.
  destruct Hx as [<- | Hx]; destruct Hy as [<- | Hy]; [reflexivity | | | eauto].
  - exfalso. apply H2. rewrite E. apply in_map. assumption.
  - exfalso. apply H2. rewrite <- E. apply in_map. assumption.
Qed.

Lemma in_all_outs c b t o : In b c -> In t (b_txs b) -> In o (t_outs t) -> In o (all_outs c).
Proof.
  intros Hb Ht Ho. unfold all_outs, all_txs. apply in_flat_map. exists t. split; [|assumption].
  apply in_flat_map. exists b. auto.
Qed.

