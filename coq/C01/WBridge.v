(** C01 — bridge between the correspondence and the property, for the ledger clause of
    [prop_case], over the universe with position-dependent nullifiers and histories with forks:
    if the model reproduces every outcome and every dump of a history ([run_case]) whose batches
    come from the best chain current at that point of the history ([fork_hist]: between two
    steps the best chain may be replaced by a valid chain that agrees with it up to a height at
    or above everything scanned), then on every dump the reported balances are the ground-truth
    ledger of the scanned blocks whenever no orphaned transaction is alive ([chk_ledger], a
    conjunct of [prop_case]).  PARTIAL: the other conjuncts of [prop_case] (tables against ground
    truth, the balance rule restated on the dump, the comparison with the linear-scan wallet) are
    not bridged. *)
From Coq Require Import Permutation.
From V.Lib Require Import Base.
From V.Gen Require Import C01Consts.
From V.C01 Require Import Model Spec Proofs Tables Chain WProofs WTables WComplete WLedger Corr.
Local Open Scope N_scope.

(** * the ledger does not depend on the order of the scanned blocks *)

Lemma spenders_nil_perm S S' k : (forall b, In b S <-> In b S') -> (spenders S k = [] <-> spenders S' k = []).
Proof.
  intros H. rewrite !spenders_nil. split; intros Hs b t Hb; apply Hs; apply H; assumption.
Qed.

Lemma ledger_perm S S' a p : Permutation S S' -> ledger S a p = ledger S' a p.
Proof.
  intros HP. unfold ledger. apply sumN_perm. apply Permutation_map.
  assert (Hmem : forall b, In b S <-> In b S') by (intros b; split; apply Permutation_in; [assumption | apply Permutation_sym; assumption]).
  rewrite (filter_ext _ (fun e : out * N * N => let o := fst (fst e) in
                              match o_owner o with Some a0 => N.eqb a0 a | None => false end
                              && N.eqb (o_pool o) p
                              && match spenders S' (o_key o) with [] => true | _ => false end)).
  - apply Permutation_filter. unfold owned_outs. apply Permutation_flat_map. assumption.
  - intros e. cbn zeta. f_equal.
    pose proof (spenders_nil_perm S S' (o_key (fst (fst e))) Hmem) as Hn.
    destruct (spenders S (o_key (fst (fst e)))); destruct (spenders S' (o_key (fst (fst e)))); try reflexivity;
      [destruct Hn as [Hn _]; specialize (Hn eq_refl); discriminate | destruct Hn as [_ Hn]; specialize (Hn eq_refl); discriminate].
Qed.

(** * reflection of the table comparisons *)

Lemma optN_eqb_eq a b : optN_eqb a b = true -> a = b.
Proof. unfold optN_eqb. apply option_eqb_spec. apply N.eqb_eq. Qed.

Lemma txrow_eqb_eq a b : txrow_eqb a b = true -> a = b.
Proof.
  unfold txrow_eqb. rewrite !andb_true_iff. intros [[[H1 H2] H3] H4].
  apply N.eqb_eq in H1, H4. apply optN_eqb_eq in H2, H3. destruct a, b; cbn in *; congruence.
Qed.

Lemma subset_In {A} (eqb : A -> A -> bool) (Heq : forall x y, eqb x y = true -> x = y) a b x :
  subset eqb a b = true -> In x a -> In x b.
Proof.
  unfold subset. rewrite forallb_forall. intros H Hx. specialize (H x Hx). apply existsb_exists in H.
  destruct H as [y [Hy E]]. apply Heq in E. subst. assumption.
Qed.

Lemma sp_unexpired_eq target r : sp_unexpired target r = row_unexpired target r.
Proof.
  unfold sp_unexpired, row_unexpired. destruct (x_mined r) as [m|]; destruct (x_expiry r) as [e|]; reflexivity.
Qed.

(** * the set of scanned blocks of the specification and of the model *)

Section Bridge.
Variable c : list block.
Hypothesis Hv : valid_chain BIRTHDAY c.
Variable U : list block.
Hypothesis HcU : incl c U.
Hypothesis HU : weak_universe U.
Hypothesis HownV : own_versions c U.

Definition rel (S : list block) (s : wstate) : Prop :=
  NoDup S /\ forall b, In b S <-> In b c /\ has_block (w_blocks s) (b_height b) = true.

Lemma NoDup_app_intro {A} (l1 l2 : list A) :
  NoDup l1 -> NoDup l2 -> (forall x, In x l1 -> In x l2 -> False) -> NoDup (l1 ++ l2).
Proof.
  induction l1 as [|a l1 IH]; intros H1 H2 Hd; cbn [app]; [assumption|].
  inversion H1; subst. constructor.
  - intros Hin. apply in_app_or in Hin. destruct Hin; [contradiction | eapply Hd; eauto; left; reflexivity].
  - apply IH; auto. intros x Hx1 Hx2. eapply Hd; eauto. right. assumption.
Qed.

Lemma heights_from_nodup : forall l h, heights_from h l -> NoDup l.
Proof.
  induction l as [|b l IH]; intros h H; [constructor|]. cbn [heights_from] in H. destruct H as [Hb Hl].
  constructor; [|eauto]. intros Hin. pose proof (heights_from_ge _ _ _ Hl Hin). lia.
Qed.

Lemma chain_nodup : NoDup c.
Proof. eapply heights_from_nodup. apply (vc_heights _ _ Hv). Qed.

Lemma rel_ledger S s a p : rel S s -> ledger S a p = ledger (scanned_blocks c s) a p.
Proof.
  intros [Hnd Hmem]. apply ledger_perm. apply NoDup_Permutation; [assumption | |].
  - unfold scanned_blocks. apply NoDup_filter. apply chain_nodup.
  - intros b. rewrite Hmem. unfold scanned_blocks. rewrite filter_In. tauto.
Qed.

Lemma rel_scan S s bs s1 : incl bs c -> scan BIRTHDAY s bs = Ok s1 -> rel S s -> rel (spec_scan S bs) s1.
Proof.
  intros Hin Hscan [Hnd Hmem]. destruct (scan_effect _ _ _ _ Hscan) as [Hset _].
  assert (Hbs : NoDup bs).
  { unfold scan in Hscan. destruct bs as [|b0 bs0]; [constructor|].
    destruct (scan_blocks _ (unspent_nfs s) (b0 :: bs0)) as [sbs| |] eqn:E; try discriminate.
    pose proof (scan_blocks_heights _ _ _ _ E) as Hh. cbn beta iota in Hh. exact (heights_from_nodup _ _ Hh). }
  assert (Hhs : forall b, In b c -> (memN (b_height b) (heights bs) = true <-> In b bs)).
  { intros b Hb. rewrite memN_In. unfold heights. rewrite in_map_iff. split.
    - intros [b2 [Eh Hb2]]. assert (b2 = b) by (apply (vc_height_inj BIRTHDAY c Hv); auto). subst. assumption.
    - intros Hb2. exists b. auto. }
  unfold spec_scan. split.
  - apply NoDup_app_intro; [apply NoDup_filter; assumption | assumption|].
    intros b H1 H2. apply filter_In in H1. destruct H1 as [H1 Hneg]. apply negb_true_iff in Hneg.
    assert (Hb : In b c) by (apply Hin; assumption). apply (Hhs b Hb) in H2. congruence.
  - intros b. rewrite in_app_iff, filter_In, Hmem, Hset. split.
    + intros [[[Hb Hhas] _] | Hb2]; [tauto|]. split; [apply Hin; assumption|]. right. apply in_map. assumption.
    + intros [Hb [Hhas | Hh]].
      * destruct (memN (b_height b) (heights bs)) eqn:Em; [right; apply (Hhs b Hb); assumption | left; tauto].
      * right. apply (Hhs b Hb). apply memN_In. assumption.
Qed.

Lemma truncate_blocks s h m :
  has_block (w_blocks (truncate s h)) m = true <-> has_block (w_blocks s) m = true /\ m <= h.
Proof.
  unfold truncate. destruct (max_scanned (w_blocks s)) as [mx|] eqn:Emx.
  - destruct (N.ltb_spec h mx); cbn [w_blocks]; [apply has_block_filter_le|].
    split; [|tauto]. intros Hm. split; [assumption|]. destruct (max_scanned_ge _ _ Hm) as [mx' [E Hle]]. rewrite Emx in E. inversion E; subst. lia.
  - cbn [w_blocks]. split; [|tauto]. intros Hm. destruct (max_scanned_ge _ _ Hm) as [mx' [E _]]. rewrite Emx in E. discriminate.
Qed.

Lemma rel_trunc S s h : rel S s -> rel (spec_trunc S h) (truncate s h).
Proof.
  intros [Hnd Hmem]. unfold spec_trunc. split; [apply NoDup_filter; assumption|].
  intros b. rewrite filter_In, Hmem, truncate_blocks, N.leb_le. tauto.
Qed.

Lemma rel_tip S s h : rel S s -> rel S (update_tip BIRTHDAY s h).
Proof.
  unfold update_tip. destruct (h <? BIRTHDAY); [auto|].
  destruct (max_scanned (w_blocks s)) as [m|]; [destruct (h <? m)|]; auto.
Qed.

(** * one dump *)

Lemma ledger_of_dump S s d : inv c U s -> rel S s -> dump_matches s d = true -> chk_ledger S d = true.
Proof.
  intros I HR Hm. unfold dump_matches in Hm. rewrite !andb_true_iff in Hm.
  destruct Hm as [[[[[[[_ Htx] _] _] _] Htip] _] Hbal].
  apply optN_eqb_eq in Htip. unfold chk_ledger. rewrite <- Htip.
  destruct (d_bal d) as [l|]; [|reflexivity]. destruct (w_tip s) as [tp|] eqn:Et; [|discriminate].
  rewrite forallb_forall in *. intros [[[a p] tot] un] He. specialize (Hbal _ He). cbn in Hbal.
  apply andb_true_iff in Hbal. destruct Hbal as [Ht Hu]. apply N.eqb_eq in Ht, Hu.
  destruct (live_orphan (tp + 1) d) eqn:El; [reflexivity|]. cbn [orb]. apply N.eqb_eq.
  rewrite <- Ht, <- Hu, (rel_ledger S s a p HR).
  apply (balance_ledger_core BIRTHDAY c Hv U HcU HU HownV s I tp Et).
  apply orphans_dead_live.
  intros r Hr Hnone.
  unfold set_eqb in Htx. rewrite !andb_true_iff in Htx. destruct Htx as [[_ Hsub] _].
  pose proof (subset_In txrow_eqb txrow_eqb_eq _ _ r Hsub Hr) as Hrd.
  unfold live_orphan in El.
  destruct (row_unexpired (tp + 1) r) eqn:Eu; [|reflexivity]. exfalso.
  assert (existsb (fun r0 => negb (is_some (x_mined r0)) && sp_unexpired (tp + 1) r0) (d_txs d) = true); [|congruence].
  apply existsb_exists. exists r. split; [assumption|]. rewrite Hnone, sp_unexpired_eq, Eu. reflexivity.
Qed.

(** * a whole history *)

Fixpoint ledger_steps (S : list block) (l : list stepc) : bool :=
  match l with
  | [] => true
  | SScan bs r d :: l' =>
      let S' := match r with Ok _ => spec_scan S bs | _ => S end in chk_ledger S' d && ledger_steps S' l'
  | STip h r d :: l' => chk_ledger S d && ledger_steps S l'
  | STrunc req r d :: l' =>
      let S' := match r with Ok h => spec_trunc S h | _ => S end in chk_ledger S' d && ledger_steps S' l'
  end.

(** [ledger_steps] is a conjunct of [prop_case] *)
Lemma prop_steps_ledger : forall l S, fst (prop_steps S l) = true -> ledger_steps S l = true.
Proof.
  induction l as [|st l IH]; intros S H; [reflexivity|].
  destruct st as [bs r d | h r d | req r d]; cbn [prop_steps ledger_steps] in *.
  - destruct (prop_steps (match r with Ok _ => spec_scan S bs | _ => S end) l) as [b S2] eqn:E. cbn [fst] in H.
    apply andb_true_iff in H. destruct H as [Hd Hb]. unfold chk_dump, chk_bal in Hd. rewrite !andb_true_iff in Hd.
    apply andb_true_iff. split; [tauto|]. apply IH. rewrite E. assumption.
  - destruct (prop_steps S l) as [b S2] eqn:E. cbn [fst] in H.
    apply andb_true_iff in H. destruct H as [Hd Hb]. unfold chk_dump, chk_bal in Hd. rewrite !andb_true_iff in Hd.
    apply andb_true_iff. split; [tauto|]. apply IH. rewrite E. assumption.
  - destruct (prop_steps (match r with Ok h => spec_trunc S h | _ => S end) l) as [b S2] eqn:E. cbn [fst] in H.
    rewrite !andb_true_iff in H. destruct H as [[_ Hd] Hb]. unfold chk_dump, chk_bal in Hd. rewrite !andb_true_iff in Hd.
    apply andb_true_iff. split; [tauto|]. apply IH. rewrite E. assumption.
Qed.

(** what one step does to the specification's set of scanned blocks, and its dump *)
Definition next_S (S : list block) (st : stepc) : list block :=
  match st with
  | SScan bs r _ => match r with Ok _ => spec_scan S bs | _ => S end
  | STip _ _ _ => S
  | STrunc _ r _ => match r with Ok h => spec_trunc S h | _ => S end
  end.
Definition st_dump (st : stepc) : dump := match st with SScan _ _ d | STip _ _ d | STrunc _ _ d => d end.

Lemma ledger_steps_cons S st l : ledger_steps S (st :: l) = chk_ledger (next_S S st) (st_dump st) && ledger_steps (next_S S st) l.
Proof. destruct st; reflexivity. Qed.

(** one step of a history on the current chain *)
Lemma step_bridge S s st l :
  (forall bs r d, st = SScan bs r d -> incl bs c) ->
  inv c U s -> rel S s -> run_steps s (st :: l) = true ->
  chk_ledger (next_S S st) (st_dump st) = true
  /\ exists s', inv c U s' /\ rel (next_S S st) s' /\ run_steps s' l = true.
Proof.
  intros Hon I HR Hrun.
  assert (Hfin : forall s' d S', dump_matches s' d && run_steps s' l = true -> inv c U s' -> rel S' s' ->
            chk_ledger S' d = true /\ exists s'', inv c U s'' /\ rel S' s'' /\ run_steps s'' l = true).
  { intros s' d S' H I' R'. apply andb_true_iff in H. destruct H as [Hd Hl]. split; [eapply ledger_of_dump; eauto|]. exists s'. auto. }
  destruct st as [bs r d | h r d | req r d]; cbn [next_S st_dump].
  - assert (Hbs : incl bs c) by (eapply Hon; reflexivity).
    assert (Hgen : same_res (scan BIRTHDAY s bs) r
                   && (dump_matches (match scan BIRTHDAY s bs with Ok s' => s' | _ => s end) d
                       && run_steps (match scan BIRTHDAY s bs with Ok s' => s' | _ => s end) l) = true ->
              chk_ledger (match r with Ok _ => spec_scan S bs | _ => S end) d = true
              /\ exists s'', inv c U s'' /\ rel (match r with Ok _ => spec_scan S bs | _ => S end) s'' /\ run_steps s'' l = true).
    { intros H. apply andb_true_iff in H. destruct H as [Hres Hrest].
      destruct (scan BIRTHDAY s bs) as [s1|e1|] eqn:Es; destruct r as [u | e2 |]; cbn [same_res] in Hres; try discriminate.
      - apply (Hfin s1); [assumption | eapply (scan_inv BIRTHDAY c Hv U HcU HU HownV); eauto | eapply rel_scan; eauto].
      - apply (Hfin s); assumption.
      - apply (Hfin s); assumption. }
    destruct r as [u | e |]; [exact (Hgen Hrun) | | exact (Hgen Hrun)].
    destruct e; try exact (Hgen Hrun).
    cbn [run_steps] in Hrun. apply (Hfin s); assumption.
  - cbn [run_steps] in Hrun. rewrite !andb_true_iff in Hrun. destruct Hrun as [[_ Hd] Hl].
    apply (Hfin (update_tip BIRTHDAY s h)); [rewrite Hd, Hl; reflexivity | apply (update_tip_inv BIRTHDAY c U); assumption | apply rel_tip; assumption].
  - cbn [run_steps] in Hrun.
    destruct r as [h | e |]; (apply (Hfin _ _ _ Hrun); [try (apply (truncate_inv BIRTHDAY c Hv U)); assumption | try apply rel_trunc; assumption]).
Qed.

End Bridge.

(** * Single chain *)

Lemma bridge_steps c (Hv : valid_chain BIRTHDAY c) U (HcU : incl c U) (HU : weak_universe U) (Hown : own_versions c U) : forall l S s,
  (forall bs r d, In (SScan bs r d) l -> incl bs c) -> inv c U s -> rel c S s -> run_steps s l = true -> ledger_steps S l = true.
Proof.
  induction l as [|st l IH]; intros S s Hon I HR Hrun; [reflexivity|].
  rewrite ledger_steps_cons.
  destruct (step_bridge c Hv U HcU HU Hown S s st l) as [Hc [s' [I' [R' Hl]]]]; auto.
  { intros bs r d ->. eapply Hon. left. reflexivity. }
  rewrite Hc. cbn [andb]. eapply IH; eauto. intros bs r d Hin. eapply Hon. right. exact Hin.
Qed.

Lemma bridge_ledger_lemma :
  forall (c : list block) (n : N) (steps : list stepc) (lin : option dump),
    valid_chain BIRTHDAY c ->
    (forall bs r d, In (SScan bs r d) steps -> incl bs c) ->
    run_case (Hist n steps lin) = true ->
    ledger_steps [] steps = true.
Proof.
  intros c n steps lin Hv Hon Hrun. cbn [run_case] in Hrun.
  apply (bridge_steps c Hv c (incl_refl c) (chain_weak BIRTHDAY c Hv) (chain_own BIRTHDAY c Hv) steps [] init Hon (init_inv c c)); [|assumption].
  split; [constructor|]. intros b. cbn. split; [intros [] | intros [_ H]; discriminate].
Qed.

(** * Histories with forks

    [fork_hist U c S steps]: the steps are executed with [c] the best chain at the start and
    [S] the blocks scanned so far; between two steps the best chain may be replaced by a valid
    chain that agrees with it up to a height at or above everything scanned. *)
Inductive fork_hist (U : list block) : list block -> list block -> list stepc -> Prop :=
| fh_nil c S : fork_hist U c S []
| fh_step c S st l :
    (forall bs r d, st = SScan bs r d -> incl bs c) -> fork_hist U c (next_S S st) l -> fork_hist U c S (st :: l)
| fh_switch c c' S h l :
    valid_chain BIRTHDAY c' -> incl c' U -> own_versions c' U -> agree c c' h ->
    (forall b, In b S -> b_height b <= h) -> fork_hist U c' S l -> fork_hist U c S l.

Lemma rel_switch c c' U S s h :
  valid_chain BIRTHDAY c -> inv c U s -> rel c S s -> agree c c' h -> (forall b, In b S -> b_height b <= h) ->
  (forall m, Qof (w_blocks s) m -> m <= h) /\ rel c' S s.
Proof.
  intros Hv I [Hnd Hmem] Hag Hle.
  assert (Hq : forall m, Qof (w_blocks s) m -> m <= h).
  { intros m Hm. apply has_block_In in Hm. destruct Hm as [x Hx].
    destruct (iv_sound _ _ _ I) as [B1 _ _ _ _]. rewrite Forall_forall in B1. destruct (B1 _ Hx) as [b0 [Hb0 [Hh _]]]. cbn [fst] in Hh.
    rewrite <- Hh. apply Hle. apply Hmem. split; [assumption|]. rewrite Hh. apply has_block_In. exists x. assumption. }
  split; [exact Hq|]. split; [assumption|]. intros b. rewrite Hmem. split.
  - intros [Hb Hhas]. split; [|assumption]. apply (Hag b); [apply Hq; assumption | assumption].
  - intros [Hb Hhas]. split; [|assumption]. apply (Hag b); [apply Hq; assumption | assumption].
Qed.

Lemma bridge_forks_steps U (HU : weak_universe U) : forall c S l,
  fork_hist U c S l ->
  forall s, valid_chain BIRTHDAY c -> incl c U -> own_versions c U ->
  inv c U s -> rel c S s -> run_steps s l = true -> ledger_steps S l = true.
Proof.
  intros c S l H. induction H as [c S | c S st l Hon H IH | c c' S h l Hv' Hin' Hown' Hag Hle H IH]; intros s Hv Hin Hown I HR Hrun.
  - reflexivity.
  - rewrite ledger_steps_cons.
    destruct (step_bridge c Hv U Hin HU Hown S s st l Hon I HR Hrun) as [Hc [s' [I' [R' Hl]]]].
    rewrite Hc. cbn [andb]. eapply IH; eauto.
  - destruct (rel_switch c c' U S s h Hv I HR Hag Hle) as [Hq R'].
    eapply IH; eauto. eapply (switch_inv BIRTHDAY U c c' s h); eauto.
Qed.

Lemma bridge_forks_lemma :
  forall (U c : list block) (n : N) (steps : list stepc) (lin : option dump),
    weak_universe U -> valid_chain BIRTHDAY c -> incl c U -> own_versions c U ->
    fork_hist U c [] steps ->
    run_case (Hist n steps lin) = true ->
    ledger_steps [] steps = true.
Proof.
  intros U c n steps lin HU Hv Hin Hown Hf Hrun. cbn [run_case] in Hrun.
  apply (bridge_forks_steps U HU c [] steps Hf init Hv Hin Hown (init_inv c U)); [|assumption].
  split; [constructor|]. intros b. cbn. split; [intros [] | intros [_ H]; discriminate].
Qed.
