(** C01 — the property, stated on the generator's ground truth, independently of Model.v's
    scan logic.  A *ledger* is just the list of blocks the wallet has scanned (with their true
    contents); the wallet's notes, their spent status and its balances must be the ones this
    list determines. *)
From V.Lib Require Import Base.
From V.Gen Require Import C01Consts.
From V.C01 Require Import Model.
Local Open Scope N_scope.

(** * Ground-truth ledger of a set of scanned blocks *)

(** owned outputs of the scanned blocks: (output, receiving txid, height) *)
Definition tx_owned (h : N) (t : tx) : list (out * N * N) :=
  map (fun o => (o, t_id t, h)) (filter owned (t_outs t)).
Definition block_owned (b : block) : list (out * N * N) := flat_map (tx_owned (b_height b)) (b_txs b).
Definition owned_outs (S : list block) : list (out * N * N) := flat_map block_owned S.

(** transactions of the scanned blocks that reveal nullifier [k]: (txid, height) *)
Definition block_spenders (k : key) (b : block) : list (N * N) :=
  map (fun t => (t_id t, b_height b)) (filter (fun t => mem_key k (t_spends t)) (b_txs b)).
Definition spenders (S : list block) (k : key) : list (N * N) := flat_map (block_spenders k) S.

(** value an account holds in a pool according to the scanned blocks alone *)
Definition ledger (S : list block) (acct pool : N) : N :=
  sumN (map (fun e => o_value (fst (fst e)))
            (filter (fun e => let o := fst (fst e) in
                              match o_owner o with Some a => N.eqb a acct | None => false end
                              && N.eqb (o_pool o) pool
                              && match spenders S (o_key o) with [] => true | _ => false end)
                    (owned_outs S))).

Definition tx_ids (S : list block) : list N := flat_map (fun b => map t_id (b_txs b)) S.

(** * Validity of a chain (what consensus guarantees) *)

Definition all_txs (c : list block) : list tx := flat_map b_txs c.
Definition all_spends (c : list block) : list key := flat_map t_spends (all_txs c).
Definition all_outs (c : list block) : list out := flat_map t_outs (all_txs c).

Fixpoint heights_from (h : N) (c : list block) : Prop :=
  match c with
  | [] => True
  | b :: c' => b_height b = h /\ heights_from (h + 1) c'
  end.

(** height at which nullifier [k] is revealed / output [k] is created *)
Definition reveals (c : list block) (k : key) (h : N) : Prop :=
  exists b t, In b c /\ b_height b = h /\ In t (b_txs b) /\ In k (t_spends t).
Definition creates (c : list block) (k : key) (h : N) : Prop :=
  exists b t o, In b c /\ b_height b = h /\ In t (b_txs b) /\ In o (t_outs t) /\ owned o = true /\ o_key o = k.

Record valid_chain (birthday : N) (c : list block) : Prop := {
  vc_heights : heights_from birthday c;
  vc_txids : NoDup (map t_id (all_txs c));
  vc_outs : NoDup (map o_key (all_outs c));
  vc_spends : NoDup (all_spends c);
  (** a note is spent strictly above the block that creates it *)
  vc_order : forall k hs hc, reveals c k hs -> creates c k hc -> hc < hs
}.

(** * The balance rule of the summary query, restated on a dump of the tables *)

Definition sp_unexpired (target : N) (r : txrow) : bool :=
  match x_mined r, x_expiry r with
  | Some m, _ => (m <? target)
                 || match x_expiry r with Some e => N.eqb e 0 || (target <=? e)
                                     | None => target <=? x_minobs r + DEFAULT_TX_EXPIRY_DELTA end
  | None, Some e => N.eqb e 0 || (target <=? e)
  | None, None => target <=? x_minobs r + DEFAULT_TX_EXPIRY_DELTA
  end.
