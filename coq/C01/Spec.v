(** C01 — the property, stated on the generator's ground truth, independently of Model.v's
    scan logic.  A *ledger* is just the list of blocks the wallet has scanned (with their true
    contents); the wallet's notes, their spent status and its balances must be the ones this
    list determines. *)
From V.Lib Require Import Base.
From V.Gen Require Import C01Consts.
From V.C01 Require Import Model.
Local Open Scope N_scope.

(** * Ground-truth ledger of a set of scanned blocks *)

(** owned outputs of the scanned blocks: (output, receiving txid, height) *)
Definition tx_owned (h : N) (t : tx) : list (out * N * N) :=
  map (fun o => (o, t_id t, h)) (filter owned (t_outs t)).
Definition block_owned (b : block) : list (out * N * N) := flat_map (tx_owned (b_height b)) (b_txs b).
Definition owned_outs (S : list block) : list (out * N * N) := flat_map block_owned S.

(** transactions of the scanned blocks that reveal nullifier [k]: (txid, height) *)
Definition block_spenders (k : key) (b : block) : list (N * N) :=
  map (fun t => (t_id t, b_height b)) (filter (fun t => mem_key k (t_spends t)) (b_txs b)).
Definition spenders (S : list block) (k : key) : list (N * N) := flat_map (block_spenders k) S.

(** value an account holds in a pool according to the scanned blocks alone *)
Definition ledger (S : list block) (acct pool : N) : N :=
  sumN (map (fun e => o_value (fst (fst e)))
            (filter (fun e => let o := fst (fst e) in
                              match o_owner o with Some a => N.eqb a acct | None => false end
                              && N.eqb (o_pool o) pool
                              && match spenders S (o_key o) with [] => true | _ => false end)
                    (owned_outs S))).

Definition tx_ids (S : list block) : list N := flat_map (fun b => map t_id (b_txs b)) S.

(** * Validity of a chain (what consensus guarantees) *)

Definition all_txs (c : list block) : list tx := flat_map b_txs c.
Definition all_spends (c : list block) : list key := flat_map t_spends (all_txs c).
Definition all_outs (c : list block) : list out := flat_map t_outs (all_txs c).

Fixpoint heights_from (h : N) (c : list block) : Prop :=
  match c with
  | [] => True
  | b :: c' => b_height b = h /\ heights_from (h + 1) c'
  end.

(** height at which nullifier [k] is revealed / output [k] is created *)
Definition reveals (c : list block) (k : key) (h : N) : Prop :=
  exists b t, In b c /\ b_height b = h /\ In t (b_txs b) /\ In k (t_spends t).
Definition creates (c : list block) (k : key) (h : N) : Prop :=
  exists b t o, In b c /\ b_height b = h /\ In t (b_txs b) /\ In o (t_outs t) /\ owned o = true /\ o_key o = k.

Record valid_chain (birthday : N) (c : list block) : Prop := {
  vc_heights : heights_from birthday c;
  vc_txids : NoDup (map t_id (all_txs c));
  vc_outs : NoDup (map o_key (all_outs c));
  vc_spends : NoDup (all_spends c);
  (** a note is spent strictly above the block that creates it *)
  vc_order : forall k hs hc, reveals c k hs -> creates c k hc -> hc < hs;
  (** within a transaction, (pool, index) names one output *)
  vc_idx : forall b t o o', In b c -> In t (b_txs b) -> In o (t_outs t) -> In o' (t_outs t) ->
             o_pool o = o_pool o' -> o_idx o = o_idx o' -> o = o'
}.

(** * The balance rule of the summary query, restated on a dump of the tables *)

Definition sp_unexpired (target : N) (r : txrow) : bool :=
  match x_mined r, x_expiry r with
  | Some m, _ => (m <? target)
                 || match x_expiry r with Some e => N.eqb e 0 || (target <=? e)
                                     | None => target <=? x_minobs r + DEFAULT_TX_EXPIRY_DELTA end
  | None, Some e => N.eqb e 0 || (target <=? e)
  | None, None => target <=? x_minobs r + DEFAULT_TX_EXPIRY_DELTA
  end.

(** * Several chains: the universe of blocks a wallet is offered over its life *)

(** Across the branches the wallet sees, a txid names one transaction (it may be mined in
    blocks of different branches) INCLUDING the nullifiers of its outputs, and an output
    nullifier names one output of one transaction.  Nothing is required of heights or of revealed
    nullifiers across branches: different branches may spend the same note in different
    transactions.
    This guard EXCLUDES one real phenomenon: a Sapling output of the wallet re-mined, after a
    reorganisation, at another position of the Sapling commitment tree comes back under another
    nullifier (same txid, different [o_nf]), which [vu_tx] forbids.  It is the special case of
    [weak_universe] below, over which the theorems are proved; the statements over
    [valid_universe] are corollaries (WLedger.strict_weak, strict_own, reach_strict_w). *)
Record valid_universe (U : list block) : Prop := {
  vu_tx : forall b t b' t', In b U -> In t (b_txs b) -> In b' U -> In t' (b_txs b') -> t_id t = t_id t' -> t = t';
  vu_out : forall b t o b' t' o', In b U -> In t (b_txs b) -> In o (t_outs t) ->
             In b' U -> In t' (b_txs b') -> In o' (t_outs t') -> o_key o = o_key o' -> t = t' /\ o = o';
  vu_idx : forall b t o o', In b U -> In t (b_txs b) -> In o (t_outs t) -> In o' (t_outs t) ->
             o_pool o = o_pool o' -> o_idx o = o_idx o' -> o = o'
}.

(** ** The universe with position-dependent nullifiers

    An output is named by (pool, txid, index).  The same transaction mined in blocks of
    different branches has the same spends and the same outputs EXCEPT possibly their nullifiers
    (a Sapling nullifier depends on the position of the note commitment in the tree, i.e. on the
    block the transaction is mined in): the outputs with the same name in different branches are
    the "versions" of one output.  A nullifier names one output. *)
Definition oid := (N * N * N)%type.
Definition out_id (t : tx) (o : out) : oid := (o_pool o, t_id t, o_idx o).
Definition out_nonf (o : out) : option N * N * N * N := (o_owner o, o_pool o, o_value o, o_idx o).

Record weak_universe (U : list block) : Prop := {
  wu_tx : forall b t b' t', In b U -> In t (b_txs b) -> In b' U -> In t' (b_txs b') -> t_id t = t_id t' ->
            t_spends t = t_spends t' /\ map out_nonf (t_outs t) = map out_nonf (t_outs t');
  wu_out : forall b t o b' t' o', In b U -> In t (b_txs b) -> In o (t_outs t) ->
             In b' U -> In t' (b_txs b') -> In o' (t_outs t') -> o_key o = o_key o' -> out_id t o = out_id t' o';
  wu_idx : forall b t o o', In b U -> In t (b_txs b) -> In o (t_outs t) -> In o' (t_outs t) ->
             o_pool o = o_pool o' -> o_idx o = o_idx o' -> o = o'
}.

(** The current best chain reveals, of an output it contains, only the nullifier of its own
    version (a transaction revealing the nullifier the note had in an abandoned branch cannot be
    valid on this chain: its proof is against a treestate this chain does not have). *)
Definition own_versions (c U : list block) : Prop :=
  forall b1 t1 bV tV oV b0 t0 o,
    In b1 c -> In t1 (b_txs b1) -> In bV U -> In tV (b_txs bV) -> In oV (t_outs tV) -> In (o_key oV) (t_spends t1) ->
    In b0 c -> In t0 (b_txs b0) -> In o (t_outs t0) -> out_id tV oV = out_id t0 o ->
    o_key oV = o_key o.

(** two chains have the same blocks up to height [h] *)
Definition agree (c c' : list block) (h : N) : Prop := forall b, b_height b <= h -> (In b c <-> In b c').

(** Histories over several branches.  [reach U birthday c s]: the wallet state [s] is reachable
    with [c] its current best chain, all blocks it was ever offered being in [U].  The best chain
    may be replaced ([reach_switch]) by any valid chain that has the same blocks up to a height
    [h] at or above everything the wallet holds as scanned: this is both "new blocks arrive on
    top" and "the chain reorganises above the height the wallet has rewound to". *)
Inductive reach (U : list block) (birthday : N) : list block -> wstate -> Prop :=
| reach_init c : valid_chain birthday c -> incl c U -> reach U birthday c init
| reach_op c s o s' :
    reach U birthday c s -> (forall bs, o = OScan bs -> incl bs c) -> step birthday s o = Ok s' ->
    reach U birthday c s'
| reach_switch c s c' h :
    reach U birthday c s -> (forall m, has_block (w_blocks s) m = true -> m <= h) ->
    agree c c' h -> valid_chain birthday c' -> incl c' U ->
    reach U birthday c' s.

(** the same, over a universe with position-dependent nullifiers *)
Inductive reach_w (U : list block) (birthday : N) : list block -> wstate -> Prop :=
| reachw_init c : valid_chain birthday c -> incl c U -> own_versions c U -> reach_w U birthday c init
| reachw_op c s o s' :
    reach_w U birthday c s -> (forall bs, o = OScan bs -> incl bs c) -> step birthday s o = Ok s' ->
    reach_w U birthday c s'
| reachw_switch c s c' h :
    reach_w U birthday c s -> (forall m, has_block (w_blocks s) m = true -> m <= h) ->
    agree c c' h -> valid_chain birthday c' -> incl c' U -> own_versions c' U ->
    reach_w U birthday c' s.

(** * Vocabulary of the theorems about wallet histories (Properties.v) *)

(** every batch handed to a scan consists of blocks of the chain *)
Definition ops_on (c : list block) (ops : list op) : Prop := forall bs, In (OScan bs) ops -> incl bs c.

(** the blocks of the chain the wallet currently holds as scanned, in chain order *)
Definition scanned_blocks (c : list block) (s : wstate) : list block :=
  filter (fun b => has_block (w_blocks s) (b_height b)) c.

Definition all_scanned (c : list block) (s : wstate) : Prop :=
  forall b, In b c -> has_block (w_blocks s) (b_height b) = true.

(** rows of rewound (un-mined) transactions have expired at [target] *)
Definition orphans_dead (s : wstate) (target : N) : Prop :=
  forall r, In r (w_txs s) -> x_mined r = None -> row_unexpired target r = false.

(** no transaction orphaned by a rewind still counts at tip [tp] *)
Definition settled (c : list block) (s : wstate) (tp : N) : Prop := orphans_dead s (tp + 1) \/ all_scanned c s.

(** the notes the two wallets hold for an output of a block the first has scanned agree, and
    so does their spent status with respect to every transaction of a block it has scanned *)
Definition same_notes (c : list block) (s1 s2 : wstate) : Prop :=
  forall b t o, In b c -> In t (b_txs b) -> In o (t_outs t) -> owned o = true -> has_block (w_blocks s1) (b_height b) = true ->
    exists n1 n2, In n1 (w_notes s1) /\ In n2 (w_notes s2)
      /\ n_key n1 = o_key o /\ n_key n2 = o_key o /\ n_acct n1 = n_acct n2 /\ n_value n1 = n_value n2 /\ n_recv n1 = n_recv n2
      /\ forall b' t', In b' c -> In t' (b_txs b') -> has_block (w_blocks s1) (b_height b') = true ->
           (In (t_id t') (n_spent n1) <-> In (t_id t') (n_spent n2)).

(** every row of the first notes table has its twin in the second: same nullifier, account,
    value, receiving transaction and the same set of spenders *)
Definition notes_incl (s1 s2 : wstate) : Prop :=
  forall n1, In n1 (w_notes s1) ->
    exists n2, In n2 (w_notes s2) /\ n_key n1 = n_key n2 /\ n_acct n1 = n_acct n2 /\ n_value n1 = n_value n2
               /\ n_recv n1 = n_recv n2 /\ forall x, In x (n_spent n1) <-> In x (n_spent n2).
