(** C01 — the boolean universe check of [wf_case] ([Wf.univ_ok], evaluated on every generated
    history) implies the hypothesis [Spec.weak_universe] of the [C01_forks_*] theorems. *)
From V.Lib Require Import Base.
From V.C01 Require Import Model Spec Proofs Corr Wf.
Local Open Scope N_scope.

Lemma out_eqb_mod_nf_spec a b : out_eqb_mod_nf a b = true -> out_nonf a = out_nonf b.
Proof.
  unfold out_eqb_mod_nf, out_nonf. rewrite !andb_true_iff. intros [[[H1 H2] H3] H4].
  apply N.eqb_eq in H2, H3, H4. unfold optN_eqb in H1. apply (option_eqb_spec N.eqb N.eqb_eq) in H1. congruence.
Qed.

Lemma out_eqb_spec a b : out_eqb a b = true -> a = b.
Proof.
  unfold out_eqb. rewrite andb_true_iff. intros [H1 H2]. apply out_eqb_mod_nf_spec in H1. apply N.eqb_eq in H2.
  unfold out_nonf in H1. destruct a, b; cbn in *. congruence.
Qed.

Lemma list_eqb_map {A B} (e : A -> A -> bool) (f : A -> B) (H : forall a b, e a b = true -> f a = f b) :
  forall x y, list_eqb e x y = true -> map f x = map f y.
Proof.
  induction x as [|a x IH]; intros [|b y]; cbn; try discriminate; [reflexivity|].
  rewrite andb_true_iff. intros [H1 H2]. f_equal; auto.
Qed.

Lemma in_all_txs U t : In t (all_txs U) <-> exists b, In b U /\ In t (b_txs b).
Proof. unfold all_txs. rewrite in_flat_map. reflexivity. Qed.

Lemma univ_ok_weak U : univ_ok U = true -> weak_universe U.
Proof.
  unfold univ_ok, univ_with. cbn zeta. rewrite !andb_true_iff. intros [[H1 H2] H3].
  rewrite forallb_forall in H1, H2, H3.
  constructor.
  - intros b t b' t' Hb Ht Hb' Ht' E.
    assert (I1 : In t (all_txs U)) by (apply in_all_txs; eauto).
    assert (I2 : In t' (all_txs U)) by (apply in_all_txs; eauto).
    specialize (H1 t I1). rewrite forallb_forall in H1. specialize (H1 t' I2).
    apply N.eqb_eq in E. rewrite E in H1. cbn in H1. unfold tx_eqb_with in H1. rewrite !andb_true_iff in H1.
    destruct H1 as [[_ Hs] Ho]. split.
    + apply (list_eqb_spec key_eqb) in Hs; [assumption|]. intros a0 b0. split; [apply key_eqb_eq | intros ->; apply key_eqb_refl].
    + apply (list_eqb_map out_eqb_mod_nf out_nonf out_eqb_mod_nf_spec). assumption.
  - intros b t o b' t' o' Hb Ht Ho Hb' Ht' Ho' E.
    assert (I1 : In (t_id t, o) (flat_map (fun t => map (fun o => (t_id t, o)) (t_outs t)) (all_txs U))).
    { apply in_flat_map. exists t. split; [apply in_all_txs; eauto | apply in_map; assumption]. }
    assert (I2 : In (t_id t', o') (flat_map (fun t => map (fun o => (t_id t, o)) (t_outs t)) (all_txs U))).
    { apply in_flat_map. exists t'. split; [apply in_all_txs; eauto | apply in_map; assumption]. }
    specialize (H3 _ I1). rewrite forallb_forall in H3. specialize (H3 _ I2). cbn [fst snd] in H3.
    rewrite E, key_eqb_refl in H3. cbn in H3. apply andb_true_iff in H3. destruct H3 as [Hi Hm].
    apply N.eqb_eq in Hi. apply out_eqb_mod_nf_spec in Hm. unfold out_nonf in Hm. unfold out_id. congruence.
  - intros b t o o' Hb Ht Ho Ho' Hp Hi.
    assert (I1 : In t (all_txs U)) by (apply in_all_txs; eauto).
    specialize (H2 t I1). rewrite forallb_forall in H2. specialize (H2 o Ho). rewrite forallb_forall in H2. specialize (H2 o' Ho').
    apply N.eqb_eq in Hp, Hi. rewrite Hp, Hi in H2. cbn in H2. apply out_eqb_spec. assumption.
Qed.

Lemma wf_case_weak n steps lin : wf_case (Hist n steps lin) = true -> weak_universe (case_blocks steps).
Proof. cbn [wf_case]. rewrite andb_true_iff. intros [_ H]. apply univ_ok_weak. assumption. Qed.
