(** C01 — get/put lemmas for the notes table read by identity (pool, txid, output index). *)
From V.Lib Require Import Base.
From V.Gen Require Import C01Consts.
From V.C01 Require Import Model Spec Proofs Tables WProofs.
Local Open Scope N_scope.

Definition markf (k : key) (tid : N) (n : note) : note := if key_eqb (n_key n) k then add1 tid n else n.

Lemma nid_add1 tid n : nid (add1 tid n) = nid n.
Proof. unfold add1. destruct (memN tid (n_spent n)); reflexivity. Qed.

Lemma find_id_mark_spent txs k tid : forall l l' i,
  NoDup (map n_key l) -> mark_spent txs k tid l = Some l' ->
  find_id i l' = option_map (markf k tid) (find_id i l).
Proof.
  induction l as [|n l IH]; intros l' i Hnd H; cbn [mark_spent] in H.
  - inversion H; subst. reflexivity.
  - cbn [map] in Hnd. inversion Hnd as [|? ? Hnin Hnd']; subst.
    destruct (key_eqb (n_key n) k) eqn:E.
    + destruct (existsb _ (n_spent n)); [discriminate|]. inversion H; subst. clear H.
      change (if memN tid (n_spent n) then n else mkNote (n_key n) (n_acct n) (n_value n) (n_recv n) (n_idx n) (n_spent n ++ [tid]))
        with (add1 tid n).
      cbn [find_id]. rewrite nid_add1. destruct (oid_eqb (nid n) i).
      * cbn [option_map]. unfold markf. rewrite E. reflexivity.
      * destruct (find_id i l) as [n'|] eqn:Ef; [|reflexivity]. cbn [option_map]. f_equal.
        unfold markf. destruct (key_eqb (n_key n') k) eqn:E'; [|reflexivity]. exfalso.
        apply key_eqb_eq in E, E'. apply find_id_In in Ef. destruct Ef as [Hin _].
        apply Hnin. rewrite E, <- E'. apply in_map. assumption.
    + destruct (mark_spent txs k tid l) as [r|] eqn:Er; [|discriminate]. inversion H; subst. clear H.
      cbn [find_id]. destruct (oid_eqb (nid n) i).
      * cbn [option_map]. unfold markf. rewrite E. reflexivity.
      * apply IH; auto.
Qed.

Lemma mark_spent_id txs k tid l l' i :
  NoDup (map n_key l) -> mark_spent txs k tid l = Some l' ->
  key_id i l' = key_id i l
  /\ (forall x, In x (spent_id i l') <-> In x (spent_id i l) \/ (key_id i l = Some k /\ x = tid)).
Proof.
  intros Hnd H. unfold key_id, spent_id. rewrite (find_id_mark_spent _ _ _ _ _ i Hnd H).
  destruct (find_id i l) as [n|]; cbn [option_map].
  - unfold markf. destruct (key_eqb (n_key n) k) eqn:E.
    + apply key_eqb_eq in E. rewrite add1_key. split; [reflexivity|]. intros x. rewrite add1_spent. subst k. intuition.
    + apply key_eqb_neq in E. split; [reflexivity|]. intros x. split; [auto | intros [? | [Ek _]]; [assumption | inversion Ek; contradiction]].
  - split; [reflexivity|]. intros x. split; [auto | intros [? | [? _]]; [assumption | discriminate]].
Qed.

Lemma mark_all_id txs tid : forall ks l l' i,
  NoDup (map n_key l) -> mark_all txs ks tid l = Some l' ->
  key_id i l' = key_id i l
  /\ (forall x, In x (spent_id i l') <-> In x (spent_id i l) \/ (exists k, In k ks /\ key_id i l = Some k /\ x = tid)).
Proof.
  induction ks as [|k ks IH]; intros l l' i Hnd H; cbn [mark_all] in H.
  - inversion H; subst. split; [reflexivity|]. intros x. split; [auto | intros [? | [k [[] _]]]; assumption].
  - destruct (mark_spent txs k tid l) as [l1|] eqn:E; [|discriminate].
    destruct (mark_spent_id _ _ _ _ _ i Hnd E) as [K1 S1].
    assert (Hnd1 : NoDup (map n_key l1)) by (rewrite (proj2 (mark_spent_ids _ _ _ _ _ E)); assumption).
    destruct (IH _ _ i Hnd1 H) as [K2 S2]. split; [congruence|].
    intros x. rewrite S2, S1, K1. split.
    + intros [[? | [? ?]] | [k' [? [? ?]]]]; [auto | right; exists k; cbn; auto | right; exists k'; cbn; auto].
    + intros [? | [k' [[<- | ?] [? ?]]]]; [auto | left; right; auto | right; exists k'; auto].
Qed.

(** ** put_outputs *)

Definition oi (recv : N) (o : out) : oid := (fst (o_key o), recv, o_idx o).

Lemma put_outputs_id nfm locs recv : forall os txs notes txs' notes',
  put_outputs nfm locs recv os txs notes = (txs', notes') ->
  (forall o o', In o os -> In o' os -> oi recv o = oi recv o' -> o_key o = o_key o') ->
  (forall o, In o os -> key_id (oi recv o) notes' = Some (o_key o))
  /\ (forall i, (forall o, In o os -> oi recv o <> i) -> find_id i notes' = find_id i notes)
  /\ (forall i x, In x (spent_id i notes') <->
        In x (spent_id i notes) \/ exists o hh, In o os /\ oi recv o = i /\ detect_spend nfm locs (o_key o) = Some (x, hh)).
Proof.
  induction os as [|o os IH]; intros txs notes txs' notes' H Hinj; cbn [put_outputs] in H.
  - inversion H; subst. split; [intros o []|]. split; [reflexivity|].
    intros i x. split; [auto | intros [? | [o [hh [[] _]]]]; assumption].
  - set (sp := match detect_spend nfm locs (o_key o) with Some (t, _) => Some t | None => None end) in *.
    set (notes1 := put_note (o_key o) (out_acct o) (o_value o) recv (o_idx o) sp notes) in *.
    destruct (IH _ _ _ _ H (fun a b Ha Hb => Hinj a b (or_intror Ha) (or_intror Hb))) as [I1 [I2 I3]].
    assert (F1 : forall i, find_id i notes1
               = if oid_eqb (oi recv o) i then Some (mkNote (o_key o) (out_acct o) (o_value o) recv (o_idx o) (add_spender sp (spent_id (oi recv o) notes)))
                 else find_id i notes) by (intros i; apply find_put_note_id).
    assert (Hsp : forall y, sp = Some y <-> exists hh, detect_spend nfm locs (o_key o) = Some (y, hh)).
    { intros y. unfold sp. destruct (detect_spend nfm locs (o_key o)) as [[t0 h0]|].
      - split; [intros E; inversion E; subst; eauto | intros [hh E]; inversion E; reflexivity].
      - split; [discriminate | intros [hh E]; discriminate]. }
    split; [|split].
    + intros o' [<- | Ho']; [|auto].
      destruct (existsb (fun o'' => oid_eqb (oi recv o'') (oi recv o)) os) eqn:Ex.
      * apply existsb_exists in Ex. destruct Ex as [o'' [Ho'' E]]. apply oid_eqb_eq in E.
        rewrite <- E, (I1 o'' Ho''). f_equal. apply Hinj; [right; assumption | left; reflexivity | assumption].
      * unfold key_id. rewrite I2, F1, oid_eqb_refl; [reflexivity|].
        intros o'' Ho'' E. assert (existsb (fun o'' => oid_eqb (oi recv o'') (oi recv o)) os = true); [|congruence].
        apply existsb_exists. exists o''. split; [assumption | apply oid_eqb_eq; assumption].
    + intros i Hi. rewrite I2 by (intros o' Ho'; apply Hi; right; assumption).
      rewrite F1. rewrite (proj2 (oid_eqb_neq (oi recv o) i)); [reflexivity | apply Hi; left; reflexivity].
    + intros i x. rewrite I3. unfold spent_id at 1. rewrite F1. destruct (oid_eqb (oi recv o) i) eqn:E.
      * apply oid_eqb_eq in E. cbn [n_spent]. rewrite add_spender_In, Hsp. rewrite E. split.
        -- intros [[? | [hh Hd]] | [o' [hh [Ho' [Ei Hd]]]]]; [auto | right; exists o, hh; cbn; auto | right; exists o', hh; cbn; auto].
        -- intros [? | [o' [hh [[<- | Ho'] [Ei Hd]]]]]; [auto | left; right; eauto | right; exists o', hh; auto].
      * apply oid_eqb_neq in E. fold (spent_id i notes). split.
        -- intros [? | [o' [hh [Ho' [Ei Hd]]]]]; [auto | right; exists o', hh; cbn; auto].
        -- intros [? | [o' [hh [[<- | Ho'] [Ei Hd]]]]]; [auto | contradiction | right; exists o', hh; auto].
Qed.
