(** C01 — correspondence cases.  One case = one wallet history executed on the real SQLite
    backend: the operations with the blocks they scanned (generator ground truth), the
    implementation's outcome of every operation and the canonical dump of the wallet tables and
    of get_wallet_summary after every operation.
    [run_case]: the model, run from the empty wallet over the same operations, reproduces every
    outcome and every dump.  [prop_case]: the property, evaluated on the implementation's dumps
    against the ground-truth ledger of Spec.v (the model is not used). *)
From V.Lib Require Import Base.
From V.Gen Require Import C01Consts.
From V.C01 Require Import Model Spec.
Local Open Scope N_scope.

Definition BIRTHDAY : N := 100000.

Record dump := mkDump {
  d_notes : list note;
  d_txs : list txrow;
  d_locs : list loc;
  d_nfmap : list (key * (N * N));
  d_blocks : list (N * N);
  d_tip : option N;
  d_fs : option N;
  d_bal : option (list (N * N * N * N))     (* account, pool, total, uneconomic *)
}.

Inductive stepc :=
| SScan (bs : list block) (r : outcome unit err) (d : dump)
| STip (h : N) (r : outcome unit err) (d : dump)
| STrunc (req : N) (r : outcome N err) (d : dump).

(** [lin]: dump of a fresh wallet that scanned the final best chain once, in height order
    (present when the history ends with every block up to the tip scanned). *)
Inductive case := Hist (naccts : N) (steps : list stepc) (lin : option dump).

(** * equality of tables as sets *)
Definition subset {A} (eqb : A -> A -> bool) (a b : list A) : bool :=
  forallb (fun x => existsb (eqb x) b) a.
Definition set_eqb {A} (eqb : A -> A -> bool) (a b : list A) : bool :=
  Nat.eqb (length a) (length b) && subset eqb a b && subset eqb b a.

Definition optN_eqb := option_eqb N.eqb.
Definition pairN_eqb (a b : N * N) := N.eqb (fst a) (fst b) && N.eqb (snd a) (snd b).
Definition txrow_eqb (a b : txrow) : bool :=
  N.eqb (x_id a) (x_id b) && optN_eqb (x_mined a) (x_mined b) && optN_eqb (x_expiry a) (x_expiry b)
  && N.eqb (x_minobs a) (x_minobs b).
Definition note_eqb (a b : note) : bool :=
  key_eqb (n_key a) (n_key b) && N.eqb (n_acct a) (n_acct b) && N.eqb (n_value a) (n_value b)
  && N.eqb (n_recv a) (n_recv b) && N.eqb (n_idx a) (n_idx b) && set_eqb N.eqb (n_spent a) (n_spent b).
Definition nfe_eqb (a b : key * (N * N)) : bool := key_eqb (fst a) (fst b) && pairN_eqb (snd a) (snd b).

Definition bal_ok (s : wstate) (tip : N) (e : N * N * N * N) : bool :=
  let '(a, p, tot, un) := e in
  N.eqb (bal_total s (tip + 1) a p) tot && N.eqb (bal_uneconomic s (tip + 1) a p) un.

Definition dump_matches (s : wstate) (d : dump) : bool :=
  set_eqb note_eqb (w_notes s) (d_notes d)
  && set_eqb txrow_eqb (w_txs s) (d_txs d)
  && set_eqb loc_eqb (w_locs s) (d_locs d)
  && set_eqb nfe_eqb (w_nfmap s) (d_nfmap d)
  && set_eqb pairN_eqb (w_blocks s) (d_blocks d)
  && optN_eqb (w_tip s) (d_tip d)
  && optN_eqb (fully_scanned BIRTHDAY (w_blocks s)) (d_fs d)
  && match d_bal d, w_tip s with
     | Some l, Some tip => forallb (bal_ok s tip) l
     | Some _, None => false
     | None, _ => true
     end.

Definition unit_eqb (_ _ : unit) := true.
Definition ures_eqb := outcome_eqb unit_eqb err_eqb.

Definition same_res (m : res) (r : outcome unit err) : bool :=
  match m, r with
  | Ok _, Ok _ => true
  | Err a, Err b => err_eqb a b
  | Panic, Panic => true
  | _, _ => false
  end.

Fixpoint run_steps (s : wstate) (l : list stepc) : bool :=
  match l with
  | [] => true
  | SScan bs (Err ETree) d :: l' =>
      (* the note commitment trees are not modelled (C06): a tree error is taken from the
         implementation; the wallet must be unchanged *)
      dump_matches s d && run_steps s l'
  | SScan bs r d :: l' =>
      let m := scan BIRTHDAY s bs in
      same_res m r &&
      let s' := match m with Ok s' => s' | _ => s end in
      dump_matches s' d && run_steps s' l'
  | STip h r d :: l' =>
      let s' := update_tip BIRTHDAY s h in
      ures_eqb (Ok tt) r && dump_matches s' d && run_steps s' l'
  | STrunc req r d :: l' =>
      (* the height reached is an input (commitment-tree checkpoints are not modelled) *)
      let s' := match r with Ok h => truncate s h | _ => s end in
      dump_matches s' d && run_steps s' l'
  end.

Definition run_case (c : case) : bool :=
  match c with Hist _ steps _ => run_steps init steps end.

(** * The property on the implementation's dumps *)

Definition heights (S : list block) : list N := map b_height S.

Definition spec_scan (S bs : list block) : list block :=
  filter (fun b => negb (memN (b_height b) (heights bs))) S ++ bs.
Definition spec_trunc (S : list block) (h : N) : list block :=
  filter (fun b => b_height b <=? h) S.

Definition drow (d : dump) (id : N) : option txrow := find_row id (d_txs d).
Definition d_mined (d : dump) (id : N) : option N :=
  match drow d id with Some r => x_mined r | None => None end.
Definition d_unexp (target : N) (d : dump) (id : N) : bool :=
  match drow d id with Some r => sp_unexpired target r | None => false end.

Definition mined_notes (d : dump) : list note :=
  filter (fun n => is_some (d_mined d (n_recv n))) (d_notes d).

Definition out_note_match (d : dump) (e : out * N * N) (n : note) : bool :=
  let '(o, txid, h) := e in
  key_eqb (n_key n) (o_key o) && optN_eqb (o_owner o) (Some (n_acct n)) && N.eqb (n_value n) (o_value o)
  && N.eqb (n_recv n) txid && N.eqb (n_idx n) (o_idx o) && optN_eqb (d_mined d txid) (Some h).

(** notes of mined transactions = outputs owned in scanned blocks *)
Definition chk_notes (S : list block) (d : dump) : bool :=
  let oo := owned_outs S in
  let mn := mined_notes d in
  Nat.eqb (length oo) (length mn)
  && forallb (fun e => existsb (out_note_match d e) mn) oo
  && forallb (fun n => existsb (fun e => out_note_match d e n) oo) mn.

(** mined spenders of a note = transactions of scanned blocks revealing its nullifier *)
Definition chk_spent (S : list block) (d : dump) : bool :=
  forallb (fun n =>
    let ms := filter (fun t => is_some (d_mined d t)) (n_spent n) in
    let sp := spenders S (n_key n) in
    Nat.eqb (length ms) (length sp)
    && forallb (fun t => existsb (fun e => N.eqb (fst e) t && optN_eqb (d_mined d t) (Some (snd e))) sp) ms
    && forallb (fun e => memN (fst e) ms) sp) (mined_notes d).

Fixpoint nodup_keys (l : list key) : bool :=
  match l with
  | [] => true
  | k :: l' => negb (mem_key k l') && nodup_keys l'
  end.

(** Mined rows are in a scanned block at that height.  An un-mined row is an orphan (its
    transaction is in no scanned block) or — transiently, after a rewind, when a block is re-scanned
    before the block that creates the notes it spends — belongs to a transaction of a scanned
    block that receives nothing for the wallet and spends no note whose creating block is
    scanned (for every other transaction of a scanned block the row must be mined:
    C01_spends_complete, [iv_recv]).  Such a row is re-mined when the creating block is scanned. *)
Definition find_tx (S : list block) (id : N) : option tx :=
  find (fun t => N.eqb (t_id t) id) (all_txs S).

Definition chk_txs (S : list block) (d : dump) : bool :=
  let created := map (fun e : out * N * N => o_key (fst (fst e))) (owned_outs S) in
  forallb (fun r =>
    match x_mined r with
    | None =>
        match find_tx S (x_id r) with
        | None => true
        | Some t => negb (existsb owned (t_outs t)) && negb (existsb (fun k => mem_key k created) (t_spends t))
        end
    | Some h => existsb (fun b => N.eqb (b_height b) h && memN (x_id r) (map t_id (b_txs b))) S
    end) (d_txs d).

Definition d_counts (target : N) (d : dump) (n : note) : bool :=
  d_unexp target d (n_recv n) && negb (existsb (d_unexp target d) (n_spent n)).

Definition d_value (target : N) (d : dump) (a p : N) : N :=
  sumN (map n_value (filter (fun n => N.eqb (n_acct n) a && N.eqb (fst (n_key n)) p && d_counts target d n) (d_notes d))).

(** an orphan that still counts at [target] *)
Definition live_orphan (target : N) (d : dump) : bool :=
  existsb (fun r => negb (is_some (x_mined r)) && sp_unexpired target r) (d_txs d).

(** total + uneconomic = value of the notes of the dump that count, each once *)
Definition chk_rule (d : dump) : bool :=
  match d_bal d, d_tip d with
  | Some l, Some tip => forallb (fun e => let '(a, p, tot, un) := e in N.eqb (tot + un) (d_value (tip + 1) d a p)) l
  | Some _, None => false
  | None, _ => true
  end.

(** and, when no orphaned transaction is still alive, exactly the ledger of the scanned blocks *)
Definition chk_ledger (S : list block) (d : dump) : bool :=
  match d_bal d, d_tip d with
  | Some l, Some tip =>
      forallb (fun e => let '(a, p, tot, un) := e in live_orphan (tip + 1) d || N.eqb (tot + un) (ledger S a p)) l
  | Some _, None => false
  | None, _ => true
  end.

Definition chk_bal (S : list block) (d : dump) : bool := chk_rule d && chk_ledger S d.

Definition chk_tip (S : list block) (d : dump) : bool :=
  match d_tip d with
  | Some tip => forallb (fun b => b_height b <=? tip) S
                && forallb (fun r => match x_mined r with Some m => m <=? tip | None => true end) (d_txs d)
  | None => match S with [] => true | _ => false end
  end.

Definition chk_dump (S : list block) (d : dump) : bool :=
  set_eqb pairN_eqb (map (fun b => (b_height b, b_hash b)) S) (d_blocks d)
  && chk_notes S d && chk_spent S d && nodup_keys (map n_key (d_notes d))
  && chk_txs S d && chk_bal S d && chk_tip S d.

Fixpoint prop_steps (S : list block) (l : list stepc) : bool * list block :=
  match l with
  | [] => (true, S)
  | SScan bs r d :: l' =>
      let S' := match r with Ok _ => spec_scan S bs | _ => S end in
      let '(b, S2) := prop_steps S' l' in (chk_dump S' d && b, S2)
  | STip h r d :: l' =>
      let '(b, S2) := prop_steps S l' in (chk_dump S d && b, S2)
  | STrunc req r d :: l' =>
      let S' := match r with Ok h => spec_trunc S h | _ => S end in
      let okh := match r with Ok h => (h <=? req) && memN h (heights S) | _ => true end in
      let '(b, S2) := prop_steps S' l' in (okh && chk_dump S' d && b, S2)
  end.

Definition last_dump (l : list stepc) : option dump :=
  match last l (STip 0 Panic (mkDump [] [] [] [] [] None None None)) with
  | SScan _ _ d | STip _ _ d | STrunc _ _ d => match l with [] => None | _ => Some d end
  end.

Definition strip_unmined (d : dump) (n : note) : note :=
  mkNote (n_key n) (n_acct n) (n_value n) (n_recv n) (n_idx n) (filter (fun t => is_some (d_mined d t)) (n_spent n)).

Definition bal4_eqb (a b : N * N * N * N) : bool :=
  let '(a1, a2, a3, a4) := a in let '(b1, b2, b3, b4) := b in
  N.eqb a1 b1 && N.eqb a2 b2 && N.eqb a3 b3 && N.eqb a4 b4.

(** fully scanned: same mined notes, same spent status, same balances as the linear scan *)
Definition chk_linear (d lin : dump) : bool :=
  set_eqb note_eqb (map (strip_unmined d) (mined_notes d)) (map (strip_unmined lin) (mined_notes lin))
  && optN_eqb (d_tip d) (d_tip lin)
  && match d_tip d, d_bal d, d_bal lin with
     | Some tip, Some b1, Some b2 => live_orphan (tip + 1) d || set_eqb bal4_eqb b1 b2
     | _, _, _ => false
     end.

Definition prop_case (c : case) : bool :=
  match c with
  | Hist _ steps lin =>
      fst (prop_steps [] steps)
      && match lin, last_dump steps with
         | Some l, Some d => chk_linear d l
         | Some _, None => false
         | None, _ => true
         end
  end.

Definition known_class (c : case) : N := 0.

(** * Path tags: bitmask of the model branches a history went through *)
Definition bit (b : bool) (k : N) : N := if b then k else 0.

Definition tag_scan (s : wstate) (bs : list block) : N :=
  match bs with
  | [] => 0
  | b0 :: _ =>
    let fs := fully_scanned BIRTHDAY (w_blocks s) in
    let fl := tracking_floor fs (b_height b0 - 1) (last_height bs 0) in
    let outs := flat_map (fun b => flat_map (fun t => filter owned (t_outs t)) (b_txs b)) bs in
    let nfs := unspent_nfs s in
    N.lor (bit (is_some fl) 1)
   (N.lor (bit (match fs with Some f => existsb (fun x => let '(h, _, _) := x in h <? f - PRUNING_DEPTH) (w_locs s) | None => false end) 2)
   (N.lor (bit (existsb (fun o => is_some (detect_spend (w_nfmap s) (w_locs s) (o_key o))) outs) 4)
   (N.lor (bit (existsb (fun b => has_block (w_blocks s) (b_height b)) bs) 8)
   (N.lor (bit (existsb (fun b => existsb (fun t => existsb (fun k => mem_key k nfs) (t_spends t)) (b_txs b)) bs) 16)
   (N.lor (bit (existsb (fun b => existsb (fun t => match find_row (t_id t) (w_txs s) with
                                                      | Some r => negb (is_some (x_mined r)) | None => false end) (b_txs b)) bs) 32)
          (bit (match scan BIRTHDAY s bs with Ok _ => false | _ => true end) 64))))))
  end.

Definition tag_state (s : wstate) : N :=
  let unm id := negb (row_mined (w_txs s) id) in
  let target := match w_tip s with Some t => t + 1 | None => 0 end in
  N.lor (bit (existsb (fun n => negb (unm (n_recv n)) && existsb unm (n_spent n)) (w_notes s)) 128)
 (N.lor (bit (existsb (fun n => unm (n_recv n)) (w_notes s)) 256)
 (N.lor (bit (existsb (fun r => negb (is_some (x_mined r)) && negb (row_unexpired target r)) (w_txs s)) 512)
        (bit (existsb (fun r => negb (is_some (x_mined r)) && row_unexpired target r) (w_txs s)) 1024))).

Fixpoint tag_steps (s : wstate) (l : list stepc) (acc : N) : N :=
  match l with
  | [] => acc
  | SScan bs (Err ETree) d :: l' => tag_steps s l' (N.lor acc 16384)
  | SScan bs r d :: l' =>
      let s' := match scan BIRTHDAY s bs with Ok s' => s' | _ => s end in
      tag_steps s' l' (N.lor acc (N.lor (tag_scan s bs) (tag_state s')))
  | STip h r d :: l' => let s' := update_tip BIRTHDAY s h in tag_steps s' l' (N.lor acc (tag_state s'))
  | STrunc req r d :: l' =>
      let s' := match r with Ok h => truncate s h | _ => s end in
      tag_steps s' l' (N.lor acc (N.lor (bit (match r with Ok _ => true | _ => false end) 2048)
                                        (N.lor (bit (match r with Ok _ => false | _ => true end) 4096) (tag_state s'))))
  end.

Definition tag_case (c : case) : N :=
  match c with Hist _ steps lin => N.lor (tag_steps init steps 0) (bit (is_some lin) 8192) end.
