(** C01 — domain of the theorems as a boolean on cases: every scanned batch is a run of
    consecutive heights at or above the birthday, and the blocks the wallet holds at any time
    form (part of) a valid chain: unique txids, unique output nullifiers, every nullifier
    revealed at most once, and a note spent strictly above the block that creates it. *)
From V.Lib Require Import Base.
From V.C01 Require Import Model Spec Corr.
Local Open Scope N_scope.

Fixpoint consecutive (h : N) (bs : list block) : bool :=
  match bs with
  | [] => true
  | b :: bs' => N.eqb (b_height b) h && consecutive (h + 1) bs'
  end.

Definition batch_ok (bs : list block) : bool :=
  match bs with
  | [] => true
  | b :: _ => (BIRTHDAY <=? b_height b) && consecutive (b_height b) bs
  end.

Fixpoint nodupN (l : list N) : bool :=
  match l with
  | [] => true
  | x :: l' => negb (memN x l') && nodupN l'
  end.

(** (key, height) of every owned output / of every revealed nullifier of [S] *)
Definition created_at (S : list block) : list (key * N) :=
  flat_map (fun b => flat_map (fun t => map (fun o => (o_key o, b_height b)) (filter owned (t_outs t))) (b_txs b)) S.
Definition revealed_at (S : list block) : list (key * N) :=
  flat_map (fun b => flat_map (fun t => map (fun k => (k, b_height b)) (t_spends t)) (b_txs b)) S.

Definition valid_S (S : list block) : bool :=
  nodupN (tx_ids S)
  && nodupN (map b_hash S)
  && nodup_keys (map o_key (all_outs S))
  && nodup_keys (all_spends S)
  && forallb (fun r => forallb (fun c => negb (key_eqb (fst r) (fst c)) || (snd c <? snd r)) (created_at S)) (revealed_at S)
  && forallb (fun t => forallb (fun o => forallb (fun o' =>
        negb (N.eqb (o_pool o) (o_pool o') && N.eqb (o_idx o) (o_idx o')) || (N.eqb (o_nf o) (o_nf o') && N.eqb (o_value o) (o_value o')))
        (t_outs t)) (t_outs t)) (all_txs S).

Fixpoint wf_steps (S : list block) (l : list stepc) : bool :=
  match l with
  | [] => true
  | SScan bs r d :: l' =>
      let S' := match r with Ok _ => spec_scan S bs | _ => S end in
      batch_ok bs && valid_S S' && wf_steps S' l'
  | STip h r d :: l' => wf_steps S l'
  | STrunc req r d :: l' =>
      let S' := match r with Ok h => spec_trunc S h | _ => S end in
      wf_steps S' l'
  end.

(** All blocks ever offered to the wallet form a universe in the sense of [Spec.weak_universe],
    the hypothesis of the [C01_forks_*] theorems ([WfProofs.univ_ok_weak]): a txid names one
    transaction up to the nullifiers of its outputs (a Sapling output re-mined at another tree
    position has another nullifier), within a transaction (pool, index) names one output, and an
    output nullifier names one output position (txid, pool, index).  [strict_universe]
    additionally demands equal nullifiers, i.e. [Spec.valid_universe]; the tag of a case records
    whether it holds. *)
Definition out_eqb_mod_nf (a b : out) : bool :=
  optN_eqb (o_owner a) (o_owner b) && N.eqb (o_pool a) (o_pool b) && N.eqb (o_value a) (o_value b) && N.eqb (o_idx a) (o_idx b).
Definition out_eqb (a b : out) : bool := out_eqb_mod_nf a b && N.eqb (o_nf a) (o_nf b).
Definition tx_eqb_with (oe : out -> out -> bool) (a b : tx) : bool :=
  N.eqb (t_id a) (t_id b) && list_eqb key_eqb (t_spends a) (t_spends b) && list_eqb oe (t_outs a) (t_outs b).

Definition case_blocks (l : list stepc) : list block :=
  flat_map (fun st => match st with SScan bs _ _ => bs | _ => [] end) l.

Definition univ_with (oe : out -> out -> bool) (U : list block) : bool :=
  let T := all_txs U in
  let O := flat_map (fun t => map (fun o => (t_id t, o)) (t_outs t)) T in
  forallb (fun t => forallb (fun t' => negb (N.eqb (t_id t) (t_id t')) || tx_eqb_with oe t t') T) T
  && forallb (fun t => forallb (fun o => forallb (fun o' =>
        negb (N.eqb (o_pool o) (o_pool o') && N.eqb (o_idx o) (o_idx o')) || out_eqb o o') (t_outs t)) (t_outs t)) T
  && forallb (fun p => forallb (fun q => negb (key_eqb (o_key (snd p)) (o_key (snd q)))
                                         || (N.eqb (fst p) (fst q) && out_eqb_mod_nf (snd p) (snd q))) O) O.

Definition univ_ok (U : list block) : bool := univ_with out_eqb_mod_nf U.
Definition strict_universe (U : list block) : bool := univ_with out_eqb U.

Definition wf_case (c : case) : bool :=
  match c with Hist _ steps _ => wf_steps [] steps && univ_ok (case_blocks steps) end.
