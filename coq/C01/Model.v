(** C01 — executable model of the wallet's scan / tip-update / rewind row logic and of the
    balance query.  Transcribed from
      zcash_client_backend/src/data_api/chain.rs          (scan_cached_blocks)
      zcash_client_backend/src/scanning/compact.rs        (find_spent, which txs become WalletTx)
      zcash_client_backend/src/scanning.rs                (Nullifiers::update_with)
      zcash_client_backend/src/data_api/ll/wallet.rs      (put_blocks_rows, mark_notes_spent,
                                                           nullifier_tracking_floor, should_track_nullifiers)
      zcash_client_sqlite/src/wallet.rs                   (put_block, put_tx_meta, insert_nullifier_map,
                                                           query_nullifier_map, prune_nullifier_map,
                                                           truncate_to_height_internal, get_wallet_summary,
                                                           fully_scanned_height)
      zcash_client_sqlite/src/wallet/common.rs            (tx_unexpired_condition, spent_notes_clause,
                                                           get_nullifiers(Unspent))
      zcash_client_sqlite/src/wallet/{sapling,orchard}.rs (mark_*_note_spent, put_received_note)
      zcash_client_sqlite/src/wallet/scanning.rs          (scan_complete / update_chain_tip / trim: only their
                                                           effect on the chain tip = max scan-queue end - 1)
    Trial decryption and nullifier derivation are abstracted to the generator's ground truth
    ([o_owner], [o_nf]); the note
    commitment trees (C06) and the scan queue priorities (C15) are not modelled: the height a
    rewind actually reaches and the availability of the summary are inputs of the model.
    No proofs in this file. *)
From V.Lib Require Import Base.
From V.Gen Require Import C01Consts.
Local Open Scope N_scope.

(** * Chain data (ground truth of the block generator) *)

(** A nullifier is identified by (pool, id): pools 0 Sapling, 1 Orchard, 2 Ironwood. *)
Definition key := (N * N)%type.
Definition key_eqb (a b : key) : bool := N.eqb (fst a) (fst b) && N.eqb (snd a) (snd b).

(** [o_idx]: index of the output among the outputs (actions) of its pool in the transaction *)
Record out := mkOut { o_owner : option N; o_pool : N; o_value : N; o_nf : N; o_idx : N }.
Record tx := mkTx { t_id : N; t_spends : list key; t_outs : list out }.
Record block := mkBlock { b_height : N; b_hash : N; b_prev : N; b_txs : list tx }.

Definition o_key (o : out) : key := (o_pool o, o_nf o).

(** * Wallet state *)

(** row of [transactions] *)
Record txrow := mkTxRow { x_id : N; x_mined : option N; x_expiry : option N; x_minobs : N }.
(** row of [*_received_notes] joined with [*_received_note_spends]; the table's key is
    (pool, receiving transaction, output index); the nullifier column [n_key] is UNIQUE *)
Record note := mkNote { n_key : key; n_acct : N; n_value : N; n_recv : N; n_idx : N; n_spent : list N }.
(** row of [tx_locator_map]: (height, tx index, txid) *)
Definition loc := (N * N * N)%type.

Record wstate := mkW {
  w_blocks : list (N * N);          (* blocks: (height, hash) *)
  w_txs : list txrow;
  w_notes : list note;
  w_locs : list loc;
  w_nfmap : list (key * (N * N));   (* nullifier_map: key -> (height, tx index) *)
  w_tip : option N                  (* MAX(scan_queue.block_range_end) - 1 *)
}.

Definition init : wstate := mkW [] [] [] [] [] None.

Inductive err := EContinuity | EBlockConflict | EConstraint | ERewindInvalid | ECorrupted | ETree | EOther.
Definition err_eqb (a b : err) : bool :=
  match a, b with
  | EContinuity, EContinuity | EBlockConflict, EBlockConflict | EConstraint, EConstraint
  | ERewindInvalid, ERewindInvalid | ECorrupted, ECorrupted | ETree, ETree | EOther, EOther => true
  | _, _ => false
  end.

Definition res := outcome wstate err.

(** * Small table helpers *)

Definition mem_key (k : key) (l : list key) : bool := existsb (key_eqb k) l.
Definition memN (x : N) (l : list N) : bool := existsb (N.eqb x) l.

Fixpoint find_row (id : N) (l : list txrow) : option txrow :=
  match l with
  | [] => None
  | r :: l' => if N.eqb (x_id r) id then Some r else find_row id l'
  end.

Fixpoint find_note (k : key) (l : list note) : option note :=
  match l with
  | [] => None
  | n :: l' => if key_eqb (n_key n) k then Some n else find_note k l'
  end.

Fixpoint find_block (h : N) (l : list (N * N)) : option N :=
  match l with
  | [] => None
  | (h', x) :: l' => if N.eqb h' h then Some x else find_block h l'
  end.

Fixpoint find_nf (k : key) (l : list (key * (N * N))) : option (N * N) :=
  match l with
  | [] => None
  | (k', v) :: l' => if key_eqb k' k then Some v else find_nf k l'
  end.

Definition is_some {A} (o : option A) : bool := match o with Some _ => true | None => false end.

(** [put_tx_meta]: upsert keyed by txid; sets the mined height, lowers [min_observed_height],
    leaves the expiry untouched (a compact block does not carry it). *)
Fixpoint put_tx_meta (id h : N) (l : list txrow) : list txrow :=
  match l with
  | [] => [mkTxRow id (Some h) None h]
  | r :: l' =>
      if N.eqb (x_id r) id
      then mkTxRow id (Some h) (x_expiry r) (N.min (x_minobs r) h) :: l'
      else r :: put_tx_meta id h l'
  end.

Definition row_mined (txs : list txrow) (id : N) : bool :=
  match find_row id txs with Some r => is_some (x_mined r) | None => false end.

(** the spender test of [get_nullifiers(NullifierQuery::Unspent)] *)
Definition row_blocks_nf (txs : list txrow) (id : N) : bool :=
  match find_row id txs with
  | Some r => is_some (x_mined r) || match x_expiry r with Some 0 => true | _ => false end
  | None => false
  end.

(** [Nullifiers::unspent]: nullifiers of notes whose receiving transaction is mined and that no
    mined (or never-expiring) transaction spends. *)
Definition unspent_nfs (s : wstate) : list key :=
  map n_key
    (filter (fun n => row_mined (w_txs s) (n_recv n) && negb (existsb (row_blocks_nf (w_txs s)) (n_spent n)))
            (w_notes s)).

(** * Phase A — scanning the batch in memory (scan_block + Nullifiers::update_with) *)

Record wtx := mkWtx { wt_id : N; wt_idx : N; wt_found : list key; wt_owned : list out }.
Record sblock := mkSb {
  sb_height : N; sb_hash : N;
  sb_wtxs : list wtx;
  sb_unl : list (N * N * list key)      (* per tx: (index, txid, unlinked nullifiers) *)
}.

Definition owned (o : out) : bool := is_some (o_owner o).

(** one transaction against the current unspent-nullifier set *)
Definition scan_tx (nfs : list key) (idx : N) (t : tx) : option wtx * (N * N * list key) :=
  let found := filter (fun k => mem_key k nfs) (t_spends t) in
  let unl := filter (fun k => negb (mem_key k nfs)) (t_spends t) in
  let own := filter owned (t_outs t) in
  (match found, own with
   | [], [] => None
   | _, _ => Some (mkWtx (t_id t) idx found own)
   end, (idx, t_id t, unl)).

Fixpoint scan_txs (nfs : list key) (idx : N) (ts : list tx) : list wtx * list (N * N * list key) :=
  match ts with
  | [] => ([], [])
  | t :: ts' =>
      let '(w, u) := scan_tx nfs idx t in
      let '(ws, us) := scan_txs nfs (N.succ idx) ts' in
      (match w with Some x => x :: ws | None => ws end, u :: us)
  end.

Definition scan_block (nfs : list key) (b : block) : sblock :=
  let '(ws, us) := scan_txs nfs 0 (b_txs b) in
  mkSb (b_height b) (b_hash b) ws us.

(** [Nullifiers::update_with] *)
Definition update_nfs (nfs : list key) (sb : sblock) : list key :=
  let spent := flat_map wt_found (sb_wtxs sb) in
  filter (fun k => negb (mem_key k spent)) nfs
  ++ map o_key (flat_map wt_owned (sb_wtxs sb)).

(** [check_hash_continuity] against the metadata of the previous block, when the wallet has it *)
Definition continuity_ok (prior : option (N * N)) (b : block) : bool :=
  match prior with
  | None => true
  | Some (ph, phash) => N.eqb (b_height b) (ph + 1) && N.eqb (b_prev b) phash
  end.

Fixpoint scan_blocks (prior : option (N * N)) (nfs : list key) (bs : list block)
  : outcome (list sblock) err :=
  match bs with
  | [] => Ok []
  | b :: bs' =>
      if continuity_ok prior b then
        let sb := scan_block nfs b in
        match scan_blocks (Some (b_height b, b_hash b)) (update_nfs nfs sb) bs' with
        | Ok r => Ok (sb :: r)
        | Err e => Err e
        | Panic => Panic
        end
      else Err EContinuity
  end.

(** * Phase B — put_blocks_rows *)

(** [fully_scanned_height]: end of the first Scanned range when it starts at or below the
    birthday; the Scanned ranges are the maximal runs of scanned heights. *)
Definition has_block (bl : list (N * N)) (h : N) : bool := is_some (find_block h bl).

Fixpoint run_end (bl : list (N * N)) (fuel : nat) (h : N) : N :=
  match fuel with
  | O => h
  | S f => if has_block bl (h + 1) then run_end bl f (h + 1) else h
  end.

Definition min_height (bl : list (N * N)) : option N :=
  match bl with
  | [] => None
  | (h, _) :: r => Some (fold_left (fun m p => N.min m (fst p)) r h)
  end.

Definition fully_scanned (birthday : N) (bl : list (N * N)) : option N :=
  match min_height bl with
  | None => None
  | Some m => if m <=? birthday then Some (run_end bl (length bl) m) else None
  end.

(** [nullifier_tracking_floor] *)
Definition tracking_floor (fs : option N) (from_state last : N) : option N :=
  match fs with
  | Some f =>
      if N.eqb f from_state then
        let floor := last - NULLIFIER_MAP_RETENTION_BLOCKS in      (* saturating_sub *)
        if from_state + 1 <? floor then Some floor else None
      else None
  | None => None
  end.

Definition should_track (floor : option N) (h : N) : bool :=
  match floor with None => true | Some f => f <=? h end.

(** [put_block]: refuses a different hash at an already scanned height *)
Definition put_block (h x : N) (bl : list (N * N)) : option (list (N * N)) :=
  match find_block h bl with
  | Some x' => if N.eqb x' x then Some bl else None
  | None => Some (bl ++ [(h, x)])
  end.

(** [mark_*_note_spent]: error when another *mined* transaction already spends the note (the
    marking transaction has just been upserted as mined); otherwise add the spend row. *)
Fixpoint mark_spent (txs : list txrow) (k : key) (txid : N) (l : list note) : option (list note) :=
  match l with
  | [] => Some []
  | n :: l' =>
      if key_eqb (n_key n) k then
        if existsb (fun t => negb (N.eqb t txid) && row_mined txs t) (n_spent n) then None
        else Some ((if memN txid (n_spent n) then n
                    else mkNote (n_key n) (n_acct n) (n_value n) (n_recv n) (n_idx n) (n_spent n ++ [txid])) :: l')
      else match mark_spent txs k txid l' with
           | Some r => Some (n :: r)
           | None => None
           end
  end.

Fixpoint mark_all (txs : list txrow) (ks : list key) (txid : N) (l : list note) : option (list note) :=
  match ks with
  | [] => Some l
  | k :: ks' =>
      match mark_spent txs k txid l with
      | Some l' => mark_all txs ks' txid l'
      | None => None
      end
  end.

Definition add_spender (sp : option N) (l : list N) : list N :=
  match sp with
  | Some t => if memN t l then l else l ++ [t]
  | None => l
  end.

(** [put_received_note]: upsert ON CONFLICT (transaction_id, output_index) of the pool's table:
    the row of the same output is updated — its nullifier is REPLACED by the one computed for
    the block now scanned (a Sapling nullifier depends on the note's position in the commitment
    tree, so an output re-mined elsewhere after a reorg comes back under another nullifier) —
    and keeps its spend rows; plus the spend row for [spent_in]. *)
Definition id_match (n : note) (k : key) (recv idx : N) : bool :=
  N.eqb (fst (n_key n)) (fst k) && N.eqb (n_recv n) recv && N.eqb (n_idx n) idx.

Fixpoint put_note (k : key) (acct value recv idx : N) (sp : option N) (l : list note) : list note :=
  match l with
  | [] => [mkNote k acct value recv idx (add_spender sp [])]
  | n :: l' =>
      if id_match n k recv idx
      then mkNote k acct value recv idx (add_spender sp (n_spent n)) :: l'
      else n :: put_note k acct value recv idx sp l'
  end.

Fixpoint find_loc (h i : N) (l : list loc) : option N :=
  match l with
  | [] => None
  | (h', i', t) :: l' => if N.eqb h' h && N.eqb i' i then Some t else find_loc h i l'
  end.

(** [query_nullifier_map] + the [put_tx_meta] it performs for the spending transaction *)
Definition detect_spend (s_nfmap : list (key * (N * N))) (locs : list loc) (k : key) : option (N * N) :=
  match find_nf k s_nfmap with
  | Some (h, i) => match find_loc h i locs with Some t => Some (t, h) | None => None end
  | None => None
  end.

Definition out_acct (o : out) : N := match o_owner o with Some a => a | None => 0 end.

Fixpoint put_outputs (nfm : list (key * (N * N))) (locs : list loc) (recv : N) (os : list out)
         (txs : list txrow) (notes : list note) : list txrow * list note :=
  match os with
  | [] => (txs, notes)
  | o :: os' =>
      let d := detect_spend nfm locs (o_key o) in
      let txs' := match d with Some (t, h) => put_tx_meta t h txs | None => txs end in
      let sp := match d with Some (t, _) => Some t | None => None end in
      put_outputs nfm locs recv os' txs' (put_note (o_key o) (out_acct o) (o_value o) recv (o_idx o) sp notes)
  end.

(** rows of one WalletTx of a block at height [h] *)
Definition put_wtx (h : N) (nfm : list (key * (N * N))) (locs : list loc) (w : wtx)
           (txs : list txrow) (notes : list note) : option (list txrow * list note) :=
  let txs1 := put_tx_meta (wt_id w) h txs in
  match mark_all txs1 (wt_found w) (wt_id w) notes with
  | None => None
  | Some notes1 => Some (put_outputs nfm locs (wt_id w) (wt_owned w) txs1 notes1)
  end.

Fixpoint put_wtxs (h : N) (nfm : list (key * (N * N))) (locs : list loc) (ws : list wtx)
         (txs : list txrow) (notes : list note) : option (list txrow * list note) :=
  match ws with
  | [] => Some (txs, notes)
  | w :: ws' =>
      match put_wtx h nfm locs w txs notes with
      | None => None
      | Some (txs', notes') => put_wtxs h nfm locs ws' txs' notes'
      end
  end.

(** [insert_nullifier_map]: locator rows conflicting with (h, i, txid) *)
Definition loc_conflicts (h i t : N) (l : list loc) : list loc :=
  filter (fun x => let '(h', i', t') := x in (N.eqb h' h && N.eqb i' i) || N.eqb t' t) l.

Definition loc_eqb (a b : loc) : bool :=
  let '(h, i, t) := a in let '(h', i', t') := b in N.eqb h h' && N.eqb i i' && N.eqb t t'.

Definition put_loc (h i t : N) (l : list loc) : option (list loc) :=
  match loc_conflicts h i t l with
  | [] => Some (l ++ [(h, i, t)])
  | [x] => if loc_eqb x (h, i, t) then Some l else None
  | _ => None
  end.

Fixpoint put_nf (k : key) (v : N * N) (l : list (key * (N * N))) : list (key * (N * N)) :=
  match l with
  | [] => [(k, v)]
  | (k', v') :: l' => if key_eqb k' k then (k, v) :: l' else (k', v') :: put_nf k v l'
  end.

Fixpoint put_nfs (ks : list key) (v : N * N) (l : list (key * (N * N))) : list (key * (N * N)) :=
  match ks with
  | [] => l
  | k :: ks' => put_nfs ks' v (put_nf k v l)
  end.

(** [track_block_*_nullifiers] for all pools of one block *)
Fixpoint track (h : N) (us : list (N * N * list key)) (locs : list loc) (nfm : list (key * (N * N)))
  : option (list loc * list (key * (N * N))) :=
  match us with
  | [] => Some (locs, nfm)
  | (i, t, ks) :: us' =>
      match put_loc h i t locs with
      | None => None
      | Some locs' => track h us' locs' (put_nfs ks (h, i) nfm)
      end
  end.

Record rows := mkRows {
  r_blocks : list (N * N); r_txs : list txrow; r_notes : list note;
  r_locs : list loc; r_nfmap : list (key * (N * N))
}.

Definition put_sblock (floor : option N) (sb : sblock) (r : rows) : outcome rows err :=
  match put_block (sb_height sb) (sb_hash sb) (r_blocks r) with
  | None => Err EBlockConflict
  | Some bl =>
      match put_wtxs (sb_height sb) (r_nfmap r) (r_locs r) (sb_wtxs sb) (r_txs r) (r_notes r) with
      | None => Err ECorrupted
      | Some (txs, notes) =>
          if should_track floor (sb_height sb) then
            match track (sb_height sb) (sb_unl sb) (r_locs r) (r_nfmap r) with
            | None => Err EConstraint
            | Some (locs, nfm) => Ok (mkRows bl txs notes locs nfm)
            end
          else Ok (mkRows bl txs notes (r_locs r) (r_nfmap r))
      end
  end.

Fixpoint put_sblocks (floor : option N) (sbs : list sblock) (r : rows) : outcome rows err :=
  match sbs with
  | [] => Ok r
  | sb :: sbs' =>
      match put_sblock floor sb r with
      | Ok r' => put_sblocks floor sbs' r'
      | Err e => Err e
      | Panic => Panic
      end
  end.

(** [prune_nullifier_map]: locators below the height go, and their nullifiers by cascade *)
Definition has_loc (locs : list loc) (v : N * N) : bool := is_some (find_loc (fst v) (snd v) locs).

Definition prune (p : N) (locs : list loc) (nfm : list (key * (N * N)))
  : list loc * list (key * (N * N)) :=
  let locs' := filter (fun x => let '(h, _, _) := x in negb (h <? p)) locs in
  (locs', filter (fun e => has_loc locs' (snd e)) nfm).

Definition last_height (bs : list block) (d : N) : N := b_height (last bs (mkBlock d 0 0 [])).

Definition max_opt (t : option N) (h : N) : option N :=
  match t with Some x => Some (N.max x h) | None => Some h end.

(** [scan_cached_blocks] from [from] (the first block of [bs] has that height; the caller's
    [from_state] is the chain state at [from - 1]). *)
Definition scan (birthday : N) (s : wstate) (bs : list block) : res :=
  match bs with
  | [] => Ok s
  | b0 :: _ =>
      let from_state := b_height b0 - 1 in
      let prior := match find_block from_state (w_blocks s) with
                   | Some x => Some (from_state, x) | None => None end in
      match scan_blocks prior (unspent_nfs s) bs with
      | Err e => Err e
      | Panic => Panic
      | Ok sbs =>
          let fs := fully_scanned birthday (w_blocks s) in
          let last := last_height bs 0 in
          let floor := tracking_floor fs from_state last in
          match put_sblocks floor sbs (mkRows (w_blocks s) (w_txs s) (w_notes s) (w_locs s) (w_nfmap s)) with
          | Err e => Err e
          | Panic => Panic
          | Ok r =>
              let '(locs, nfm) :=
                match fs with
                | Some f => prune (f - PRUNING_DEPTH) (r_locs r) (r_nfmap r)
                | None => (r_locs r, r_nfmap r)
                end in
              Ok (mkW (r_blocks r) (r_txs r) (r_notes r) locs nfm (max_opt (w_tip s) last))
          end
      end
  end.

(** * update_chain_tip (only its effect on the tip) *)

Definition max_scanned (bl : list (N * N)) : option N :=
  match bl with
  | [] => None
  | (h, _) :: r => Some (fold_left (fun m p => N.max m (fst p)) r h)
  end.

Definition update_tip (activation : N) (s : wstate) (h : N) : wstate :=
  if h <? activation then s else
  match max_scanned (w_blocks s) with
  | Some m => if h <? m then s
              else mkW (w_blocks s) (w_txs s) (w_notes s) (w_locs s) (w_nfmap s) (max_opt (w_tip s) h)
  | None => mkW (w_blocks s) (w_txs s) (w_notes s) (w_locs s) (w_nfmap s) (max_opt (w_tip s) h)
  end.

(** * truncate_to_height_internal at the height [h] the tree logic settled on *)

Definition unmine (h : N) (r : txrow) : txrow :=
  match x_mined r with
  | Some m => if h <? m then mkTxRow (x_id r) None (x_expiry r) (x_minobs r) else r
  | None => r
  end.

Definition truncate (s : wstate) (h : N) : wstate :=
  let txs := map (unmine h) (w_txs s) in
  match max_scanned (w_blocks s) with
  | Some m =>
      if h <? m then
        let locs := filter (fun x => let '(h', _, _) := x in h' <=? h) (w_locs s) in
        mkW (filter (fun p => fst p <=? h) (w_blocks s)) txs (w_notes s) locs
            (filter (fun e => has_loc locs (snd e)) (w_nfmap s)) (Some h)
      else mkW (w_blocks s) txs (w_notes s) (w_locs s) (w_nfmap s) (Some h)
  | None => mkW (w_blocks s) txs (w_notes s) (w_locs s) (w_nfmap s) (Some h)
  end.

(** * get_wallet_summary: per account and pool (total, uneconomic) *)

(** [tx_unexpired_condition] with [:target_height = target] *)
Definition row_unexpired (target : N) (r : txrow) : bool :=
  match x_mined r with Some m => m <? target | None => false end
  || match x_expiry r with
     | Some e => N.eqb e 0 || (target <=? e)
     | None => target <=? x_minobs r + DEFAULT_TX_EXPIRY_DELTA
     end.

Definition tx_unexpired (target : N) (txs : list txrow) (id : N) : bool :=
  match find_row id txs with Some r => row_unexpired target r | None => false end.

(** the note is selected by the summary query: receiving transaction unexpired and the note
    not in [spent_notes_clause] *)
Definition note_counts (target : N) (txs : list txrow) (n : note) : bool :=
  tx_unexpired target txs (n_recv n) && negb (existsb (tx_unexpired target txs) (n_spent n)).

Definition sumN (l : list N) : N := fold_right N.add 0 l.

Definition bal_notes (s : wstate) (target acct pool : N) : list note :=
  filter (fun n => N.eqb (n_acct n) acct && N.eqb (fst (n_key n)) pool && note_counts target (w_txs s) n)
         (w_notes s).

Definition bal_total (s : wstate) (target acct pool : N) : N :=
  sumN (map n_value (filter (fun n => MARGINAL_FEE <? n_value n) (bal_notes s target acct pool))).
Definition bal_uneconomic (s : wstate) (target acct pool : N) : N :=
  sumN (map n_value (filter (fun n => n_value n <=? MARGINAL_FEE) (bal_notes s target acct pool))).

(** * Operations *)

Inductive op :=
| OScan (bs : list block)
| OTip (h : N)
| OTrunc (h : N).     (* h = the height the rewind reached (chosen by the tree logic) *)

Definition step (birthday : N) (s : wstate) (o : op) : res :=
  match o with
  | OScan bs => scan birthday s bs
  | OTip h => Ok (update_tip birthday s h)
  | OTrunc h => Ok (truncate s h)
  end.

Fixpoint run (birthday : N) (s : wstate) (ops : list op) : res :=
  match ops with
  | [] => Ok s
  | o :: ops' =>
      match step birthday s o with
      | Ok s' => run birthday s' ops'
      | Err e => Err e
      | Panic => Panic
      end
  end.
