(** C01 — consequences of the invariant [WComplete.inv] (universe with position-dependent
    nullifiers): the ledger the wallet reports is the one the
    chain and the set of scanned heights determine. *)
From Coq Require Import Permutation.
From V.Lib Require Import Base.
From V.Gen Require Import C01Consts.
From V.C01 Require Import Model Spec Proofs Tables Chain WProofs WTables WComplete.
Local Open Scope N_scope.

(** * Subsequences (to transport NoDup from the whole chain to its scanned part) *)

Inductive sub {A} : list A -> list A -> Prop :=
| sub_nil : sub [] []
| sub_cons a l l' : sub l l' -> sub (a :: l) (a :: l')
| sub_skip a l l' : sub l l' -> sub l (a :: l').

Lemma sub_refl {A} (l : list A) : sub l l.
Proof. induction l; constructor; assumption. Qed.

Lemma sub_nil_l {A} (l : list A) : sub [] l.
Proof. induction l; constructor; assumption. Qed.

Lemma sub_In {A} (l l' : list A) x : sub l l' -> In x l -> In x l'.
Proof. induction 1; cbn; intuition. Qed.

Lemma sub_NoDup {A} (l l' : list A) : sub l l' -> NoDup l' -> NoDup l.
Proof.
  induction 1; intros Hnd; [constructor | |].
  - inversion Hnd; subst. constructor; [|auto]. intros Hin. apply H2. eapply sub_In; eauto.
  - inversion Hnd; subst. auto.
Qed.

Lemma sub_app {A} (l1 l1' l2 l2' : list A) : sub l1 l1' -> sub l2 l2' -> sub (l1 ++ l2) (l1' ++ l2').
Proof. induction 1; intros H2; cbn; [assumption | constructor; auto | constructor; auto]. Qed.

Lemma sub_filter {A} (p : A -> bool) (l : list A) : sub (filter p l) l.
Proof. induction l as [|a l IH]; cbn; [constructor|]. destruct (p a); constructor; assumption. Qed.

Lemma sub_map {A B} (f : A -> B) (l l' : list A) : sub l l' -> sub (map f l) (map f l').
Proof. induction 1; cbn; constructor; assumption. Qed.

Lemma sub_flat_map {A B} (f g : A -> list B) (l l' : list A) :
  (forall a, sub (g a) (f a)) -> sub l l' -> sub (flat_map g l) (flat_map f l').
Proof.
  intros Hfg. induction 1; cbn [flat_map].
  - constructor.
  - apply sub_app; auto.
  - change (flat_map g l) with ([] ++ flat_map g l). apply sub_app; [apply sub_nil_l | assumption].
Qed.

Lemma sub_trans {A} (l1 l2 l3 : list A) : sub l1 l2 -> sub l2 l3 -> sub l1 l3.
Proof.
  intros H12 H23. revert l1 H12. induction H23; intros l1 H12.
  - assumption.
  - inversion H12; subst; constructor; auto.
  - constructor; auto.
Qed.

(** * sums *)

Lemma sumN_perm l l' : Permutation l l' -> sumN l = sumN l'.
Proof.
  induction 1.
  - reflexivity.
  - unfold sumN in *. cbn [fold_right]. rewrite IHPermutation. reflexivity.
  - unfold sumN. cbn [fold_right]. lia.
  - congruence.
Qed.

Lemma NoDup_of_fst {A B} (l : list (A * B)) : NoDup (map fst l) -> NoDup l.
Proof. apply NoDup_map_inv. Qed.

Lemma map_flat_map {A B C} (f : B -> C) (g : A -> list B) l : map f (flat_map g l) = flat_map (fun a => map f (g a)) l.
Proof. induction l as [|a l IH]; cbn [flat_map map]; [reflexivity|]. rewrite map_app, IH. reflexivity. Qed.

Lemma flat_map_flat_map {A B C} (f : A -> list B) (g : B -> list C) l :
  flat_map g (flat_map f l) = flat_map (fun a => flat_map g (f a)) l.
Proof. induction l as [|a l IH]; cbn [flat_map]; [reflexivity|]. rewrite flat_map_app, IH. reflexivity. Qed.

Section Ledger.
Variable birthday : N.
Variable c : list block.
Hypothesis Hv : valid_chain birthday c.
Variable U : list block.
Hypothesis HcU : incl c U.
Hypothesis HU : weak_universe U.
Hypothesis HownV : own_versions c U.

Local Notation scanned_blocks := (Spec.scanned_blocks c).

Lemma in_scanned s b : In b (scanned_blocks s) <-> In b c /\ Qof (w_blocks s) (b_height b).
Proof. unfold Spec.scanned_blocks, Qof. rewrite filter_In. tauto. Qed.

Definition ekey (e : out * N * N) : key := o_key (fst (fst e)).

Lemma in_owned_outs S o txid h :
  In (o, txid, h) (owned_outs S) <->
  exists b t, In b S /\ In t (b_txs b) /\ In o (t_outs t) /\ owned o = true /\ txid = t_id t /\ h = b_height b.
Proof.
  unfold owned_outs, block_owned, tx_owned. rewrite in_flat_map. split.
  - intros [b [Hb Hin]]. apply in_flat_map in Hin. destruct Hin as [t [Ht Hin]]. apply in_map_iff in Hin.
    destruct Hin as [o' [E Ho']]. inversion E; subst. apply filter_In in Ho'. exists b, t. tauto.
  - intros [b [t [Hb [Ht [Ho [Hoo [-> ->]]]]]]]. exists b. split; [assumption|]. apply in_flat_map. exists t. split; [assumption|].
    apply in_map_iff. exists o. split; [reflexivity | apply filter_In; auto].
Qed.

Lemma spenders_nil S k : spenders S k = [] <-> forall b t, In b S -> In t (b_txs b) -> ~ In k (t_spends t).
Proof.
  unfold spenders, block_spenders. split.
  - intros H b t Hb Ht Hk.
    assert (Hin : In (t_id t, b_height b) (flat_map (fun b0 => map (fun t0 => (t_id t0, b_height b0)) (filter (fun t0 => mem_key k (t_spends t0)) (b_txs b0))) S)).
    { apply in_flat_map. exists b. split; [assumption|]. apply in_map_iff. exists t. split; [reflexivity|]. apply filter_In. split; [assumption | apply mem_key_In; assumption]. }
    rewrite H in Hin. destruct Hin.
  - intros H. destruct (flat_map _ S) as [|x l] eqn:E; [reflexivity|]. exfalso.
    assert (Hin : In x (flat_map (fun b0 => map (fun t0 => (t_id t0, b_height b0)) (filter (fun t0 => mem_key k (t_spends t0)) (b_txs b0))) S))
      by (rewrite E; left; reflexivity).
    apply in_flat_map in Hin. destruct Hin as [b [Hb Hin]]. apply in_map_iff in Hin. destruct Hin as [t [_ Ht]].
    apply filter_In in Ht. destruct Ht as [Ht Hm]. apply mem_key_In in Hm. eapply H; eauto.
Qed.

Lemma owned_keys_nodup s : NoDup (map ekey (owned_outs (scanned_blocks s))).
Proof.
  apply (sub_NoDup _ (map o_key (all_outs c))); [|apply (vc_outs _ _ Hv)].
  unfold owned_outs, all_outs, all_txs, block_owned, tx_owned, Spec.scanned_blocks.
  rewrite map_flat_map, flat_map_flat_map, map_flat_map.
  apply sub_flat_map; [|apply sub_filter].
  intros b. rewrite !map_flat_map. apply sub_flat_map; [|apply sub_refl].
  intros t. rewrite map_map. unfold ekey. cbn [fst]. apply sub_map. apply sub_filter.
Qed.

(** un-mined rows that still count at [target] belong to transactions of scanned blocks of the
    current chain (they are then re-mined by the invariant whenever they matter) *)
Definition live_rows_scanned (s : wstate) (target : N) : Prop :=
  forall r, In r (w_txs s) -> x_mined r = None -> row_unexpired target r = true ->
    exists b t, In b c /\ In t (b_txs b) /\ t_id t = x_id r /\ Qof (w_blocks s) (b_height b).

Lemma orphans_dead_live s target : orphans_dead s target -> live_rows_scanned s target.
Proof. intros Hd r Hr Hn Hu. rewrite (Hd r Hr Hn) in Hu. discriminate. Qed.

(** ** The reported balance is the ledger of the scanned blocks *)

Section Balance.
Variable s : wstate.
Hypothesis Hinv : inv c U s.
Variable tp : N.
Hypothesis Htip : w_tip s = Some tp.
Let target := tp + 1.
Let Q := Qof (w_blocks s).
Hypothesis Hlive : live_rows_scanned s target.

Lemma mined_unexpired id : row_mined (w_txs s) id = true -> tx_unexpired target (w_txs s) id = true.
Proof.
  unfold row_mined, tx_unexpired. destruct (find_row id (w_txs s)) as [r|] eqn:E; [|discriminate].
  intros Hm. apply find_row_In in E. destruct E as [Hr _].
  pose proof (iv_rows _ _ _ Hinv) as Hrows. rewrite Forall_forall in Hrows.
  destruct (Hrows _ Hr) as [_ [_ H6]].
  destruct H6 as [E | [b [t [_ [_ [_ [E HQ]]]]]]]; [rewrite E in Hm; discriminate|].
  destruct (iv_tip _ _ _ Hinv _ HQ) as [tp' [Et Hle]]. rewrite Htip in Et. inversion Et; subst tp'.
  unfold row_unexpired. rewrite E. apply orb_true_iff. left. apply N.ltb_lt. unfold target. lia.
Qed.

(** a transaction that still counts is in a scanned block of the current chain *)
Lemma unexpired_scanned id : tx_unexpired target (w_txs s) id = true ->
  exists b t, In b c /\ In t (b_txs b) /\ t_id t = id /\ Q (b_height b).
Proof.
  unfold tx_unexpired. destruct (find_row id (w_txs s)) as [r|] eqn:E; [|discriminate].
  intros Hu. apply find_row_In in E. destruct E as [Hr Hid].
  pose proof (iv_rows _ _ _ Hinv) as Hrows. rewrite Forall_forall in Hrows.
  destruct (Hrows _ Hr) as [_ [_ H6]].
  destruct H6 as [E | [b [t [Hb [Ht [Hidt [_ HQ]]]]]]].
  - destruct (Hlive r Hr E Hu) as [b [t [Hb [Ht [Hidt HQ]]]]]. exists b, t. repeat split; try assumption. congruence.
  - exists b, t. repeat split; try assumption. congruence.
Qed.

Lemma keys_nodup : NoDup (map n_key (w_notes s)).
Proof. destruct (iv_sound _ _ _ Hinv) as [_ S2 S3 _ _]. apply (sound_nodup_keys U HU); assumption. Qed.

Lemma note_of_output b t o a :
  In b c -> In t (b_txs b) -> In o (t_outs t) -> o_owner o = Some a -> Q (b_height b) ->
  exists n, find_id (out_id t o) (w_notes s) = Some n /\ In n (w_notes s) /\ n_key n = o_key o
            /\ n_acct n = a /\ n_value n = o_value o /\ n_recv n = t_id t /\ n_idx n = o_idx o.
Proof.
  intros Hb Ht Ho Hown HQ. assert (Hoo : owned o = true) by (unfold owned; rewrite Hown; reflexivity).
  pose proof (iv_has _ _ _ Hinv b t o Hb Ht HQ Ho Hoo) as Hkey. unfold key_id in Hkey.
  destruct (find_id (out_id t o) (w_notes s)) as [n|] eqn:Hn; [|discriminate]. cbn in Hkey. injection Hkey as Hk.
  destruct (find_id_In _ _ _ Hn) as [Hin Hnid]. exists n. split; [reflexivity|]. split; [assumption|]. split; [assumption|].
  destruct (iv_sound _ _ _ Hinv) as [_ S2 _ _ _]. rewrite Forall_forall in S2.
  destruct (S2 _ Hin) as [[b1 [t1 [o1 [Hb1 [Ht1 [Ho1 [Eo [Ek [Ev [Er Ei]]]]]]]]]] _].
  assert (Eid : out_id t1 o1 = out_id t o) by (apply (wu_out _ HU b1 t1 o1 b t o); auto; congruence).
  pose proof (versions_nonf U HU b1 t1 o1 b t o Hb1 Ht1 Ho1 (HcU _ Hb) Ht Ho Eid) as En.
  unfold out_nonf in En. inversion En as [[E1 E2 E3 E4]]. unfold out_id in Eid. inversion Eid as [[E6 E5 E7]].
  repeat split; congruence.
Qed.

Definition led_filter (a p : N) (e : out * N * N) : bool :=
  let o := fst (fst e) in
  match o_owner o with Some a' => N.eqb a' a | None => false end
  && N.eqb (o_pool o) p
  && match spenders (scanned_blocks s) (o_key o) with [] => true | _ => false end.

Lemma balance_perm a p :
  Permutation (map (fun n => (n_key n, n_value n)) (bal_notes s target a p))
              (map (fun e : out * N * N => (ekey e, o_value (fst (fst e)))) (filter (led_filter a p) (owned_outs (scanned_blocks s)))).
Proof.
  pose proof (iv_sound _ _ _ Hinv) as [_ S2 S3 _ _]. pose proof keys_nodup as S3k.
  apply NoDup_Permutation.
  - apply NoDup_of_fst. rewrite map_map. cbn [fst]. unfold bal_notes. apply filter_map_NoDup. assumption.
  - apply NoDup_of_fst. rewrite map_map. cbn [fst]. apply filter_map_NoDup. apply owned_keys_nodup.
  - intros [k v]. rewrite !in_map_iff. split.
    + (* a note that counts is an unspent owned output of a scanned block *)
      intros [n [E Hn]]. inversion E; subst k v. clear E. unfold bal_notes in Hn. apply filter_In in Hn. destruct Hn as [Hn Hf].
      apply andb_true_iff in Hf. destruct Hf as [Hf Hcounts]. apply andb_true_iff in Hf. destruct Hf as [Ha Hp].
      apply N.eqb_eq in Ha, Hp. unfold note_counts in Hcounts. apply andb_true_iff in Hcounts. destruct Hcounts as [Hrecv Hnosp].
      rewrite Forall_forall in S2. destruct (S2 _ Hn) as [[bU [tU [oU [HbU [HtU [HoU [Eo [Ek [Ev [Er Ei]]]]]]]]]] Hsp].
      destruct (unexpired_scanned _ Hrecv) as [b [t [Hb [Ht [Hidt HQ]]]]].
      (* the chain's version of the output *)
      destruct (same_tx_out U HU bU tU oU b t HbU HtU HoU (HcU _ Hb) Ht) as [o [Ho En]]; [congruence|].
      unfold out_nonf in En. inversion En as [[E1 E2 E3 E4]].
      assert (Hoo : owned o = true) by (unfold owned; rewrite E1, Eo; reflexivity).
      assert (Eid : out_id t o = nid n) by (unfold out_id, nid; rewrite <- Ek; cbn [o_key fst]; congruence).
      pose proof (iv_has _ _ _ Hinv b t o Hb Ht HQ Ho Hoo) as Hkey. unfold key_id in Hkey.
      rewrite Eid, (In_find_id _ _ S3 Hn) in Hkey. cbn in Hkey. injection Hkey as Hk.
      exists (o, t_id t, b_height b). split; [unfold ekey; cbn [fst]; congruence|].
      apply filter_In. split.
      * apply in_owned_outs. exists b, t. repeat split; try assumption. apply in_scanned; auto.
      * unfold led_filter. cbn [fst]. rewrite E1, Eo, Ha, N.eqb_refl. cbn [andb].
        assert (Hpool : o_pool o = p) by (rewrite <- Hp, Hk; reflexivity). rewrite Hpool, N.eqb_refl. cbn [andb].
        destruct (spenders (scanned_blocks s) (o_key o)) as [|x l] eqn:Es; [reflexivity|]. exfalso.
        assert (Hne : ~ (forall b' t', In b' (scanned_blocks s) -> In t' (b_txs b') -> ~ In (o_key o) (t_spends t'))).
        { intros Hc. apply spenders_nil in Hc. rewrite Hc in Es. discriminate. }
        apply Hne. intros b' t' Hb' Ht' Hkk. apply in_scanned in Hb'. destruct Hb' as [Hb' HQ'].
        pose proof (iv_spent _ _ _ Hinv b t o b' t' Hb Ht HQ Ho Hoo Hb' Ht' HQ' Hkk) as Hin.
        pose proof (iv_spm _ _ _ Hinv b t o b' t' Hb Ht HQ Ho Hoo Hb' Ht' HQ' Hkk) as Hm.
        unfold spent_id in Hin. rewrite Eid, (In_find_id _ _ S3 Hn) in Hin.
        apply negb_true_iff in Hnosp. assert (existsb (tx_unexpired target (w_txs s)) (n_spent n) = true); [|congruence].
        apply existsb_exists. exists (t_id t'). split; [assumption | apply mined_unexpired; assumption].
    + (* and conversely *)
      intros [[[o txid] h] [E He]]. unfold ekey in E. cbn [fst] in E. inversion E; subst k v. clear E.
      apply filter_In in He. destruct He as [He Hf]. apply in_owned_outs in He.
      destruct He as [b [t [Hb [Ht [Ho [Hoo [-> ->]]]]]]]. apply in_scanned in Hb. destruct Hb as [Hb HQ].
      unfold led_filter in Hf. cbn [fst] in Hf. apply andb_true_iff in Hf. destruct Hf as [Hf Hns].
      apply andb_true_iff in Hf. destruct Hf as [Ha Hp]. destruct (o_owner o) as [a'|] eqn:Eo; [|discriminate].
      apply N.eqb_eq in Ha, Hp. subst a'.
      destruct (note_of_output b t o a Hb Ht Ho Eo HQ) as [n [Hfn [Hn [Ek [Ea [Ev [Er Ei]]]]]]].
      exists n. split; [congruence|]. unfold bal_notes. apply filter_In. split; [assumption|].
      rewrite Ea, N.eqb_refl, Ek. cbn [fst o_key]. rewrite Hp, N.eqb_refl. cbn [andb].
      unfold note_counts. apply andb_true_iff. split.
      * rewrite Er. apply mined_unexpired. exact (iv_recv _ _ _ Hinv b t o Hb Ht HQ Ho Hoo).
      * apply negb_true_iff. destruct (existsb (tx_unexpired target (w_txs s)) (n_spent n)) eqn:Ex; [|reflexivity]. exfalso.
        apply existsb_exists in Ex. destruct Ex as [x [Hx Hux]].
        destruct (unexpired_scanned _ Hux) as [b' [t' [Hb' [Ht' [Hid' HQ']]]]].
        (* [x] reveals some version's nullifier; being on the current chain, the chain's own *)
        assert (Hxs : In x (spent_id (out_id t o) (w_notes s))) by (unfold spent_id; rewrite Hfn; assumption).
        destruct (iv_sound _ _ _ Hinv) as [_ S2' _ _ _].
        destruct (spent_char_w U _ _ _ S2' Hxs) as [b2 [t2 [kV [Hb2 [Ht2 [Hid2 [[bV [tV [oV [HbV [HtV [HoV [EiV EkV]]]]]]] HkV]]]]]]].
        assert (Es : t_spends t' = t_spends t2) by (apply (same_tx_spends U HU b' t' b2 t2); auto; congruence).
        assert (Hown2 : o_key oV = o_key o) by (apply (HownV b' t' bV tV oV b t o); auto; rewrite Es, EkV; assumption).
        destruct (spenders (scanned_blocks s) (o_key o)) as [|y l] eqn:Es2; [|discriminate].
        pose proof (proj1 (spenders_nil _ _) Es2) as Es'. apply (Es' b' t'); auto; [apply in_scanned; auto|].
        rewrite Es, <- Hown2, EkV. assumption.
Qed.

Lemma balance_ledger_core a p :
  bal_total s target a p + bal_uneconomic s target a p = ledger (scanned_blocks s) a p.
Proof.
  rewrite balance_is_ledger_lemma.
  transitivity (sumN (map snd (map (fun n => (n_key n, n_value n)) (bal_notes s target a p)))).
  { rewrite map_map. reflexivity. }
  rewrite (sumN_perm _ _ (Permutation_map snd (balance_perm a p))).
  rewrite map_map. unfold ledger, led_filter. reflexivity.
Qed.

End Balance.

(** ** Two wallets holding the same blocks report the same ledger *)

Lemma scanned_blocks_ext s1 s2 :
  (forall m, Qof (w_blocks s1) m <-> Qof (w_blocks s2) m) -> scanned_blocks s1 = scanned_blocks s2.
Proof.
  intros H. unfold Spec.scanned_blocks. apply filter_ext. intros b. specialize (H (b_height b)). unfold Qof in H.
  destruct (has_block (w_blocks s1) (b_height b)); destruct (has_block (w_blocks s2) (b_height b)); intuition congruence.
Qed.

Lemma Permutation_filter {A} (f : A -> bool) l l' : Permutation l l' -> Permutation (filter f l) (filter f l').
Proof.
  induction 1; cbn [filter].
  - constructor.
  - destruct (f x); [constructor|]; assumption.
  - destruct (f x); destruct (f y); try apply Permutation_refl. apply perm_swap.
  - eapply Permutation_trans; eauto.
Qed.

Lemma bal_total_as_kv s target a p :
  bal_total s target a p
  = sumN (map snd (filter (fun kv : key * N => MARGINAL_FEE <? snd kv) (map (fun n => (n_key n, n_value n)) (bal_notes s target a p)))).
Proof.
  unfold bal_total. induction (bal_notes s target a p) as [|n l IH]; [reflexivity|].
  cbn [map filter snd]. destruct (MARGINAL_FEE <? n_value n); cbn [map snd]; unfold sumN in *; cbn [fold_right]; rewrite IH; reflexivity.
Qed.

Lemma bal_uneconomic_as_kv s target a p :
  bal_uneconomic s target a p
  = sumN (map snd (filter (fun kv : key * N => snd kv <=? MARGINAL_FEE) (map (fun n => (n_key n, n_value n)) (bal_notes s target a p)))).
Proof.
  unfold bal_uneconomic. induction (bal_notes s target a p) as [|n l IH]; [reflexivity|].
  cbn [map filter snd]. destruct (n_value n <=? MARGINAL_FEE); cbn [map snd]; unfold sumN in *; cbn [fold_right]; rewrite IH; reflexivity.
Qed.

Lemma same_blocks_same_balance s1 s2 tp a p :
  inv c U s1 -> inv c U s2 ->
  (forall m, Qof (w_blocks s1) m <-> Qof (w_blocks s2) m) ->
  w_tip s1 = Some tp -> w_tip s2 = Some tp ->
  live_rows_scanned s1 (tp + 1) -> live_rows_scanned s2 (tp + 1) ->
  bal_total s1 (tp + 1) a p = bal_total s2 (tp + 1) a p
  /\ bal_uneconomic s1 (tp + 1) a p = bal_uneconomic s2 (tp + 1) a p.
Proof.
  intros I1 I2 HQ T1 T2 O1 O2.
  pose proof (balance_perm s1 I1 tp T1 O1 a p) as P1. pose proof (balance_perm s2 I2 tp T2 O2 a p) as P2.
  assert (E : forall x, led_filter s1 a p x = led_filter s2 a p x).
  { intros x. unfold led_filter. rewrite (scanned_blocks_ext s1 s2 HQ). reflexivity. }
  rewrite (scanned_blocks_ext s1 s2 HQ) in P1. rewrite (filter_ext _ _ E) in P1.
  assert (P : Permutation (map (fun n => (n_key n, n_value n)) (bal_notes s1 (tp + 1) a p))
                          (map (fun n => (n_key n, n_value n)) (bal_notes s2 (tp + 1) a p))).
  { eapply Permutation_trans; [exact P1 | apply Permutation_sym; exact P2]. }
  rewrite !bal_total_as_kv, !bal_uneconomic_as_kv. split; apply sumN_perm, Permutation_map, Permutation_filter; exact P.
Qed.

(** ** ... and the same notes and spent status *)

Local Notation same_notes := (Spec.same_notes c).

Lemma spent_iff_reveals s b t o n b' t' :
  inv c U s -> In b c -> In t (b_txs b) -> In o (t_outs t) -> owned o = true -> Qof (w_blocks s) (b_height b) ->
  find_id (out_id t o) (w_notes s) = Some n ->
  In b' c -> In t' (b_txs b') -> Qof (w_blocks s) (b_height b') ->
  (In (t_id t') (n_spent n) <-> In (o_key o) (t_spends t')).
Proof.
  intros I Hb Ht Ho Hoo HQ Hn Hb' Ht' HQ'. split.
  - intros Hin.
    assert (Hxs : In (t_id t') (spent_id (out_id t o) (w_notes s))) by (unfold spent_id; rewrite Hn; assumption).
    destruct (iv_sound _ _ _ I) as [_ S2 _ _ _].
    destruct (spent_char_w U _ _ _ S2 Hxs) as [b2 [t2 [kV [Hb2 [Ht2 [Hid2 [[bV [tV [oV [HbV [HtV [HoV [EiV EkV]]]]]]] HkV]]]]]]].
    assert (Es : t_spends t' = t_spends t2) by (apply (same_tx_spends U HU b' t' b2 t2); auto).
    assert (Hown2 : o_key oV = o_key o) by (apply (HownV b' t' bV tV oV b t o); auto; rewrite Es, EkV; assumption).
    rewrite Es, <- Hown2, EkV. assumption.
  - intros Hk. pose proof (iv_spent _ _ _ I b t o b' t' Hb Ht HQ Ho Hoo Hb' Ht' HQ' Hk) as Hin.
    unfold spent_id in Hin. rewrite Hn in Hin. assumption.
Qed.

Lemma same_blocks_same_notes s1 s2 :
  inv c U s1 -> inv c U s2 -> (forall m, Qof (w_blocks s1) m <-> Qof (w_blocks s2) m) -> same_notes s1 s2.
Proof.
  intros I1 I2 HQ b t o Hb Ht Ho Hoo HQ1.
  assert (HQ2 : Qof (w_blocks s2) (b_height b)) by (apply HQ; assumption).
  destruct (o_owner o) as [a|] eqn:Eo; [|unfold owned in Hoo; rewrite Eo in Hoo; discriminate].
  destruct (note_of_output s1 I1 b t o a Hb Ht Ho Eo HQ1) as [n1 [F1 [N1 [K1 [A1 [V1 [R1 _]]]]]]].
  destruct (note_of_output s2 I2 b t o a Hb Ht Ho Eo HQ2) as [n2 [F2 [N2 [K2 [A2 [V2 [R2 _]]]]]]].
  exists n1, n2. repeat split; try assumption; try congruence.
  - intros Hin. apply (spent_iff_reveals s2 b t o n2 b' t' I2); auto; [apply HQ; assumption|].
    apply (spent_iff_reveals s1 b t o n1 b' t' I1); auto.
  - intros Hin. apply (spent_iff_reveals s1 b t o n1 b' t' I1); auto.
    apply (spent_iff_reveals s2 b t o n2 b' t' I2); auto. apply HQ; assumption.
Qed.

End Ledger.

(** * The strict universe is a special case *)

Lemma strict_weak U : valid_universe U -> weak_universe U.
Proof.
  intros HU. constructor.
  - intros b t b' t' Hb Ht Hb' Ht' E. rewrite (vu_tx _ HU b t b' t' Hb Ht Hb' Ht' E). auto.
  - intros b t o b' t' o' Hb Ht Ho Hb' Ht' Ho' E. destruct (vu_out _ HU b t o b' t' o' Hb Ht Ho Hb' Ht' Ho' E) as [-> ->]. reflexivity.
  - apply (vu_idx _ HU).
Qed.

Lemma strict_own c U : valid_universe U -> incl c U -> own_versions c U.
Proof.
  intros HU Hin b1 t1 bV tV oV b0 t0 o Hb1 Ht1 HbV HtV HoV Hk Hb0 Ht0 Ho E.
  unfold out_id in E. inversion E as [[Ep Et Ei]].
  assert (tV = t0) by (apply (vu_tx _ HU bV tV b0 t0); auto). subst tV.
  assert (oV = o) by (apply (vu_idx _ HU b0 t0 oV o); auto). subst. reflexivity.
Qed.

Lemma chain_weak birthday c : valid_chain birthday c -> weak_universe c.
Proof. intros Hv. apply strict_weak. apply (valid_chain_universe birthday c Hv). Qed.

Lemma chain_own birthday c : valid_chain birthday c -> own_versions c c.
Proof. intros Hv. apply strict_own; [apply (valid_chain_universe birthday c Hv) | apply incl_refl]. Qed.

(** * Statements about reachable states *)

(** single chain: the universe is the chain itself *)
Lemma reach_inv birthday c ops s :
  valid_chain birthday c -> ops_on c ops -> run birthday init ops = Ok s -> inv c c s.
Proof.
  intros Hv Hops Hrun.
  exact (run_inv birthday c Hv c (incl_refl c) (chain_weak birthday c Hv) (chain_own birthday c Hv) ops init s Hops Hrun (init_inv c c)).
Qed.

Lemma spends_complete_lemma :
  forall birthday c ops s, valid_chain birthday c -> ops_on c ops -> run birthday init ops = Ok s ->
  forall b t o b' t',
    In b c -> In t (b_txs b) -> In o (t_outs t) -> owned o = true -> has_block (w_blocks s) (b_height b) = true ->
    In b' c -> In t' (b_txs b') -> In (o_key o) (t_spends t') -> has_block (w_blocks s) (b_height b') = true ->
    exists n, In n (w_notes s) /\ n_key n = o_key o /\ In (t_id t') (n_spent n) /\ row_mined (w_txs s) (t_id t') = true.
Proof.
  intros birthday c ops s Hv Hops Hrun b t o b' t' Hb Ht Ho Hoo HQ Hb' Ht' Hk HQ'.
  pose proof (reach_inv _ _ _ _ Hv Hops Hrun) as I.
  pose proof (iv_has _ _ _ I b t o Hb Ht HQ Ho Hoo) as Hkey. unfold key_id in Hkey.
  destruct (find_id (out_id t o) (w_notes s)) as [n|] eqn:Hn; [|discriminate]. cbn in Hkey. injection Hkey as Hkeyn.
  destruct (find_id_In _ _ _ Hn) as [Hin _]. exists n. split; [assumption|]. split; [assumption|]. split.
  - pose proof (iv_spent _ _ _ I b t o b' t' Hb Ht HQ Ho Hoo Hb' Ht' HQ' Hk) as H. unfold spent_id in H. rewrite Hn in H. assumption.
  - exact (iv_spm _ _ _ I b t o b' t' Hb Ht HQ Ho Hoo Hb' Ht' HQ' Hk).
Qed.

Lemma nfmap_complete_lemma :
  forall birthday c ops s, valid_chain birthday c -> ops_on c ops -> run birthday init ops = Ok s ->
  forall b t i o b0 t0,
    In b c -> has_block (w_blocks s) (b_height b) = true -> nth_error (b_txs b) i = Some t -> In (o_key o) (t_spends t) ->
    In b0 c -> In t0 (b_txs b0) -> In o (t_outs t0) -> owned o = true -> has_block (w_blocks s) (b_height b0) <> true ->
    find_nf (o_key o) (w_nfmap s) = Some (b_height b, N.of_nat i)
    /\ find_loc (b_height b) (N.of_nat i) (w_locs s) = Some (t_id t).
Proof.
  intros birthday c ops s Hv Hops Hrun. exact (iv_M _ _ _ (reach_inv _ _ _ _ Hv Hops Hrun)).
Qed.

Lemma settled_live birthday c s tp : valid_chain birthday c -> inv c c s -> settled c s tp ->
  live_rows_scanned c s (tp + 1).
Proof.
  intros Hv I [Hd | Ha]; [apply orphans_dead_live; assumption|].
  intros r Hr Hnone _. pose proof (iv_rows _ _ _ I) as Hrows. rewrite Forall_forall in Hrows.
  destruct (Hrows _ Hr) as [_ [[b [t [Hb [Ht Hid]]]] _]]. exists b, t. repeat split; try assumption. apply Ha. assumption.
Qed.

Lemma balance_is_ledger_lemma2 :
  forall birthday c ops s tp, valid_chain birthday c -> ops_on c ops -> run birthday init ops = Ok s ->
  w_tip s = Some tp ->
  orphans_dead s (tp + 1) \/ all_scanned c s ->
  forall a p, bal_total s (tp + 1) a p + bal_uneconomic s (tp + 1) a p = ledger (scanned_blocks c s) a p.
Proof.
  intros birthday c ops s tp Hv Hops Hrun Htip Hor a p.
  pose proof (reach_inv _ _ _ _ Hv Hops Hrun) as I.
  apply (balance_ledger_core birthday c Hv c (incl_refl c) (chain_weak birthday c Hv) (chain_own birthday c Hv) s I tp Htip).
  apply (settled_live birthday c s tp Hv I Hor).
Qed.

(** without rewinds every transaction row is mined *)
Lemma no_trunc_all_mined birthday : forall ops s s',
  (forall h, ~ In (OTrunc h) ops) -> run birthday s ops = Ok s' ->
  (forall r, In r (w_txs s) -> x_mined r <> None) -> forall r, In r (w_txs s') -> x_mined r <> None.
Proof.
  induction ops as [|o ops IH]; intros s s' Hnt H Hm; cbn [run] in H.
  - inversion H; subst. assumption.
  - destruct (step birthday s o) as [s1| |] eqn:E; try discriminate.
    apply (IH s1 s'); [intros h Hh; apply (Hnt h); right; assumption | assumption|].
    destruct o as [bs|h|h]; cbn [step] in E.
    + destruct (scan_effect _ _ _ _ E) as [_ [Hfrom _]]. intros r Hr. destruct (Hfrom r Hr); auto.
    + inversion E; subst. unfold update_tip. destruct (h <? birthday); [assumption|].
      destruct (max_scanned (w_blocks s)) as [m|]; [destruct (h <? m)|]; assumption.
    + exfalso. apply (Hnt h). left. reflexivity.
Qed.

Lemma balance_is_ledger_no_rewind :
  forall birthday c ops s tp, valid_chain birthday c -> ops_on c ops -> (forall h, ~ In (OTrunc h) ops) ->
  run birthday init ops = Ok s -> w_tip s = Some tp ->
  forall a p, bal_total s (tp + 1) a p + bal_uneconomic s (tp + 1) a p = ledger (scanned_blocks c s) a p.
Proof.
  intros birthday c ops s tp Hv Hops Hnt Hrun Htip.
  apply (balance_is_ledger_lemma2 birthday c ops s tp Hv Hops Hrun Htip).
  left. intros r Hr Hnone. exfalso.
  assert (H0 : forall r0, In r0 (w_txs init) -> x_mined r0 <> None) by (intros r0 []).
  exact (no_trunc_all_mined birthday ops init s Hnt Hrun H0 r Hr Hnone).
Qed.

Lemma order_independence_lemma :
  forall birthday c ops1 ops2 s1 s2 tp,
    valid_chain birthday c -> ops_on c ops1 -> ops_on c ops2 ->
    run birthday init ops1 = Ok s1 -> run birthday init ops2 = Ok s2 ->
    (forall m, has_block (w_blocks s1) m = true <-> has_block (w_blocks s2) m = true) ->
    w_tip s1 = Some tp -> w_tip s2 = Some tp ->
    settled c s1 tp -> settled c s2 tp ->
    same_notes c s1 s2
    /\ forall a p, bal_total s1 (tp + 1) a p = bal_total s2 (tp + 1) a p
                   /\ bal_uneconomic s1 (tp + 1) a p = bal_uneconomic s2 (tp + 1) a p.
Proof.
  intros birthday c ops1 ops2 s1 s2 tp Hv H1 H2 R1 R2 HQ T1 T2 S1 S2.
  pose proof (reach_inv _ _ _ _ Hv H1 R1) as I1. pose proof (reach_inv _ _ _ _ Hv H2 R2) as I2.
  split.
  - apply (same_blocks_same_notes c c (incl_refl c) (chain_weak birthday c Hv) (chain_own birthday c Hv)); assumption.
  - intros a p. apply (same_blocks_same_balance birthday c Hv c (incl_refl c) (chain_weak birthday c Hv) (chain_own birthday c Hv)); auto; eapply settled_live; eauto.
Qed.

(** ** Fully scanned: the same tables as the linear scan *)

Lemma all_scanned_notes_incl birthday c s1 s2 :
  valid_chain birthday c -> inv c c s1 -> inv c c s2 -> all_scanned c s1 -> all_scanned c s2 -> notes_incl s1 s2.
Proof.
  intros Hv I1 I2 A1 A2 n1 Hn1.
  destruct (iv_sound _ _ _ I1) as [_ S2 S3 _ _]. rewrite Forall_forall in S2.
  destruct (S2 _ Hn1) as [[b [t [o [Hb [Ht [Ho [Eo [Ek [Ev [Er _]]]]]]]]]] Hsp].
  assert (Hoo : owned o = true) by (unfold owned; rewrite Eo; reflexivity).
  assert (HQ : forall m, Qof (w_blocks s1) m <-> Qof (w_blocks s2) m).
  { intros m. split; intros Hm.
    - destruct (iv_sound _ _ _ I1) as [B1 _ _ _ _]. rewrite Forall_forall in B1.
      apply has_block_In in Hm. destruct Hm as [x Hx]. destruct (B1 _ Hx) as [b0 [Hb0 [Hh _]]]. cbn [fst] in Hh. rewrite <- Hh. apply A2. assumption.
    - destruct (iv_sound _ _ _ I2) as [B1 _ _ _ _]. rewrite Forall_forall in B1.
      apply has_block_In in Hm. destruct Hm as [x Hx]. destruct (B1 _ Hx) as [b0 [Hb0 [Hh _]]]. cbn [fst] in Hh. rewrite <- Hh. apply A1. assumption. }
  destruct (same_blocks_same_notes c c (incl_refl c) (chain_weak birthday c Hv) (chain_own birthday c Hv) s1 s2 I1 I2 HQ b t o Hb Ht Ho Hoo (A1 b Hb))
    as [n1' [n2 [N1 [N2 [K1 [K2 [Ea [Ev' [Er' Hs]]]]]]]]].
  assert (n1' = n1).
  { assert (S3k : NoDup (map n_key (w_notes s1))).
    { destruct (iv_sound _ _ _ I1) as [_ S2f S3f _ _]. apply (sound_nodup_keys c (chain_weak birthday c Hv)); assumption. }
    pose proof (In_find_note _ _ S3k N1) as F1. pose proof (In_find_note _ _ S3k Hn1) as F2.
    rewrite K1, Ek, F2 in F1. inversion F1. reflexivity. }
  subst n1'. exists n2. repeat split; try congruence.
  - intros Hx. destruct (Hsp x Hx) as [b' [t' [kV [Hb' [Ht' [<- _]]]]]]. apply (Hs b' t' Hb' Ht' (A1 b' Hb')). assumption.
  - intros Hx. destruct (iv_sound _ _ _ I2) as [_ S2' _ _ _]. rewrite Forall_forall in S2'.
    destruct (S2' _ N2) as [_ Hsp2]. destruct (Hsp2 x Hx) as [b' [t' [kV [Hb' [Ht' [<- _]]]]]].
    apply (Hs b' t' Hb' Ht' (A1 b' Hb')). assumption.
Qed.

Lemma linear_scan_lemma :
  forall birthday c ops s sl,
    valid_chain birthday c -> ops_on c ops ->
    run birthday init ops = Ok s ->
    run birthday init [OScan c] = Ok sl ->
    all_scanned c s -> w_tip s = w_tip sl ->
    notes_incl s sl /\ notes_incl sl s
    /\ forall tp, w_tip s = Some tp -> forall a p,
         bal_total s (tp + 1) a p = bal_total sl (tp + 1) a p
         /\ bal_uneconomic s (tp + 1) a p = bal_uneconomic sl (tp + 1) a p.
Proof.
  intros birthday c ops s sl Hv Hops Hrun Hlin Hall Htip.
  assert (Hops' : ops_on c [OScan c]) by (intros bs [E | []]; inversion E; subst; apply incl_refl).
  pose proof (reach_inv _ _ _ _ Hv Hops Hrun) as I. pose proof (reach_inv _ _ _ _ Hv Hops' Hlin) as Il.
  assert (Hscan : scan birthday init c = Ok sl).
  { cbn [run step] in Hlin. destruct (scan birthday init c) as [s1| |]; inversion Hlin; reflexivity. }
  destruct (scan_effect _ _ _ _ Hscan) as [Hset _].
  assert (Hall' : all_scanned c sl) by (intros b Hb; apply Hset; right; apply in_map; assumption).
  split; [apply (all_scanned_notes_incl birthday c); assumption|].
  split; [apply (all_scanned_notes_incl birthday c); assumption|].
  intros tp Htp a p.
  assert (HQ : forall m, Qof (w_blocks s) m <-> Qof (w_blocks sl) m).
  { intros m. split; intros Hm.
    - destruct (iv_sound _ _ _ I) as [B1 _ _ _ _]. rewrite Forall_forall in B1.
      apply has_block_In in Hm. destruct Hm as [x Hx]. destruct (B1 _ Hx) as [b0 [Hb0 [Hh _]]]. cbn [fst] in Hh. rewrite <- Hh. apply Hall'. assumption.
    - apply Hset in Hm. destruct Hm as [Hm | Hm]; [discriminate|]. apply in_map_iff in Hm. destruct Hm as [b0 [<- Hb0]]. apply Hall. assumption. }
  apply (same_blocks_same_balance birthday c Hv c (incl_refl c) (chain_weak birthday c Hv) (chain_own birthday c Hv) s sl tp a p I Il HQ Htp);
    [congruence | |]; apply (settled_live birthday c _ tp Hv); auto; right; assumption.
Qed.

(** ** Re-scanning a range changes nothing *)

Lemma max_opt_idem t l : max_opt (max_opt t l) l = max_opt t l.
Proof. destruct t as [x|]; cbn; f_equal; lia. Qed.

Lemma scan_idempotent_lemma :
  forall birthday c ops s bs s1 s2,
    valid_chain birthday c -> ops_on c ops -> run birthday init ops = Ok s -> incl bs c ->
    scan birthday s bs = Ok s1 -> scan birthday s1 bs = Ok s2 ->
    (forall m, has_block (w_blocks s2) m = true <-> has_block (w_blocks s1) m = true)
    /\ w_tip s2 = w_tip s1
    /\ same_notes c s1 s2
    /\ forall tp, w_tip s1 = Some tp -> settled c s1 tp -> forall a p,
         bal_total s2 (tp + 1) a p = bal_total s1 (tp + 1) a p
         /\ bal_uneconomic s2 (tp + 1) a p = bal_uneconomic s1 (tp + 1) a p.
Proof.
  intros birthday c ops s bs s1 s2 Hv Hops Hrun Hin H1 H2.
  pose proof (reach_inv _ _ _ _ Hv Hops Hrun) as I.
  pose proof (scan_inv birthday c Hv c (incl_refl c) (chain_weak birthday c Hv) (chain_own birthday c Hv) s bs s1 Hin H1 I) as I1.
  pose proof (scan_inv birthday c Hv c (incl_refl c) (chain_weak birthday c Hv) (chain_own birthday c Hv) s1 bs s2 Hin H2 I1) as I2.
  destruct (scan_effect _ _ _ _ H1) as [Q1 [_ T1]]. destruct (scan_effect _ _ _ _ H2) as [Q2 [F2 T2]].
  assert (HQ : forall m, has_block (w_blocks s2) m = true <-> has_block (w_blocks s1) m = true).
  { intros m. rewrite Q2. split; [intros [? | Hm]; [assumption | apply Q1; right; assumption] | auto]. }
  assert (HT : w_tip s2 = w_tip s1).
  { rewrite T2. destruct bs; [reflexivity|]. rewrite T1. apply max_opt_idem. }
  split; [exact HQ|]. split; [exact HT|]. split.
  - apply (same_blocks_same_notes c c (incl_refl c) (chain_weak birthday c Hv) (chain_own birthday c Hv)); auto. intros m. symmetry. apply HQ.
  - intros tp Htp Hset a p.
    apply (same_blocks_same_balance birthday c Hv c (incl_refl c) (chain_weak birthday c Hv) (chain_own birthday c Hv) s2 s1 tp a p I2 I1 HQ); [congruence | assumption | |].
    + apply (settled_live birthday c s2 tp Hv I2). destruct Hset as [Hd | Ha].
      * left. intros r Hr Hnone. destruct (F2 r Hr) as [Hold | Hm]; [apply Hd; assumption | contradiction].
      * right. intros b Hb. apply HQ. apply Ha. assumption.
    + apply (settled_live birthday c s1 tp Hv I1 Hset).
Qed.

(** * Histories over several branches (rewind followed by a different continuation) *)

Lemma reach_facts U birthday c s :
  weak_universe U -> reach_w U birthday c s -> valid_chain birthday c /\ incl c U /\ own_versions c U /\ inv c U s.
Proof.
  intros HU H. induction H as [c Hv Hin Hown | c s o s' H IH Hop Hstep | c s c' h H IH Hle Hag Hv' Hin' Hown'].
  - split; [assumption|]. split; [assumption|]. split; [assumption | apply init_inv].
  - destruct IH as [Hv [Hin [Hown I]]]. split; [assumption|]. split; [assumption|]. split; [assumption|].
    destruct o as [bs | h | h]; cbn [step] in Hstep.
    + eapply (scan_inv birthday c Hv U Hin HU Hown); eauto.
    + inversion Hstep; subst. apply update_tip_inv. assumption.
    + inversion Hstep; subst. apply (truncate_inv birthday c Hv). assumption.
  - destruct IH as [Hv [Hin [Hown I]]]. split; [assumption|]. split; [assumption|]. split; [assumption|].
    eapply (switch_inv birthday U c c' s h); eauto.
Qed.

Lemma forks_spends_complete_lemma :
  forall U birthday c s, weak_universe U -> reach_w U birthday c s ->
  forall b t o b' t',
    In b c -> In t (b_txs b) -> In o (t_outs t) -> owned o = true -> has_block (w_blocks s) (b_height b) = true ->
    In b' c -> In t' (b_txs b') -> In (o_key o) (t_spends t') -> has_block (w_blocks s) (b_height b') = true ->
    exists n, In n (w_notes s) /\ n_key n = o_key o /\ In (t_id t') (n_spent n) /\ row_mined (w_txs s) (t_id t') = true.
Proof.
  intros U birthday c s HU Hr b t o b' t' Hb Ht Ho Hoo HQ Hb' Ht' Hk HQ'.
  destruct (reach_facts _ _ _ _ HU Hr) as [Hv [Hin [Hown I]]].
  pose proof (iv_has _ _ _ I b t o Hb Ht HQ Ho Hoo) as Hkey. unfold key_id in Hkey.
  destruct (find_id (out_id t o) (w_notes s)) as [n|] eqn:Hn; [|discriminate]. cbn in Hkey. injection Hkey as Hkeyn.
  destruct (find_id_In _ _ _ Hn) as [Hnin _]. exists n. split; [assumption|]. split; [assumption|]. split.
  - pose proof (iv_spent _ _ _ I b t o b' t' Hb Ht HQ Ho Hoo Hb' Ht' HQ' Hk) as H. unfold spent_id in H. rewrite Hn in H. assumption.
  - exact (iv_spm _ _ _ I b t o b' t' Hb Ht HQ Ho Hoo Hb' Ht' HQ' Hk).
Qed.

Lemma forks_sound_lemma :
  forall U birthday c s, weak_universe U -> reach_w U birthday c s ->
    (forall n, In n (w_notes s) ->
       (exists b t o, In b U /\ In t (b_txs b) /\ In o (t_outs t) /\ o_owner o = Some (n_acct n)
                      /\ o_key o = n_key n /\ o_value o = n_value n /\ t_id t = n_recv n /\ o_idx o = n_idx n)
       /\ (forall tid, In tid (n_spent n) ->
             exists b t k, In b U /\ In t (b_txs b) /\ t_id t = tid /\ version U (nid n) k /\ In k (t_spends t)))
    /\ NoDup (map nid (w_notes s))
    /\ NoDup (map n_key (w_notes s))
    /\ (forall h x, In (h, x) (w_blocks s) -> exists b, In b c /\ b_height b = h /\ b_hash b = x).
Proof.
  intros U birthday c s HU Hr. destruct (reach_facts _ _ _ _ HU Hr) as [Hv [Hin [Hown I]]].
  destruct (iv_sound _ _ _ I) as [S1 S2 S3 _ _].
  split; [rewrite Forall_forall in S2; exact S2|]. split; [exact S3|].
  split; [apply (sound_nodup_keys U HU); assumption|].
  rewrite Forall_forall in S1. intros h x Hx. exact (S1 _ Hx).
Qed.

Lemma forks_balance_lemma :
  forall U birthday c s tp, weak_universe U -> reach_w U birthday c s ->
  w_tip s = Some tp -> orphans_dead s (tp + 1) ->
  forall a p, bal_total s (tp + 1) a p + bal_uneconomic s (tp + 1) a p = ledger (scanned_blocks c s) a p.
Proof.
  intros U birthday c s tp HU Hr Htip Hd a p. destruct (reach_facts _ _ _ _ HU Hr) as [Hv [Hin [Hown I]]].
  apply (balance_ledger_core birthday c Hv U Hin HU Hown s I tp Htip). apply orphans_dead_live. assumption.
Qed.

Lemma forks_order_independence_lemma :
  forall U birthday c s1 s2 tp, weak_universe U ->
    reach_w U birthday c s1 -> reach_w U birthday c s2 ->
    (forall m, has_block (w_blocks s1) m = true <-> has_block (w_blocks s2) m = true) ->
    w_tip s1 = Some tp -> w_tip s2 = Some tp ->
    orphans_dead s1 (tp + 1) -> orphans_dead s2 (tp + 1) ->
    same_notes c s1 s2
    /\ forall a p, bal_total s1 (tp + 1) a p = bal_total s2 (tp + 1) a p
                   /\ bal_uneconomic s1 (tp + 1) a p = bal_uneconomic s2 (tp + 1) a p.
Proof.
  intros U birthday c s1 s2 tp HU R1 R2 HQ T1 T2 D1 D2.
  destruct (reach_facts _ _ _ _ HU R1) as [Hv [Hin [Hown I1]]]. destruct (reach_facts _ _ _ _ HU R2) as [_ [_ [_ I2]]].
  split.
  - apply (same_blocks_same_notes c U Hin HU Hown); assumption.
  - intros a p. apply (same_blocks_same_balance birthday c Hv U Hin HU Hown); auto; apply orphans_dead_live; assumption.
Qed.

Lemma forks_linear_scan_lemma :
  forall U birthday c s sl tp, weak_universe U ->
    reach_w U birthday c s ->
    run birthday init [OScan c] = Ok sl ->
    all_scanned c s -> w_tip s = Some tp -> w_tip sl = Some tp -> orphans_dead s (tp + 1) ->
    same_notes c s sl /\ same_notes c sl s
    /\ forall a p, bal_total s (tp + 1) a p = bal_total sl (tp + 1) a p
                   /\ bal_uneconomic s (tp + 1) a p = bal_uneconomic sl (tp + 1) a p.
Proof.
  intros U birthday c s sl tp HU Hr Hlin Hall Htip Htipl Hd.
  destruct (reach_facts _ _ _ _ HU Hr) as [Hv [Hin [Hown I]]].
  assert (Hscan : scan birthday init c = Ok sl).
  { cbn [run step] in Hlin. destruct (scan birthday init c) as [s1| |]; inversion Hlin; reflexivity. }
  assert (Hrl : reach_w U birthday c sl).
  { apply (reachw_op U birthday c init (OScan c) sl); [apply reachw_init; assumption | | exact Hscan].
    intros bs E. inversion E; subst. apply incl_refl. }
  destruct (reach_facts _ _ _ _ HU Hrl) as [_ [_ [_ Il]]].
  destruct (scan_effect _ _ _ _ Hscan) as [Hset [Hfrom _]].
  assert (HQ : forall m, Qof (w_blocks s) m <-> Qof (w_blocks sl) m).
  { intros m. split; intros Hm.
    - destruct (iv_sound _ _ _ I) as [B1 _ _ _ _]. rewrite Forall_forall in B1.
      apply has_block_In in Hm. destruct Hm as [x Hx]. destruct (B1 _ Hx) as [b0 [Hb0 [Hh _]]]. cbn [fst] in Hh. rewrite <- Hh.
      apply Hset. right. apply in_map. assumption.
    - apply Hset in Hm. destruct Hm as [Hm | Hm]; [discriminate|]. apply in_map_iff in Hm. destruct Hm as [b0 [<- Hb0]]. apply Hall. assumption. }
  assert (Hdl : orphans_dead sl (tp + 1)).
  { intros r Hr0 Hnone. exfalso. destruct (Hfrom r Hr0) as [[] | Hm]. contradiction. }
  split; [apply (same_blocks_same_notes c U Hin HU Hown); assumption|].
  split; [apply (same_blocks_same_notes c U Hin HU Hown); auto; intros m; symmetry; apply HQ|].
  intros a p. apply (same_blocks_same_balance birthday c Hv U Hin HU Hown); auto; apply orphans_dead_live; assumption.
Qed.

(** * Single chain: soundness and receipt completeness as corollaries *)

Lemma ledger_sound_lemma :
  forall (birthday : N) (c : list block) (ops : list op) (s : wstate),
    valid_chain birthday c -> ops_on c ops -> run birthday init ops = Ok s ->
    (forall n, In n (w_notes s) ->
       (exists b t o, In b c /\ In t (b_txs b) /\ In o (t_outs t) /\ o_owner o = Some (n_acct n)
                      /\ o_key o = n_key n /\ o_value o = n_value n /\ t_id t = n_recv n /\ o_idx o = n_idx n)
       /\ (forall tid, In tid (n_spent n) ->
             exists b t, In b c /\ In t (b_txs b) /\ t_id t = tid /\ In (n_key n) (t_spends t)))
    /\ NoDup (map n_key (w_notes s))
    /\ (forall h x, In (h, x) (w_blocks s) -> exists b, In b c /\ b_height b = h /\ b_hash b = x).
Proof.
  intros birthday c ops s Hv Hops Hrun. pose proof (reach_inv _ _ _ _ Hv Hops Hrun) as I.
  destruct (iv_sound _ _ _ I) as [S1 S2 S3 _ _].
  assert (S3k : NoDup (map n_key (w_notes s))) by (apply (sound_nodup_keys c (chain_weak birthday c Hv)); assumption).
  rewrite Forall_forall in S1, S2.
  split; [|split; [exact S3k | intros h x Hx; exact (S1 _ Hx)]].
  intros n Hn. destruct (S2 _ Hn) as [Hc Hsp]. split; [exact Hc|].
  intros tid Ht. destruct (Hsp tid Ht) as [b' [t' [kV [Hb' [Ht' [Hid [[bV [tV [oV [HbV [HtV [HoV [EiV EkV]]]]]]] HkV]]]]]]].
  exists b', t'. repeat split; try assumption.
  destruct Hc as [b [t [o [Hb [Htt [Ho [_ [Ek [_ [Er Ei]]]]]]]]]].
  assert (Eid : out_id tV oV = out_id t o).
  { rewrite EiV. unfold nid, out_id. rewrite <- Ek. cbn [o_key fst]. congruence. }
  destruct (chain_out_id birthday c Hv bV tV oV b t o) as [_ [_ ->]]; auto. rewrite <- Ek, <- EkV in *. congruence.
Qed.

Lemma receipts_complete_lemma :
  forall (birthday : N) (c : list block) (ops : list op) (s : wstate),
    valid_chain birthday c -> ops_on c ops -> run birthday init ops = Ok s ->
    forall b t o a, In b c -> has_block (w_blocks s) (b_height b) = true ->
      In t (b_txs b) -> In o (t_outs t) -> o_owner o = Some a ->
      exists n, In n (w_notes s) /\ n_key n = o_key o /\ n_acct n = a /\ n_value n = o_value o.
Proof.
  intros birthday c ops s Hv Hops Hrun b t o a Hb HQ Ht Ho Hown.
  pose proof (reach_inv _ _ _ _ Hv Hops Hrun) as I.
  destruct (note_of_output c c (incl_refl c) (chain_weak birthday c Hv) s I b t o a Hb Ht Ho Hown HQ) as [n [_ [Hn [Ek [Ea [Ev _]]]]]].
  exists n. auto.
Qed.

(** * The statements for the strict universe, as corollaries *)

Lemma reach_strict_w U birthday c s : valid_universe U -> reach U birthday c s -> reach_w U birthday c s.
Proof.
  intros HU H. induction H as [c Hv Hin | c s o s' H IH Hop Hstep | c s c' h H IH Hle Hag Hv' Hin'].
  - apply reachw_init; auto. apply strict_own; assumption.
  - eapply reachw_op; eauto.
  - eapply reachw_switch; eauto. apply strict_own; assumption.
Qed.

Lemma strict_forks_sound_lemma :
  forall U birthday c s, valid_universe U -> reach U birthday c s ->
    (forall n, In n (w_notes s) ->
       (exists b t o, In b U /\ In t (b_txs b) /\ In o (t_outs t) /\ o_owner o = Some (n_acct n)
                      /\ o_key o = n_key n /\ o_value o = n_value n /\ t_id t = n_recv n /\ o_idx o = n_idx n)
       /\ (forall tid, In tid (n_spent n) ->
             exists b t, In b U /\ In t (b_txs b) /\ t_id t = tid /\ In (n_key n) (t_spends t)))
    /\ NoDup (map n_key (w_notes s))
    /\ (forall h x, In (h, x) (w_blocks s) -> exists b, In b c /\ b_height b = h /\ b_hash b = x).
Proof.
  intros U birthday c s HU Hr.
  destruct (forks_sound_lemma U birthday c s (strict_weak U HU) (reach_strict_w _ _ _ _ HU Hr)) as [S2 [_ [S3k S1]]].
  split; [|split; assumption].
  intros n Hn. destruct (S2 _ Hn) as [Hc Hsp]. split; [exact Hc|].
  intros tid Ht. destruct (Hsp tid Ht) as [b' [t' [kV [Hb' [Ht' [Hid [[bV [tV [oV [HbV [HtV [HoV [EiV EkV]]]]]]] HkV]]]]]]].
  exists b', t'. repeat split; try assumption.
  destruct Hc as [b [t [o [Hb [Htt [Ho [_ [Ek [_ [Er Ei]]]]]]]]]].
  assert (Eid : out_id tV oV = out_id t o).
  { rewrite EiV. unfold nid, out_id. rewrite <- Ek. cbn [o_key fst]. congruence. }
  unfold out_id in Eid. inversion Eid as [[Ep Et Eidx]].
  assert (tV = t) by (apply (vu_tx _ HU bV tV b t); auto). subst tV.
  assert (oV = o) by (apply (vu_idx _ HU b t oV o); auto). subst oV. congruence.
Qed.

Lemma strict_forks_spends_complete_lemma :
  forall U birthday c s, valid_universe U -> reach U birthday c s ->
  forall b t o b' t',
    In b c -> In t (b_txs b) -> In o (t_outs t) -> owned o = true -> has_block (w_blocks s) (b_height b) = true ->
    In b' c -> In t' (b_txs b') -> In (o_key o) (t_spends t') -> has_block (w_blocks s) (b_height b') = true ->
    exists n, In n (w_notes s) /\ n_key n = o_key o /\ In (t_id t') (n_spent n) /\ row_mined (w_txs s) (t_id t') = true.
Proof.
  intros U birthday c s HU Hr. exact (forks_spends_complete_lemma U birthday c s (strict_weak U HU) (reach_strict_w _ _ _ _ HU Hr)).
Qed.

Lemma strict_forks_balance_lemma :
  forall U birthday c s tp, valid_universe U -> reach U birthday c s ->
  w_tip s = Some tp -> orphans_dead s (tp + 1) ->
  forall a p, bal_total s (tp + 1) a p + bal_uneconomic s (tp + 1) a p = ledger (scanned_blocks c s) a p.
Proof.
  intros U birthday c s tp HU Hr. exact (forks_balance_lemma U birthday c s tp (strict_weak U HU) (reach_strict_w _ _ _ _ HU Hr)).
Qed.

Lemma strict_forks_order_independence_lemma :
  forall U birthday c s1 s2 tp, valid_universe U ->
    reach U birthday c s1 -> reach U birthday c s2 ->
    (forall m, has_block (w_blocks s1) m = true <-> has_block (w_blocks s2) m = true) ->
    w_tip s1 = Some tp -> w_tip s2 = Some tp ->
    orphans_dead s1 (tp + 1) -> orphans_dead s2 (tp + 1) ->
    same_notes c s1 s2
    /\ forall a p, bal_total s1 (tp + 1) a p = bal_total s2 (tp + 1) a p
                   /\ bal_uneconomic s1 (tp + 1) a p = bal_uneconomic s2 (tp + 1) a p.
Proof.
  intros U birthday c s1 s2 tp HU R1 R2.
  exact (forks_order_independence_lemma U birthday c s1 s2 tp (strict_weak U HU) (reach_strict_w _ _ _ _ HU R1) (reach_strict_w _ _ _ _ HU R2)).
Qed.

Lemma strict_forks_linear_scan_lemma :
  forall U birthday c s sl tp, valid_universe U ->
    reach U birthday c s ->
    run birthday init [OScan c] = Ok sl ->
    all_scanned c s -> w_tip s = Some tp -> w_tip sl = Some tp -> orphans_dead s (tp + 1) ->
    same_notes c s sl /\ same_notes c sl s
    /\ forall a p, bal_total s (tp + 1) a p = bal_total sl (tp + 1) a p
                   /\ bal_uneconomic s (tp + 1) a p = bal_uneconomic sl (tp + 1) a p.
Proof.
  intros U birthday c s sl tp HU Hr.
  exact (forks_linear_scan_lemma U birthday c s sl tp (strict_weak U HU) (reach_strict_w _ _ _ _ HU Hr)).
Qed.
