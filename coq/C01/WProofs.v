(** C01 — soundness over a universe with position-dependent nullifiers ([Spec.weak_universe]):
    note rows are identified by (pool, txid, output index); their nullifier is the one of the
    version of the output scanned last; their recorded spenders reveal SOME version's nullifier. *)
From V.Lib Require Import Base.
From V.Gen Require Import C01Consts.
From V.C01 Require Import Model Spec Proofs.
Local Open Scope N_scope.

(** * rows by identity *)

Definition oid_eqb (a b : oid) : bool :=
  N.eqb (fst (fst a)) (fst (fst b)) && N.eqb (snd (fst a)) (snd (fst b)) && N.eqb (snd a) (snd b).

Lemma oid_eqb_eq a b : oid_eqb a b = true <-> a = b.
Proof.
  destruct a as [[a1 a2] a3], b as [[b1 b2] b3]. unfold oid_eqb. cbn [fst snd].
  rewrite !andb_true_iff, !N.eqb_eq. split; [intros [[-> ->] ->]; reflexivity | intros E; inversion E; auto].
Qed.

Lemma oid_eqb_refl a : oid_eqb a a = true.
Proof. apply oid_eqb_eq. reflexivity. Qed.

Lemma oid_eqb_neq a b : oid_eqb a b = false <-> a <> b.
Proof.
  split; [intros H E; subst; rewrite oid_eqb_refl in H; discriminate|].
  intros H. destruct (oid_eqb a b) eqn:E; [|reflexivity]. apply oid_eqb_eq in E. contradiction.
Qed.

Definition nid (n : note) : oid := (fst (n_key n), n_recv n, n_idx n).

Lemma id_match_oid n k recv idx : id_match n k recv idx = oid_eqb (nid n) (fst k, recv, idx).
Proof. reflexivity. Qed.

Fixpoint find_id (i : oid) (l : list note) : option note :=
  match l with
  | [] => None
  | n :: l' => if oid_eqb (nid n) i then Some n else find_id i l'
  end.

Definition spent_id (i : oid) (l : list note) : list N :=
  match find_id i l with Some n => n_spent n | None => [] end.
Definition key_id (i : oid) (l : list note) : option key := option_map n_key (find_id i l).

Lemma find_id_In i l n : find_id i l = Some n -> In n l /\ nid n = i.
Proof.
  induction l as [|a l IH]; cbn [find_id]; [discriminate|].
  destruct (oid_eqb (nid a) i) eqn:E.
  - intros H; inversion H; subst. apply oid_eqb_eq in E. split; [left; reflexivity | assumption].
  - intros H. destruct (IH H). split; [right; assumption | assumption].
Qed.

Lemma In_find_id l n : NoDup (map nid l) -> In n l -> find_id (nid n) l = Some n.
Proof.
  induction l as [|a l IH]; intros Hnd Hin; [destruct Hin|].
  cbn [map] in Hnd. inversion Hnd; subst. cbn [find_id].
  destruct Hin as [-> | Hin]; [rewrite oid_eqb_refl; reflexivity|].
  destruct (oid_eqb (nid a) (nid n)) eqn:E; [|auto].
  apply oid_eqb_eq in E. exfalso. apply H1. rewrite E. apply in_map. assumption.
Qed.

Lemma find_id_None i l : find_id i l = None <-> ~ In i (map nid l).
Proof.
  induction l as [|a l IH]; cbn [find_id map]; [split; [intros _ [] | reflexivity]|].
  destruct (oid_eqb (nid a) i) eqn:E.
  - apply oid_eqb_eq in E. split; [discriminate | intros H; exfalso; apply H; left; assumption].
  - apply oid_eqb_neq in E. rewrite IH. split; [intros H [H1|H1]; auto | intros H H1; apply H; right; assumption].
Qed.

(** ** put_note *)

Lemma find_put_note_id k a v r idx sp : forall l i,
  find_id i (put_note k a v r idx sp l)
  = if oid_eqb (fst k, r, idx) i then Some (mkNote k a v r idx (add_spender sp (spent_id (fst k, r, idx) l))) else find_id i l.
Proof.
  unfold spent_id. induction l as [|n l IH]; intros i; cbn [put_note find_id].
  - change (nid (mkNote k a v r idx (add_spender sp []))) with (fst k, r, idx). destruct (oid_eqb (fst k, r, idx) i); reflexivity.
  - rewrite id_match_oid. destruct (oid_eqb (nid n) (fst k, r, idx)) eqn:E.
    + cbn [find_id]. change (nid (mkNote k a v r idx (add_spender sp (n_spent n)))) with (fst k, r, idx).
      destruct (oid_eqb (fst k, r, idx) i) eqn:E'; [reflexivity|].
      apply oid_eqb_eq in E. rewrite E, E'. reflexivity.
    + cbn [find_id]. destruct (oid_eqb (nid n) i) eqn:E'.
      * apply oid_eqb_eq in E'. subst i. apply oid_eqb_neq in E.
        rewrite (proj2 (oid_eqb_neq (fst k, r, idx) (nid n))) by congruence. reflexivity.
      * apply IH.
Qed.

Lemma put_note_In k a v r idx sp : forall l n',
  In n' (put_note k a v r idx sp l) ->
  In n' l \/ exists spl, n' = mkNote k a v r idx spl
                         /\ forall x, In x spl -> sp = Some x \/ exists n, In n l /\ nid n = (fst k, r, idx) /\ In x (n_spent n).
Proof.
  assert (Hadd : forall x l0, In x (add_spender sp l0) -> sp = Some x \/ In x l0).
  { intros x l0. unfold add_spender. destruct sp as [t|]; [|auto].
    destruct (memN t l0); [auto|]. intros Hx. apply in_app_or in Hx. destruct Hx as [Hx | [<- | []]]; auto. }
  induction l as [|n l IH]; intros n'; cbn [put_note].
  - intros [<- | []]. right. eexists. split; [reflexivity|]. intros x Hx. destruct (Hadd _ _ Hx) as [? | []]; auto.
  - rewrite id_match_oid. destruct (oid_eqb (nid n) (fst k, r, idx)) eqn:E.
    + apply oid_eqb_eq in E. intros [<- | Hin]; [|left; right; assumption].
      right. eexists. split; [reflexivity|]. intros x Hx. destruct (Hadd _ _ Hx) as [? | Hx']; [auto|].
      right. exists n. split; [left; reflexivity | auto].
    + intros [<- | Hin]; [left; left; reflexivity|]. destruct (IH _ Hin) as [? | [spl [E1 E2]]]; [left; right; assumption|].
      right. exists spl. split; [assumption|]. intros x Hx. destruct (E2 x Hx) as [? | [n0 [H0 H1]]]; [auto|].
      right. exists n0. split; [right; assumption | assumption].
Qed.

Lemma put_note_nodup k a v r idx sp : forall l, NoDup (map nid l) -> NoDup (map nid (put_note k a v r idx sp l)).
Proof.
  induction l as [|n l IH]; intros Hnd; cbn [put_note].
  - cbn. constructor; [intros [] | constructor].
  - cbn [map] in Hnd. inversion Hnd; subst. rewrite id_match_oid. destruct (oid_eqb (nid n) (fst k, r, idx)) eqn:E.
    + apply oid_eqb_eq in E. cbn [map]. change (nid (mkNote k a v r idx (add_spender sp (n_spent n)))) with (fst k, r, idx).
      rewrite <- E. constructor; assumption.
    + cbn [map]. constructor; [|auto]. intros Hin. apply in_map_iff in Hin. destruct Hin as [n' [En Hn']].
      destruct (put_note_In _ _ _ _ _ _ _ _ Hn') as [Hold | [spl [-> _]]].
      * apply H1. rewrite <- En. apply in_map. assumption.
      * change (nid (mkNote k a v r idx spl)) with (fst k, r, idx) in En. rewrite En, oid_eqb_refl in E. discriminate.
Qed.

(** ** mark_spent keeps identities and nullifiers *)

Lemma mark_spent_ids txs k tid l l' : mark_spent txs k tid l = Some l' -> map nid l' = map nid l /\ map n_key l' = map n_key l.
Proof.
  intros H. destruct (mark_spent_spec _ _ _ _ _ H) as [K F]. split; [|assumption].
  clear H K. induction F as [|n n' l l' Hn F IH]; [reflexivity|]. cbn [map]. f_equal; [|assumption].
  destruct Hn as [-> | [_ ->]]; reflexivity.
Qed.

Lemma mark_all_ids txs tid : forall ks l l', mark_all txs ks tid l = Some l' -> map nid l' = map nid l /\ map n_key l' = map n_key l.
Proof.
  induction ks as [|k ks IH]; intros l l' H; cbn [mark_all] in H; [inversion H; auto|].
  destruct (mark_spent txs k tid l) as [l1|] eqn:E; [|discriminate].
  destruct (mark_spent_ids _ _ _ _ _ E) as [A B]. destruct (IH _ _ H) as [C D]. split; congruence.
Qed.

(** * Soundness *)

Section WSound.
Variable c : list block.
Variable U : list block.
Hypothesis HcU : incl c U.
Hypothesis HU : weak_universe U.
Variable birthday : N.
Hypothesis Hheights : heights_from birthday c.

(** [o'] in [t'] is a version of the output named [i] *)
Definition version (i : oid) (k : key) : Prop :=
  exists b t o, In b U /\ In t (b_txs b) /\ In o (t_outs t) /\ out_id t o = i /\ o_key o = k.

Definition note_sound_w (n : note) : Prop :=
  (exists b t o, In b U /\ In t (b_txs b) /\ In o (t_outs t) /\ o_owner o = Some (n_acct n)
                 /\ o_key o = n_key n /\ o_value o = n_value n /\ t_id t = n_recv n /\ o_idx o = n_idx n)
  /\ (forall tid, In tid (n_spent n) ->
        exists b t k, In b U /\ In t (b_txs b) /\ t_id t = tid /\ version (nid n) k /\ In k (t_spends t)).

Record sound_rows_w (bl : list (N * N)) (notes : list note) (locs : list loc) (nfm : list (key * (N * N))) : Prop := {
  sw_blocks : Forall (blk_sound c) bl;
  sw_notes : Forall note_sound_w notes;
  sw_nodup : NoDup (map nid notes);
  sw_locs : Forall (loc_sound c) locs;
  sw_nfm : Forall (nfe_sound c) nfm
}.

Definition sound_w (s : wstate) : Prop := sound_rows_w (w_blocks s) (w_notes s) (w_locs s) (w_nfmap s).

(** the row's own nullifier is a version of its identity *)
Lemma sound_version n : note_sound_w n -> version (nid n) (n_key n).
Proof.
  intros [[b [t [o [Hb [Ht [Ho [_ [Ek [_ [Er Ei]]]]]]]]]] _]. exists b, t, o. repeat split; try assumption.
  unfold out_id, nid. rewrite <- Ek, Er, Ei. reflexivity.
Qed.

(** a nullifier names one output, so two versions with the same nullifier have the same identity *)
Lemma version_inj i i' k : version i k -> version i' k -> i = i'.
Proof.
  intros [b [t [o [Hb [Ht [Ho [Ei Ek]]]]]]] [b' [t' [o' [Hb' [Ht' [Ho' [Ei' Ek']]]]]]].
  rewrite <- Ei, <- Ei'. apply (wu_out _ HU b t o b' t' o'); auto. congruence.
Qed.

Lemma NoDup_map_inj_in {A B} (f : A -> B) : forall l, (forall x y, In x l -> In y l -> f x = f y -> x = y) -> NoDup l -> NoDup (map f l).
Proof.
  induction l as [|a l IH]; intros Hinj Hnd; cbn [map]; [constructor|]. inversion Hnd; subst. constructor.
  - intros Hin. apply in_map_iff in Hin. destruct Hin as [x [E Hx]].
    assert (x = a) by (apply Hinj; [right; assumption | left; reflexivity | assumption]). subst. contradiction.
  - apply IH; [|assumption]. intros x y Hx Hy. apply Hinj; right; assumption.
Qed.

(** the nullifier column is unique (the table's UNIQUE constraint is never hit) *)
Lemma sound_nodup_keys l : Forall note_sound_w l -> NoDup (map nid l) -> NoDup (map n_key l).
Proof.
  intros Hs Hnd. apply NoDup_map_inj_in; [|apply (NoDup_map_inv nid); assumption].
  intros x y Hx Hy E. rewrite Forall_forall in Hs.
  assert (Ei : nid x = nid y).
  { apply (version_inj (nid x) (nid y) (n_key x)); [apply sound_version; auto | rewrite E; apply sound_version; auto]. }
  pose proof (In_find_id l x Hnd Hx) as F1. pose proof (In_find_id l y Hnd Hy) as F2. rewrite Ei, F2 in F1. inversion F1. reflexivity.
Qed.

(** ** mark_spent / mark_all *)

Lemma mark_spent_sound_w txs k tid l l' :
  mark_spent txs k tid l = Some l' ->
  (exists b t, In b U /\ In t (b_txs b) /\ t_id t = tid /\ In k (t_spends t)) ->
  Forall note_sound_w l -> Forall note_sound_w l'.
Proof.
  intros H Ht Hl. destruct (mark_spent_spec _ _ _ _ _ H) as [_ Hf].
  clear H. induction Hf as [|n n' l l' Hn Hf IH]; [constructor|].
  inversion Hl; subst. constructor; [|auto].
  destruct Hn as [-> | [Ek ->]]; [assumption|].
  pose proof (sound_version n H1) as Hv. destruct H1 as [Ho Hs]. split; [exact Ho|].
  change (nid (mkNote (n_key n) (n_acct n) (n_value n) (n_recv n) (n_idx n) (n_spent n ++ [tid]))) with (nid n).
  cbn [n_spent]. intros x Hx. apply in_app_or in Hx. destruct Hx as [Hx | [<- | []]]; [auto|].
  destruct Ht as [b [t [Hb [Htt [Hid Hk]]]]]. exists b, t, k. repeat split; try assumption. rewrite <- Ek. assumption.
Qed.

Lemma mark_all_sound_w txs tid : forall ks l l',
  mark_all txs ks tid l = Some l' ->
  (forall k, In k ks -> exists b t, In b U /\ In t (b_txs b) /\ t_id t = tid /\ In k (t_spends t)) ->
  Forall note_sound_w l -> Forall note_sound_w l'.
Proof.
  induction ks as [|k ks IH]; intros l l' H Hks Hl; cbn [mark_all] in H; [inversion H; subst; assumption|].
  destruct (mark_spent txs k tid l) as [l1|] eqn:E; [|discriminate].
  eapply IH; [exact H | intros; apply Hks; right; assumption|].
  eapply mark_spent_sound_w; eauto. apply Hks. left. reflexivity.
Qed.

(** ** put_outputs, put_wtx(s) *)

Lemma put_outputs_sound_w nfm locs recv (Hn : Forall (nfe_sound c) nfm) (Hl : Forall (loc_sound c) locs) :
  forall os txs notes txs' notes',
  (forall o, In o os -> owned o = true /\ exists b t, In b c /\ In t (b_txs b) /\ In o (t_outs t) /\ t_id t = recv) ->
  put_outputs nfm locs recv os txs notes = (txs', notes') ->
  Forall note_sound_w notes -> NoDup (map nid notes) ->
  Forall note_sound_w notes' /\ NoDup (map nid notes').
Proof.
  induction os as [|o os IH]; intros txs notes txs' notes' Hos H Hs Hnd; cbn [put_outputs] in H.
  - inversion H; subst. auto.
  - destruct (Hos o (or_introl eq_refl)) as [Hown [b [t [Hb [Ht [Ho Hid]]]]]].
    eapply IH in H; [exact H | intros; apply Hos; right; assumption | | apply put_note_nodup; assumption].
    rewrite Forall_forall. intros n' Hn'. rewrite Forall_forall in Hs.
    destruct (put_note_In _ _ _ _ _ _ _ _ Hn') as [Hold | [spl [-> Hspl]]]; [auto|].
    assert (Hid' : (fst (o_key o), recv, o_idx o) = out_id t o) by (unfold out_id; cbn [o_key fst]; congruence).
    split.
    + exists b, t, o. cbn [n_acct n_key n_value n_recv n_idx]. repeat split; try assumption; [apply HcU; assumption|].
      unfold owned in Hown. unfold out_acct. destruct (o_owner o); [reflexivity | discriminate].
    + change (nid (mkNote (o_key o) (out_acct o) (o_value o) recv (o_idx o) spl)) with (fst (o_key o), recv, o_idx o).
      cbn [n_spent]. intros x Hx. destruct (Hspl x Hx) as [Hd | [n [Hn0 [Hnid Hx']]]].
      * destruct (detect_spend nfm locs (o_key o)) as [[t' h']|] eqn:Ed; [|discriminate]. inversion Hd; subst t'.
        destruct (detect_spend_sound c birthday Hheights _ _ _ _ _ Hn Hl Ed) as [b1 [t1 [Hb1 [Ht1 [Hid1 Hk1]]]]].
        exists b1, t1, (o_key o). repeat split; try assumption; [apply HcU; assumption|].
        exists b, t, o. repeat split; try assumption; [apply HcU; assumption | congruence].
      * destruct (Hs _ Hn0) as [_ Hsp]. rewrite <- Hnid. auto.
Qed.

Lemma put_wtxs_sound_w h nfm locs (Hn : Forall (nfe_sound c) nfm) (Hl : Forall (loc_sound c) locs) :
  forall ws txs notes txs' notes',
  (forall w, In w ws -> exists b t, In b c /\ In t (b_txs b) /\ wt_id w = t_id t /\ incl (wt_found w) (t_spends t)
               /\ incl (wt_owned w) (filter owned (t_outs t))) ->
  put_wtxs h nfm locs ws txs notes = Some (txs', notes') ->
  Forall note_sound_w notes -> NoDup (map nid notes) ->
  Forall note_sound_w notes' /\ NoDup (map nid notes').
Proof.
  induction ws as [|w ws IH]; intros txs notes txs' notes' Hws H Hs Hnd; cbn [put_wtxs] in H.
  - inversion H; subst. auto.
  - destruct (put_wtx h nfm locs w txs notes) as [[txs1 notes1]|] eqn:E; [|discriminate].
    unfold put_wtx in E.
    destruct (mark_all (put_tx_meta (wt_id w) h txs) (wt_found w) (wt_id w) notes) as [n1|] eqn:Em; [|discriminate].
    inversion E as [E']. clear E.
    destruct (Hws w (or_introl eq_refl)) as [b [t [Hb [Ht [Hid [Hf Ho]]]]]].
    assert (Hs1 : Forall note_sound_w n1).
    { eapply mark_all_sound_w; [exact Em | | assumption].
      intros k Hk. exists b, t. repeat split; try assumption; [apply HcU; assumption | congruence | auto]. }
    destruct (mark_all_ids _ _ _ _ _ Em) as [Hk1 _].
    assert (Hos : forall o, In o (wt_owned w) -> owned o = true /\ exists b t, In b c /\ In t (b_txs b) /\ In o (t_outs t) /\ t_id t = wt_id w).
    { intros o Ho'. specialize (Ho o Ho'). apply filter_In in Ho. destruct Ho as [Ho1 Ho2]. split; [assumption|].
      exists b, t. repeat split; try assumption. congruence. }
    destruct (put_outputs_sound_w nfm locs (wt_id w) Hn Hl _ _ _ _ _ Hos E' Hs1) as [Hs2 Hnd2].
    { rewrite Hk1. assumption. }
    eapply IH; eauto. intros w' Hw'. apply Hws. right; assumption.
Qed.

(** ** blocks of a batch, operations *)

Lemma put_sblock_sound_w floor nfs b r r' (Hb : In b c) :
  put_sblock floor (scan_block nfs b) r = Ok r' ->
  sound_rows_w (r_blocks r) (r_notes r) (r_locs r) (r_nfmap r) ->
  sound_rows_w (r_blocks r') (r_notes r') (r_locs r') (r_nfmap r').
Proof.
  intros H [S1 S2 S3 S4 S5]. unfold put_sblock, scan_block in H.
  destruct (scan_txs nfs 0 (b_txs b)) as [ws us] eqn:Es.
  pose proof (scan_txs_spec nfs (b_txs b) 0) as Hspec. rewrite Es in Hspec. cbn [fst snd] in Hspec.
  destruct Hspec as [Hw Hu]. cbn [sb_height sb_hash sb_wtxs sb_unl] in H.
  destruct (put_block (b_height b) (b_hash b) (r_blocks r)) as [bl|] eqn:Eb; [|discriminate].
  assert (Hbl : Forall (blk_sound c) bl).
  { unfold put_block in Eb. destruct (find_block (b_height b) (r_blocks r)).
    - destruct (N.eqb n (b_hash b)); inversion Eb; subst; assumption.
    - inversion Eb; subst. apply Forall_app. split; [assumption|]. constructor; [|constructor].
      exists b. auto. }
  destruct (put_wtxs (b_height b) (r_nfmap r) (r_locs r) ws (r_txs r) (r_notes r)) as [[txs notes]|] eqn:Ew; [|discriminate].
  assert (Hw' : forall w, In w ws -> exists b t, In b c /\ In t (b_txs b) /\ wt_id w = t_id t /\ incl (wt_found w) (t_spends t)
               /\ incl (wt_owned w) (filter owned (t_outs t))).
  { intros w Hin. destruct (Hw w Hin) as [t [Ht Hrest]]. exists b, t. tauto. }
  assert (Hu' : forall e, In e us -> exists j t, nth_error (b_txs b) j = Some t /\ fst (fst e) = N.of_nat j /\ snd (fst e) = t_id t
                                   /\ incl (snd e) (t_spends t)).
  { intros e He. destruct (Hu e He) as [j [t [H1 [H2 H3]]]]. exists j, t. split; [assumption|]. split; [lia | assumption]. }
  destruct (put_wtxs_sound_w _ _ _ S5 S4 _ _ _ _ _ Hw' Ew S2 S3) as [N1 N2].
  destruct (should_track floor (b_height b)).
  - destruct (track (b_height b) us (r_locs r) (r_nfmap r)) as [[locs nfm]|] eqn:Et; [|discriminate].
    inversion H; subst. cbn.
    destruct (track_sound c b Hb _ _ _ _ _ Hu' Et S4 S5) as [L1 L2].
    constructor; assumption.
  - inversion H; subst. cbn. constructor; assumption.
Qed.

Lemma put_sblocks_sound_w floor : forall bs prior nfs sbs r r',
  incl bs c ->
  scan_blocks prior nfs bs = Ok sbs ->
  put_sblocks floor sbs r = Ok r' ->
  sound_rows_w (r_blocks r) (r_notes r) (r_locs r) (r_nfmap r) ->
  sound_rows_w (r_blocks r') (r_notes r') (r_locs r') (r_nfmap r').
Proof.
  induction bs as [|b bs IH]; intros prior nfs sbs r r' Hin Hs Hp Hr; cbn [scan_blocks] in Hs.
  - inversion Hs; subst. cbn in Hp. inversion Hp; subst. assumption.
  - destruct (continuity_ok prior b); [|discriminate].
    destruct (scan_blocks (Some (b_height b, b_hash b)) (update_nfs nfs (scan_block nfs b)) bs) as [rs| |] eqn:E; try discriminate.
    inversion Hs; subst. cbn [put_sblocks] in Hp.
    destruct (put_sblock floor (scan_block nfs b) r) as [r1| |] eqn:E1; try discriminate.
    eapply IH; [| exact E | exact Hp |].
    + intros x Hx. apply Hin. right; assumption.
    + eapply put_sblock_sound_w; eauto. apply Hin. left; reflexivity.
Qed.

Lemma scan_sound_w s bs s' : incl bs c -> scan birthday s bs = Ok s' -> sound_w s -> sound_w s'.
Proof.
  intros Hin H Hs. unfold scan in H. destruct bs as [|b0 bs0]; [inversion H; subst; assumption|].
  destruct (scan_blocks _ (unspent_nfs s) (b0 :: bs0)) as [sbs| |] eqn:E; try discriminate.
  destruct (put_sblocks _ sbs _) as [r| |] eqn:Ep; try discriminate.
  pose proof (put_sblocks_sound_w _ _ _ _ _ _ _ Hin E Ep Hs) as [R1 R2 R3 R4 R5]. cbn in R1, R2, R3, R4, R5.
  destruct (fully_scanned birthday (w_blocks s)) as [f|].
  - destruct (prune (f - PRUNING_DEPTH) (r_locs r) (r_nfmap r)) as [locs nfm] eqn:Epr.
    inversion H; subst. destruct (prune_sound c (f - PRUNING_DEPTH) _ _ R4 R5) as [P1 P2]. rewrite Epr in P1, P2.
    constructor; assumption.
  - inversion H; subst. constructor; assumption.
Qed.

Lemma truncate_sound_w s h : sound_w s -> sound_w (truncate s h).
Proof.
  intros [S1 S2 S3 S4 S5]. unfold truncate.
  destruct (max_scanned (w_blocks s)) as [m|]; [destruct (h <? m)|]; constructor; cbn; try assumption;
    apply filter_Forall; assumption.
Qed.

Lemma init_sound_w : sound_w init.
Proof. constructor; cbn; constructor. Qed.

End WSound.
