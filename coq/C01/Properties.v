(** C01 — theorems (statements in full; proofs in Proofs.v, Tables.v, Chain.v, WProofs.v,
    WTables.v, WComplete.v, WLedger.v, WBridge.v, WfProofs.v; vocabulary — [valid_chain], [ops_on],
    [scanned_blocks], [ledger], [all_scanned], [orphans_dead], [settled], [same_notes],
    [notes_incl], [weak_universe], [own_versions], [reach_w], [out_id] — in Spec.v).

    Model covered: [Model.run] over ARBITRARY sequences of [OScan] (the complete
    scan_cached_blocks / put_blocks_rows row logic: unspent-nullifier set, mark_notes_spent,
    nullifier map, tracking floor, pruning), [OTip] and [OTrunc] (rewind to any height), started
    from the empty wallet, on one valid chain (consecutive heights, unique txids / output
    nullifiers / revealed nullifiers, a note spent strictly above the block creating it).
    The theorems say nothing when an operation of the sequence fails ([run] = Err); that the
    real operations succeed and leave the same tables is what [run_case] checks.

    The [C01_forks_*] theorems extend this to histories in which the best chain changes under
    the wallet ([Spec.reach_w]: new blocks arriving, and rewinds followed by a different
    continuation, with transactions dropped, re-mined at other heights, or replaced by
    conflicting spends), all blocks ever offered forming a [weak_universe]: a txid names one
    transaction UP TO the nullifiers of its outputs, a nullifier names one output (pool, txid,
    index).  A wallet-owned Sapling output re-mined at another position of the commitment tree
    (same txid and output index, new nullifier) is therefore INSIDE the domain of these theorems
    ([ex_remined_reach] below).  The guard that replaces the former [valid_universe.vu_tx] is
    [own_versions]: each best chain reveals, of an output it contains, only the nullifier of its
    own version (a spend of the nullifier the note had on an abandoned branch is not valid on
    this chain).  The former statements, over [valid_universe] / [reach], are kept as the
    [C01_strict_forks_*] corollaries. *)
From V.Lib Require Import Base.
From V.Gen Require Import C01Consts.
From V.C01 Require Import Model Spec Proofs Tables Chain WProofs WTables WComplete WLedger Corr WBridge Wf WfProofs.
Local Open Scope N_scope.

(** In every wallet state whatsoever, what the summary reports for an account and pool as
    total plus uneconomic value is the sum of the values of exactly the rows of the notes table
    that pass the summary's filter (receiving transaction unexpired, no unexpired spender): every
    such note is counted once, no other value enters. *)
Theorem C01_balance_is_sum_of_counted_notes :
  forall (s : wstate) (target acct pool : N),
    bal_total s target acct pool + bal_uneconomic s target acct pool
    = sumN (map n_value (bal_notes s target acct pool)).
Proof. exact balance_is_ledger_lemma. Qed.

(** No value is created and nothing is counted twice: after ANY sequence of scans (any ranges
    of the chain, any order, any chunking, repeats), tip updates and rewinds, every row of the
    notes table is an output of the chain addressed to that account with that value and
    receiving transaction, every recorded spender is a transaction of the chain that reveals
    the note's nullifier, no two rows have the same nullifier, and every scanned block is a
    block of the chain. *)
Theorem C01_ledger_sound :
  forall (birthday : N) (c : list block) (ops : list op) (s : wstate),
    valid_chain birthday c -> ops_on c ops -> run birthday init ops = Ok s ->
    (forall n, In n (w_notes s) ->
       (exists b t o, In b c /\ In t (b_txs b) /\ In o (t_outs t) /\ o_owner o = Some (n_acct n)
                      /\ o_key o = n_key n /\ o_value o = n_value n /\ t_id t = n_recv n /\ o_idx o = n_idx n)
       /\ (forall tid, In tid (n_spent n) ->
             exists b t, In b c /\ In t (b_txs b) /\ t_id t = tid /\ In (n_key n) (t_spends t)))
    /\ NoDup (map n_key (w_notes s))
    /\ (forall h x, In (h, x) (w_blocks s) -> exists b, In b c /\ b_height b = h /\ b_hash b = x).
Proof. exact ledger_sound_lemma. Qed.

(** No receipt is lost: after any such sequence, every output addressed to an account of the
    wallet in a block the wallet currently holds as scanned has its row in the notes table,
    with that account and value. *)
Theorem C01_receipts_complete :
  forall (birthday : N) (c : list block) (ops : list op) (s : wstate),
    valid_chain birthday c -> ops_on c ops -> run birthday init ops = Ok s ->
    forall b t o a, In b c -> has_block (w_blocks s) (b_height b) = true ->
      In t (b_txs b) -> In o (t_outs t) -> o_owner o = Some a ->
      exists n, In n (w_notes s) /\ n_key n = o_key o /\ n_acct n = a /\ n_value n = o_value o.
Proof. exact receipts_complete_lemma. Qed.


(** Spend completeness.  After ANY sequence of scans (any ranges, order, chunking, repeats),
    tip updates and rewinds on a valid chain: whenever the wallet holds both the block that
    creates one of its notes and a block in which a transaction reveals that note's nullifier,
    the note's row records that transaction as a spender and the transaction is recorded as
    mined.  (Spend scanned after the receipt: found against the unspent-nullifier set; spend
    scanned before the receipt: found through the nullifier map — which is why the map, the
    tracking floor and the pruning must never lose an entry that is still needed.) *)
Theorem C01_spends_complete :
  forall birthday c ops s, valid_chain birthday c -> ops_on c ops -> run birthday init ops = Ok s ->
  forall b t o b' t',
    In b c -> In t (b_txs b) -> In o (t_outs t) -> owned o = true -> has_block (w_blocks s) (b_height b) = true ->
    In b' c -> In t' (b_txs b') -> In (o_key o) (t_spends t') -> has_block (w_blocks s) (b_height b') = true ->
    exists n, In n (w_notes s) /\ n_key n = o_key o /\ In (t_id t') (n_spent n) /\ row_mined (w_txs s) (t_id t') = true.
Proof. exact spends_complete_lemma. Qed.

(** nfmap_complete — the invariant behind it: in every reachable state, a nullifier revealed by
    the [i]-th transaction of a scanned block, belonging to a note of the wallet whose creating
    block is not (or no longer) scanned, is in the nullifier map with that block's locator, and
    the locator resolves to the revealing transaction.  It survives the tracking floor (skipped
    heights lie below a contiguous frontier), the pruning below fully_scanned - 100 and rewinds. *)
Theorem C01_nfmap_complete :
  forall birthday c ops s, valid_chain birthday c -> ops_on c ops -> run birthday init ops = Ok s ->
  forall b t i o b0 t0,
    In b c -> has_block (w_blocks s) (b_height b) = true -> nth_error (b_txs b) i = Some t -> In (o_key o) (t_spends t) ->
    In b0 c -> In t0 (b_txs b0) -> In o (t_outs t0) -> owned o = true -> has_block (w_blocks s) (b_height b0) <> true ->
    find_nf (o_key o) (w_nfmap s) = Some (b_height b, N.of_nat i)
    /\ find_loc (b_height b) (N.of_nat i) (w_locs s) = Some (t_id t).
Proof. exact nfmap_complete_lemma. Qed.

(** The balance is the ledger, in the property's own words: for every account and pool, total
    plus uneconomic value equals the sum of the outputs addressed to the account in the blocks
    of the chain the wallet has scanned and not spent in blocks it has scanned ([ledger], Spec.v)
    — provided no transaction orphaned by a rewind still counts: the un-mined rows have expired
    at tip + 1, or every block of the chain is scanned. *)
Theorem C01_balance_is_ledger :
  forall birthday c ops s tp, valid_chain birthday c -> ops_on c ops -> run birthday init ops = Ok s ->
  w_tip s = Some tp ->
  orphans_dead s (tp + 1) \/ all_scanned c s ->
  forall a p, bal_total s (tp + 1) a p + bal_uneconomic s (tp + 1) a p = ledger (scanned_blocks c s) a p.
Proof. exact balance_is_ledger_lemma2. Qed.

(** ... and unconditionally for histories without rewinds. *)
Theorem C01_balance_is_ledger_without_rewinds :
  forall birthday c ops s tp, valid_chain birthday c -> ops_on c ops -> (forall h, ~ In (OTrunc h) ops) ->
  run birthday init ops = Ok s -> w_tip s = Some tp ->
  forall a p, bal_total s (tp + 1) a p + bal_uneconomic s (tp + 1) a p = ledger (scanned_blocks c s) a p.
Proof. exact balance_is_ledger_no_rewind. Qed.

(** Order independence: two histories on the same chain that end with the same set of scanned
    blocks and the same tip (and no live orphan) end with the same notes for every scanned
    output, the same spent status and the same total and uneconomic balances. *)
Theorem C01_order_independence :
  forall birthday c ops1 ops2 s1 s2 tp,
    valid_chain birthday c -> ops_on c ops1 -> ops_on c ops2 ->
    run birthday init ops1 = Ok s1 -> run birthday init ops2 = Ok s2 ->
    (forall m, has_block (w_blocks s1) m = true <-> has_block (w_blocks s2) m = true) ->
    w_tip s1 = Some tp -> w_tip s2 = Some tp ->
    settled c s1 tp -> settled c s2 tp ->
    same_notes c s1 s2
    /\ forall a p, bal_total s1 (tp + 1) a p = bal_total s2 (tp + 1) a p
                   /\ bal_uneconomic s1 (tp + 1) a p = bal_uneconomic s2 (tp + 1) a p.
Proof. exact order_independence_lemma. Qed.

(** The headline: once every block of the chain is scanned — by whatever sequence of scans,
    tip updates and rewinds — the notes table, the spent status of every note and every balance
    are those of a fresh wallet that scanned the chain once, in height order. *)
Theorem C01_same_as_linear_scan :
  forall birthday c ops s sl,
    valid_chain birthday c -> ops_on c ops ->
    run birthday init ops = Ok s ->
    run birthday init [OScan c] = Ok sl ->
    all_scanned c s -> w_tip s = w_tip sl ->
    notes_incl s sl /\ notes_incl sl s
    /\ forall tp, w_tip s = Some tp -> forall a p,
         bal_total s (tp + 1) a p = bal_total sl (tp + 1) a p
         /\ bal_uneconomic s (tp + 1) a p = bal_uneconomic sl (tp + 1) a p.
Proof. exact linear_scan_lemma. Qed.

(** Idempotence: scanning a range again (from any reachable state) changes neither the set of
    scanned blocks, nor the tip, nor the notes and spent status of scanned outputs, nor — when
    no orphan is alive — any balance.  (The nullifier map may gain entries: a spend that is
    already recorded is no longer in the unspent set and is tracked instead; harmless.) *)
Theorem C01_scan_idempotent :
  forall birthday c ops s bs s1 s2,
    valid_chain birthday c -> ops_on c ops -> run birthday init ops = Ok s -> incl bs c ->
    scan birthday s bs = Ok s1 -> scan birthday s1 bs = Ok s2 ->
    (forall m, has_block (w_blocks s2) m = true <-> has_block (w_blocks s1) m = true)
    /\ w_tip s2 = w_tip s1
    /\ same_notes c s1 s2
    /\ forall tp, w_tip s1 = Some tp -> settled c s1 tp -> forall a p,
         bal_total s2 (tp + 1) a p = bal_total s1 (tp + 1) a p
         /\ bal_uneconomic s2 (tp + 1) a p = bal_uneconomic s1 (tp + 1) a p.
Proof. exact scan_idempotent_lemma. Qed.

(** ** Histories whose chain changes: rewind followed by a different continuation, over a
       universe in which a re-mined output may come back under another nullifier *)

(** Nothing is created or counted twice, whatever happened to the chain: every note row is an
    output of some block the wallet was offered (with the nullifier of that version of the
    output), every recorded spender is a transaction the wallet was offered that reveals the
    nullifier of SOME version of that output (pool, receiving txid, index), no two rows name the
    same output, no two rows share a nullifier, and every block held as scanned is a block of
    the CURRENT best chain. *)
Theorem C01_forks_ledger_sound :
  forall U birthday c s, weak_universe U -> reach_w U birthday c s ->
    (forall n, In n (w_notes s) ->
       (exists b t o, In b U /\ In t (b_txs b) /\ In o (t_outs t) /\ o_owner o = Some (n_acct n)
                      /\ o_key o = n_key n /\ o_value o = n_value n /\ t_id t = n_recv n /\ o_idx o = n_idx n)
       /\ (forall tid, In tid (n_spent n) ->
             exists b t k, In b U /\ In t (b_txs b) /\ t_id t = tid
               /\ (exists bV tV oV, In bV U /\ In tV (b_txs bV) /\ In oV (t_outs tV)
                                    /\ out_id tV oV = (fst (n_key n), n_recv n, n_idx n) /\ o_key oV = k)
               /\ In k (t_spends t)))
    /\ NoDup (map (fun n => (fst (n_key n), n_recv n, n_idx n)) (w_notes s))
    /\ NoDup (map n_key (w_notes s))
    /\ (forall h x, In (h, x) (w_blocks s) -> exists b, In b c /\ b_height b = h /\ b_hash b = x).
Proof. exact forks_sound_lemma. Qed.

(** Spend completeness with respect to the current best chain, after any history of scans, tip
    updates, rewinds and chain replacements: the row of the note carries the nullifier of the
    current chain's version of the output, and records the spender. *)
Theorem C01_forks_spends_complete :
  forall U birthday c s, weak_universe U -> reach_w U birthday c s ->
  forall b t o b' t',
    In b c -> In t (b_txs b) -> In o (t_outs t) -> owned o = true -> has_block (w_blocks s) (b_height b) = true ->
    In b' c -> In t' (b_txs b') -> In (o_key o) (t_spends t') -> has_block (w_blocks s) (b_height b') = true ->
    exists n, In n (w_notes s) /\ n_key n = o_key o /\ In (t_id t') (n_spent n) /\ row_mined (w_txs s) (t_id t') = true.
Proof. exact forks_spends_complete_lemma. Qed.

(** The balance is the ledger of the scanned blocks of the current best chain as soon as the
    transactions orphaned by rewinds have expired ("apart from transactions orphaned by a
    rewind, which stop counting once they expire"). *)
Theorem C01_forks_balance_is_ledger :
  forall U birthday c s tp, weak_universe U -> reach_w U birthday c s ->
  w_tip s = Some tp -> orphans_dead s (tp + 1) ->
  forall a p, bal_total s (tp + 1) a p + bal_uneconomic s (tp + 1) a p = ledger (scanned_blocks c s) a p.
Proof. exact forks_balance_lemma. Qed.

(** Two histories — over whatever branches — that end on the same best chain with the same
    scanned blocks, the same tip and no live orphan end with the same notes, spent status and
    balances. *)
Theorem C01_forks_order_independence :
  forall U birthday c s1 s2 tp, weak_universe U ->
    reach_w U birthday c s1 -> reach_w U birthday c s2 ->
    (forall m, has_block (w_blocks s1) m = true <-> has_block (w_blocks s2) m = true) ->
    w_tip s1 = Some tp -> w_tip s2 = Some tp ->
    orphans_dead s1 (tp + 1) -> orphans_dead s2 (tp + 1) ->
    same_notes c s1 s2
    /\ forall a p, bal_total s1 (tp + 1) a p = bal_total s2 (tp + 1) a p
                   /\ bal_uneconomic s1 (tp + 1) a p = bal_uneconomic s2 (tp + 1) a p.
Proof. exact forks_order_independence_lemma. Qed.

(** ... in particular the same as a fresh wallet that scans the final best chain once, in height
    order (orphaned notes and rows of abandoned branches may remain in the tables; they no
    longer count). *)
Theorem C01_forks_same_as_linear_scan :
  forall U birthday c s sl tp, weak_universe U ->
    reach_w U birthday c s ->
    run birthday init [OScan c] = Ok sl ->
    all_scanned c s -> w_tip s = Some tp -> w_tip sl = Some tp -> orphans_dead s (tp + 1) ->
    same_notes c s sl /\ same_notes c sl s
    /\ forall a p, bal_total s (tp + 1) a p = bal_total sl (tp + 1) a p
                   /\ bal_uneconomic s (tp + 1) a p = bal_uneconomic sl (tp + 1) a p.
Proof. exact forks_linear_scan_lemma. Qed.

(** *** The strict universe (a txid names one transaction INCLUDING its output nullifiers) is a
        special case, with the statements in their former shape *)

Theorem C01_strict_universe_is_weak :
  forall U, valid_universe U -> weak_universe U /\ forall c, incl c U -> own_versions c U.
Proof. exact (fun U H => conj (strict_weak U H) (fun c => strict_own c U H)). Qed.

Theorem C01_strict_reach_is_reach :
  forall U birthday c s, valid_universe U -> reach U birthday c s -> reach_w U birthday c s.
Proof. exact reach_strict_w. Qed.

Theorem C01_strict_forks_ledger_sound :
  forall U birthday c s, valid_universe U -> reach U birthday c s ->
    (forall n, In n (w_notes s) ->
       (exists b t o, In b U /\ In t (b_txs b) /\ In o (t_outs t) /\ o_owner o = Some (n_acct n)
                      /\ o_key o = n_key n /\ o_value o = n_value n /\ t_id t = n_recv n /\ o_idx o = n_idx n)
       /\ (forall tid, In tid (n_spent n) ->
             exists b t, In b U /\ In t (b_txs b) /\ t_id t = tid /\ In (n_key n) (t_spends t)))
    /\ NoDup (map n_key (w_notes s))
    /\ (forall h x, In (h, x) (w_blocks s) -> exists b, In b c /\ b_height b = h /\ b_hash b = x).
Proof. exact strict_forks_sound_lemma. Qed.

Theorem C01_strict_forks_spends_complete :
  forall U birthday c s, valid_universe U -> reach U birthday c s ->
  forall b t o b' t',
    In b c -> In t (b_txs b) -> In o (t_outs t) -> owned o = true -> has_block (w_blocks s) (b_height b) = true ->
    In b' c -> In t' (b_txs b') -> In (o_key o) (t_spends t') -> has_block (w_blocks s) (b_height b') = true ->
    exists n, In n (w_notes s) /\ n_key n = o_key o /\ In (t_id t') (n_spent n) /\ row_mined (w_txs s) (t_id t') = true.
Proof. exact strict_forks_spends_complete_lemma. Qed.

Theorem C01_strict_forks_balance_is_ledger :
  forall U birthday c s tp, valid_universe U -> reach U birthday c s ->
  w_tip s = Some tp -> orphans_dead s (tp + 1) ->
  forall a p, bal_total s (tp + 1) a p + bal_uneconomic s (tp + 1) a p = ledger (scanned_blocks c s) a p.
Proof. exact strict_forks_balance_lemma. Qed.

Theorem C01_strict_forks_order_independence :
  forall U birthday c s1 s2 tp, valid_universe U ->
    reach U birthday c s1 -> reach U birthday c s2 ->
    (forall m, has_block (w_blocks s1) m = true <-> has_block (w_blocks s2) m = true) ->
    w_tip s1 = Some tp -> w_tip s2 = Some tp ->
    orphans_dead s1 (tp + 1) -> orphans_dead s2 (tp + 1) ->
    same_notes c s1 s2
    /\ forall a p, bal_total s1 (tp + 1) a p = bal_total s2 (tp + 1) a p
                   /\ bal_uneconomic s1 (tp + 1) a p = bal_uneconomic s2 (tp + 1) a p.
Proof. exact strict_forks_order_independence_lemma. Qed.

Theorem C01_strict_forks_same_as_linear_scan :
  forall U birthday c s sl tp, valid_universe U ->
    reach U birthday c s ->
    run birthday init [OScan c] = Ok sl ->
    all_scanned c s -> w_tip s = Some tp -> w_tip sl = Some tp -> orphans_dead s (tp + 1) ->
    same_notes c s sl /\ same_notes c sl s
    /\ forall a p, bal_total s (tp + 1) a p = bal_total sl (tp + 1) a p
                   /\ bal_uneconomic s (tp + 1) a p = bal_uneconomic sl (tp + 1) a p.
Proof. exact strict_forks_linear_scan_lemma. Qed.

(** ** Bridge (partial) between correspondence and property

    For a history all of whose scanned batches come from one valid chain: if the model
    reproduces every outcome and every dump ([run_case]), then on every dump the balances the
    implementation reported are the ground-truth ledger of the blocks scanned so far whenever
    the dump shows no live orphan ([ledger_steps], which is a conjunct of [prop_case], third
    theorem below).  The other conjuncts of [prop_case] are not bridged. *)
Theorem C01_bridge_ledger_partial :
  forall (c : list block) (n : N) (steps : list stepc) (lin : option dump),
    valid_chain BIRTHDAY c ->
    (forall bs r d, In (SScan bs r d) steps -> incl bs c) ->
    run_case (Hist n steps lin) = true ->
    ledger_steps [] steps = true.
Proof. exact bridge_ledger_lemma. Qed.

(** The same for histories with forks ([fork_hist U c S steps], WBridge.v: each scanned batch
    comes from the best chain current at that step; between two steps the best chain may be
    replaced by a valid chain of [U] that agrees with it up to a height at or above every block
    scanned so far), over the universe with position-dependent nullifiers. *)
Theorem C01_bridge_ledger_forks :
  forall (U c : list block) (n : N) (steps : list stepc) (lin : option dump),
    weak_universe U -> valid_chain BIRTHDAY c -> incl c U -> own_versions c U ->
    fork_hist U c [] steps ->
    run_case (Hist n steps lin) = true ->
    ledger_steps [] steps = true.
Proof. exact bridge_forks_lemma. Qed.

Theorem C01_bridge_clause_of_prop_case :
  forall (l : list stepc) (S : list block), fst (prop_steps S l) = true -> ledger_steps S l = true.
Proof. exact prop_steps_ledger. Qed.

(** The universe hypothesis of the [C01_forks_*] theorems is what [wf_case] evaluates on every
    generated history: a case that passes [wf_case] has its scanned batches, taken together, in
    a [weak_universe].  ([own_versions] and the validity of each best chain are not derived from
    [wf_case]: a case does not name its best chains; [wf_case] checks instead that the blocks
    held at any time form part of a valid chain.) *)
Theorem C01_wf_case_universe :
  forall (n : N) (steps : list stepc) (lin : option dump),
    wf_case (Hist n steps lin) = true -> weak_universe (case_blocks steps).
Proof. exact wf_case_weak. Qed.

(** A transaction un-mined by a rewind whose expiry is unknown stops counting (as a spender
    and as a receiver) once the target height passes its first observation by more than the
    default expiry delta. *)
Theorem C01_orphans_expire :
  forall (target : N) (r : txrow),
    x_mined r = None -> x_expiry r = None -> x_minobs r + DEFAULT_TX_EXPIRY_DELTA < target ->
    row_unexpired target r = false.
Proof. exact orphan_expires. Qed.

(** After a rewind to [h] no transaction is recorded as mined above [h]. *)
Theorem C01_truncate_unmines :
  forall (s : wstate) (h : N) (r : txrow),
    In r (w_txs (truncate s h)) -> match x_mined r with Some m => m <= h | None => True end.
Proof. exact truncate_unmines. Qed.

(** * Non-vacuity and necessity of the chain-validity guard *)

Definition ex_chain : list block :=
  [ mkBlock 10 1 0 [mkTx 1 [] [mkOut (Some 0) 1 70000 5 0; mkOut None 0 9 6 0]];
    mkBlock 11 2 1 [];
    mkBlock 12 3 2 [mkTx 2 [(1, 5)] [mkOut (Some 0) 1 4000 7 1]] ].

(** spend scanned before the receipt, then the receipt: linked through the nullifier map *)
Example ex_out_of_order :
  match run 10 init [OScan (skipn 1 ex_chain); OTip 12; OScan (firstn 1 ex_chain)] with
  | Ok s => (bal_total s 13 0 1, bal_uneconomic s 13 0 1, map n_spent (w_notes s)) = (0, 4000, [[]; [2]])
  | _ => False
  end.
Proof. vm_compute. reflexivity. Qed.

Example ex_valid : valid_chain 10 ex_chain.
Proof.
  constructor.
  - cbn; auto.
  - cbn. repeat constructor; cbn; intuition discriminate.
  - cbn. repeat constructor; cbn; intuition discriminate.
  - cbn. repeat constructor; cbn; intuition discriminate.
  - intros k hs hc [b [t [Hb [Hh [Ht Hk]]]]] [b' [t' [o [Hb' [Hh' [Ht' [Ho [Hoo Hko]]]]]]]].
    cbn in Hb, Hb'. intuition (subst; cbn in *; intuition (subst; cbn in *; try discriminate; try lia; intuition (subst; cbn in *; try discriminate; try lia))).
  - intros b t o o' Hb Ht Ho Ho' Hp Hi. cbn in Hb.
    intuition (subst; cbn in *; intuition (subst; cbn in *; intuition (subst; cbn in *; try discriminate; auto))).
Qed.

(** the hypotheses of the headline theorem are satisfiable: an out-of-order history with a
    rewind in the middle, against the linear scan *)
Example ex_headline :
  exists s sl,
    run 10 init [OScan (skipn 1 ex_chain); OTip 12; OScan (firstn 1 ex_chain); OTrunc 10; OScan (skipn 1 ex_chain)] = Ok s
    /\ run 10 init [OScan ex_chain] = Ok sl /\ w_tip s = w_tip sl
    /\ forallb (fun b => has_block (w_blocks s) (b_height b)) ex_chain = true.
Proof. eexists. eexists. vm_compute. repeat split; reflexivity. Qed.

(** Why a note must be spent strictly above the block creating it (consensus guarantees it):
    a spend in the same block is not detected — the note stays unspent in the model (and in
    the code: the nullifier set is only updated between blocks, the map only after the block). *)
Example ex_same_block_spend_missed :
  match run 10 init [OScan [mkBlock 10 1 0 [mkTx 1 [] [mkOut (Some 0) 1 70000 5 0]; mkTx 2 [(1, 5)] []]]] with
  | Ok s => map n_spent (w_notes s) = [[]] /\ bal_total s 11 0 1 = 70000
  | _ => False
  end.
Proof. vm_compute. split; reflexivity. Qed.

(** a reorganisation: block 11 is replaced, the spending transaction 2 is re-mined in the new
    block 12; the wallet scans the old branch, rewinds to 10 and scans the new one *)
Definition ex_chain2 : list block :=
  [ mkBlock 10 1 0 [mkTx 1 [] [mkOut (Some 0) 1 70000 5 0; mkOut None 0 9 6 0]];
    mkBlock 11 20 1 [];
    mkBlock 12 21 20 [mkTx 2 [(1, 5)] [mkOut (Some 0) 1 4000 7 1]] ].
Definition ex_universe : list block := ex_chain ++ skipn 1 ex_chain2.

Example ex_valid2 : valid_chain 10 ex_chain2.
Proof.
  constructor.
  - cbn; auto.
  - cbn. repeat constructor; cbn; intuition discriminate.
  - cbn. repeat constructor; cbn; intuition discriminate.
  - cbn. repeat constructor; cbn; intuition discriminate.
  - intros k hs hc [b [t [Hb [Hh [Ht Hk]]]]] [b' [t' [o [Hb' [Hh' [Ht' [Ho [Hoo Hko]]]]]]]].
    cbn in Hb, Hb'. intuition (subst; cbn in *; intuition (subst; cbn in *; try discriminate; try lia; intuition (subst; cbn in *; try discriminate; try lia))).
  - intros b t o o' Hb Ht Ho Ho' Hp Hi. cbn in Hb.
    intuition (subst; cbn in *; intuition (subst; cbn in *; intuition (subst; cbn in *; try discriminate; auto))).
Qed.

Example ex_universe_valid : valid_universe ex_universe.
Proof.
  constructor.
  - intros b t b' t' Hb Ht Hb' Ht' E. cbn in Hb, Hb'.
    intuition (subst; cbn in *; intuition (subst; cbn in *; try discriminate; try reflexivity)).
  - intros b t o b' t' o' Hb Ht Ho Hb' Ht' Ho' E. cbn in Hb, Hb'.
    intuition (subst; cbn in *; intuition (subst; cbn in *; intuition (subst; cbn in *; try discriminate; auto))).
  - intros b t o o' Hb Ht Ho Ho' Hp Hi. cbn in Hb.
    intuition (subst; cbn in *; intuition (subst; cbn in *; intuition (subst; cbn in *; try discriminate; auto))).
Qed.

Example ex_fork_reach :
  exists s, reach ex_universe 10 ex_chain2 s
            /\ forallb (fun b => has_block (w_blocks s) (b_height b)) ex_chain2 = true
            /\ w_tip s = Some 12
            /\ forallb (fun r => is_some (x_mined r)) (w_txs s) = true.
Proof.
  destruct (run 10 init [OScan ex_chain; OTrunc 10]) as [s1| |] eqn:E1; try (vm_compute in E1; discriminate).
  destruct (scan 10 s1 (skipn 1 ex_chain2)) as [s2| |] eqn:E2;
    try (vm_compute in E1; inversion E1; subst; vm_compute in E2; discriminate).
  exists s2. split.
  - apply (reach_op ex_universe 10 ex_chain2 s1 (OScan (skipn 1 ex_chain2)) s2); [| | exact E2].
    + apply (reach_switch ex_universe 10 ex_chain s1 ex_chain2 10).
      * cbn [run] in E1. destruct (step 10 init (OScan ex_chain)) as [s0| |] eqn:E0; try discriminate.
        apply (reach_op ex_universe 10 ex_chain s0 (OTrunc 10) s1); [| intros bs H; discriminate | ].
        -- apply (reach_op ex_universe 10 ex_chain init (OScan ex_chain) s0); [| | exact E0].
           ++ apply reach_init; [exact ex_valid | intros x Hx; apply in_or_app; left; exact Hx].
           ++ intros bs H. inversion H; subst. apply incl_refl.
        -- destruct (step 10 s0 (OTrunc 10)) as [sx| |]; inversion E1; reflexivity.
      * vm_compute in E1. inversion E1; subst. intros m Hm. unfold has_block in Hm. cbn [w_blocks find_block] in Hm.
        destruct (N.eqb 10 m) eqn:Em; [apply N.eqb_eq in Em; lia | cbn in Hm; discriminate].
      * intros b Hle. cbn. split; intros [<- | [<- | [<- | []]]]; cbn in Hle; try lia; auto.
      * exact ex_valid2.
      * intros x Hx. cbn in Hx. cbn. intuition.
    + intros bs H. inversion H; subst. intros x Hx. cbn in Hx. cbn. intuition.
  - vm_compute in E1. inversion E1; subst. vm_compute in E2. inversion E2; subst. vm_compute. auto.
Qed.

(** * Non-vacuity of the universe with position-dependent nullifiers

    Transaction 1 (creating a note of account 0) is mined in block 11 of branch A with nullifier
    5 and, after a reorganisation above height 10, in block 12 of branch B with nullifier 55
    (another position of the commitment tree).  Branch A spends the note in transaction 2
    (revealing 5), branch B in transaction 3 (revealing 55). *)
Definition ex_chainA : list block :=
  [ mkBlock 10 1 0 [];
    mkBlock 11 2 1 [mkTx 1 [] [mkOut (Some 0) 1 70000 5 0]];
    mkBlock 12 3 2 [mkTx 2 [(1, 5)] [mkOut (Some 0) 1 4000 7 0]] ].
Definition ex_chainB : list block :=
  [ mkBlock 10 1 0 [];
    mkBlock 11 20 1 [];
    mkBlock 12 21 20 [mkTx 1 [] [mkOut (Some 0) 1 70000 55 0]];
    mkBlock 13 22 21 [mkTx 3 [(1, 55)] [mkOut (Some 0) 1 4000 8 0]] ].
Definition ex_universeW : list block := ex_chainA ++ skipn 1 ex_chainB.

Ltac crush_in := cbn in *; intuition (subst; cbn in *; intuition (subst; cbn in *; try discriminate; try lia; auto;
                   intuition (subst; cbn in *; try discriminate; try lia; auto))).

Example ex_validA : valid_chain 10 ex_chainA.
Proof.
  constructor.
  - cbn; auto.
  - cbn. repeat constructor; cbn; intuition discriminate.
  - cbn. repeat constructor; cbn; intuition discriminate.
  - cbn. repeat constructor; cbn; intuition discriminate.
  - intros k hs hc [b [t [Hb [Hh [Ht Hk]]]]] [b' [t' [o [Hb' [Hh' [Ht' [Ho [Hoo Hko]]]]]]]]. crush_in.
  - intros b t o o' Hb Ht Ho Ho' Hp Hi. crush_in.
Qed.

Example ex_validB : valid_chain 10 ex_chainB.
Proof.
  constructor.
  - cbn; auto.
  - cbn. repeat constructor; cbn; intuition discriminate.
  - cbn. repeat constructor; cbn; intuition discriminate.
  - cbn. repeat constructor; cbn; intuition discriminate.
  - intros k hs hc [b [t [Hb [Hh [Ht Hk]]]]] [b' [t' [o [Hb' [Hh' [Ht' [Ho [Hoo Hko]]]]]]]]. crush_in.
  - intros b t o o' Hb Ht Ho Ho' Hp Hi. crush_in.
Qed.

(** the universe is weak but NOT strict: txid 1 names two transactions differing in a nullifier *)
Example ex_universeW_weak : weak_universe ex_universeW.
Proof.
  constructor.
  - intros b t b' t' Hb Ht Hb' Ht' E. crush_in.
  - intros b t o b' t' o' Hb Ht Ho Hb' Ht' Ho' E. crush_in.
  - intros b t o o' Hb Ht Ho Ho' Hp Hi. crush_in.
Qed.

Example ex_universeW_not_strict : ~ valid_universe ex_universeW.
Proof.
  intros [H _ _].
  specialize (H (mkBlock 11 2 1 [mkTx 1 [] [mkOut (Some 0) 1 70000 5 0]]) (mkTx 1 [] [mkOut (Some 0) 1 70000 5 0])
                (mkBlock 12 21 20 [mkTx 1 [] [mkOut (Some 0) 1 70000 55 0]]) (mkTx 1 [] [mkOut (Some 0) 1 70000 55 0])).
  cbn in H. assert (E : mkTx 1 [] [mkOut (Some 0) 1 70000 5 0] = mkTx 1 [] [mkOut (Some 0) 1 70000 55 0]) by (apply H; auto 10).
  discriminate E.
Qed.

Example ex_ownA : own_versions ex_chainA ex_universeW.
Proof. intros b1 t1 bV tV oV b0 t0 o Hb1 Ht1 HbV HtV HoV Hk Hb0 Ht0 Ho E. crush_in. Qed.

Example ex_ownB : own_versions ex_chainB ex_universeW.
Proof. intros b1 t1 bV tV oV b0 t0 o Hb1 Ht1 HbV HtV HoV Hk Hb0 Ht0 Ho E. crush_in. Qed.

(** the wallet scans branch A, rewinds to 10, scans branch B, and its tip moves on until the
    orphaned transaction 2 has expired: the state is reachable, the row of the re-mined note
    carries the new nullifier and records both spenders, no orphan is alive, and the balance is
    the 4000 zatoshi (uneconomic) change of transaction 3 *)
Example ex_remined_reach :
  exists s, reach_w ex_universeW 10 ex_chainB s
            /\ forallb (fun b => has_block (w_blocks s) (b_height b)) ex_chainB = true
            /\ w_tip s = Some 60
            /\ map (fun n => (n_key n, n_recv n, n_spent n)) (w_notes s) = [((1, 55), 1, [2; 3]); ((1, 7), 2, []); ((1, 8), 3, [])]
            /\ orphans_dead s 61
            /\ (bal_total s 61 0 1, bal_uneconomic s 61 0 1) = (0, 4000).
Proof.
  destruct (run 10 init [OScan ex_chainA; OTrunc 10]) as [s1| |] eqn:E1; try (vm_compute in E1; discriminate).
  destruct (run 10 s1 [OScan (skipn 1 ex_chainB); OTip 60]) as [s2| |] eqn:E2;
    try (vm_compute in E1; inversion E1; subst; vm_compute in E2; discriminate).
  exists s2. split.
  - cbn [run] in E2. destruct (step 10 s1 (OScan (skipn 1 ex_chainB))) as [s3| |] eqn:E3; try discriminate.
    apply (reachw_op ex_universeW 10 ex_chainB s3 (OTip 60) s2); [| intros bs H; discriminate |].
    2:{ destruct (step 10 s3 (OTip 60)) as [sx| |]; inversion E2; reflexivity. }
    apply (reachw_op ex_universeW 10 ex_chainB s1 (OScan (skipn 1 ex_chainB)) s3); [| | exact E3].
    + apply (reachw_switch ex_universeW 10 ex_chainA s1 ex_chainB 10).
      * cbn [run] in E1. destruct (step 10 init (OScan ex_chainA)) as [s0| |] eqn:E0; try discriminate.
        apply (reachw_op ex_universeW 10 ex_chainA s0 (OTrunc 10) s1); [| intros bs H; discriminate | ].
        -- apply (reachw_op ex_universeW 10 ex_chainA init (OScan ex_chainA) s0); [| | exact E0].
           ++ apply reachw_init; [exact ex_validA | intros x Hx; apply in_or_app; left; exact Hx | exact ex_ownA].
           ++ intros bs H. inversion H; subst. apply incl_refl.
        -- destruct (step 10 s0 (OTrunc 10)) as [sx| |]; inversion E1; reflexivity.
      * vm_compute in E1. inversion E1; subst. intros m Hm. unfold has_block in Hm. cbn [w_blocks find_block] in Hm.
        destruct (N.eqb 10 m) eqn:Em; [apply N.eqb_eq in Em; lia | cbn in Hm; discriminate].
      * intros b Hle. cbn. split; intros H; intuition (subst; cbn in Hle; try lia; auto).
      * exact ex_validB.
      * intros x Hx. cbn in Hx. cbn. intuition.
      * exact ex_ownB.
    + intros bs H. inversion H; subst. intros x Hx. cbn in Hx. cbn. intuition.
  - vm_compute in E1. inversion E1; subst. vm_compute in E2. inversion E2; subst.
    split; [vm_compute; reflexivity|]. split; [reflexivity|]. split; [vm_compute; reflexivity|].
    split; [| vm_compute; reflexivity].
    intros r Hr Hm. cbn in Hr. intuition (subst; cbn in Hm; try discriminate; vm_compute; reflexivity).
Qed.
