(** C01 — theorems (statements in full; proofs in Proofs.v).

    Model covered: [Model.run] over arbitrary sequences of [OScan] (the complete
    scan_cached_blocks / put_blocks_rows row logic, including the nullifier map, the tracking
    floor and the pruning), [OTip] and [OTrunc], started from the empty wallet.  What is NOT
    proved here (and is checked on the implementation by [prop_case] against the generator's
    ground truth, with the model tied to the implementation by [run_case]): that no spend in a
    scanned block is missed (completeness of the spent status: the nullifier-map / floor / prune
    argument), its consequences order independence and idempotence, and histories whose chain
    changes (forks). *)
From V.Lib Require Import Base.
From V.Gen Require Import C01Consts.
From V.C01 Require Import Model Spec Proofs.
Local Open Scope N_scope.

(** In every wallet state whatsoever, what the summary reports for an account and pool as
    total plus uneconomic value is the sum of the values of exactly the rows of the notes table
    that pass the summary's filter (receiving transaction unexpired, no unexpired spender): every
    such note is counted once, no other value enters. *)
Theorem C01_balance_is_sum_of_counted_notes :
  forall (s : wstate) (target acct pool : N),
    bal_total s target acct pool + bal_uneconomic s target acct pool
    = sumN (map n_value (bal_notes s target acct pool)).
Proof. exact balance_is_ledger_lemma. Qed.

(** No value is created and nothing is counted twice: after ANY sequence of scans (any ranges
    of the chain, any order, any chunking, repeats), tip updates and rewinds, every row of the
    notes table is an output of the chain addressed to that account with that value and
    receiving transaction, every recorded spender is a transaction of the chain that reveals
    the note's nullifier, no two rows have the same nullifier, and every scanned block is a
    block of the chain. *)
Theorem C01_ledger_sound :
  forall (birthday : N) (c : list block) (ops : list op) (s : wstate),
    heights_from birthday c ->
    (forall bs, In (OScan bs) ops -> incl bs c) ->
    run birthday init ops = Ok s ->
    (forall n, In n (w_notes s) ->
       (exists b t o, In b c /\ In t (b_txs b) /\ In o (t_outs t) /\ o_owner o = Some (n_acct n)
                      /\ o_key o = n_key n /\ o_value o = n_value n /\ t_id t = n_recv n)
       /\ (forall tid, In tid (n_spent n) ->
             exists b t, In b c /\ In t (b_txs b) /\ t_id t = tid /\ In (n_key n) (t_spends t)))
    /\ NoDup (map n_key (w_notes s))
    /\ (forall h x, In (h, x) (w_blocks s) -> exists b, In b c /\ b_height b = h /\ b_hash b = x).
Proof. exact ledger_sound_lemma. Qed.

(** No receipt is lost: after any such sequence, every output addressed to an account of the
    wallet in a block the wallet currently holds as scanned has its row in the notes table,
    with that account and value. *)
Theorem C01_receipts_complete :
  forall (birthday : N) (c : list block) (ops : list op) (s : wstate),
    heights_from birthday c -> NoDup (map o_key (all_outs c)) ->
    (forall bs, In (OScan bs) ops -> incl bs c) ->
    run birthday init ops = Ok s ->
    forall b t o a, In b c -> has_block (w_blocks s) (b_height b) = true ->
      In t (b_txs b) -> In o (t_outs t) -> o_owner o = Some a ->
      exists n, In n (w_notes s) /\ n_key n = o_key o /\ n_acct n = a /\ n_value n = o_value o.
Proof. exact receipts_complete_lemma. Qed.

(** A transaction un-mined by a rewind whose expiry is unknown stops counting (as a spender
    and as a receiver) once the target height passes its first observation by more than the
    default expiry delta. *)
Theorem C01_orphans_expire :
  forall (target : N) (r : txrow),
    x_mined r = None -> x_expiry r = None -> x_minobs r + DEFAULT_TX_EXPIRY_DELTA < target ->
    row_unexpired target r = false.
Proof. exact orphan_expires. Qed.

(** After a rewind to [h] no transaction is recorded as mined above [h]. *)
Theorem C01_truncate_unmines :
  forall (s : wstate) (h : N) (r : txrow),
    In r (w_txs (truncate s h)) -> match x_mined r with Some m => m <= h | None => True end.
Proof. exact truncate_unmines. Qed.

(** * Non-vacuity and necessity of the chain-validity guard *)

Definition ex_chain : list block :=
  [ mkBlock 10 1 0 [mkTx 1 [] [mkOut (Some 0) 1 70000 5; mkOut None 0 9 6]];
    mkBlock 11 2 1 [];
    mkBlock 12 3 2 [mkTx 2 [(1, 5)] [mkOut (Some 0) 1 4000 7]] ].

(** spend scanned before the receipt, then the receipt: linked through the nullifier map *)
Example ex_out_of_order :
  match run 10 init [OScan (skipn 1 ex_chain); OTip 12; OScan (firstn 1 ex_chain)] with
  | Ok s => (bal_total s 13 0 1, bal_uneconomic s 13 0 1, map n_spent (w_notes s)) = (0, 4000, [[]; [2]])
  | _ => False
  end.
Proof. vm_compute. reflexivity. Qed.

Example ex_hypotheses : heights_from 10 ex_chain /\ NoDup (map o_key (all_outs ex_chain)).
Proof. split; [cbn; auto|]. cbn. repeat constructor; cbn; intuition discriminate. Qed.

(** Why a note must be spent strictly above the block creating it (consensus guarantees it):
    a spend in the same block is not detected — the note stays unspent in the model (and in
    the code: the nullifier set is only updated between blocks, the map only after the block). *)
Example ex_same_block_spend_missed :
  match run 10 init [OScan [mkBlock 10 1 0 [mkTx 1 [] [mkOut (Some 0) 1 70000 5]; mkTx 2 [(1, 5)] []]]] with
  | Ok s => map n_spent (w_notes s) = [[]] /\ bal_total s 11 0 1 = 70000
  | _ => False
  end.
Proof. vm_compute. split; reflexivity. Qed.
