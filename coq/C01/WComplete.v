(** C01 — spend completeness over a universe with position-dependent nullifiers
    ([Spec.weak_universe], [Spec.own_versions]): the invariant carried through a transaction, a block, a batch,
    an operation.  See [inv] at the end of the file for the state-level statement. *)
From V.Lib Require Import Base.
From V.Gen Require Import C01Consts.
From V.C01 Require Import Model Spec Proofs Tables Chain WProofs WTables.
Local Open Scope N_scope.

Section WComplete.
Variable birthday : N.
Variable c : list block.
Hypothesis Hv : valid_chain birthday c.
(** [U]: all blocks the wallet was ever offered, over all branches; [c]: the current best chain *)
Variable U : list block.
Hypothesis HcU : incl c U.
Hypothesis HU : weak_universe U.
Hypothesis HownV : own_versions c U.

Let Hheights := vc_heights _ _ Hv.

(** a row of [transactions]: expiry unknown; when mined, mined at the height of a scanned block of
    the current chain that contains the transaction *)
Definition row_ok (Sc : N -> Prop) (r : txrow) : Prop :=
  x_expiry r = None
  /\ (exists b t, In b U /\ In t (b_txs b) /\ t_id t = x_id r)
  /\ (x_mined r = None
      \/ exists b t, In b c /\ In t (b_txs b) /\ t_id t = x_id r /\ x_mined r = Some (b_height b) /\ Sc (b_height b)).

Lemma row_ok_mono (Sc Sc' : N -> Prop) r : (forall m, Sc m -> Sc' m) -> row_ok Sc r -> row_ok Sc' r.
Proof.
  intros H [H1 [H0 H2]]. split; [assumption|]. split; [assumption|]. destruct H2 as [? | [b [t [? [? [? [? ?]]]]]]]; [left; assumption|].
  right. exists b, t. repeat split; auto.
Qed.

Lemma put_tx_meta_rows_ok (Sc : N -> Prop) b t txs :
  In b c -> In t (b_txs b) -> Sc (b_height b) ->
  Forall (row_ok Sc) txs -> Forall (row_ok Sc) (put_tx_meta (t_id t) (b_height b) txs).
Proof.
  intros Hb Ht HS Hr. rewrite Forall_forall in *. intros r Hin.
  destruct (put_tx_meta_In _ _ _ _ Hin) as [Hold | ->]; [auto|].
  assert (Hnew : forall e m, row_ok Sc (mkTxRow (t_id t) (Some (b_height b)) e m) <-> e = None).
  { intros e m. split; [intros [? _]; assumption|]. intros ->. split; [reflexivity|].
    split; [exists b, t; cbn; auto|]. right. exists b, t. cbn. auto. }
  destruct (find_row (t_id t) txs) as [r0|] eqn:E.
  - apply find_row_In in E. destruct E as [E1 E2]. destruct (Hr _ E1) as [H1 _]. apply Hnew. assumption.
  - apply Hnew. reflexivity.
Qed.

(** a mined row belongs to a transaction of a scanned block of the current chain *)
Lemma mined_row_chain (Sc : N -> Prop) txs x :
  Forall (row_ok Sc) txs -> row_mined txs x = true ->
  exists b t, In b c /\ In t (b_txs b) /\ t_id t = x /\ Sc (b_height b).
Proof.
  intros Hr Hm. unfold row_mined in Hm. destruct (find_row x txs) as [r|] eqn:E; [|discriminate].
  apply find_row_In in E. destruct E as [E1 E2]. rewrite Forall_forall in Hr. destruct (Hr _ E1) as [_ [_ H2]].
  destruct H2 as [Hn | [b [t [Hb [Ht [Hid [_ HS]]]]]]]; [rewrite Hn in Hm; discriminate|].
  exists b, t. repeat split; try assumption. congruence.
Qed.

(** the same transaction in two blocks of the universe: same spends; outputs up to nullifiers *)
Lemma same_tx_spends b t b' t' : In b U -> In t (b_txs b) -> In b' U -> In t' (b_txs b') -> t_id t = t_id t' -> t_spends t = t_spends t'.
Proof. intros. destruct (wu_tx _ HU b t b' t'); auto. Qed.

Lemma same_tx_out b t o b' t' :
  In b U -> In t (b_txs b) -> In o (t_outs t) -> In b' U -> In t' (b_txs b') -> t_id t = t_id t' ->
  exists o', In o' (t_outs t') /\ out_nonf o' = out_nonf o.
Proof.
  intros Hb Ht Ho Hb' Ht' E. destruct (wu_tx _ HU b t b' t' Hb Ht Hb' Ht' E) as [_ Hm].
  assert (Hin : In (out_nonf o) (map out_nonf (t_outs t'))) by (rewrite <- Hm; apply in_map; assumption).
  apply in_map_iff in Hin. destruct Hin as [o' [E' Ho']]. eauto.
Qed.

(** versions of one output (same name) agree on everything but the nullifier *)
Lemma versions_nonf b t o b' t' o' :
  In b U -> In t (b_txs b) -> In o (t_outs t) -> In b' U -> In t' (b_txs b') -> In o' (t_outs t') ->
  out_id t o = out_id t' o' -> out_nonf o = out_nonf o'.
Proof.
  intros Hb Ht Ho Hb' Ht' Ho' E. unfold out_id in E. inversion E as [[Ep Et Ei]].
  destruct (same_tx_out b t o b' t' Hb Ht Ho Hb' Ht' Et) as [o'' [Ho'' En]].
  assert (o'' = o').
  { apply (wu_idx _ HU b' t' o'' o'); auto; unfold out_nonf in En; inversion En; congruence. }
  subst. auto.
Qed.

(** within the current chain an output name determines the output *)
Lemma chain_out_id b t o b' t' o' :
  In b c -> In t (b_txs b) -> In o (t_outs t) -> In b' c -> In t' (b_txs b') -> In o' (t_outs t') ->
  out_id t o = out_id t' o' -> b = b' /\ t = t' /\ o = o'.
Proof.
  intros Hb Ht Ho Hb' Ht' Ho' E. unfold out_id in E. inversion E as [[Ep Et Ei]].
  destruct (tx_unique birthday c Hv b t b' t') as [-> ->]; auto. split; [reflexivity|]. split; [reflexivity|].
  apply (vc_idx _ _ Hv b' t' o o'); auto.
Qed.

(** spenders recorded for an output reveal the nullifier of some version of it *)
Lemma spent_char_w notes i x :
  Forall (note_sound_w U) notes -> In x (spent_id i notes) ->
  exists b t k, In b U /\ In t (b_txs b) /\ t_id t = x /\ version U i k /\ In k (t_spends t).
Proof.
  intros Hs Hx. unfold spent_id in Hx. destruct (find_id i notes) as [n|] eqn:E; [|destruct Hx].
  apply find_id_In in E. destruct E as [E1 E2]. rewrite Forall_forall in Hs.
  destruct (Hs _ E1) as [_ H2]. rewrite <- E2. auto.
Qed.

(** a mined spender of an output that the current chain contains reveals the chain's own version *)
Lemma mined_spender_own (Sc0 : N -> Prop) txs notes b0 t0 o x :
  Forall (note_sound_w U) notes -> Forall (row_ok Sc0) txs ->
  In b0 c -> In t0 (b_txs b0) -> In o (t_outs t0) ->
  In x (spent_id (out_id t0 o) notes) -> row_mined txs x = true ->
  exists b1 t1, In b1 c /\ In t1 (b_txs b1) /\ t_id t1 = x /\ Sc0 (b_height b1) /\ In (o_key o) (t_spends t1).
Proof.
  intros Hs Hr Hb0 Ht0 Ho Hx Hm.
  destruct (spent_char_w _ _ _ Hs Hx) as [b' [t' [k [Hb' [Ht' [Hid [[bV [tV [oV [HbV [HtV [HoV [Ei Ek]]]]]]] Hk]]]]]]].
  destruct (mined_row_chain _ _ _ Hr Hm) as [b1 [t1 [Hb1 [Ht1 [Hid1 HS]]]]].
  exists b1, t1. repeat split; try assumption.
  assert (Es : t_spends t1 = t_spends t') by (apply (same_tx_spends b1 t1 b' t'); auto; congruence).
  rewrite Es. subst k.
  rewrite <- (HownV b1 t1 bV tV oV b0 t0 o); auto. rewrite Es. assumption.
Qed.

(** * Context of one block of a batch *)

Section Block.
Variable Q : N -> Prop.            (* heights processed before this block *)
Variable cb : block.               (* the block being written *)
Hypothesis Hcb : In cb c.
Variable nfs : list key.           (* unspent-nullifier set used to scan this block *)
Variable nfm : list (key * (N * N)).
Variable locs : list loc.

Let h := b_height cb.
Definition Sc (m : N) : Prop := Q m \/ m = h.

Definition Dp (pre : list tx) (b : block) (t : tx) : Prop := Q (b_height b) \/ (b = cb /\ In t pre).

(** nullifier-map completeness with respect to the heights [Q] *)
Definition nfmap_complete (P : N -> Prop) (nfm0 : list (key * (N * N))) (locs0 : list loc) : Prop :=
  forall b t i o b0 t0,
    In b c -> P (b_height b) -> nth_error (b_txs b) i = Some t -> In (o_key o) (t_spends t) ->
    In b0 c -> In t0 (b_txs b0) -> In o (t_outs t0) -> owned o = true -> ~ P (b_height b0) ->
    find_nf (o_key o) nfm0 = Some (b_height b, N.of_nat i)
    /\ find_loc (b_height b) (N.of_nat i) locs0 = Some (t_id t).

Hypothesis HM : nfmap_complete Q nfm locs.
Hypothesis HLs : Forall (loc_sound c) locs.
Hypothesis HNs : Forall (nfe_sound c) nfm.
Hypothesis HL1 : forall h' i t', In (h', i, t') locs -> Q h'.
Hypothesis HQdec : forall m, Q m \/ ~ Q m.

Record txinv (pre : list tx) (txs : list txrow) (notes : list note) : Prop := {
  ti_sound : Forall (note_sound_w U) notes;
  ti_nodup : NoDup (map nid notes);
  ti_rows : Forall (row_ok Sc) txs;
  ti_recv : forall b t o, In b c -> In t (b_txs b) -> Dp pre b t -> In o (t_outs t) -> owned o = true ->
              row_mined txs (t_id t) = true;
  ti_has : forall b t o, In b c -> In t (b_txs b) -> Dp pre b t -> In o (t_outs t) -> owned o = true ->
              key_id (out_id t o) notes = Some (o_key o);
  ti_spent : forall b t o b' t', In b c -> In t (b_txs b) -> Dp pre b t -> In o (t_outs t) -> owned o = true ->
              In b' c -> In t' (b_txs b') -> Dp pre b' t' -> In (o_key o) (t_spends t') ->
              In (t_id t') (spent_id (out_id t o) notes);
  ti_spm : forall b t o b' t', In b c -> In t (b_txs b) -> Dp pre b t -> In o (t_outs t) -> owned o = true ->
              In b' c -> In t' (b_txs b') -> Dp pre b' t' -> In (o_key o) (t_spends t') ->
              row_mined txs (t_id t') = true;
  ti_f2 : forall b t o, In b c -> In t (b_txs b) -> In o (t_outs t) -> owned o = true ->
              Q (b_height b) -> b_height b < h ->
              (forall x, In x (spent_id (out_id t o) notes) -> row_mined txs x = false) -> mem_key (o_key o) nfs = true
}.

Lemma Dp_snoc pre t0 b t : Dp (pre ++ [t0]) b t <-> Dp pre b t \/ (b = cb /\ t = t0).
Proof.
  unfold Dp. rewrite in_app_iff. cbn [In]. intuition (subst; auto).
Qed.

(** a spend, in the current block, of a note created in an already processed block is
    either in the unspent set or already recorded *)
Lemma spend_known pre txs notes t b0 t0 o :
  txinv pre txs notes -> In t (b_txs cb) ->
  In b0 c -> In t0 (b_txs b0) -> Dp pre b0 t0 -> In o (t_outs t0) -> owned o = true ->
  In (o_key o) (t_spends t) ->
  mem_key (o_key o) nfs = true
  \/ (In (t_id t) (spent_id (out_id t0 o) notes) /\ row_mined txs (t_id t) = true).
Proof.
  intros I Ht Hb0 Ht0 HD Ho Hown Hk.
  assert (Hlt : b_height b0 < h) by (eapply (spend_above birthday c Hv); eauto).
  assert (HQ : Q (b_height b0)).
  { destruct HD as [? | [-> _]]; [assumption | unfold h in Hlt; lia]. }
  destruct (existsb (row_mined txs) (spent_id (out_id t0 o) notes)) eqn:E.
  - right. apply existsb_exists in E. destruct E as [x [Hx Hm]].
    destruct (mined_spender_own _ _ _ b0 t0 o x (ti_sound _ _ _ I) (ti_rows _ _ _ I) Hb0 Ht0 Ho Hx Hm) as [b1 [t1 [Hb1 [Ht1 [Hid1 [_ Hk1]]]]]].
    destruct (reveal_unique birthday c Hv b1 t1 cb t (o_key o)) as [_ ->]; auto.
    rewrite Hid1. auto.
  - left. eapply (ti_f2 _ _ _ I); eauto. intros x Hx.
    destruct (row_mined txs x) eqn:Em; [|reflexivity].
    assert (existsb (row_mined txs) (spent_id (out_id t0 o) notes) = true) by (apply existsb_exists; eauto). congruence.
Qed.

(** ** a transaction that produces no WalletTx *)
Lemma step_skip pre txs notes t :
  In t (b_txs cb) ->
  filter (fun k => mem_key k nfs) (t_spends t) = [] -> filter owned (t_outs t) = [] ->
  txinv pre txs notes -> txinv (pre ++ [t]) txs notes.
Proof.
  intros Ht Hf Ho I.
  assert (Hnoown : forall o, In o (t_outs t) -> owned o = true -> False).
  { intros o H1 H2. assert (In o (filter owned (t_outs t))) by (apply filter_In; auto). rewrite Ho in H. destruct H. }
  assert (Hnomem : forall k, In k (t_spends t) -> mem_key k nfs = true -> False).
  { intros k H1 H2. assert (In k (filter (fun k => mem_key k nfs) (t_spends t))) by (apply filter_In; auto).
    rewrite Hf in H. destruct H. }
  pose proof I as I0. destruct I as [I1 I2 I3 I4 I5 I6 I6' I7]. constructor; try assumption.
  - intros b t0 o Hb Ht0 HD Hoo Hown. apply Dp_snoc in HD. destruct HD as [HD | [-> ->]]; [eauto | exfalso; eauto].
  - intros b t0 o Hb Ht0 HD Hoo Hown. apply Dp_snoc in HD. destruct HD as [HD | [-> ->]]; [eauto | exfalso; eauto].
  - intros b t0 o b' t' Hb Ht0 HD Hoo Hown Hb' Ht' HD' Hk.
    apply Dp_snoc in HD. destruct HD as [HD | [-> ->]]; [|exfalso; eauto].
    apply Dp_snoc in HD'. destruct HD' as [HD' | [-> ->]]; [eauto|].
    destruct (spend_known pre txs notes t b t0 o I0 Ht Hb Ht0 HD Hoo Hown Hk) as [Hm | [Hin _]]; [exfalso; eauto | assumption].
  - intros b t0 o b' t' Hb Ht0 HD Hoo Hown Hb' Ht' HD' Hk.
    apply Dp_snoc in HD. destruct HD as [HD | [-> ->]]; [|exfalso; eauto].
    apply Dp_snoc in HD'. destruct HD' as [HD' | [-> ->]]; [eauto|].
    destruct (spend_known pre txs notes t b t0 o I0 Ht Hb Ht0 HD Hoo Hown Hk) as [Hm | [_ Hin]]; [exfalso; eauto | assumption].
Qed.

(** what a hit in the nullifier map refers to *)
Lemma detect_chain k t' h' :
  detect_spend nfm locs k = Some (t', h') ->
  exists b t0, In b c /\ In t0 (b_txs b) /\ t_id t0 = t' /\ b_height b = h' /\ Sc h'.
Proof.
  unfold detect_spend. destruct (find_nf k nfm) as [[h0 i]|]; [|discriminate].
  destruct (find_loc h0 i locs) as [t0|] eqn:E; [|discriminate]. intros H; inversion H; subst.
  apply find_loc_In in E. pose proof (HL1 _ _ _ E) as HQ.
  rewrite Forall_forall in HLs. destruct (HLs _ E) as [b [t1 [Hb [Hh [Hnth Hid]]]]].
  exists b, t1. repeat split; try assumption; [eapply nth_error_In; eauto | left; assumption].
Qed.

(** ** a transaction that produces a WalletTx *)
Lemma step_wtx pre txs notes t w txs' notes' :
  In t (b_txs cb) ->
  wt_id w = t_id t ->
  wt_found w = filter (fun k => mem_key k nfs) (t_spends t) ->
  wt_owned w = filter owned (t_outs t) ->
  put_wtx h nfm locs w txs notes = Some (txs', notes') ->
  txinv pre txs notes -> txinv (pre ++ [t]) txs' notes'.
Proof.
  intros Ht Hid Hfound Hown Hput I.
  unfold put_wtx in Hput. rewrite Hid in Hput.
  destruct (mark_all (put_tx_meta (t_id t) h txs) (wt_found w) (t_id t) notes) as [notes1|] eqn:Em; [|discriminate].
  inversion Hput as [E']. clear Hput.
  set (txs1 := put_tx_meta (t_id t) h txs) in *.
  assert (Hndk : NoDup (map n_key notes)) by (apply (sound_nodup_keys U HU); [apply (ti_sound _ _ _ I) | apply (ti_nodup _ _ _ I)]).
  pose proof (fun i => mark_all_id _ _ _ _ _ i Hndk Em) as A.
  assert (Hoi : forall o, oi (t_id t) o = out_id t o) by reflexivity.
  assert (Hinj : forall o o', In o (wt_owned w) -> In o' (wt_owned w) -> oi (t_id t) o = oi (t_id t) o' -> o_key o = o_key o').
  { intros o o' Ho Ho' E. rewrite Hown in Ho, Ho'. apply filter_In in Ho, Ho'.
    destruct (chain_out_id cb t o cb t o') as [_ [_ ->]]; tauto. }
  destruct (put_outputs_id _ _ _ _ _ _ _ _ E' Hinj) as [BK [BF BS]].
  assert (Hmono : forall i x, In x (spent_id i notes) -> In x (spent_id i notes')).
  { intros i x Hx. apply BS. left. apply (A i). left. assumption. }
  destruct (put_outputs_mined _ _ _ _ _ _ _ _ E') as [RM RD].
  assert (Hrm : forall id, row_mined txs id = true -> row_mined txs' id = true).
  { intros id Hm. apply RM. apply row_mined_put. left. assumption. }
  assert (Hrt : row_mined txs' (t_id t) = true).
  { apply RM. apply row_mined_put. right. reflexivity. }
  (* the nullifier recorded for an output of an already processed transaction is unchanged *)
  assert (Hkeep : forall b0 t0 o0, In b0 c -> In t0 (b_txs b0) -> In o0 (t_outs t0) ->
            key_id (out_id t0 o0) notes = Some (o_key o0) -> key_id (out_id t0 o0) notes' = Some (o_key o0)).
  { intros b0 t0 o0 Hb0 Ht0 Ho0 Hk.
    destruct (existsb (fun o' => oid_eqb (oi (t_id t) o') (out_id t0 o0)) (wt_owned w)) eqn:Ex.
    - apply existsb_exists in Ex. destruct Ex as [o' [Ho' E]]. apply oid_eqb_eq in E.
      rewrite <- E, (BK o' Ho'). f_equal. rewrite Hown in Ho'. apply filter_In in Ho'.
      destruct (chain_out_id cb t o' b0 t0 o0) as [_ [_ ->]]; tauto.
    - unfold key_id. rewrite BF.
      + fold (key_id (out_id t0 o0) notes1). rewrite (proj1 (A _)). assumption.
      + intros o' Ho' E. assert (existsb (fun o' => oid_eqb (oi (t_id t) o') (out_id t0 o0)) (wt_owned w) = true); [|congruence].
        apply existsb_exists. exists o'. split; [assumption | apply oid_eqb_eq; assumption]. }
  (* soundness of the new notes table *)
  assert (Hsnd : Forall (note_sound_w U) notes' /\ NoDup (map nid notes')).
  { apply (put_wtxs_sound_w c U HcU birthday Hheights h nfm locs HNs HLs [w] txs notes txs' notes').
    - intros w0 [<- | []]. exists cb, t. repeat split; try assumption.
      + rewrite Hfound. intros k Hk. apply filter_In in Hk. tauto.
      + rewrite Hown. apply incl_refl.
    - cbn [put_wtxs]. unfold put_wtx. rewrite Hid. fold txs1. rewrite Em, E'. reflexivity.
    - apply (ti_sound _ _ _ I).
    - apply (ti_nodup _ _ _ I). }
  destruct Hsnd as [Hs' Hnd'].
  assert (Hrows1 : Forall (row_ok Sc) txs1).
  { apply put_tx_meta_rows_ok; auto; [right; reflexivity | apply (ti_rows _ _ _ I)]. }
  constructor; try assumption.
  - (* rows *)
    eapply (put_outputs_rows (Forall (row_ok Sc))); [| exact E' | exact Hrows1].
    intros k t' h' l Hd Hl. destruct (detect_chain _ _ _ Hd) as [b [t0 [Hb [Ht0 [<- [<- HS]]]]]].
    apply put_tx_meta_rows_ok; assumption.
  - (* receiving transactions are mined *)
    intros b t0 o Hb Ht0 HD Ho Hoo.
    eapply (put_outputs_rows (fun l => row_mined l (t_id t0) = true)); [| exact E' |].
    + intros k t' h' l _ Hl. apply row_mined_put. left. assumption.
    + apply row_mined_put. apply Dp_snoc in HD. destruct HD as [HD | [-> ->]]; [left; eapply (ti_recv _ _ _ I); eauto | right; reflexivity].
  - (* every owned output of a processed transaction has its row, under its current nullifier *)
    intros b t0 o Hb Ht0 HD Ho Hoo. apply Dp_snoc in HD. destruct HD as [HD | [-> ->]].
    + apply (Hkeep b t0 o Hb Ht0 Ho). exact (ti_has _ _ _ I b t0 o Hb Ht0 HD Ho Hoo).
    + rewrite <- Hoi. apply BK. rewrite Hown. apply filter_In. auto.
  - (* spends *)
    intros b t0 o b' t' Hb Ht0 HD Ho Hoo Hb' Ht' HD' Hk.
    apply Dp_snoc in HD. apply Dp_snoc in HD'.
    destruct HD as [HD | [-> ->]].
    + destruct HD' as [HD' | [-> ->]].
      * apply Hmono. exact (ti_spent _ _ _ I b t0 o b' t' Hb Ht0 HD Ho Hoo Hb' Ht' HD' Hk).
      * destruct (spend_known pre txs notes t b t0 o I Ht Hb Ht0 HD Ho Hoo Hk) as [Hm | [Hin _]]; [|apply Hmono; assumption].
        apply BS. left. apply (A (out_id t0 o)). right. exists (o_key o). split; [|split; [|reflexivity]].
        -- rewrite Hfound. apply filter_In. auto.
        -- exact (ti_has _ _ _ I b t0 o Hb Ht0 HD Ho Hoo).
    + (* the note is created by this transaction *)
      assert (Hlt : h < b_height b') by (eapply (spend_above birthday c Hv cb t o); eauto).
      destruct HD' as [HD' | [-> ->]]; [|unfold h in Hlt; lia].
      assert (HQ' : Q (b_height b')) by (destruct HD' as [? | [-> _]]; [assumption | unfold h in Hlt; lia]).
      destruct (HQdec h) as [HQh | HnQh].
      * apply Hmono. refine (ti_spent _ _ _ I cb t o b' t' Hcb Ht _ Ho Hoo Hb' Ht' HD' Hk). left. assumption.
      * destruct (In_nth_error _ _ Ht') as [i Hi].
        destruct (HM b' t' i o cb t Hb' HQ' Hi Hk Hcb Ht Ho Hoo HnQh) as [M1 M2].
        apply BS. right. exists o, (b_height b'). split; [rewrite Hown; apply filter_In; auto|]. split; [reflexivity|].
        unfold detect_spend. rewrite M1, M2. reflexivity.
  - (* spenders in processed transactions are mined *)
    intros b t0 o b' t' Hb Ht0 HD Ho Hoo Hb' Ht' HD' Hk.
    apply Dp_snoc in HD. apply Dp_snoc in HD'.
    destruct HD' as [HD' | [-> ->]]; [|assumption].
    destruct HD as [HD | [-> ->]].
    + apply Hrm. exact (ti_spm _ _ _ I b t0 o b' t' Hb Ht0 HD Ho Hoo Hb' Ht' HD' Hk).
    + assert (Hlt : h < b_height b') by (eapply (spend_above birthday c Hv cb t o); eauto).
      assert (HQ' : Q (b_height b')) by (destruct HD' as [? | [-> _]]; [assumption | unfold h in Hlt; lia]).
      destruct (HQdec h) as [HQh | HnQh].
      * apply Hrm. refine (ti_spm _ _ _ I cb t o b' t' Hcb Ht _ Ho Hoo Hb' Ht' HD' Hk). left. assumption.
      * destruct (In_nth_error _ _ Ht') as [i Hi].
        destruct (HM b' t' i o cb t Hb' HQ' Hi Hk Hcb Ht Ho Hoo HnQh) as [M1 M2].
        apply (RD o (t_id t') (b_height b')); [rewrite Hown; apply filter_In; auto|].
        unfold detect_spend. rewrite M1, M2. reflexivity.
  - (* the unspent set still covers the unspent notes of earlier blocks *)
    intros b t0 o Hb Ht0 Ho Hoo HQ Hlt Hnil.
    eapply (ti_f2 _ _ _ I); eauto. intros x Hx.
    destruct (row_mined txs x) eqn:Emx; [|reflexivity].
    rewrite <- (Hnil x (Hmono _ _ Hx)). symmetry. apply Hrm. assumption.
Qed.

(** ** all transactions of the block *)
Lemma put_wtxs_complete : forall post pre idx txs notes txs' notes',
  (forall t, In t post -> In t (b_txs cb)) ->
  put_wtxs h nfm locs (fst (scan_txs nfs idx post)) txs notes = Some (txs', notes') ->
  txinv pre txs notes -> txinv (pre ++ post) txs' notes'.
Proof.
  induction post as [|t post IH]; intros pre idx txs notes txs' notes' Hin H I.
  - cbn in H. inversion H; subst. rewrite app_nil_r. assumption.
  - cbn [scan_txs] in H. destruct (scan_txs nfs (N.succ idx) post) as [ws us] eqn:Es.
    assert (Ht : In t (b_txs cb)) by (apply Hin; left; reflexivity).
    assert (Hin' : forall t0, In t0 post -> In t0 (b_txs cb)) by (intros; apply Hin; right; assumption).
    replace (pre ++ t :: post) with ((pre ++ [t]) ++ post) by (rewrite <- app_assoc; reflexivity).
    unfold scan_tx in H.
    set (found := filter (fun k => mem_key k nfs) (t_spends t)) in *.
    set (own := filter owned (t_outs t)) in *.
    assert (Hws : ws = fst (scan_txs nfs (N.succ idx) post)) by (rewrite Es; reflexivity).
    assert (Hsome : forall w, w = mkWtx (t_id t) idx found own ->
              put_wtxs h nfm locs (w :: ws) txs notes = Some (txs', notes') -> txinv ((pre ++ [t]) ++ post) txs' notes').
    { intros w -> Hp. cbn [put_wtxs] in Hp.
      destruct (put_wtx h nfm locs (mkWtx (t_id t) idx found own) txs notes) as [[txs1 notes1]|] eqn:Ew; [|discriminate].
      rewrite Hws in Hp. eapply IH; [exact Hin' | exact Hp |].
      eapply step_wtx; [exact Ht | | | | exact Ew | exact I]; reflexivity. }
    destruct found as [|k0 found0] eqn:Ef; destruct own as [|o0 own0] eqn:Eo; cbn [fst] in H.
    + rewrite Hws in H. eapply IH; [exact Hin' | exact H |]. apply step_skip; assumption.
    + eapply Hsome; [reflexivity | exact H].
    + eapply Hsome; [reflexivity | exact H].
    + eapply Hsome; [reflexivity | exact H].
Qed.

End Block.

(** * Between the blocks of a batch *)

Definition Qof (bl : list (N * N)) (m : N) : Prop := has_block bl m = true.

Lemma Qof_dec bl m : Qof bl m \/ ~ Qof bl m.
Proof. unfold Qof. destruct (has_block bl m); [left; reflexivity | right; discriminate]. Qed.

Record blkinv (nfs : list key) (hn : N) (r : rows) : Prop := {
  bi_sound : sound_rows_w c U (r_blocks r) (r_notes r) (r_locs r) (r_nfmap r);
  bi_rows : Forall (row_ok (Qof (r_blocks r))) (r_txs r);
  bi_recv : forall b t o, In b c -> In t (b_txs b) -> Qof (r_blocks r) (b_height b) -> In o (t_outs t) -> owned o = true ->
              row_mined (r_txs r) (t_id t) = true;
  bi_has : forall b t o, In b c -> In t (b_txs b) -> Qof (r_blocks r) (b_height b) -> In o (t_outs t) -> owned o = true ->
              key_id (out_id t o) (r_notes r) = Some (o_key o);
  bi_spent : forall b t o b' t', In b c -> In t (b_txs b) -> Qof (r_blocks r) (b_height b) -> In o (t_outs t) -> owned o = true ->
              In b' c -> In t' (b_txs b') -> Qof (r_blocks r) (b_height b') -> In (o_key o) (t_spends t') ->
              In (t_id t') (spent_id (out_id t o) (r_notes r));
  bi_spm : forall b t o b' t', In b c -> In t (b_txs b) -> Qof (r_blocks r) (b_height b) -> In o (t_outs t) -> owned o = true ->
              In b' c -> In t' (b_txs b') -> Qof (r_blocks r) (b_height b') -> In (o_key o) (t_spends t') ->
              row_mined (r_txs r) (t_id t') = true;
  bi_f1 : forall k, mem_key k nfs = true ->
              exists b t o, In b c /\ In t (b_txs b) /\ In o (t_outs t) /\ owned o = true /\ o_key o = k
                            /\ Qof (r_blocks r) (b_height b);
  bi_f2 : forall b t o, In b c -> In t (b_txs b) -> In o (t_outs t) -> owned o = true ->
              Qof (r_blocks r) (b_height b) -> b_height b < hn ->
              (forall x, In x (spent_id (out_id t o) (r_notes r)) -> row_mined (r_txs r) x = false) ->
              mem_key (o_key o) nfs = true;
  bi_M : nfmap_complete (Qof (r_blocks r)) (r_nfmap r) (r_locs r);
  bi_L1 : forall h' i t', In (h', i, t') (r_locs r) -> Qof (r_blocks r) h';
  bi_N1 : forall k h' i, In (k, (h', i)) (r_nfmap r) -> Qof (r_blocks r) h'
}.

Lemma put_sblock_complete floor nfs r r' cb :
  In cb c -> blkinv nfs (b_height cb) r ->
  (should_track floor (b_height cb) = false ->
     forall m, birthday <= m -> m < b_height cb -> Qof (r_blocks r) m) ->
  put_sblock floor (scan_block nfs cb) r = Ok r' ->
  blkinv (update_nfs nfs (scan_block nfs cb)) (b_height cb + 1) r'
  /\ (forall m, Qof (r_blocks r') m <-> m = b_height cb \/ Qof (r_blocks r) m).
Proof.
  intros Hcb I Hfloor H.
  pose proof (put_sblock_sound_w c U HcU birthday Hheights floor nfs cb r r' Hcb H (bi_sound _ _ _ I)) as Hsound'.
  unfold put_sblock, scan_block in H.
  destruct (scan_txs nfs 0 (b_txs cb)) as [ws us] eqn:Es. cbn [sb_height sb_hash sb_wtxs sb_unl] in H.
  assert (Esb : scan_block nfs cb = mkSb (b_height cb) (b_hash cb) ws us) by (unfold scan_block; rewrite Es; reflexivity).
  rewrite Esb. clear Esb.
  set (h := b_height cb) in *.
  set (Q := Qof (r_blocks r)) in *.
  destruct (put_block h (b_hash cb) (r_blocks r)) as [bl'|] eqn:Eb; [|discriminate].
  destruct (put_wtxs h (r_nfmap r) (r_locs r) ws (r_txs r) (r_notes r)) as [[txs' notes']|] eqn:Ew; [|discriminate].
  assert (HQ' : forall m, Qof bl' m <-> m = h \/ Q m) by (intros m; apply (has_block_put_iff _ _ _ _ m Eb)).
  (* the transactions of the block *)
  assert (T0 : txinv Q cb nfs [] (r_txs r) (r_notes r)).
  { destruct I as [[S1 S2 S3 S4 S5] I2 I3 I4 I5 I5' I6 I7 I8 I9 I10]. constructor; try assumption.
    - eapply Forall_impl; [|exact I2]. intros x. apply row_ok_mono. intros m Hm. left. assumption.
    - intros b t o Hb Ht [HD | [_ []]]; eauto.
    - intros b t o Hb Ht [HD | [_ []]]; eauto.
    - intros b t o b' t' Hb Ht [HD | [_ []]] Ho Hoo Hb' Ht' [HD' | [_ []]]; eauto.
    - intros b t o b' t' Hb Ht [HD | [_ []]] Ho Hoo Hb' Ht' [HD' | [_ []]]; eauto. }
  assert (T : txinv Q cb nfs (b_txs cb) txs' notes').
  { apply (put_wtxs_complete Q cb Hcb nfs (r_nfmap r) (r_locs r) (bi_M _ _ _ I)
             (sw_locs _ _ _ _ _ _ (bi_sound _ _ _ I)) (sw_nfm _ _ _ _ _ _ (bi_sound _ _ _ I)) (bi_L1 _ _ _ I)
             (Qof_dec (r_blocks r)) (b_txs cb) [] 0 (r_txs r) (r_notes r) txs' notes'); auto.
    rewrite Es. exact Ew. }
  assert (HD : forall b t, In b c -> In t (b_txs b) -> (Dp Q cb (b_txs cb) b t <-> Qof bl' (b_height b))).
  { intros b t Hb Ht. rewrite HQ'. unfold Dp. split.
    - intros [? | [-> _]]; [right; assumption | left; reflexivity].
    - intros [E | ?]; [|left; assumption]. right. split; [|].
      + apply (vc_height_inj birthday c Hv); assumption.
      + assert (b = cb) by (apply (vc_height_inj birthday c Hv); assumption). subst. assumption. }
  assert (HSc : forall m, Sc Q cb m <-> Qof bl' m).
  { intros m. rewrite HQ'. unfold Sc. fold h. tauto. }
  (* facts about the scanned block *)
  pose proof (scan_txs_spec nfs (b_txs cb) 0) as Hspec. rewrite Es in Hspec. cbn [fst snd] in Hspec. destruct Hspec as [Hw Hu].
  assert (U1 : forall j t, nth_error (b_txs cb) j = Some t ->
                 In (N.of_nat j, t_id t, filter (fun k => negb (mem_key k nfs)) (t_spends t)) us).
  { intros j t Hj. pose proof (scan_txs_entry nfs (b_txs cb) 0 j t Hj) as He. rewrite Es in He. exact He. }
  assert (U2 : flat_map (fun e : N * N * list key => snd e) us
               = filter (fun k => negb (mem_key k nfs)) (flat_map t_spends (b_txs cb))).
  { pose proof (scan_txs_unl_flat nfs (b_txs cb) 0) as He. rewrite Es in He. exact He. }
  assert (U3 : NoDup (flat_map (fun e : N * N * list key => snd e) us)).
  { rewrite U2. apply NoDup_filter. apply (block_spends_nodup birthday c Hv). assumption. }
  (* the parts of the invariant that do not depend on the nullifier map *)
  assert (Hcommon : forall locs' nfm',
            sound_rows_w c U bl' notes' locs' nfm' ->
            nfmap_complete (Qof bl') nfm' locs' ->
            (forall h' i t', In (h', i, t') locs' -> Qof bl' h') ->
            (forall k h' i, In (k, (h', i)) nfm' -> Qof bl' h') ->
            blkinv (update_nfs nfs (mkSb h (b_hash cb) ws us)) (h + 1) (mkRows bl' txs' notes' locs' nfm')).
  { intros locs' nfm' Hs HM' HL' HN'. constructor; cbn [r_blocks r_txs r_notes r_locs r_nfmap]; try assumption.
    - eapply Forall_impl; [|exact (ti_rows _ _ _ _ _ _ T)]. intros x. apply row_ok_mono. intros m. apply HSc.
    - intros b t o Hb Ht HQb. apply (ti_recv _ _ _ _ _ _ T b t o Hb Ht). apply HD; assumption.
    - intros b t o Hb Ht HQb. apply (ti_has _ _ _ _ _ _ T b t o Hb Ht). apply HD; assumption.
    - intros b t o b' t' Hb Ht HQb Ho Hoo Hb' Ht' HQb'.
      apply (ti_spent _ _ _ _ _ _ T b t o b' t' Hb Ht); [apply HD | | | | | apply HD]; assumption.
    - intros b t o b' t' Hb Ht HQb Ho Hoo Hb' Ht' HQb'.
      apply (ti_spm _ _ _ _ _ _ T b t o b' t' Hb Ht); [apply HD | | | | | apply HD]; assumption.
    - (* f1 *)
      intros k Hk. unfold update_nfs in Hk. cbn [sb_wtxs] in Hk. apply mem_key_In in Hk. apply in_app_or in Hk.
      destruct Hk as [Hk | Hk].
      + apply filter_In in Hk. destruct Hk as [Hk _]. apply mem_key_In in Hk.
        destruct (bi_f1 _ _ _ I k Hk) as [b [t [o [H1 [H2 [H3 [H4 [H5 H6]]]]]]]].
        exists b, t, o. repeat split; try assumption. apply HQ'. right. assumption.
      + apply in_map_iff in Hk. destruct Hk as [o [<- Ho]]. apply in_flat_map in Ho. destruct Ho as [w [Hw1 Hw2]].
        destruct (Hw w Hw1) as [t [Ht [_ [_ Hown]]]]. apply Hown in Hw2. apply filter_In in Hw2.
        exists cb, t, o. repeat split; try tauto. apply HQ'. left. reflexivity.
    - (* f2 *)
      intros b t o Hb Ht Ho Hoo HQb Hlt Hnil. unfold update_nfs. cbn [sb_wtxs]. apply mem_key_In. apply in_or_app.
      apply HQ' in HQb. destruct (N.eq_dec (b_height b) h) as [E | Hne].
      + right. assert (b = cb) by (apply (vc_height_inj birthday c Hv); assumption). subst b.
        destruct (scan_txs_owned nfs (b_txs cb) 0 t o Ht Ho Hoo) as [w [Hw1 Hw2]]. rewrite Es in Hw1. cbn [fst] in Hw1.
        apply in_map. apply in_flat_map. eauto.
      + left. assert (HQb0 : Q (b_height b)) by (destruct HQb; [contradiction | assumption]).
        apply filter_In. split.
        * apply mem_key_In. apply (ti_f2 _ _ _ _ _ _ T b t o); auto. fold h. lia.
        * apply negb_true_iff. destruct (mem_key (o_key o) (flat_map wt_found ws)) eqn:Em; [|reflexivity]. exfalso.
          apply mem_key_In in Em. apply in_flat_map in Em. destruct Em as [w [Hw1 Hw2]].
          destruct (Hw w Hw1) as [t' [Ht' [_ [Hfound _]]]]. apply Hfound in Hw2.
          assert (Hin : In (t_id t') (spent_id (out_id t o) notes')).
          { apply (ti_spent _ _ _ _ _ _ T b t o cb t'); auto; [left; assumption | right; auto]. }
          assert (Hmi : row_mined txs' (t_id t') = true).
          { apply (ti_spm _ _ _ _ _ _ T b t o cb t'); auto; [left; assumption | right; auto]. }
          rewrite (Hnil _ Hin) in Hmi. discriminate. }
  assert (Hres : forall locs' nfm', r' = mkRows bl' txs' notes' locs' nfm' ->
            nfmap_complete (Qof bl') nfm' locs' -> (forall h' i t', In (h', i, t') locs' -> Qof bl' h') ->
            (forall k h' i, In (k, (h', i)) nfm' -> Qof bl' h') ->
            blkinv (update_nfs nfs (mkSb h (b_hash cb) ws us)) (h + 1) r'
            /\ (forall m, Qof (r_blocks r') m <-> m = h \/ Q m)).
  { intros locs' nfm' -> HM' HL' HN'. split; [|exact HQ']. apply Hcommon; assumption. }
  (* old entries of the map stay what they were, unless this block reveals the nullifier *)
  destruct (should_track floor h) eqn:Etrack.
  - destruct (track h us (r_locs r) (r_nfmap r)) as [[locs' nfm']|] eqn:Et; [|discriminate].
    inversion H; subst r'. clear H.
    destruct (track_spec _ _ _ _ _ _ Et U3) as [K1 [K2 [K3 K4]]].
    apply (Hres locs' nfm' eq_refl).
    + intros b t i o b0 t0 Hb HQb Hi Hk Hb0 Ht0 Ho Hoo HnQ.
      assert (HnQ0 : ~ Q (b_height b0)) by (intros Hc; apply HnQ; apply HQ'; right; assumption).
      destruct (N.eq_dec (b_height b) h) as [E | Hne].
      * assert (b = cb) by (apply (vc_height_inj birthday c Hv); assumption). subst b. fold h.
        apply (K1 (N.of_nat i) (t_id t) (filter (fun k => negb (mem_key k nfs)) (t_spends t))); [apply U1; assumption|].
        apply filter_In. split; [assumption|]. apply negb_true_iff.
        destruct (mem_key (o_key o) nfs) eqn:Em; [|reflexivity]. exfalso.
        destruct (bi_f1 _ _ _ I _ Em) as [b1 [t1 [o1 [H1 [H2 [H3 [H4 [H5 H6]]]]]]]].
        destruct (create_unique birthday c Hv b1 t1 o1 b0 t0 o) as [-> _]; auto.
      * apply HQ' in HQb. destruct HQb as [? | HQb]; [contradiction|].
        destruct (bi_M _ _ _ I b t i o b0 t0 Hb HQb Hi Hk Hb0 Ht0 Ho Hoo HnQ0) as [M1 M2].
        split; [|auto]. rewrite K2; [assumption|]. intros Hc. rewrite U2 in Hc. apply filter_In in Hc. destruct Hc as [Hc _].
        apply in_flat_map in Hc. destruct Hc as [t' [Ht' Hk']].
        destruct (reveal_unique birthday c Hv cb t' b t (o_key o)) as [<- _]; auto. eapply nth_error_In; eauto.
    + intros h' i t' Hin. apply HQ'. destruct (K4 _ Hin) as [Hold | [i0 [t0 [ks0 [_ E]]]]].
      * right. eapply (bi_L1 _ _ _ I); eauto.
      * inversion E; subst. left. reflexivity.
    + intros k h' i Hin. apply HQ'. destruct (track_nfm_In _ _ _ _ _ _ Et _ Hin) as [Hold | E].
      * right. eapply (bi_N1 _ _ _ I); eauto.
      * left. exact E.
  - inversion H; subst r'. clear H.
    apply (Hres (r_locs r) (r_nfmap r) eq_refl).
    + intros b t i o b0 t0 Hb HQb Hi Hk Hb0 Ht0 Ho Hoo HnQ.
      assert (HnQ0 : ~ Q (b_height b0)) by (intros Hc; apply HnQ; apply HQ'; right; assumption).
      destruct (N.eq_dec (b_height b) h) as [E | Hne].
      * exfalso. apply HnQ0. apply (Hfloor eq_refl).
        -- apply (vc_height_ge birthday c Hv). assumption.
        -- rewrite <- E. eapply (spend_above birthday c Hv b0 t0 o b t); eauto. eapply nth_error_In; eauto.
      * apply HQ' in HQb. destruct HQb as [? | HQb]; [contradiction|].
        apply (bi_M _ _ _ I b t i o b0 t0); assumption.
    + intros h' i t' Hin. apply HQ'. right. eapply (bi_L1 _ _ _ I); eauto.
    + intros k h' i Hin. apply HQ'. right. eapply (bi_N1 _ _ _ I); eauto.
Qed.

(** * A batch *)

Lemma put_sblocks_complete floor : forall bs prior nfs sbs r r' h0,
  incl bs c -> heights_from h0 bs ->
  scan_blocks prior nfs bs = Ok sbs ->
  put_sblocks floor sbs r = Ok r' ->
  blkinv nfs h0 r ->
  (floor <> None -> forall m, birthday <= m -> m < h0 -> Qof (r_blocks r) m) ->
  (exists nfs', blkinv nfs' (h0 + N.of_nat (length bs)) r')
  /\ (forall m, Qof (r_blocks r') m <-> Qof (r_blocks r) m \/ (h0 <= m /\ m < h0 + N.of_nat (length bs))).
Proof.
  induction bs as [|b bs IH]; intros prior nfs sbs r r' h0 Hin Hh Hs Hp I Hfl; cbn [scan_blocks] in Hs.
  - inversion Hs; subst. cbn in Hp. inversion Hp; subst. cbn [length]. split.
    + exists nfs. replace (h0 + N.of_nat 0) with h0 by lia. assumption.
    + intros m. split; [auto | intros [? | [? ?]]; [assumption | lia]].
  - destruct (continuity_ok prior b); [|discriminate].
    destruct (scan_blocks (Some (b_height b, b_hash b)) (update_nfs nfs (scan_block nfs b)) bs) as [rs| |] eqn:E; try discriminate.
    inversion Hs; subst sbs. cbn [put_sblocks] in Hp.
    destruct (put_sblock floor (scan_block nfs b) r) as [r1| |] eqn:E1; try discriminate.
    cbn [heights_from] in Hh. destruct Hh as [Hb0 Hh'].
    assert (Hb : In b c) by (apply Hin; left; reflexivity).
    destruct (put_sblock_complete floor nfs r r1 b Hb) as [I1 Q1]; auto.
    { rewrite Hb0. assumption. }
    { intros Hst m H1 H2. apply Hfl; [|assumption | lia]. intros ->. discriminate. }
    rewrite Hb0 in I1, Q1.
    destruct (IH _ _ _ _ _ (h0 + 1) (fun x Hx => Hin x (or_intror Hx)) Hh' E Hp I1) as [[nfs' I2] Q2].
    { intros Hne m H1 H2. apply Q1. destruct (N.eq_dec m h0); [left; assumption | right; apply Hfl; auto; lia]. }
    cbn [length]. split.
    + exists nfs'. replace (h0 + N.of_nat (S (length bs))) with (h0 + 1 + N.of_nat (length bs)) by lia. assumption.
    + intros m. rewrite Q2, Q1. split.
      * intros [[-> | ?] | [? ?]]; [right; lia | left; assumption | right; lia].
      * intros [? | [? ?]]; [left; right; assumption|].
        destruct (N.eq_dec m h0); [left; left; assumption | right; lia].
Qed.

(** * The state invariant *)

Record inv (s : wstate) : Prop := {
  iv_sound : sound_w c U s;
  iv_rows : Forall (row_ok (Qof (w_blocks s))) (w_txs s);
  iv_recv : forall b t o, In b c -> In t (b_txs b) -> Qof (w_blocks s) (b_height b) -> In o (t_outs t) -> owned o = true ->
              row_mined (w_txs s) (t_id t) = true;
  iv_has : forall b t o, In b c -> In t (b_txs b) -> Qof (w_blocks s) (b_height b) -> In o (t_outs t) -> owned o = true ->
              key_id (out_id t o) (w_notes s) = Some (o_key o);
  (** spend completeness: the spender of a note whose creating block is scanned is recorded
      as soon as the spender's block is scanned *)
  iv_spent : forall b t o b' t', In b c -> In t (b_txs b) -> Qof (w_blocks s) (b_height b) -> In o (t_outs t) -> owned o = true ->
              In b' c -> In t' (b_txs b') -> Qof (w_blocks s) (b_height b') -> In (o_key o) (t_spends t') ->
              In (t_id t') (spent_id (out_id t o) (w_notes s));
  iv_spm : forall b t o b' t', In b c -> In t (b_txs b) -> Qof (w_blocks s) (b_height b) -> In o (t_outs t) -> owned o = true ->
              In b' c -> In t' (b_txs b') -> Qof (w_blocks s) (b_height b') -> In (o_key o) (t_spends t') ->
              row_mined (w_txs s) (t_id t') = true;
  (** nfmap_complete: a nullifier revealed in a scanned block whose note lies in a block not
      (or no longer) scanned is in the map, and its locator resolves to the revealing transaction *)
  iv_M : nfmap_complete (Qof (w_blocks s)) (w_nfmap s) (w_locs s);
  iv_L1 : forall h' i t', In (h', i, t') (w_locs s) -> Qof (w_blocks s) h';
  iv_N1 : forall k h' i, In (k, (h', i)) (w_nfmap s) -> Qof (w_blocks s) h';
  iv_tip : forall m, Qof (w_blocks s) m -> exists tp, w_tip s = Some tp /\ m <= tp
}.

Lemma init_inv : inv init.
Proof.
  constructor; cbn.
  - apply init_sound_w.
  - constructor.
  - intros b t o _ _ H. discriminate.
  - intros b t o _ _ H. discriminate.
  - intros b t o b' t' _ _ H. discriminate.
  - intros b t o b' t' _ _ H. discriminate.
  - intros b t i o b0 t0 _ H. discriminate.
  - intros h' i t' [].
  - intros k h' i [].
  - intros m H. discriminate.
Qed.

(** ** fully_scanned *)

Lemma run_end_spec bl : forall fuel h m,
  has_block bl h = true -> h <= m -> m <= run_end bl fuel h -> has_block bl m = true.
Proof.
  induction fuel as [|f IH]; intros h m Hh H1 H2; cbn [run_end] in H2.
  - assert (m = h) by lia. subst. assumption.
  - destruct (has_block bl (h + 1)) eqn:E.
    + destruct (N.eq_dec m h) as [-> | Hne]; [assumption|]. apply (IH (h + 1)); auto. lia.
    + assert (m = h) by lia. subst. assumption.
Qed.

Lemma fold_min_in (r : list (N * N)) : forall a,
  fold_left (fun m p => N.min m (fst p)) r a = a \/ exists p, In p r /\ fold_left (fun m p => N.min m (fst p)) r a = fst p.
Proof.
  induction r as [|p r IH]; intros a; cbn [fold_left]; [left; reflexivity|].
  destruct (IH (N.min a (fst p))) as [E | [q [Hq E]]].
  - rewrite E. destruct (N.min_spec a (fst p)) as [[_ ->] | [_ ->]]; [left; reflexivity | right; exists p; split; [left; reflexivity | reflexivity]].
  - right. exists q. split; [right; assumption | assumption].
Qed.

Lemma fully_scanned_spec bl f m :
  fully_scanned birthday bl = Some f -> birthday <= m -> m <= f -> has_block bl m = true.
Proof.
  unfold fully_scanned. destruct (min_height bl) as [mn|] eqn:Em; [|discriminate].
  destruct (mn <=? birthday) eqn:El; [|discriminate]. intros H; inversion H; subst f. clear H.
  apply N.leb_le in El. intros H1 H2. apply (run_end_spec bl (length bl) mn); [|lia | assumption].
  unfold min_height in Em. destruct bl as [|[h0 x0] r]; [discriminate|]. inversion Em; subst mn. clear Em.
  apply has_block_In. destruct (fold_min_in r h0) as [-> | [p [Hp ->]]].
  - exists x0. left. reflexivity.
  - exists (snd p). right. destruct p; assumption.
Qed.

Lemma scan_blocks_heights : forall bs prior nfs sbs,
  scan_blocks prior nfs bs = Ok sbs ->
  match bs with [] => True | b :: _ => heights_from (b_height b) bs end.
Proof.
  induction bs as [|b bs IH]; intros prior nfs sbs H; [exact I|].
  cbn [scan_blocks] in H. destruct (continuity_ok prior b); [|discriminate].
  destruct (scan_blocks (Some (b_height b, b_hash b)) (update_nfs nfs (scan_block nfs b)) bs) as [rs| |] eqn:E; try discriminate.
  cbn [heights_from]. split; [reflexivity|].
  pose proof (IH _ _ _ E) as Hh. destruct bs as [|b1 bs1]; [exact I|].
  cbn [scan_blocks] in E. unfold continuity_ok in E.
  destruct (N.eqb (b_height b1) (b_height b + 1) && N.eqb (b_prev b1) (b_hash b)) eqn:Ec; [|discriminate].
  apply andb_true_iff in Ec. destruct Ec as [Ec _]. apply N.eqb_eq in Ec. rewrite <- Ec. assumption.
Qed.

Lemma last_height_seg : forall bs h0 d, bs <> [] -> heights_from h0 bs ->
  last_height bs d + 1 = h0 + N.of_nat (length bs).
Proof.
  unfold last_height. induction bs as [|b bs IH]; intros h0 d Hne Hh; [contradiction|].
  cbn [heights_from] in Hh. destruct Hh as [Hb Hh]. destruct bs as [|b1 bs1].
  - cbn. lia.
  - change (last (b :: b1 :: bs1) (mkBlock d 0 0 [])) with (last (b1 :: bs1) (mkBlock d 0 0 [])).
    rewrite (IH (h0 + 1) d); [|discriminate | assumption]. cbn [length]. lia.
Qed.

(** ** scan_cached_blocks preserves the invariant *)

Lemma blkinv_of_inv s hn : inv s -> blkinv (unspent_nfs s) hn (mkRows (w_blocks s) (w_txs s) (w_notes s) (w_locs s) (w_nfmap s)).
Proof.
  intros [I1 I2 I3 I4 I5 I5' I6 I7 I7' I8]. constructor; cbn [r_blocks r_txs r_notes r_locs r_nfmap]; try assumption.
  - (* f1 *)
    intros k Hk. apply mem_key_In in Hk. unfold unspent_nfs in Hk. apply in_map_iff in Hk. destruct Hk as [n [<- Hn]].
    apply filter_In in Hn. destruct Hn as [Hn Hf]. apply andb_true_iff in Hf. destruct Hf as [Hm _].
    destruct I1 as [_ S2 S3 _ _]. rewrite Forall_forall in S2.
    destruct (S2 _ Hn) as [[bU [tU [oU [HbU [HtU [HoU [Eo [Ek [_ [Er Ei]]]]]]]]]] _].
    destruct (mined_row_chain _ _ _ I2 Hm) as [b1 [t1 [Hb1 [Ht1 [Hid1 HQ1]]]]].
    destruct (same_tx_out bU tU oU b1 t1 HbU HtU HoU (HcU _ Hb1) Ht1) as [o1 [Ho1 En]]; [congruence|].
    unfold out_nonf in En. inversion En as [[E1 E2 E3 E4]].
    assert (Hoo : owned o1 = true) by (unfold owned; rewrite E1, Eo; reflexivity).
    pose proof (I4 b1 t1 o1 Hb1 Ht1 HQ1 Ho1 Hoo) as Hkey.
    assert (Eid : out_id t1 o1 = nid n).
    { unfold out_id, nid. rewrite <- Ek. cbn [o_key fst]. congruence. }
    unfold key_id in Hkey. rewrite Eid, (In_find_id _ _ S3 Hn) in Hkey. cbn in Hkey. inversion Hkey as [Hk].
    exists b1, t1, o1. repeat split; try assumption. congruence.
  - (* f2 *)
    intros b t o Hb Ht Ho Hoo HQ _ Hnil.
    pose proof (I4 b t o Hb Ht HQ Ho Hoo) as Hkey. unfold key_id in Hkey.
    destruct (find_id (out_id t o) (w_notes s)) as [n|] eqn:Hn; [|discriminate]. cbn in Hkey. injection Hkey as Hk.
    destruct (find_id_In _ _ _ Hn) as [Hin Hnid].
    apply mem_key_In. unfold unspent_nfs. rewrite <- Hk. apply in_map.
    apply filter_In. split; [assumption|]. apply andb_true_iff. split.
    + assert (Er : n_recv n = t_id t) by (unfold nid, out_id in Hnid; inversion Hnid; reflexivity).
      rewrite Er. exact (I3 b t o Hb Ht HQ Ho Hoo).
    + unfold spent_id in Hnil. rewrite Hn in Hnil. apply negb_true_iff.
      destruct (existsb (row_blocks_nf (w_txs s)) (n_spent n)) eqn:Ex; [|reflexivity]. exfalso.
      apply existsb_exists in Ex. destruct Ex as [x [Hx Hbl]]. specialize (Hnil x Hx).
      unfold row_blocks_nf in Hbl. unfold row_mined in Hnil. destruct (find_row x (w_txs s)) as [rw|] eqn:Er; [|discriminate].
      rewrite Hnil in Hbl. cbn [orb] in Hbl. apply find_row_In in Er. destruct Er as [Hr _].
      rewrite Forall_forall in I2. destruct (I2 _ Hr) as [Hexp _]. rewrite Hexp in Hbl. discriminate.
Qed.

Lemma scan_inv s bs s' : incl bs c -> scan birthday s bs = Ok s' -> inv s -> inv s'.
Proof.
  intros Hin H I. pose proof (scan_sound_w c U HcU birthday Hheights s bs s' Hin H (iv_sound _ I)) as Hsound'.
  unfold scan in H. destruct bs as [|b0 bs0]; [inversion H; subst; assumption|].
  set (bs := b0 :: bs0) in *. set (h0 := b_height b0) in *.
  destruct (scan_blocks _ (unspent_nfs s) bs) as [sbs| |] eqn:E; try discriminate.
  set (fs := fully_scanned birthday (w_blocks s)) in *.
  set (floor := tracking_floor fs (h0 - 1) (last_height bs 0)) in *.
  destruct (put_sblocks floor sbs _) as [r| |] eqn:Ep; try discriminate.
  pose proof (scan_blocks_heights _ _ _ _ E) as Hh. cbn in Hh. fold h0 in Hh.
  assert (Hfs : forall f m, fs = Some f -> birthday <= m -> m <= f -> Qof (w_blocks s) m).
  { intros f m Ef. apply fully_scanned_spec. exact Ef. }
  assert (Hfl : floor <> None -> forall m, birthday <= m -> m < h0 -> Qof (w_blocks s) m).
  { intros Hne m H1 H2. unfold floor, tracking_floor in Hne. destruct fs as [f|] eqn:Ef; [|contradiction].
    destruct (N.eqb f (h0 - 1)) eqn:Ee; [|contradiction]. apply N.eqb_eq in Ee. apply (Hfs f m eq_refl H1). lia. }
  destruct (put_sblocks_complete floor bs _ _ sbs _ r h0 Hin (conj eq_refl (proj2 Hh)) E Ep (blkinv_of_inv s h0 I) Hfl) as [[nfs' I'] Q'].
  cbn [r_blocks] in Q'.
  assert (Hlast : last_height bs 0 + 1 = h0 + N.of_nat (length bs)).
  { apply last_height_seg; [discriminate | exact (conj eq_refl (proj2 Hh))]. }
  assert (Hmono : forall m, Qof (w_blocks s) m -> Qof (r_blocks r) m) by (intros m Hm; apply Q'; left; assumption).
  assert (Htip : forall (t0 : N) m, Qof (r_blocks r) m -> exists tp, max_opt (w_tip s) (last_height bs 0) = Some tp /\ m <= tp).
  { intros _ m Hm. apply Q' in Hm. destruct Hm as [Hm | [H1 H2]].
    - destruct (iv_tip _ I m Hm) as [tp [Et Hle]]. rewrite Et. cbn. eexists. split; [reflexivity | lia].
    - destruct (w_tip s) as [tp|]; cbn; eexists; (split; [reflexivity | lia]). }
  destruct I' as [J1 J2 J3 J4 J5 J5' _ _ J8 J9 J10].
  destruct fs as [f|] eqn:Ef.
  - destruct (prune (f - PRUNING_DEPTH) (r_locs r) (r_nfmap r)) as [locs nfm] eqn:Epr.
    inversion H; subst s'. clear H. unfold prune in Epr. inversion Epr; subst locs nfm. clear Epr.
    constructor; cbn [w_blocks w_txs w_notes w_locs w_nfmap w_tip]; try assumption.
    + (* nfmap_complete survives the pruning *)
      intros b t i o b1 t1 Hb HQb Hi Hk Hb1 Ht1 Ho Hoo HnQ.
      destruct (J8 b t i o b1 t1 Hb HQb Hi Hk Hb1 Ht1 Ho Hoo HnQ) as [M1 M2].
      assert (Hge : (b_height b <? f - PRUNING_DEPTH) = false).
      { apply N.ltb_ge. destruct (N.le_gt_cases (f - PRUNING_DEPTH) (b_height b)) as [? | Hlt]; [assumption|]. exfalso.
        apply HnQ. apply Hmono. apply (Hfs f _ eq_refl).
        - apply (vc_height_ge birthday c Hv). assumption.
        - assert (b_height b1 < b_height b) by (eapply (spend_above birthday c Hv b1 t1 o b t); eauto; eapply nth_error_In; eauto). lia. }
      assert (M2' : find_loc (b_height b) (N.of_nat i)
                (filter (fun x : loc => let '(h, _, _) := x in negb (h <? f - PRUNING_DEPTH)) (r_locs r)) = Some (t_id t)).
      { rewrite <- M2. apply (find_loc_filter (fun h => negb (h <? f - PRUNING_DEPTH))). rewrite Hge. reflexivity. }
      split; [|assumption]. apply find_nf_filter; [assumption|]. unfold has_loc. cbn [fst snd].
      match goal with |- is_some ?X = true => assert (EX : X = Some (t_id t)) by exact M2'; rewrite EX end. reflexivity.
    + intros h' i t' Hin'. apply filter_In in Hin'. destruct Hin' as [Hin' _]. eapply J9; eauto.
    + intros k h' i Hin'. apply filter_In in Hin'. destruct Hin' as [Hin' _]. eapply J10; eauto.
    + intros m Hm. apply (Htip 0 m Hm).
  - inversion H; subst s'. clear H. constructor; cbn [w_blocks w_txs w_notes w_locs w_nfmap w_tip]; try assumption.
    intros m Hm. apply (Htip 0 m Hm).
Qed.

(** ** update_chain_tip and truncate_to_height preserve the invariant *)

Lemma update_tip_inv s h : inv s -> inv (update_tip birthday s h).
Proof.
  intros I. unfold update_tip. destruct (h <? birthday); [assumption|].
  assert (Hnew : inv (mkW (w_blocks s) (w_txs s) (w_notes s) (w_locs s) (w_nfmap s) (max_opt (w_tip s) h))).
  { destruct I as [I1 I2 I3 I4 I5 I5' I6 I7 I7' I8]. constructor; cbn [w_blocks w_txs w_notes w_locs w_nfmap w_tip]; try assumption.
    intros m Hm. destruct (I8 m Hm) as [tp [Et Hle]]. rewrite Et. cbn. eexists. split; [reflexivity | lia]. }
  destruct (max_scanned (w_blocks s)) as [m|]; [destruct (h <? m)|]; assumption.
Qed.

Lemma fold_max_ge (r : list (N * N)) : forall a,
  a <= fold_left (fun m p => N.max m (fst p)) r a
  /\ forall p, In p r -> fst p <= fold_left (fun m p => N.max m (fst p)) r a.
Proof.
  induction r as [|q r IH]; intros a; cbn [fold_left]; [split; [lia | intros p []]|].
  destruct (IH (N.max a (fst q))) as [I1 I2]. split; [lia|].
  intros p [<- | Hp]; [lia | auto].
Qed.

Lemma max_scanned_ge bl m : has_block bl m = true -> exists mx, max_scanned bl = Some mx /\ m <= mx.
Proof.
  intros H. apply has_block_In in H. destruct H as [x Hx]. destruct bl as [|[h0 x0] r]; [destruct Hx|].
  cbn [max_scanned]. eexists. split; [reflexivity|]. destruct (fold_max_ge r h0) as [F1 F2].
  destruct Hx as [E | Hx]; [inversion E; subst; assumption | apply (F2 _ Hx)].
Qed.

Lemma find_row_unmine h id : forall l, find_row id (map (unmine h) l) = option_map (unmine h) (find_row id l).
Proof.
  assert (Hid : forall r, x_id (unmine h r) = x_id r).
  { intros r. unfold unmine. destruct (x_mined r); [destruct (h <? n)|]; reflexivity. }
  induction l as [|r l IH]; cbn [map find_row]; [reflexivity|].
  rewrite Hid. destruct (N.eqb (x_id r) id); [reflexivity | assumption].
Qed.

Lemma truncate_inv s h : inv s -> inv (truncate s h).
Proof.
  intros I. pose proof (truncate_sound_w c U s h (iv_sound _ I)) as Hsound'.
  set (Q := Qof (w_blocks s)).
  (* what the three branches have in common *)
  assert (Hcommon : forall bl' locs' nfm',
            sound_w c U (mkW bl' (map (unmine h) (w_txs s)) (w_notes s) locs' nfm' (Some h)) ->
            (forall m, Qof bl' m <-> Q m /\ m <= h) ->
            nfmap_complete (Qof bl') nfm' locs' ->
            (forall h' i t', In (h', i, t') locs' -> Qof bl' h') ->
            (forall k h' i, In (k, (h', i)) nfm' -> Qof bl' h') ->
            inv (mkW bl' (map (unmine h) (w_txs s)) (w_notes s) locs' nfm' (Some h))).
  { intros bl' locs' nfm' Hs HQ' HM' HL' HN'. destruct I as [I1 I2 I3 I4 I5 I5' I6 I7 I7' I8].
    assert (Hkeep : forall b t, In b c -> In t (b_txs b) -> b_height b <= h -> row_mined (w_txs s) (t_id t) = true ->
              row_mined (map (unmine h) (w_txs s)) (t_id t) = true).
    { intros b t Hb Ht Hle Hm. unfold row_mined in *. rewrite find_row_unmine.
      destruct (find_row (t_id t) (w_txs s)) as [r|] eqn:Er; [|discriminate]. cbn [option_map].
      apply find_row_In in Er. destruct Er as [Hr Hid]. rewrite Forall_forall in I2.
      destruct (I2 _ Hr) as [_ [_ H6]].
      destruct H6 as [E | [b1 [t1 [H1 [H2 [H3 [E _]]]]]]]; [rewrite E in Hm; discriminate|].
      destruct (tx_unique birthday c Hv b1 t1 b t) as [-> ->]; auto; [congruence|].
      unfold unmine. rewrite E. destruct (N.ltb_spec h (b_height b)); [lia|]. rewrite E. reflexivity. }
    constructor; cbn [w_blocks w_txs w_notes w_locs w_nfmap w_tip]; try assumption.
    - rewrite Forall_forall in *. intros r' Hr'. apply in_map_iff in Hr'. destruct Hr' as [r [<- Hr]].
      destruct (I2 _ Hr) as [Hexp [HinU H6]]. unfold unmine. destruct (x_mined r) as [m|] eqn:Em.
      + destruct (N.ltb_spec h m).
        * split; [exact Hexp|]. split; [exact HinU | left; reflexivity].
        * split; [exact Hexp|]. split; [exact HinU|]. destruct H6 as [? | [b [t [H1 [H2 [H3 [E HQ]]]]]]]; [congruence|]. right.
          inversion E; subst m. exists b, t. repeat split; try assumption. apply HQ'. split; assumption.
      + split; [exact Hexp|]. split; [exact HinU | left; assumption].
    - intros b t o Hb Ht HQb Ho Hoo. apply HQ' in HQb. destruct HQb as [HQb Hle].
      apply (Hkeep b t Hb Ht Hle). exact (I3 b t o Hb Ht HQb Ho Hoo).
    - intros b t o Hb Ht HQb. apply HQ' in HQb. destruct HQb. eauto.
    - intros b t o b' t' Hb Ht HQb Ho Hoo Hb' Ht' HQb'. apply HQ' in HQb, HQb'. destruct HQb, HQb'. eauto.
    - intros b t o b' t' Hb Ht HQb Ho Hoo Hb' Ht' HQb' Hk. apply HQ' in HQb, HQb'. destruct HQb as [HQb _], HQb' as [HQb' Hle'].
      apply (Hkeep b' t' Hb' Ht' Hle'). exact (I5' b t o b' t' Hb Ht HQb Ho Hoo Hb' Ht' HQb' Hk).
    - intros m Hm. apply HQ' in Hm. exists h. split; [reflexivity | tauto]. }
  (* the nullifier map below the rewind height is untouched *)
  assert (HMold : forall bl', (forall m, Qof bl' m <-> Q m /\ m <= h) ->
            forall b t i o b0 t0, In b c -> Qof bl' (b_height b) -> nth_error (b_txs b) i = Some t -> In (o_key o) (t_spends t) ->
              In b0 c -> In t0 (b_txs b0) -> In o (t_outs t0) -> owned o = true -> ~ Qof bl' (b_height b0) ->
              b_height b <= h /\ find_nf (o_key o) (w_nfmap s) = Some (b_height b, N.of_nat i)
              /\ find_loc (b_height b) (N.of_nat i) (w_locs s) = Some (t_id t)).
  { intros bl' HQ' b t i o b0 t0 Hb HQb Hi Hk Hb0 Ht0 Ho Hoo HnQ. apply HQ' in HQb. destruct HQb as [HQb Hle].
    split; [assumption|]. apply (iv_M _ I b t i o b0 t0); auto.
    intros Hc. apply HnQ. apply HQ'. split; [assumption|].
    assert (b_height b0 < b_height b) by (eapply (spend_above birthday c Hv b0 t0 o b t); eauto; eapply nth_error_In; eauto). lia. }
  unfold truncate in *. destruct (max_scanned (w_blocks s)) as [mx|] eqn:Emx.
  - destruct (N.ltb_spec h mx).
    + set (locs' := filter (fun x : loc => let '(h', _, _) := x in h' <=? h) (w_locs s)) in *.
      assert (HQ' : forall m, Qof (filter (fun p : N * N => fst p <=? h) (w_blocks s)) m <-> Q m /\ m <= h)
        by (intros m; apply has_block_filter_le).
      apply Hcommon; [assumption | assumption | | |].
      * intros b t i o b0 t0 Hb HQb Hi Hk Hb0 Ht0 Ho Hoo HnQ.
        destruct (HMold _ HQ' b t i o b0 t0 Hb HQb Hi Hk Hb0 Ht0 Ho Hoo HnQ) as [Hle [M1 M2]].
        assert (M2' : find_loc (b_height b) (N.of_nat i) locs' = Some (t_id t)).
        { rewrite <- M2. apply (find_loc_filter (fun h' => h' <=? h)). apply N.leb_le. assumption. }
        split; [|assumption]. apply find_nf_filter; [assumption|]. unfold has_loc. cbn [fst snd].
        match goal with |- is_some ?X = true => assert (EX : X = Some (t_id t)) by exact M2'; rewrite EX end. reflexivity.
      * intros h' i t' Hin. apply filter_In in Hin. destruct Hin as [Hin Hle]. apply N.leb_le in Hle.
        apply HQ'. split; [eapply (iv_L1 _ I); eauto | assumption].
      * intros k h' i Hin. apply filter_In in Hin. destruct Hin as [Hin Hhas]. unfold has_loc in Hhas. cbn [fst snd] in Hhas.
        assert (Ef : exists t0, find_loc h' i locs' = Some t0).
        { destruct (find_loc h' i locs') as [t0|] eqn:E0; [eauto|]. exfalso.
          change (is_some (find_loc h' i locs') = true) in Hhas. rewrite E0 in Hhas. discriminate. }
        destruct Ef as [t0 Ef]. apply find_loc_In in Ef.
        apply filter_In in Ef. destruct Ef as [_ Hle]. apply N.leb_le in Hle.
        apply HQ'. split; [eapply (iv_N1 _ I); eauto | assumption].
    + assert (HQ' : forall m, Qof (w_blocks s) m <-> Q m /\ m <= h).
      { intros m. split; [|tauto]. intros Hm. split; [assumption|].
        destruct (max_scanned_ge _ _ Hm) as [mx' [E Hle]]. rewrite Emx in E. inversion E; subst. lia. }
      apply Hcommon; [assumption | assumption | | |].
      * intros b t i o b0 t0 Hb HQb Hi Hk Hb0 Ht0 Ho Hoo HnQ.
        destruct (HMold _ HQ' b t i o b0 t0 Hb HQb Hi Hk Hb0 Ht0 Ho Hoo HnQ) as [_ [M1 M2]]. auto.
      * apply (iv_L1 _ I).
      * apply (iv_N1 _ I).
  - assert (HQ' : forall m, Qof (w_blocks s) m <-> Q m /\ m <= h).
    { intros m. split; [|tauto]. intros Hm. destruct (max_scanned_ge _ _ Hm) as [mx' [E _]]. rewrite Emx in E. discriminate. }
    apply Hcommon; [assumption | assumption | | |].
    + intros b t i o b0 t0 Hb HQb Hi Hk Hb0 Ht0 Ho Hoo HnQ.
      destruct (HMold _ HQ' b t i o b0 t0 Hb HQb Hi Hk Hb0 Ht0 Ho Hoo HnQ) as [_ [M1 M2]]. auto.
    + apply (iv_L1 _ I).
    + apply (iv_N1 _ I).
Qed.

Lemma run_inv : forall ops s s',
  (forall bs, In (OScan bs) ops -> incl bs c) ->
  run birthday s ops = Ok s' -> inv s -> inv s'.
Proof.
  induction ops as [|o ops IH]; intros s s' Hops H Hs; cbn [run] in H.
  - inversion H; subst. assumption.
  - destruct (step birthday s o) as [s1| |] eqn:E; try discriminate.
    eapply IH; [intros; apply Hops; right; assumption | exact H |].
    destruct o as [bs|h|h]; cbn [step] in E.
    + eapply scan_inv; eauto. apply Hops. left; reflexivity.
    + inversion E; subst. apply update_tip_inv; assumption.
    + inversion E; subst. apply truncate_inv; assumption.
Qed.

End WComplete.

(** * Changing the chain under the wallet

    When everything the wallet holds as scanned lies at or below [h] (for instance right after
    a rewind to [h], or whenever new blocks arrive above the scanned ones), the best chain may be
    replaced by any valid chain with the same blocks up to [h]: the invariant carries over.
    Notes, spend rows and transaction rows stemming from the abandoned branch stay in the
    tables; they are covered by the universe [U]. *)
Lemma switch_inv birthday U c c' s h :
  valid_chain birthday c -> valid_chain birthday c' -> weak_universe U -> incl c U -> incl c' U ->
  agree c c' h -> (forall m, Qof (w_blocks s) m -> m <= h) ->
  inv c U s -> inv c' U s.
Proof.
  intros Hv Hv' HU HcU HcU' Hag Hle I.
  assert (Hto : forall b, In b c -> Qof (w_blocks s) (b_height b) -> In b c').
  { intros b Hb HQ. apply (Hag b); [apply Hle; assumption | assumption]. }
  assert (Hfrom : forall b, In b c' -> Qof (w_blocks s) (b_height b) -> In b c).
  { intros b Hb HQ. apply (Hag b); [apply Hle; assumption | assumption]. }
  destruct I as [[S1 S2 S3 S4 S5] I2 I3 I4 I5 I5' I6 I7 I7' I8].
  constructor; try assumption.
  - constructor; try assumption.
    + rewrite Forall_forall in *. intros [h' x] Hin. destruct (S1 _ Hin) as [b [Hb [Hh Hx]]]. cbn [fst snd] in *.
      exists b. split; [|auto]. apply Hto; [assumption|]. rewrite Hh. apply has_block_In. exists x. assumption.
    + rewrite Forall_forall in *. intros [[h' i] t'] Hin. destruct (S4 _ Hin) as [b [t [Hb [Hh Hrest]]]].
      exists b, t. split; [|auto]. apply Hto; [assumption|]. rewrite Hh. eapply I7; eauto.
    + rewrite Forall_forall in *. intros [k [h' i]] Hin. destruct (S5 _ Hin) as [b [t [Hb [Hh Hrest]]]]. cbn [fst snd] in *.
      exists b, t. split; [|auto]. apply Hto; [assumption|]. rewrite Hh. eapply I7'; eauto.
  - rewrite Forall_forall in *. intros r Hr. destruct (I2 _ Hr) as [Hexp [HinU H6]]. split; [assumption|]. split; [assumption|].
    destruct H6 as [? | [b [t [Hb [Ht [Hid [Hm HQ]]]]]]]; [left; assumption|]. right. exists b, t. repeat split; auto.
  - intros b t o Hb Ht HQ Ho Hoo. exact (I3 b t o (Hfrom b Hb HQ) Ht HQ Ho Hoo).
  - intros b t o Hb Ht HQ Ho Hoo. exact (I4 b t o (Hfrom b Hb HQ) Ht HQ Ho Hoo).
  - intros b t o b' t' Hb Ht HQ Ho Hoo Hb' Ht' HQ' Hk. exact (I5 b t o b' t' (Hfrom b Hb HQ) Ht HQ Ho Hoo (Hfrom b' Hb' HQ') Ht' HQ' Hk).
  - intros b t o b' t' Hb Ht HQ Ho Hoo Hb' Ht' HQ' Hk. exact (I5' b t o b' t' (Hfrom b Hb HQ) Ht HQ Ho Hoo (Hfrom b' Hb' HQ') Ht' HQ' Hk).
  - intros b t i o b0 t0 Hb HQ Hi Hk Hb0 Ht0 Ho Hoo HnQ.
    apply (I6 b t i o b0 t0 (Hfrom b Hb HQ) HQ Hi Hk); auto.
    (* the creating block is below the spending block, hence below [h], hence in both chains *)
    assert (Hlt : b_height b0 < b_height b).
    { eapply (spend_above birthday c' Hv' b0 t0 o b t); eauto. eapply nth_error_In; eauto. }
    apply (Hag b0); [|assumption]. specialize (Hle _ HQ). lia.
Qed.
