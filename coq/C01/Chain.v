(** C01 — what a valid chain gives: identities of blocks, transactions, nullifiers, outputs. *)
From V.Lib Require Import Base.
From V.C01 Require Import Model Spec Proofs Tables.
Local Open Scope N_scope.

Lemma NoDup_flat_map_inj {A B C} (f : B -> C) (g : A -> list B) : forall l a a' x x',
  NoDup (map f (flat_map g l)) -> In a l -> In a' l -> In x (g a) -> In x' (g a') -> f x = f x' ->
  a = a' /\ x = x'.
Proof.
  induction l as [|a0 l IH]; intros a a' x x' Hnd Ha Ha' Hx Hx' E; [destruct Ha|].
  cbn [flat_map] in Hnd. rewrite map_app in Hnd. destruct (NoDup_app_inv _ _ Hnd) as [N1 [N2 N3]].
  assert (Hin2 : forall b y, In b l -> In y (g b) -> In (f y) (map f (flat_map g l))).
  { intros b y Hb Hy. apply in_map. apply in_flat_map. eauto. }
  destruct Ha as [<- | Ha]; destruct Ha' as [<- | Ha'].
  - split; [reflexivity|]. exact (NoDup_map_eq f (g a0) x x' N1 Hx Hx' E).
  - exfalso. apply (N3 (f x)); [apply in_map; assumption | rewrite E; eapply Hin2; eauto].
  - exfalso. apply (N3 (f x')); [apply in_map; assumption | rewrite <- E; eapply Hin2; eauto].
  - eapply IH; eauto.
Qed.

Section Chain.
Variable birthday : N.
Variable c : list block.
Hypothesis Hv : valid_chain birthday c.

Lemma vc_height_inj b b' : In b c -> In b' c -> b_height b = b_height b' -> b = b'.
Proof. apply (chain_height_inj c birthday (vc_heights _ _ Hv)). Qed.

Lemma vc_height_ge b : In b c -> birthday <= b_height b.
Proof. intros. eapply heights_from_ge; eauto. apply (vc_heights _ _ Hv). Qed.

Lemma in_all_txs b t : In b c -> In t (b_txs b) -> In t (all_txs c).
Proof. intros. unfold all_txs. apply in_flat_map. eauto. Qed.

Lemma tx_unique b t b' t' :
  In b c -> In t (b_txs b) -> In b' c -> In t' (b_txs b') -> t_id t = t_id t' -> b = b' /\ t = t'.
Proof. intros. eapply (NoDup_flat_map_inj t_id b_txs c); eauto. apply (vc_txids _ _ Hv). Qed.

Lemma reveal_unique b t b' t' k :
  In b c -> In t (b_txs b) -> In k (t_spends t) ->
  In b' c -> In t' (b_txs b') -> In k (t_spends t') -> b = b' /\ t = t'.
Proof.
  intros Hb Ht Hk Hb' Ht' Hk'.
  assert (E : t = t').
  { pose proof (vc_spends _ _ Hv) as Hnd. unfold all_spends in Hnd. rewrite <- (map_id (flat_map t_spends (all_txs c))) in Hnd.
    destruct (NoDup_flat_map_inj (fun x : key => x) t_spends (all_txs c) t t' k k Hnd) as [E _]; eauto using in_all_txs. }
  subst t'. split; [|reflexivity]. eapply tx_unique; eauto.
Qed.

Lemma create_unique b t o b' t' o' :
  In b c -> In t (b_txs b) -> In o (t_outs t) ->
  In b' c -> In t' (b_txs b') -> In o' (t_outs t') -> o_key o = o_key o' -> b = b' /\ t = t' /\ o = o'.
Proof.
  intros Hb Ht Ho Hb' Ht' Ho' E.
  pose proof (vc_outs _ _ Hv) as Hnd. unfold all_outs in Hnd.
  destruct (NoDup_flat_map_inj o_key t_outs (all_txs c) t t' o o' Hnd) as [E1 E2]; eauto using in_all_txs.
  subst t' o'. split; [|auto]. eapply tx_unique; eauto.
Qed.

(** a note is created strictly below any block that spends it *)
Lemma spend_above b t o b' t' :
  In b c -> In t (b_txs b) -> In o (t_outs t) -> owned o = true ->
  In b' c -> In t' (b_txs b') -> In (o_key o) (t_spends t') -> b_height b < b_height b'.
Proof.
  intros. apply (vc_order _ _ Hv (o_key o)).
  - exists b', t'. auto.
  - exists b, t, o. auto 7.
Qed.

Lemma block_spends_nodup b : In b c -> NoDup (flat_map t_spends (b_txs b)).
Proof.
  intros Hb. destruct (in_split _ _ Hb) as [c1 [c2 ->]].
  pose proof (vc_spends _ _ Hv) as Hnd. unfold all_spends, all_txs in Hnd.
  rewrite flat_map_app in Hnd. cbn [flat_map] in Hnd. rewrite !flat_map_app in Hnd.
  apply NoDup_app_inv in Hnd. destruct Hnd as [_ [Hnd _]].
  apply NoDup_app_inv in Hnd. tauto.
Qed.

(** a single valid chain is a valid universe *)
Lemma valid_chain_universe : valid_universe c.
Proof.
  constructor.
  - intros b t b' t' Hb Ht Hb' Ht' E. destruct (tx_unique b t b' t' Hb Ht Hb' Ht' E). assumption.
  - intros b t o b' t' o' Hb Ht Ho Hb' Ht' Ho' E. destruct (create_unique b t o b' t' o' Hb Ht Ho Hb' Ht' Ho' E) as [_ [? ?]]. auto.
  - apply (vc_idx _ _ Hv).
Qed.

End Chain.
