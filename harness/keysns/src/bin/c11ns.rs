//! C11, feature profile without `orchard`: unified addresses built from raw receivers are taken
//! through UnifiedAddress::try_from / to_zcash_address / Address::decode by a build that cannot
//! interpret the Orchard receiver. The address is reported as this build holds it (no Orchard
//! slot; raw unknown items, among them the kept Orchard item under typecode 3); the Coq side has
//! its own model of this profile (`ua_loop_ns`).
use vcommon::*;
use zcash_address::unified::{self, Container, Encoding};
use zcash_keys::address::{Address, UnifiedAddress};
use zcash_protocol::consensus::{
    BlockHeight, MainNetwork, NetworkType, NetworkUpgrade, Parameters, TestNetwork,
};
use zcash_transparent::address::TransparentAddress;

#[derive(Clone, Copy, PartialEq, Eq, Debug)]
enum Net {
    Main,
    Test,
    Reg,
}
impl Parameters for Net {
    fn network_type(&self) -> NetworkType {
        match self {
            Net::Main => NetworkType::Main,
            Net::Test => NetworkType::Test,
            Net::Reg => NetworkType::Regtest,
        }
    }
    fn activation_height(&self, nu: NetworkUpgrade) -> Option<BlockHeight> {
        match self {
            Net::Main => MainNetwork.activation_height(nu),
            Net::Test => TestNetwork.activation_height(nu),
            Net::Reg => None,
        }
    }
}
const NETS: [Net; 3] = [Net::Main, Net::Test, Net::Reg];

type B = Vec<u8>;
fn hx(b: &[u8]) -> String {
    format!("(hx \"{}\")", hex(b))
}
fn sx(o: &Option<B>) -> String {
    match o {
        Some(b) => format!("(sx \"{}\")", hex(b)),
        None => "None".into(),
    }
}
fn p_items(l: &[(u32, B)]) -> String {
    list(l.iter().map(|(t, d)| format!("(it {} \"{}\")", t, hex(d))))
}
fn arr<const N: usize>(b: &[u8]) -> Option<[u8; N]> {
    b.try_into().ok()
}
fn receiver_of(tc: u32, d: &[u8]) -> Option<unified::Receiver> {
    Some(match tc {
        0 => unified::Receiver::P2pkh(arr(d)?),
        1 => unified::Receiver::P2sh(arr(d)?),
        2 => unified::Receiver::Sapling(arr(d)?),
        3 => unified::Receiver::Orchard(arr(d)?),
        t => unified::Receiver::Unknown { typecode: t, data: d.to_vec() },
    })
}
fn item_of(r: &unified::Receiver) -> (u32, B) {
    match r {
        unified::Receiver::P2pkh(d) => (0, d.to_vec()),
        unified::Receiver::P2sh(d) => (1, d.to_vec()),
        unified::Receiver::Sapling(d) => (2, d.to_vec()),
        unified::Receiver::Orchard(d) => (3, d.to_vec()),
        unified::Receiver::Unknown { typecode, data } => (*typecode, data.clone()),
    }
}
fn p_taddr(a: &TransparentAddress) -> String {
    match a {
        TransparentAddress::PublicKeyHash(h) => format!("(PKH {})", hx(h)),
        TransparentAddress::ScriptHash(h) => format!("(SH {})", hx(h)),
    }
}
/// the address as this build holds it: no Orchard slot, the unknown items raw and in order
fn p_uaddr(ua: &UnifiedAddress) -> String {
    let s = ua.sapling().map(|a| a.to_bytes().to_vec());
    let t = match ua.transparent() {
        None => "None".to_string(),
        Some(a) => format!("(Some {})", p_taddr(a)),
    };
    let unk: Vec<(u32, B)> = ua.unknown().to_vec();
    format!("(mkUaddr None {} {} {})", sx(&s), t, p_items(&unk))
}

fn ua_case(net: Net, items: &[(u32, B)]) -> bool {
    let rs: Option<Vec<unified::Receiver>> = items.iter().map(|(t, d)| receiver_of(*t, d)).collect();
    let Some(rs) = rs else { return false };
    let Ok(cont) = unified::Address::try_from_items(rs) else { return false };
    let sorted: Vec<(u32, B)> = cont.items_as_parsed().iter().map(item_of).collect();
    let mut ents = vec![];
    for (t, d) in &sorted {
        if *t == 2 {
            let d2 = d.clone();
            let r = catch(move || arr::<43>(&d2).and_then(|a| sapling::PaymentAddress::from_bytes(&a)).map(|a| a.to_bytes().to_vec()));
            let v = match r {
                None => "OPanic".to_string(),
                Some(None) => "ONone".to_string(),
                Some(Some(b)) => format!("(osome \"{}\")", hex(&b)),
            };
            ents.push(format!("oe 25 \"{}\" 0 {}", hex(d), v));
        }
    }
    let nt = net.network_type();
    let c2 = cont.clone();
    let res = catch(move || UnifiedAddress::try_from(c2));
    let o = match &res {
        None => PANIC.to_string(),
        Some(Err(_)) => "(Err tt)".to_string(),
        Some(Ok(ua)) => {
            let ua2 = ua.clone();
            match catch(move || ua2.to_zcash_address(nt).to_string()) {
                None => PANIC.to_string(),
                Some(s) => match unified::Address::decode(&s) {
                    Ok((_, back)) => {
                        let re: Vec<(u32, B)> = back.items_as_parsed().iter().map(item_of).collect();
                        ok(format!("({}, {})", p_uaddr(ua), p_items(&re)))
                    }
                    Err(_) => ok(format!("({}, {})", p_uaddr(ua), p_items(&[(999_999_999, vec![])]))),
                },
            }
        }
    };
    case(format!("CExtra (XUaNs [{}] {} {})", ents.join("; "), p_items(&sorted), o));
    // the string API: Address::decode / encode are the identity on the string
    if let Some(Ok(ua)) = res {
        let s = cont.encode(&nt);
        // has_orchard / receiver_types report per profile: no Orchard receiver, the kept item as
        // Unknown(3) among the unknown typecodes, after sapling and the transparent kind
        let want: Vec<u32> = {
            let mut v = vec![];
            for t in [2u32, 1, 0] {
                if sorted.iter().any(|(c, _)| *c == t) {
                    v.push(t);
                }
            }
            v.extend(sorted.iter().filter(|(c, _)| *c >= 3).map(|(c, _)| *c));
            v
        };
        let good = catch(|| {
            let via = Address::decode(&net, &s);
            let types: Vec<u32> = ua.receiver_types().into_iter().map(u32::from).collect();
            matches!(&via, Some(Address::Unified(u)) if *u == ua)
                && via.map(|a| a.encode(&net) == s).unwrap_or(false)
                && !ua.has_orchard()
                && types == want
        })
        .unwrap_or(false);
        case(format!("CCrypto 11 {}", boolc(good)));
    }
    true
}

fn main() {
    quiet_panics();
    let a = args();
    let n = if a.search { 120 } else { a.budget(60, 240) };
    let mut rng = Rng::new(a.seed, 1112);
    let mut made = 0u64;
    let mut with_orchard = 0u64;
    for k in 0..n {
        let net = NETS[k % 3];
        let seed = rng.bytes(32);
        let sap = sapling::zip32::ExtendedSpendingKey::master(&seed).default_address().1.to_bytes().to_vec();
        let mut items: Vec<(u32, B)> = vec![];
        match k % 3 {
            1 => items.push((0, rng.bytes(20))),
            2 => items.push((1, rng.bytes(20))),
            _ => {}
        }
        // shielded part: orchard+sapling / orchard only / sapling only
        let shape = (k / 3) % 3;
        if shape != 2 {
            items.push((3, rng.bytes(43)));
            with_orchard += 1;
        }
        if shape != 1 {
            items.push((2, sap.clone()));
        }
        if rng.chance(1, 2) {
            let mut tcs: Vec<u32> =
                (0..1 + rng.below(2)).map(|_| *rng.pick(&[4u32, 5, 0xfc, 0xfd, 0xffff, 0x0200_0000])).collect();
            tcs.sort();
            tcs.dedup();
            for tc in tcs {
                let m = rng.below(60) as usize;
                items.push((tc, rng.bytes(m)));
            }
        }
        if rng.chance(1, 12) {
            if let Some(it) = items.iter_mut().find(|(c, _)| *c == 2) {
                let i = rng.below(43) as usize;
                it.1[i] ^= 1 << rng.below(8);
            }
        }
        if ua_case(net, &items) {
            made += 1;
        }
    }
    stat(format!("{{\"profile\": \"no-orchard\", \"cases\": {}, \"with_orchard_receiver\": {}}}", made, with_orchard));
}
