//! Wallet-history toolkit shared by the wallet-backend properties (C01, C02, C06, C08, C15).
//!
//! It drives the **real** `zcash_client_sqlite` wallet (in-memory `TestDb`) through the public
//! `zcash_client_backend` API with compact blocks that this module builds itself, so that the
//! *ground truth* of every block (who owns which output, which nullifiers each transaction
//! reveals) is known independently of the code under test.
//!
//! # API overview
//!
//! * [`World::new(seed, n_accounts)`] — fresh wallet with `n_accounts` accounts (birthday = Sapling
//!   activation = [`BASE`]), NU5 and NU6.3 (Ironwood) active from the same height.
//! * Chain generation (ground truth):
//!   [`World::push_block`]`(&[TxSpec])` appends one block to the *current best chain*;
//!   [`TxSpec`] lists spends (earlier notes by [`NoteRef`]) and outputs ([`OutSpec`]: owner
//!   account or foreign, pool, value, external/internal address).
//!   [`World::fork_at(h)`] drops the best chain above `h` (the dropped blocks stay in
//!   `World::orphaned`) so a different continuation can be pushed.  [`World::remine`] re-mines
//!   the compact transaction of an orphaned block into the next block (same txid, same notes).
//!   [`gen_chain`] is a ready-made random generator.
//! * Operations on the wallet (each returns an [`OpResult`] with a canonical error class):
//!   [`World::scan`]`(from, limit)` = `scan_cached_blocks`, [`World::update_tip`],
//!   [`World::truncate`]; [`Op`] + [`World::exec`] wrap them for generated histories.
//! * [`World::dump`] — canonical dump of the wallet state read through `TestDb::conn()` and
//!   `WalletRead::get_wallet_summary`: notes (pool, account, value, nf id, receiving tx id),
//!   transactions (mined height, expiry, min observed height), note spends, nullifier map,
//!   scanned block heights, scan-queue derived tip / fully-scanned height, per account per
//!   pool balances.  All 32-byte identifiers are replaced by the small integers of
//!   [`Ids`] (assigned in generation order), rows are sorted; no row ids, no timestamps.
//!
//! Every random choice (including the randomness consumed by note encryption) comes from the
//! one ChaCha8 stream handed to [`World::new`].
use std::collections::{BTreeMap, HashMap};
use std::convert::Infallible;

use incrementalmerkletree::frontier::Frontier;
use rand_chacha::ChaChaRng;
use rand_core::{RngCore, SeedableRng};
use secrecy::SecretVec;

use zcash_client_backend::data_api::chain::{
    error::Error as ChainError, scan_cached_blocks, BlockSource, ChainState,
};
use zcash_client_backend::data_api::testing::{
    AddressType, DataStoreFactory, IronwoodFvk, TestFvk,
};
use zcash_client_backend::data_api::wallet::ConfirmationsPolicy;
use zcash_client_backend::data_api::{AccountBirthday, WalletRead, WalletWrite};
use zcash_client_backend::proto::compact_formats::{ChainMetadata, CompactBlock, CompactTx};
use zcash_client_sqlite::error::SqliteClientError;
use zcash_client_sqlite::testing::db::{TestDb, TestDbFactory};
use zcash_client_sqlite::AccountUuid;
use zcash_keys::keys::UnifiedSpendingKey;
use zcash_primitives::block::BlockHash;
use zcash_protocol::consensus::{BlockHeight, Parameters};
use zcash_protocol::local_consensus::LocalNetwork;
use zcash_protocol::value::Zatoshis;
use zcash_protocol::ShieldedPool;

/// Sapling/NU5/NU6.3 activation height of the test network = birthday of every account.
pub const BASE: u32 = 100_000;

pub fn network() -> LocalNetwork {
    let a = Some(BlockHeight::from_u32(BASE));
    LocalNetwork {
        overwinter: Some(BlockHeight::from_u32(1)),
        sapling: a,
        blossom: a,
        heartwood: a,
        canopy: a,
        nu5: a,
        nu6: a,
        nu6_1: a,
        nu6_2: a,
        nu6_3: a,
    }
}

/// Pools as small integers used everywhere in dumps: 0 Sapling, 1 Orchard, 2 Ironwood.
#[derive(Clone, Copy, Debug, PartialEq, Eq, PartialOrd, Ord, Hash)]
pub enum Pool {
    Sapling = 0,
    Orchard = 1,
    Ironwood = 2,
}
impl Pool {
    pub const ALL: [Pool; 3] = [Pool::Sapling, Pool::Orchard, Pool::Ironwood];
    pub fn code(self) -> u8 {
        self as u8
    }
    pub fn prefix(self) -> &'static str {
        match self {
            Pool::Sapling => "sapling",
            Pool::Orchard => "orchard",
            Pool::Ironwood => "ironwood",
        }
    }
    /// `pool_code` of the `nullifier_map.spend_pool` column.
    pub fn from_spend_pool(c: i64) -> Pool {
        match c {
            2 => Pool::Sapling,
            3 => Pool::Orchard,
            4 => Pool::Ironwood,
            _ => panic!("unknown pool code {c}"),
        }
    }
}

/// Dense integer names for 32-byte identifiers, assigned in generation order.
#[derive(Default)]
pub struct Ids {
    nf: HashMap<(u8, [u8; 32]), u32>,
    tx: HashMap<[u8; 32], u32>,
    hash: HashMap<[u8; 32], u32>,
}
impl Ids {
    pub fn nf(&mut self, pool: Pool, b: [u8; 32]) -> u32 {
        let n = self.nf.len() as u32 + 1;
        *self.nf.entry((pool.code(), b)).or_insert(n)
    }
    pub fn nf_get(&self, pool: Pool, b: &[u8]) -> u32 {
        let mut a = [0u8; 32];
        a.copy_from_slice(b);
        *self.nf.get(&(pool.code(), a)).unwrap_or(&0)
    }
    pub fn tx(&mut self, b: [u8; 32]) -> u32 {
        let n = self.tx.len() as u32 + 1;
        *self.tx.entry(b).or_insert(n)
    }
    pub fn tx_get(&self, b: &[u8]) -> u32 {
        let mut a = [0u8; 32];
        a.copy_from_slice(b);
        *self.tx.get(&a).unwrap_or(&0)
    }
    pub fn hash(&mut self, b: [u8; 32]) -> u32 {
        let n = self.hash.len() as u32 + 1;
        *self.hash.entry(b).or_insert(n)
    }
}

/// Reference to an output generated earlier: (nf id).
pub type NoteRef = u32;

#[derive(Clone, Debug)]
pub struct OutSpec {
    /// `Some(i)` = account index in the wallet, `None` = a key the wallet does not have.
    pub owner: Option<usize>,
    pub pool: Pool,
    pub value: u64,
    pub internal: bool,
}

#[derive(Clone, Debug, Default)]
pub struct TxSpec {
    /// notes (by nf id) whose nullifier this transaction reveals
    pub spends: Vec<NoteRef>,
    pub outs: Vec<OutSpec>,
    /// additional random foreign Sapling nullifiers revealed
    pub foreign_spends: usize,
}

/// Ground truth of one output.
#[derive(Clone, Debug)]
pub struct OutTruth {
    pub owner: Option<usize>,
    pub pool: Pool,
    pub value: u64,
    pub nf: u32,
    pub internal: bool,
    /// index of the output among the outputs / actions of its pool in the transaction (the
    /// `output_index` / `action_index` under which the wallet stores the note)
    pub idx: u32,
}
/// Ground truth of one transaction: every nullifier it reveals (pool, id) in the order
/// the scanner sees them per pool, and every output.
#[derive(Clone, Debug)]
pub struct TxTruth {
    pub txid: u32,
    pub index: u32,
    pub spends: Vec<(Pool, u32)>,
    pub outs: Vec<OutTruth>,
}
#[derive(Clone)]
pub struct BlockRec {
    pub height: u32,
    pub hash: u32,
    pub prev: u32,
    pub cb: CompactBlock,
    pub state_after: ChainState,
    pub txs: Vec<TxTruth>,
}

pub struct Acct {
    pub id: AccountUuid,
    pub usk: UnifiedSpendingKey,
    pub sapling: sapling::zip32::DiversifiableFullViewingKey,
    pub orchard: orchard::keys::FullViewingKey,
}

/// Where every generated note lives, so that a spend can be constructed.
#[derive(Clone)]
pub struct NoteInfo {
    pub owner: Option<usize>,
    pub pool: Pool,
    pub value: u64,
    pub bytes: [u8; 32],
    pub height: u32,
}

pub struct MemSource<'a>(pub &'a [BlockRec]);

impl<'a> BlockSource for MemSource<'a> {
    type Error = Infallible;
    fn with_blocks<F, W>(
        &self,
        from_height: Option<BlockHeight>,
        limit: Option<usize>,
        mut with_block: F,
    ) -> Result<(), ChainError<W, Infallible>>
    where
        F: FnMut(CompactBlock) -> Result<(), ChainError<W, Infallible>>,
    {
        let from = from_height.map(u32::from).unwrap_or(0);
        let mut n = 0usize;
        for b in self.0.iter() {
            if b.height < from {
                continue;
            }
            if let Some(l) = limit {
                if n >= l {
                    break;
                }
            }
            with_block(b.cb.clone())?;
            n += 1;
        }
        Ok(())
    }
}

/// Canonical error classes of wallet operations.
#[derive(Clone, Copy, Debug, PartialEq, Eq)]
pub enum ErrClass {
    /// `ScanError::PrevHashMismatch` / `BlockHeightDiscontinuity` (chain continuity)
    Continuity,
    /// `SqliteClientError::BlockConflict`
    BlockConflict,
    /// tx locator / nullifier map conflict (`DbError` constraint)
    Constraint,
    /// `RequestedRewindInvalid`
    RewindInvalid,
    /// `CorruptedData`
    Corrupted,
    /// commitment tree errors
    Tree,
    Other,
}
impl ErrClass {
    pub fn coq(self) -> &'static str {
        match self {
            ErrClass::Continuity => "EContinuity",
            ErrClass::BlockConflict => "EBlockConflict",
            ErrClass::Constraint => "EConstraint",
            ErrClass::RewindInvalid => "ERewindInvalid",
            ErrClass::Corrupted => "ECorrupted",
            ErrClass::Tree => "ETree",
            ErrClass::Other => "EOther",
        }
    }
}

#[derive(Clone, Debug, PartialEq, Eq)]
pub enum OpResult {
    Ok,
    /// truncate: the height actually truncated to
    OkHeight(u32),
    Err(ErrClass, String),
    Panic,
}

#[derive(Clone, Debug)]
pub enum Op {
    /// `scan_cached_blocks(from, limit)` over the current best chain
    Scan { from: u32, limit: usize },
    UpdateTip(u32),
    Truncate(u32),
}

/// One row of `*_received_notes`.
#[derive(Clone, Debug, PartialEq, Eq, PartialOrd, Ord)]
pub struct NoteRow {
    pub nf: u32,
    pub pool: u8,
    pub acct: usize,
    pub value: u64,
    pub recv_tx: u32,
    /// `output_index` / `action_index`
    pub idx: u32,
    /// txids (ids) of `*_received_note_spends`, sorted
    pub spent_by: Vec<u32>,
}
/// One row of `transactions`.
#[derive(Clone, Debug, PartialEq, Eq, PartialOrd, Ord)]
pub struct TxRow {
    pub txid: u32,
    pub mined: Option<u32>,
    pub expiry: Option<u32>,
    pub min_observed: u32,
}
#[derive(Clone, Debug, PartialEq, Eq, PartialOrd, Ord)]
pub struct BalRow {
    pub acct: usize,
    pub pool: u8,
    /// spendable + change pending + value pending (= `Balance::total()`)
    pub total: u64,
    pub uneconomic: u64,
    pub spendable: u64,
}
#[derive(Clone, Debug, Default, PartialEq, Eq)]
pub struct Dump {
    pub notes: Vec<NoteRow>,
    pub txs: Vec<TxRow>,
    /// `nullifier_map`: (pool, nf id, block height, tx index)
    pub nfmap: Vec<(u8, u32, u32, u32)>,
    /// `tx_locator_map`: (block height, tx index, txid id)
    pub locs: Vec<(u32, u32, u32)>,
    /// scanned (height, hash id)
    pub blocks: Vec<(u32, u32)>,
    /// chain tip height according to the scan queue
    pub tip: Option<u32>,
    /// `WalletRead::block_fully_scanned`
    pub fully_scanned: Option<u32>,
    /// `None` when `get_wallet_summary` returns `None`
    pub balances: Option<Vec<BalRow>>,
    pub summary_tip: Option<u32>,
}

/// One wallet database together with the ids its accounts got (index = account number).
pub struct Wallet {
    pub db: TestDb,
    pub acct_ids: Vec<AccountUuid>,
}

pub struct World {
    pub wallet: Wallet,
    pub net: LocalNetwork,
    pub accts: Vec<Acct>,
    seed: Vec<u8>,
    /// a key the wallet does not hold (foreign traffic)
    pub foreign_sapling: sapling::zip32::DiversifiableFullViewingKey,
    pub foreign_orchard: orchard::keys::FullViewingKey,
    pub ids: Ids,
    /// current best chain, heights BASE, BASE+1, ...
    pub chain: Vec<BlockRec>,
    /// blocks removed from the best chain by `fork_at`
    pub orphaned: Vec<BlockRec>,
    pub notes: BTreeMap<u32, NoteInfo>,
    pub rng: ChaChaRng,
    /// wallet-owned Sapling outputs re-mined at another tree position (nullifier changed)
    pub renullified: usize,
    genesis: ChainState,
    genesis_hash: u32,
}

/// Nullifier of the Sapling note in `cout` (received by `dfvk` under `scope`) when its commitment
/// sits at `position` of the note commitment tree.  A Sapling nullifier depends on that position, so
/// the same output re-mined elsewhere in the tree has another nullifier.
fn sapling_nf(
    dfvk: &sapling::zip32::DiversifiableFullViewingKey,
    scope: zip32::Scope,
    cout: &zcash_client_backend::proto::compact_formats::CompactSaplingOutput,
    position: u32,
) -> [u8; 32] {
    use sapling::note_encryption::{
        try_sapling_compact_note_decryption, CompactOutputDescription, PreparedIncomingViewingKey,
        Zip212Enforcement,
    };
    let cod = CompactOutputDescription::try_from(cout).expect("compact output");
    let ivk = PreparedIncomingViewingKey::new(&dfvk.to_ivk(scope));
    let (note, _) = try_sapling_compact_note_decryption(&ivk, &cod, Zip212Enforcement::On)
        .expect("own output decrypts");
    note.nf(&dfvk.to_nk(scope), u64::from(position)).0
}

fn seed_bytes(rng: &mut ChaChaRng) -> [u8; 32] {
    let mut b = [0u8; 32];
    rng.fill_bytes(&mut b);
    b
}

/// A fresh wallet with `n` accounts derived from `seed` (ZIP 32 account indices 0..n), birthday
/// at `genesis` (= the block before [`BASE`]).
pub fn new_wallet(seed: &[u8], n: usize, genesis: &ChainState) -> (Wallet, Vec<UnifiedSpendingKey>) {
    let mut db = TestDbFactory::default()
        .new_data_store(network(), None, None)
        .expect("data store");
    let birthday = AccountBirthday::from_parts(genesis.clone(), None);
    let secret = SecretVec::new(seed.to_vec());
    let mut ids = vec![];
    let mut usks = vec![];
    for i in 0..n {
        let (id, usk) = db
            .create_account(&format!("a{i}"), &secret, &birthday, None)
            .expect("create account");
        ids.push(id);
        usks.push(usk);
    }
    (Wallet { db, acct_ids: ids }, usks)
}

impl World {
    /// A second, empty wallet holding the same accounts (for linear-scan comparisons).
    pub fn fresh_wallet(&self) -> Wallet {
        new_wallet(&self.seed, self.accts.len(), &self.genesis).0
    }

    pub fn new(mut rng: ChaChaRng, n_accounts: usize) -> World {
        let net = network();
        let mut ids = Ids::default();
        let prev_hash = BlockHash([0; 32]);
        let genesis_hash = ids.hash(prev_hash.0);
        let genesis = ChainState::empty(BlockHeight::from_u32(BASE - 1), prev_hash);
        let seed = seed_bytes(&mut rng).to_vec();
        let (wallet, usks) = new_wallet(&seed, n_accounts, &genesis);
        let mut accts = vec![];
        for (i, usk) in usks.into_iter().enumerate() {
            let ufvk = usk.to_unified_full_viewing_key();
            accts.push(Acct {
                id: wallet.acct_ids[i],
                sapling: ufvk.sapling().expect("sapling").clone(),
                orchard: ufvk.orchard().expect("orchard").clone(),
                usk,
            });
        }
        let fseed = seed_bytes(&mut rng);
        let fusk = UnifiedSpendingKey::from_seed(&net, &fseed, zip32::AccountId::ZERO)
            .expect("foreign usk");
        let fufvk = fusk.to_unified_full_viewing_key();
        World {
            wallet,
            net,
            accts,
            seed,
            foreign_sapling: fufvk.sapling().unwrap().clone(),
            foreign_orchard: fufvk.orchard().unwrap().clone(),
            ids,
            chain: vec![],
            orphaned: vec![],
            notes: BTreeMap::new(),
            rng,
            renullified: 0,
            genesis,
            genesis_hash,
        }
    }

    pub fn tip_height(&self) -> u32 {
        BASE + self.chain.len() as u32 - 1
    }
    pub fn block(&self, h: u32) -> Option<&BlockRec> {
        if h < BASE {
            return None;
        }
        self.chain.get((h - BASE) as usize)
    }
    fn state_before(&self, h: u32) -> ChainState {
        if h == BASE {
            self.genesis.clone()
        } else {
            self.block(h - 1).expect("block below").state_after.clone()
        }
    }
    fn hash_before(&self, h: u32) -> u32 {
        if h == BASE {
            self.genesis_hash
        } else {
            self.block(h - 1).unwrap().hash
        }
    }

    /// Appends a block with the given transactions to the best chain. Returns its height.
    pub fn push_block(&mut self, txs: &[TxSpec]) -> u32 {
        let h = BASE + self.chain.len() as u32;
        let height = BlockHeight::from_u32(h);
        let prev = self.state_before(h);
        let mut sap_size = prev.final_sapling_tree().tree_size() as u32;
        let mut ctxs = vec![];
        let mut truths = vec![];
        for (i, spec) in txs.iter().enumerate() {
            let mut ctx = CompactTx::default();
            let txid = seed_bytes(&mut self.rng);
            ctx.txid = txid.to_vec();
            ctx.index = i as u64;
            let txid_id = self.ids.tx(txid);
            let mut spends: Vec<(Pool, u32)> = vec![];
            let mut outs = vec![];
            for s in &spec.spends {
                let info = self.notes.get(s).expect("spend of a known note").clone();
                match info.pool {
                    Pool::Sapling => {
                        let nf = sapling::Nullifier(info.bytes);
                        self.foreign_sapling.add_spend(&mut ctx, nf, &mut self.rng);
                    }
                    Pool::Orchard => {
                        let nf = orchard::note::Nullifier::from_bytes(&info.bytes).unwrap();
                        self.foreign_orchard.add_spend(&mut ctx, nf, &mut self.rng);
                    }
                    Pool::Ironwood => {
                        let nf = orchard::note::Nullifier::from_bytes(&info.bytes).unwrap();
                        IronwoodFvk(self.foreign_orchard.clone()).add_spend(&mut ctx, nf, &mut self.rng);
                    }
                }
                spends.push((info.pool, *s));
            }
            for _ in 0..spec.foreign_spends {
                let b = seed_bytes(&mut self.rng);
                self.foreign_sapling
                    .add_spend(&mut ctx, sapling::Nullifier(b), &mut self.rng);
                let id = self.ids.nf(Pool::Sapling, b);
                spends.push((Pool::Sapling, id));
            }
            for o in &spec.outs {
                let at = if o.internal { AddressType::Internal } else { AddressType::DefaultExternal };
                let v = Zatoshis::from_u64(o.value).unwrap();
                let idx = match o.pool {
                    Pool::Sapling => ctx.outputs.len(),
                    Pool::Orchard => ctx.actions.len(),
                    Pool::Ironwood => ctx.ironwood_actions.len(),
                } as u32;
                let (bytes, dummy): ([u8; 32], Option<[u8; 32]>) = match o.pool {
                    Pool::Sapling => {
                        let fvk = match o.owner {
                            Some(a) => self.accts[a].sapling.clone(),
                            None => self.foreign_sapling.clone(),
                        };
                        let position = sap_size + ctx.outputs.len() as u32;
                        let nf = fvk.add_output(&mut ctx, &self.net, height, None, at, v, sap_size, &mut self.rng);
                        if o.internal {
                            // The test utility derives the nullifier with the external nk; a note sent
                            // to the internal (change) address is nullified with the internal nk.
                            (sapling_nf(&fvk, zip32::Scope::Internal, ctx.outputs.last().unwrap(), position), None)
                        } else {
                            (nf.0, None)
                        }
                    }
                    Pool::Orchard => {
                        let fvk = match o.owner {
                            Some(a) => self.accts[a].orchard.clone(),
                            None => self.foreign_orchard.clone(),
                        };
                        let nf = fvk.add_output(&mut ctx, &self.net, height, None, at, v, sap_size, &mut self.rng);
                        let d = ctx.actions.last().unwrap().nullifier.clone();
                        let mut db_ = [0u8; 32];
                        db_.copy_from_slice(&d);
                        (nf.to_bytes(), Some(db_))
                    }
                    Pool::Ironwood => {
                        let fvk = IronwoodFvk(match o.owner {
                            Some(a) => self.accts[a].orchard.clone(),
                            None => self.foreign_orchard.clone(),
                        });
                        let nf = fvk.add_output(&mut ctx, &self.net, height, None, at, v, sap_size, &mut self.rng);
                        let d = ctx.ironwood_actions.last().unwrap().nullifier.clone();
                        let mut db_ = [0u8; 32];
                        db_.copy_from_slice(&d);
                        (nf.to_bytes(), Some(db_))
                    }
                };
                if let Some(d) = dummy {
                    // an Orchard-shaped output action reveals a (dummy) nullifier as well
                    let id = self.ids.nf(o.pool, d);
                    spends.push((o.pool, id));
                }
                let nf_id = self.ids.nf(o.pool, bytes);
                self.notes.insert(
                    nf_id,
                    NoteInfo { owner: o.owner, pool: o.pool, value: o.value, bytes, height: h },
                );
                outs.push(OutTruth { owner: o.owner, pool: o.pool, value: o.value, nf: nf_id, internal: o.internal, idx });
            }
            sap_size += ctx.outputs.len() as u32;
            truths.push(TxTruth { txid: txid_id, index: i as u32, spends, outs });
            ctxs.push(ctx);
        }
        self.finish_block(h, ctxs, truths)
    }

    fn finish_block(&mut self, h: u32, ctxs: Vec<CompactTx>, truths: Vec<TxTruth>) -> u32 {
        let prev = self.state_before(h);
        let prev_hash_id = self.hash_before(h);
        let hash = seed_bytes(&mut self.rng);
        let hash_id = self.ids.hash(hash);
        let mut sap = prev.final_sapling_tree().clone();
        let mut orch = prev.final_orchard_tree().clone();
        let mut iron = prev.final_ironwood_tree().clone();
        for ctx in &ctxs {
            for o in &ctx.outputs {
                sap.append(sapling::Node::from_cmu(&o.cmu().unwrap()));
            }
            for a in &ctx.actions {
                orch.append(orchard::tree::MerkleHashOrchard::from_cmx(&a.cmx().unwrap()));
            }
            for a in &ctx.ironwood_actions {
                iron.append(orchard::tree::MerkleHashOrchard::from_cmx(&a.cmx().unwrap()));
            }
        }
        let mut cb = CompactBlock { hash: hash.to_vec(), height: h as u64, ..Default::default() };
        cb.prev_hash = prev.block_hash().0.to_vec();
        cb.vtx = ctxs;
        cb.chain_metadata = Some(ChainMetadata {
            sapling_commitment_tree_size: sap.tree_size() as u32,
            orchard_commitment_tree_size: orch.tree_size() as u32,
            ironwood_commitment_tree_size: iron.tree_size() as u32,
        });
        let state_after = ChainState::new(BlockHeight::from_u32(h), BlockHash(hash), sap, orch, iron);
        self.chain.push(BlockRec { height: h, hash: hash_id, prev: prev_hash_id, cb, state_after, txs: truths });
        h
    }

    /// Re-mines the transactions `tx_indices` of an orphaned block (same txids, same notes) into a
    /// new block on top of the best chain.
    pub fn remine(&mut self, orphan: &BlockRec, tx_indices: &[usize]) -> u32 {
        let h = BASE + self.chain.len() as u32;
        let mut sap_size = self.state_before(h).final_sapling_tree().tree_size() as u32;
        let mut ctxs = vec![];
        let mut truths = vec![];
        for (k, i) in tx_indices.iter().enumerate() {
            let mut ctx = orphan.cb.vtx[*i].clone();
            ctx.index = k as u64;
            let mut t = orphan.txs[*i].clone();
            t.index = k as u32;
            for o in t.outs.iter_mut() {
                let mut info = match self.notes.get(&o.nf) {
                    Some(n) => n.clone(),
                    None => continue,
                };
                info.height = h;
                if let (Pool::Sapling, Some(a)) = (o.pool, o.owner) {
                    // the note lands at another position of the Sapling tree: new nullifier
                    let scope = if o.internal { zip32::Scope::Internal } else { zip32::Scope::External };
                    let bytes = sapling_nf(&self.accts[a].sapling, scope, &ctx.outputs[o.idx as usize], sap_size + o.idx);
                    info.bytes = bytes;
                    let new_id = self.ids.nf(Pool::Sapling, bytes);
                    if new_id != o.nf {
                        self.renullified += 1;
                    }
                    o.nf = new_id;
                }
                self.notes.insert(o.nf, info);
            }
            sap_size += ctx.outputs.len() as u32;
            ctxs.push(ctx);
            truths.push(t);
        }
        self.finish_block(h, ctxs, truths)
    }

    /// Drops the best chain above height `h`; the dropped blocks are appended to `orphaned`.
    pub fn fork_at(&mut self, h: u32) {
        let keep = (h + 1 - BASE) as usize;
        if keep < self.chain.len() {
            let dropped: Vec<BlockRec> = self.chain.drain(keep..).collect();
            self.orphaned.extend(dropped);
        }
    }

    // ---------------------------------------------------------------------------------------
    // operations
    // ---------------------------------------------------------------------------------------

    pub fn scan(&mut self, from: u32, limit: usize) -> OpResult {
        let from_state = self.state_before(from);
        scan_wallet(&self.chain, &from_state, &mut self.wallet, from, limit)
    }

    /// `scan_cached_blocks(from, limit)` of the best chain into another wallet.
    pub fn scan_into(&self, wallet: &mut Wallet, from: u32, limit: usize) -> OpResult {
        let from_state = self.state_before(from);
        scan_wallet(&self.chain, &from_state, wallet, from, limit)
    }

    pub fn update_tip(&mut self, h: u32) -> OpResult {
        let db = &mut self.wallet.db;
        match vcommon::catch(|| db.update_chain_tip(BlockHeight::from_u32(h))) {
            None => OpResult::Panic,
            Some(Ok(())) => OpResult::Ok,
            Some(Err(e)) => OpResult::Err(classify(&e), format!("{e:?}")),
        }
    }

    pub fn truncate(&mut self, h: u32) -> OpResult {
        let db = &mut self.wallet.db;
        match vcommon::catch(|| db.truncate_to_height(BlockHeight::from_u32(h))) {
            None => OpResult::Panic,
            Some(Ok(got)) => OpResult::OkHeight(u32::from(got)),
            Some(Err(e)) => OpResult::Err(classify(&e), format!("{e:?}")),
        }
    }

    pub fn exec(&mut self, op: &Op) -> OpResult {
        match op {
            Op::Scan { from, limit } => self.scan(*from, *limit),
            Op::UpdateTip(h) => self.update_tip(*h),
            Op::Truncate(h) => self.truncate(*h),
        }
    }

    // ---------------------------------------------------------------------------------------
    // canonical dump
    // ---------------------------------------------------------------------------------------

    /// Canonical dump of the main wallet.
    pub fn dump(&self) -> Dump {
        self.dump_of(&self.wallet)
    }

    /// Canonical dump of any wallet created by [`World::fresh_wallet`] / [`new_wallet`].
    pub fn dump_of(&self, wallet: &Wallet) -> Dump {
        let db = &wallet.db;
        let conn = db.conn();
        let mut d = Dump::default();
        // account row id -> index
        let mut acct_rows: HashMap<i64, usize> = HashMap::new();
        {
            let mut st = conn.prepare("SELECT id, uuid FROM accounts").unwrap();
            let mut rows = st.query([]).unwrap();
            while let Some(r) = rows.next().unwrap() {
                let id: i64 = r.get(0).unwrap();
                let u: uuid::Uuid = r.get(1).unwrap();
                let idx = wallet.acct_ids.iter().position(|a| a.expose_uuid() == u).unwrap();
                acct_rows.insert(id, idx);
            }
        }
        {
            let mut st = conn
                .prepare("SELECT txid, mined_height, expiry_height, min_observed_height FROM transactions")
                .unwrap();
            let mut rows = st.query([]).unwrap();
            while let Some(r) = rows.next().unwrap() {
                let t: Vec<u8> = r.get(0).unwrap();
                d.txs.push(TxRow {
                    txid: self.ids.tx_get(&t),
                    mined: r.get(1).unwrap(),
                    expiry: r.get(2).unwrap(),
                    min_observed: r.get(3).unwrap(),
                });
            }
            d.txs.sort();
        }
        for pool in Pool::ALL {
            let p = pool.prefix();
            let mut st = conn
                .prepare(&format!(
                    "SELECT rn.id, rn.nf, rn.account_id, rn.value, t.txid, rn.{ix} FROM {p}_received_notes rn \
                     JOIN transactions t ON t.id_tx = rn.transaction_id",
                    ix = if pool == Pool::Sapling { "output_index" } else { "action_index" }
                ))
                .unwrap();
            let mut st2 = conn
                .prepare(&format!(
                    "SELECT t.txid FROM {p}_received_note_spends s JOIN transactions t ON t.id_tx = s.transaction_id \
                     WHERE s.{p}_received_note_id = ?"
                ))
                .unwrap();
            let mut rows = st.query([]).unwrap();
            while let Some(r) = rows.next().unwrap() {
                let id: i64 = r.get(0).unwrap();
                let nf: Option<Vec<u8>> = r.get(1).unwrap();
                let acct: i64 = r.get(2).unwrap();
                let value: i64 = r.get(3).unwrap();
                let txid: Vec<u8> = r.get(4).unwrap();
                let idx: u32 = r.get(5).unwrap();
                let mut spent_by: Vec<u32> = st2
                    .query_map([id], |r| r.get::<_, Vec<u8>>(0))
                    .unwrap()
                    .map(|t| self.ids.tx_get(&t.unwrap()))
                    .collect();
                spent_by.sort();
                d.notes.push(NoteRow {
                    nf: nf.map(|b| self.ids.nf_get(pool, &b)).unwrap_or(0),
                    pool: pool.code(),
                    acct: acct_rows[&acct],
                    value: value as u64,
                    recv_tx: self.ids.tx_get(&txid),
                    idx,
                    spent_by,
                });
            }
        }
        d.notes.sort();
        {
            let mut st = conn.prepare("SELECT nf, spend_pool, block_height, tx_index FROM nullifier_map").unwrap();
            let mut rows = st.query([]).unwrap();
            while let Some(r) = rows.next().unwrap() {
                let nf: Vec<u8> = r.get(0).unwrap();
                let pool = Pool::from_spend_pool(r.get(1).unwrap());
                d.nfmap.push((pool.code(), self.ids.nf_get(pool, &nf), r.get(2).unwrap(), r.get(3).unwrap()));
            }
            d.nfmap.sort();
            let mut st = conn.prepare("SELECT block_height, tx_index, txid FROM tx_locator_map").unwrap();
            let mut rows = st.query([]).unwrap();
            while let Some(r) = rows.next().unwrap() {
                let t: Vec<u8> = r.get(2).unwrap();
                d.locs.push((r.get(0).unwrap(), r.get(1).unwrap(), self.ids.tx_get(&t)));
            }
            d.locs.sort();
        }
        {
            let mut st = conn.prepare("SELECT height, hash FROM blocks ORDER BY height").unwrap();
            let mut rows = st.query([]).unwrap();
            while let Some(r) = rows.next().unwrap() {
                let h: u32 = r.get(0).unwrap();
                let hash: Vec<u8> = r.get(1).unwrap();
                let mut a = [0u8; 32];
                a.copy_from_slice(&hash);
                d.blocks.push((h, *self.ids.hash.get(&a).unwrap_or(&0)));
            }
        }
        d.tip = db.chain_height().unwrap().map(u32::from);
        d.fully_scanned = db.block_fully_scanned().unwrap().map(|m| u32::from(m.block_height()));
        let summary = db.get_wallet_summary(ConfirmationsPolicy::MIN).unwrap();
        if let Some(s) = summary {
            d.summary_tip = Some(u32::from(s.chain_tip_height()));
            let mut v = vec![];
            for (id, b) in s.account_balances() {
                let a = wallet.acct_ids.iter().position(|x| x == id).expect("known account");
                for (pool, bal) in [
                    (Pool::Sapling, b.sapling_balance()),
                    (Pool::Orchard, b.orchard_balance()),
                    (Pool::Ironwood, b.ironwood_balance()),
                ] {
                    v.push(BalRow {
                        acct: a,
                        pool: pool.code(),
                        total: bal.total().into_u64(),
                        uneconomic: bal.uneconomic_value().into_u64(),
                        spendable: bal.spendable_value().into_u64(),
                    });
                }
            }
            v.sort();
            d.balances = Some(v);
        }
        d
    }
}

pub fn scan_wallet(chain: &[BlockRec], from_state: &ChainState, wallet: &mut Wallet, from: u32, limit: usize) -> OpResult {
    let src = MemSource(chain);
    let net = network();
    let db = &mut wallet.db;
    let r = vcommon::catch(|| {
        scan_cached_blocks(&net, &src, db, BlockHeight::from_u32(from), from_state, limit)
    });
    match r {
        None => OpResult::Panic,
        Some(Ok(_)) => OpResult::Ok,
        Some(Err(e)) => {
            let s = format!("{e:?}");
            let c = match &e {
                ChainError::Scan(_) => ErrClass::Continuity,
                ChainError::Wallet(w) => classify(w),
                _ => ErrClass::Other,
            };
            OpResult::Err(c, s)
        }
    }
}

pub fn classify(e: &SqliteClientError) -> ErrClass {
    let s = format!("{e:?}");
    match e {
        SqliteClientError::BlockConflict(_) => ErrClass::BlockConflict,
        SqliteClientError::RequestedRewindInvalid { .. } => ErrClass::RewindInvalid,
        SqliteClientError::CorruptedData(_) => ErrClass::Corrupted,
        SqliteClientError::DbError(_) => ErrClass::Constraint,
        _ if s.contains("CommitmentTree") || s.contains("ShardTree") => ErrClass::Tree,
        _ => ErrClass::Other,
    }
}

pub fn rng_from(seed: u64, stream: u64) -> ChaChaRng {
    let mut r = vcommon::Rng::new(seed, stream);
    let mut b = [0u8; 32];
    r.0.fill_bytes(&mut b);
    ChaChaRng::from_seed(b)
}

// -------------------------------------------------------------------------------------------
// Coq printers (types of coq/C01/Model.v and coq/C01/Corr.v)
// -------------------------------------------------------------------------------------------

fn optn(x: Option<u32>) -> String {
    match x {
        Some(v) => format!("(Some {v})"),
        None => "None".into(),
    }
}

/// `mkBlock height hash prev [mkTx id [(pool, nf); ..] [mkOut owner pool value nf idx; ..]; ..]`
pub fn coq_block(b: &BlockRec) -> String {
    let txs: Vec<String> = b
        .txs
        .iter()
        .map(|t| {
            let sp: Vec<String> = t.spends.iter().map(|(p, n)| format!("({},{})", p.code(), n)).collect();
            let os: Vec<String> = t
                .outs
                .iter()
                .map(|o| {
                    format!(
                        "mkOut {} {} {} {} {}",
                        optn(o.owner.map(|a| a as u32)),
                        o.pool.code(),
                        o.value,
                        o.nf,
                        o.idx
                    )
                })
                .collect();
            format!("mkTx {} [{}] [{}]", t.txid, sp.join(";"), os.join(";"))
        })
        .collect();
    format!("mkBlock {} {} {} [{}]", b.height, b.hash, b.prev, txs.join(";"))
}

/// `mkDump notes txs locs nfmap blocks tip fully_scanned balances`
pub fn coq_dump(d: &Dump) -> String {
    let notes: Vec<String> = d
        .notes
        .iter()
        .map(|n| {
            let sp: Vec<String> = n.spent_by.iter().map(|t| t.to_string()).collect();
            format!("mkNote ({},{}) {} {} {} {} [{}]", n.pool, n.nf, n.acct, n.value, n.recv_tx, n.idx, sp.join(";"))
        })
        .collect();
    let txs: Vec<String> = d
        .txs
        .iter()
        .map(|t| format!("mkTxRow {} {} {} {}", t.txid, optn(t.mined), optn(t.expiry), t.min_observed))
        .collect();
    let locs: Vec<String> = d.locs.iter().map(|(h, i, t)| format!("({h},{i},{t})")).collect();
    let nfm: Vec<String> = d.nfmap.iter().map(|(p, n, h, i)| format!("(({p},{n}),({h},{i}))")).collect();
    let bl: Vec<String> = d.blocks.iter().map(|(h, x)| format!("({h},{x})")).collect();
    let bal = match &d.balances {
        None => "None".to_string(),
        Some(v) => {
            let e: Vec<String> =
                v.iter().map(|b| format!("({},{},{},{})", b.acct, b.pool, b.total, b.uneconomic)).collect();
            format!("(Some [{}])", e.join(";"))
        }
    };
    format!(
        "(mkDump [{}] [{}] [{}] [{}] [{}] {} {} {})",
        notes.join(";"),
        txs.join(";"),
        locs.join(";"),
        nfm.join(";"),
        bl.join(";"),
        optn(d.tip),
        optn(d.fully_scanned),
        bal
    )
}

pub fn coq_res(r: &OpResult) -> String {
    match r {
        OpResult::Ok => "(Ok tt)".into(),
        OpResult::OkHeight(h) => format!("(Ok {h})"),
        OpResult::Err(c, _) => format!("(Err {})", c.coq()),
        OpResult::Panic => "Panic".into(),
    }
}

// -------------------------------------------------------------------------------------------
// Random chain generator
// -------------------------------------------------------------------------------------------

/// Parameters of [`gen_blocks`].
#[derive(Clone, Debug)]
pub struct ChainParams {
    /// probability (percent) that a block is non-empty
    pub busy_pct: u64,
    pub max_txs: u64,
    /// percent of outputs that go to a key the wallet does not hold
    pub foreign_pct: u64,
    /// percent of transactions that try to spend an earlier unspent note
    pub spend_pct: u64,
}

impl Default for ChainParams {
    fn default() -> Self {
        ChainParams { busy_pct: 45, max_txs: 3, foreign_pct: 25, spend_pct: 55 }
    }
}

/// Values around the dust threshold (`MARGINAL_FEE` = 5000) and ordinary ones.
pub fn gen_value(r: &mut vcommon::Rng) -> u64 {
    match r.below(10) {
        0 => 0,
        1 => r.range(1, 4999),
        2 => 5000,
        3 => 5001,
        4 => 4999,
        _ => r.range(5002, 2_000_000),
    }
}

impl World {
    /// Notes of the best chain (created at a height `< below`) that no transaction of the best
    /// chain spends.
    pub fn unspent_notes(&self, below: u32) -> Vec<u32> {
        let mut spent = std::collections::HashSet::new();
        let mut created = vec![];
        for b in &self.chain {
            for t in &b.txs {
                for (_, k) in &t.spends {
                    spent.insert(*k);
                }
                if b.height < below {
                    for o in &t.outs {
                        created.push(o.nf);
                    }
                }
            }
        }
        created.into_iter().filter(|k| !spent.contains(k)).collect()
    }

    /// Appends `n` random blocks to the best chain: receipts to external/internal addresses of
    /// every account in the three pools, spends of earlier unspent notes (own and foreign),
    /// foreign outputs and nullifiers, empty blocks.
    pub fn gen_blocks(&mut self, r: &mut vcommon::Rng, n: usize, p: &ChainParams) {
        for _ in 0..n {
            let h = BASE + self.chain.len() as u32;
            if !r.chance(p.busy_pct, 100) {
                self.push_block(&[]);
                continue;
            }
            let ntx = r.range(1, p.max_txs);
            let mut avail = self.unspent_notes(h);
            let mut specs = vec![];
            for _ in 0..ntx {
                let mut spec = TxSpec::default();
                if r.chance(p.spend_pct, 100) {
                    let k = r.range(1, 2);
                    for _ in 0..k {
                        if avail.is_empty() {
                            break;
                        }
                        let i = r.below(avail.len() as u64) as usize;
                        spec.spends.push(avail.swap_remove(i));
                    }
                }
                let nout = r.below(4);
                for _ in 0..nout {
                    let owner = if r.chance(p.foreign_pct, 100) {
                        None
                    } else {
                        Some(r.below(self.accts.len() as u64) as usize)
                    };
                    let pool = *r.pick(&Pool::ALL);
                    spec.outs.push(OutSpec { owner, pool, value: gen_value(r), internal: r.chance(1, 3) });
                }
                spec.foreign_spends = if r.chance(1, 4) { r.range(1, 2) as usize } else { 0 };
                specs.push(spec);
            }
            self.push_block(&specs);
        }
    }
}
