//! C10, zcash_keys side: `zcash_keys::encoding::{decode_payment_address, encode_payment_address}`
//! (the shared Bech32 helper `bech32_decode`) on canonical, upper-case, mixed-case, wrong-prefix,
//! whitespace, wrong-variant, bad-padding and mutated strings. One Coq `case` term (CKDec of
//! coq/C10/Corr.v) per call.
use bech32::primitives::decode::CheckedHrpstring;
use bech32::primitives::iter::{ByteIterExt, Fe32IterExt};
use bech32::{Bech32, Bech32m, Fe32, Hrp};
use vcommon::*;
use zcash_keys::encoding::{decode_payment_address, encode_payment_address, Bech32DecodeError};

fn cstr(s: &str) -> String {
    if s.chars().all(|c| (' '..='~').contains(&c) && c != '"') {
        format!("(str \"{}\"%string)", s)
    } else {
        list(s.chars().map(|c| format!("{}", c as u32)))
    }
}
const HRPS: [&str; 3] = ["zs", "ztestsapling", "zregtestsapling"];

fn bech32_string<Ck: bech32::Checksum>(hrp: &str, fes: &[Fe32]) -> String {
    let h = Hrp::parse_unchecked(hrp);
    fes.iter().copied().with_checksum::<Ck>(&h).chars().collect()
}
fn to_fes(b: &[u8]) -> Vec<Fe32> {
    b.iter().copied().bytes_to_fes().collect()
}
fn fe(x: u64) -> Fe32 {
    Fe32::try_from(x as u8 & 31).unwrap()
}

/// oracle: are the bytes the data part regroups to (trailing bits dropped) a valid payment address?
fn oracle_valid(s: &str) -> bool {
    match CheckedHrpstring::new::<Bech32>(s) {
        Ok(p) => {
            let b: Vec<u8> = p.byte_iter().collect();
            match <[u8; 43]>::try_from(&b[..]) {
                Ok(a) => sapling::PaymentAddress::from_bytes(&a).is_some(),
                Err(_) => false,
            }
        }
        Err(_) => false,
    }
}

fn emit(n: &mut usize, hrp: &str, s: &str) {
    let r = catch(|| decode_payment_address(hrp, s));
    let (o, re) = match &r {
        None => (PANIC.to_string(), "None".to_string()),
        Some(Ok(a)) => {
            let e = catch(|| encode_payment_address(hrp, a));
            let es = match e {
                None => PANIC.to_string(),
                Some(x) => ok(cstr(&x)),
            };
            (ok(hn(&a.to_bytes())), format!("(Some {})", es))
        }
        Some(Err(e)) => (
            match e {
                Bech32DecodeError::Bech32Error(_) | Bech32DecodeError::Hrp(_) => err("KBech32"),
                Bech32DecodeError::HrpMismatch { .. } => err("KHrpMismatch"),
                Bech32DecodeError::ReadError => err("KRead"),
            },
            "None".to_string(),
        ),
    };
    case(format!("CKDec {} {} {} {} {}", cstr(hrp), cstr(s), boolc(oracle_valid(s)), o, re));
    *n += 1;
}

fn main() {
    let a = args();
    quiet_panics();
    let mut r = Rng::new(a.seed, 31);
    let mut n = 0usize;
    let reps = a.budget(6, 40);
    // witness of the repaired padding defect first: canonical address with the padding bit set
    {
        let esk = sapling::zip32::ExtendedSpendingKey::master(&[7u8; 32]);
        let addr = esk.default_address().1;
        let mut f = to_fes(&addr.to_bytes());
        let l = f.len() - 1;
        f[l] = fe(f[l].to_u8() as u64 | 1);
        emit(&mut n, "zs", &bech32_string::<Bech32>("zs", &f));
    }
    for i in 0..reps {
        let seed = r.bytes(32);
        let esk = sapling::zip32::ExtendedSpendingKey::master(&seed);
        let addr = esk.default_address().1;
        let bytes = addr.to_bytes();
        for (hi, hrp) in HRPS.iter().enumerate() {
            let s = encode_payment_address(hrp, &addr);
            emit(&mut n, hrp, &s);
            emit(&mut n, hrp, &s.to_ascii_uppercase()); // BIP 173 upper-case rendering
            // mixed case: one letter raised
            let mut c: Vec<char> = s.chars().collect();
            let idx: Vec<usize> = (0..c.len()).filter(|j| c[*j].is_ascii_lowercase()).collect();
            let j = *r.pick(&idx);
            c[j] = c[j].to_ascii_uppercase();
            emit(&mut n, hrp, &c.iter().collect::<String>());
            // upper-case prefix only / upper-case data only (mixed)
            let (h, d) = s.split_at(hrp.len());
            emit(&mut n, hrp, &format!("{}{}", h.to_ascii_uppercase(), d));
            // encoded for another network
            emit(&mut n, hrp, &encode_payment_address(HRPS[(hi + 1) % 3], &addr));
            emit(&mut n, HRPS[(hi + 2) % 3], &s);
            // whitespace is not trimmed here
            emit(&mut n, hrp, &format!(" {}", s));
            emit(&mut n, hrp, &format!("{}\n", s));
            // other checksum variant
            emit(&mut n, hrp, &bech32_string::<Bech32m>(hrp, &to_fes(&bytes)));
            if i % 2 == 0 {
                // non-zero padding bit / a whole surplus character (rejected since the fix)
                let mut f = to_fes(&bytes);
                let l = f.len() - 1;
                f[l] = fe(f[l].to_u8() as u64 | 1);
                emit(&mut n, hrp, &bech32_string::<Bech32>(hrp, &f));
                let mut f = to_fes(&bytes);
                f.push(fe(r.below(32)));
                emit(&mut n, hrp, &bech32_string::<Bech32>(hrp, &f));
            }
            // wrong payload length, arbitrary 43 bytes (almost never a valid address)
            emit(&mut n, hrp, &bech32_string::<Bech32>(hrp, &to_fes(&bytes[..42])));
            let mut b44 = bytes.to_vec();
            b44.push(0);
            emit(&mut n, hrp, &bech32_string::<Bech32>(hrp, &to_fes(&b44)));
            emit(&mut n, hrp, &bech32_string::<Bech32>(hrp, &to_fes(&r.bytes(43))));
            // a mutated character
            let mut c: Vec<char> = s.chars().collect();
            let j = r.below(c.len() as u64) as usize;
            c[j] = *r.pick(&['q', 'p', 'z', '1', 'b', 'Q', ' ', 'é']);
            emit(&mut n, hrp, &c.iter().collect::<String>());
        }
    }
    for s in ["", "1", "zs1", "zs", "ZS1QQQQQQ", "zs1qqqqqq", "1qqqqqq"] {
        emit(&mut n, "zs", s);
    }
    stat(format!("{{\"cases\":{},\"op\":\"zcash_keys::encoding::decode_payment_address\",\"tier\":\"{}\",\"seed\":{}}}", n, a.tier, a.seed));
}
