//! C11, feature profile without `transparent-inputs` (the default of zcash_keys): UFVK / UIVK
//! strings that carry a transparent item are decoded and re-encoded by a build that cannot
//! interpret that item. One Coq `case` term per call; oracle tables as in c11.rs.
use bech32::primitives::decode::CheckedHrpstring;
use bech32::Hrp;
use std::collections::BTreeSet;
use vcommon::*;
use zcash_address::unified::{self, Bech32mZip316, Container, Encoding, Fvk, Ivk, Ufvk, Uivk};
use zcash_keys::keys::{UnifiedFullViewingKey, UnifiedIncomingViewingKey, UnifiedSpendingKey};
use zcash_protocol::consensus::{
    BlockHeight, MainNetwork, NetworkType, NetworkUpgrade, Parameters, TestNetwork,
};
use zip32::AccountId;

#[derive(Clone, Copy, PartialEq, Eq, Debug)]
enum Net {
    Main,
    Test,
    Reg,
}
impl Parameters for Net {
    fn network_type(&self) -> NetworkType {
        match self {
            Net::Main => NetworkType::Main,
            Net::Test => NetworkType::Test,
            Net::Reg => NetworkType::Regtest,
        }
    }
    fn activation_height(&self, nu: NetworkUpgrade) -> Option<BlockHeight> {
        match self {
            Net::Main => MainNetwork.activation_height(nu),
            Net::Test => TestNetwork.activation_height(nu),
            Net::Reg => None,
        }
    }
}
const NETS: [Net; 3] = [Net::Main, Net::Test, Net::Reg];
fn net_id(n: Net) -> u32 {
    match n {
        Net::Main => 0,
        Net::Test => 1,
        Net::Reg => 2,
    }
}
fn nt_id(n: NetworkType) -> u32 {
    match n {
        NetworkType::Main => 0,
        NetworkType::Test => 1,
        NetworkType::Regtest => 2,
    }
}

type B = Vec<u8>;
fn hx(b: &[u8]) -> String {
    format!("(hx \"{}\")", hex(b))
}
fn sx(o: &Option<B>) -> String {
    match o {
        Some(b) => format!("(sx \"{}\")", hex(b)),
        None => "None".into(),
    }
}
fn p_items(l: &[(u32, B)]) -> String {
    list(l.iter().map(|(t, d)| format!("(it {} \"{}\")", t, hex(d))))
}
fn arr<const N: usize>(b: &[u8]) -> Option<[u8; N]> {
    b.try_into().ok()
}
fn ct<T>(c: subtle::CtOption<T>) -> Option<T> {
    Option::from(c)
}
fn p_ores(r: Option<Option<B>>) -> String {
    match r {
        None => "OPanic".into(),
        Some(None) => "ONone".into(),
        Some(Some(b)) => format!("(osome \"{}\")", hex(&b)),
    }
}
/// primitive decoders 13 / 14 (FVK items) and 16 / 17 (IVK items), under catch_unwind
fn decoder(f: u32, b: &[u8]) -> Option<Option<B>> {
    let b = b.to_vec();
    catch(move || match f {
        13 => arr(&b).and_then(|a| orchard::keys::FullViewingKey::from_bytes(&a)).map(|k| k.to_bytes().to_vec()),
        14 => arr(&b)
            .and_then(|a| sapling::zip32::DiversifiableFullViewingKey::from_bytes(&a))
            .map(|k| k.to_bytes().to_vec()),
        16 => arr(&b).and_then(|a| ct(orchard::keys::IncomingViewingKey::from_bytes(&a))).map(|k| k.to_bytes().to_vec()),
        17 => arr(&b)
            .and_then(|a| ct(sapling::zip32::IncomingViewingKey::from_bytes(&a)))
            .map(|k| k.to_bytes().to_vec()),
        _ => None,
    })
}
#[derive(Default)]
struct Tab {
    seen: BTreeSet<(u32, B)>,
    out: Vec<String>,
}
impl Tab {
    fn dec(&mut self, f: u32, k: &[u8]) {
        if self.seen.insert((f, k.to_vec())) {
            self.out.push(format!("oe {} \"{}\" 0 {}", f, hex(k), p_ores(decoder(f, k))));
        }
    }
    fn print(&self) -> String {
        format!("[{}]", self.out.join("; "))
    }
}

fn unbech(s: &str) -> Option<(String, B)> {
    let p = CheckedHrpstring::new::<Bech32mZip316>(s).ok()?;
    Some((p.hrp().as_str().to_string(), p.byte_iter().collect()))
}
fn unjumble(b: &[u8]) -> Option<B> {
    f4jumble::f4jumble_inv(b).ok()
}
fn rebech(hrp: &str, raw: &[u8]) -> Option<String> {
    let j = f4jumble::f4jumble(raw).ok()?;
    bech32::encode::<Bech32mZip316>(Hrp::parse(hrp).ok()?, &j).ok()
}
fn enc_obs(s: &str) -> Option<(B, B)> {
    let (h, p) = unbech(s)?;
    Some((h.into_bytes(), unjumble(&p)?))
}
fn p_dinput(s: &str) -> String {
    match unbech(s) {
        None => "NotBech32".into(),
        Some((h, p)) => format!("(Bech {} {})", hx(h.as_bytes()), sx(&unjumble(&p))),
    }
}
fn rd_cs(b: &[u8], p: &mut usize) -> Option<u64> {
    let f = *b.get(*p)?;
    *p += 1;
    let n = match f {
        0..=252 => return Some(f as u64),
        253 => 2,
        254 => 4,
        _ => 8,
    };
    if b.len() < *p + n {
        return None;
    }
    let mut v = 0u64;
    for i in 0..n {
        v |= (b[*p + i] as u64) << (8 * i);
    }
    *p += n;
    Some(v)
}
fn wr_cs(v: &mut B, n: u64) {
    if n < 253 {
        v.push(n as u8)
    } else if n <= 0xffff {
        v.push(253);
        v.extend((n as u16).to_le_bytes())
    } else {
        v.push(254);
        v.extend((n as u32).to_le_bytes())
    }
}
fn items_raw(items: &[(u32, B)], hrp: &str) -> B {
    let mut v = vec![];
    for (t, d) in items {
        wr_cs(&mut v, *t as u64);
        wr_cs(&mut v, d.len() as u64);
        v.extend(d);
    }
    let mut pad = [0u8; 16];
    pad[..hrp.len()].copy_from_slice(hrp.as_bytes());
    v.extend(pad);
    v
}
/// decoder oracles for the shielded items of an un-jumbled payload
fn scan_items(tab: &mut Tab, s: &str, fvk: bool) {
    let Some((_, p)) = unbech(s) else { return };
    let Some(raw) = unjumble(&p) else { return };
    if raw.len() < 16 {
        return;
    }
    let body = &raw[..raw.len() - 16];
    let mut p = 0usize;
    for _ in 0..64 {
        let Some(tc) = rd_cs(body, &mut p) else { return };
        let Some(len) = rd_cs(body, &mut p) else { return };
        let len = len as usize;
        if body.len() < p + len {
            return;
        }
        let data = &body[p..p + len];
        p += len;
        match (fvk, tc) {
            (true, 3) => tab.dec(13, data),
            (true, 2) => tab.dec(14, data),
            (false, 3) => tab.dec(16, data),
            (false, 2) => tab.dec(17, data),
            _ => {}
        }
    }
}

/// the items of a re-encoded key that this profile keeps uninterpreted (P2PKH and unknown), in order
fn fvk_kept(s: &str) -> Vec<(u32, B)> {
    match Ufvk::decode(s) {
        Ok((_, u)) => u
            .items_as_parsed()
            .iter()
            .filter_map(|i| match i {
                Fvk::P2pkh(d) => Some((0, d.to_vec())),
                Fvk::Unknown { typecode, data } => Some((*typecode, data.clone())),
                _ => None,
            })
            .collect(),
        Err(_) => vec![(999_999_999, vec![])],
    }
}
fn ivk_kept(s: &str) -> Vec<(u32, B)> {
    match Uivk::decode(s) {
        Ok((_, u)) => u
            .items_as_parsed()
            .iter()
            .filter_map(|i| match i {
                Ivk::P2pkh(d) => Some((0, d.to_vec())),
                Ivk::Unknown { typecode, data } => Some((*typecode, data.clone())),
                _ => None,
            })
            .collect(),
        Err(_) => vec![(999_999_999, vec![])],
    }
}
fn p_parseerr(e: &unified::ParseError) -> String {
    use unified::ParseError::*;
    match e {
        BothP2phkAndP2sh => "BothP2phkAndP2sh".into(),
        DuplicateTypecode(t) => format!("(DuplicateTypecode {})", u32::from(*t)),
        InvalidTypecodeValue(v) => format!("(InvalidTypecodeValue {})", v),
        InvalidEncoding(_) => "InvalidEncoding".into(),
        InvalidTypecodeOrder => "InvalidTypecodeOrder".into(),
        OnlyTransparent => "OnlyTransparent".into(),
        NotUnified => "NotUnified".into(),
        UnknownPrefix(_) => "UnknownPrefix".into(),
    }
}
fn key_err(msg: &str) -> String {
    if msg.contains("Invalid key data for key type Orchard") {
        "(Err (EKey (KeyDataInvalid TcOrchard)))".into()
    } else if msg.contains("Invalid key data for key type Sapling") {
        "(Err (EKey (KeyDataInvalid TcSapling)))".into()
    } else if msg.contains("Invalid key data for key type P2pkh") {
        "(Err (EKey (KeyDataInvalid TcP2pkh)))".into()
    } else {
        "(Err (EKey OutOfFuel))".into()
    }
}

/// external IVKs through the primitive crates (oracles 5 sapling, 4 orchard)
fn orc_s_fvk_ivk(fvk: &[u8]) -> Option<B> {
    let k = sapling::zip32::DiversifiableFullViewingKey::from_bytes(&arr(fvk)?)?;
    Some(k.to_external_ivk().to_bytes().to_vec())
}
fn orc_o_fvk_ivk(fvk: &[u8]) -> Option<B> {
    let k = orchard::keys::FullViewingKey::from_bytes(&arr(fvk)?)?;
    Some(k.to_ivk(orchard::keys::Scope::External).to_bytes().to_vec())
}
/// narrowing a decoded UFVK to its UIVK and encoding that: the item list of the derived key
fn narrow_case(net: Net, k: &UnifiedFullViewingKey, sb: &Option<B>, ob: &Option<B>, kept: &[(u32, B)]) {
    let mut ents = vec![];
    if let Some(b) = sb {
        if let Some(v) = orc_s_fvk_ivk(b) {
            ents.push(format!("oe 5 \"{}\" 0 (osome \"{}\")", hex(b), hex(&v)));
        }
    }
    if let Some(b) = ob {
        if let Some(v) = orc_o_fvk_ivk(b) {
            ents.push(format!("oe 4 \"{}\" 0 (osome \"{}\")", hex(b), hex(&v)));
        }
    }
    let o = match catch(|| k.to_unified_incoming_viewing_key().encode(&net)) {
        None => PANIC.to_string(),
        Some(s) => match Uivk::decode(&s) {
            Ok((_, u)) => {
                let items: Vec<(u32, B)> = u
                    .items_as_parsed()
                    .iter()
                    .map(|i| match i {
                        Ivk::P2pkh(d) => (0, d.to_vec()),
                        Ivk::Sapling(d) => (2, d.to_vec()),
                        Ivk::Orchard(d) => (3, d.to_vec()),
                        Ivk::Unknown { typecode, data } => (*typecode, data.clone()),
                    })
                    .collect();
                ok(p_items(&items))
            }
            Err(_) => ok(p_items(&[(999_999_999, vec![])])),
        },
    };
    case(format!(
        "CExtra (XNarrowNt [{}] (mkUfvk None {} {} {}) {})",
        ents.join("; "),
        sx(sb),
        sx(ob),
        p_items(kept),
        o
    ));
}

fn fvk_case(net: Net, s: &str) {
    let mut tab = Tab::default();
    scan_items(&mut tab, s, true);
    let o = match catch(|| UnifiedFullViewingKey::decode(&net, s)) {
        None => PANIC.into(),
        Some(Ok(k)) => match catch(|| k.encode(&net)) {
            Some(e) => match enc_obs(&e) {
                Some(eo) => {
                    let sb = k.sapling().map(|x| x.to_bytes().to_vec());
                    let ob = k.orchard().map(|x| x.to_bytes().to_vec());
                    narrow_case(net, &k, &sb, &ob, &fvk_kept(&e));
                    ok(format!(
                        "((mkUfvk None {} {} {}), ({}, {}))",
                        sx(&sb), sx(&ob), p_items(&fvk_kept(&e)), hx(&eo.0), hx(&eo.1)
                    ))
                }
                None => PANIC.into(),
            },
            None => PANIC.into(),
        },
        Some(Err(msg)) => match Ufvk::decode(s) {
            Err(pe) => format!("(Err (EParse {}))", p_parseerr(&pe)),
            Ok((n, _)) => {
                if nt_id(n) != net_id(net) {
                    "(Err ENetwork)".into()
                } else {
                    key_err(&msg)
                }
            }
        },
    };
    case(format!("CExtra (XFvkNt {} {} {} {})", tab.print(), net_id(net), p_dinput(s), o));
}
fn ivk_case(net: Net, s: &str) {
    let mut tab = Tab::default();
    scan_items(&mut tab, s, false);
    let o = match catch(|| UnifiedIncomingViewingKey::decode(&net, s)) {
        None => PANIC.into(),
        Some(Ok(k)) => match catch(|| k.encode(&net)) {
            Some(e) => match enc_obs(&e) {
                Some(eo) => {
                    let sb = k.sapling().as_ref().map(|x| x.to_bytes().to_vec());
                    let ob = k.orchard().as_ref().map(|x| x.to_bytes().to_vec());
                    ok(format!(
                        "((mkUivk None {} {} {}), ({}, {}))",
                        sx(&sb), sx(&ob), p_items(&ivk_kept(&e)), hx(&eo.0), hx(&eo.1)
                    ))
                }
                None => PANIC.into(),
            },
            None => PANIC.into(),
        },
        Some(Err(msg)) => match Uivk::decode(s) {
            Err(pe) => format!("(Err (EParse {}))", p_parseerr(&pe)),
            Ok((n, _)) => {
                if nt_id(n) != net_id(net) {
                    "(Err ENetwork)".into()
                } else {
                    key_err(&msg)
                }
            }
        },
    };
    case(format!("CExtra (XIvkNt {} {} {} {})", tab.print(), net_id(net), p_dinput(s), o));
}

const FVK_HRP: [&str; 3] = ["uview", "uviewtest", "uviewregtest"];
const IVK_HRP: [&str; 3] = ["uivk", "uivktest", "uivkregtest"];

fn main() {
    quiet_panics();
    let a = args();
    let n_keys = if a.search { 12 } else { a.budget(3, 24) };
    let mut rng = Rng::new(a.seed, 1111);
    let mut n_cases = 0u64;
    let mut with_t = 0u64;
    for i in 0..n_keys {
        let net = NETS[i % 3];
        let seed = if i == 0 { vec![0u8; 32] } else { rng.bytes(32) };
        let acct = if i % 2 == 0 { 0 } else { rng.below(1 << 31) as u32 };
        let Some(Ok(usk)) = catch(|| UnifiedSpendingKey::from_seed(&net, &seed, AccountId::try_from(acct).unwrap())) else {
            continue;
        };
        let ufvk = usk.to_unified_full_viewing_key();
        let uivk = ufvk.to_unified_incoming_viewing_key();
        let fs = ufvk.sapling().map(|x| x.to_bytes().to_vec()).unwrap();
        let fo = ufvk.orchard().map(|x| x.to_bytes().to_vec()).unwrap();
        let is = uivk.sapling().as_ref().map(|x| x.to_bytes().to_vec()).unwrap();
        let io = uivk.orchard().as_ref().map(|x| x.to_bytes().to_vec()).unwrap();
        let reps = if a.search || a.thorough() { 16 } else { 10 };
        for k in 0..reps {
            for fvk in [true, false] {
                // item list: transparent item (65 opaque bytes) in two of three cases, shielded
                // subsets, optional unknown items
                let mut items: Vec<(u32, B)> = vec![];
                if k % 3 != 0 {
                    items.push((0, rng.bytes(65)));
                    with_t += 1;
                }
                let shape = if k == 9 { 3 } else { (k / 3) % 3 };
                if shape != 1 && shape != 3 {
                    items.push((2, if fvk { fs.clone() } else { is.clone() }));
                }
                if shape != 2 && shape != 3 {
                    items.push((3, if fvk { fo.clone() } else { io.clone() }));
                }
                if shape == 3 || rng.chance(1, 3) {
                    let mut tcs: Vec<u32> =
                        (0..1 + rng.below(2)).map(|_| *rng.pick(&[4u32, 5, 0xfd, 0xffff, 0x0200_0000])).collect();
                    tcs.sort();
                    tcs.dedup();
                    for tc in tcs {
                        let n = rng.below(80) as usize;
                        items.push((tc, rng.bytes(n)));
                    }
                }
                // a corrupted shielded item now and then
                if rng.chance(1, 10) {
                    if let Some(it) = items.iter_mut().find(|(c, _)| *c == 2 || *c == 3) {
                        let i = rng.below(it.1.len() as u64) as usize;
                        it.1[i] ^= 1 << rng.below(8);
                    }
                }
                let n2 = if rng.chance(1, 8) { NETS[(net_id(net) as usize + 1) % 3] } else { net };
                let hrp = if fvk { FVK_HRP[net_id(net) as usize] } else { IVK_HRP[net_id(net) as usize] };
                let Some(s) = rebech(hrp, &items_raw(&items, hrp)) else { continue };
                if fvk {
                    fvk_case(n2, &s);
                } else {
                    ivk_case(n2, &s);
                }
                n_cases += 1;
            }
        }
        // the library's own encodings (no transparent item in this profile)
        let s = ufvk.encode(&net);
        fvk_case(net, &s);
        let s = uivk.encode(&net);
        ivk_case(net, &s);
        n_cases += 2;
    }
    stat(format!("{{\"profile\": \"no-transparent-inputs\", \"cases\": {}, \"with_transparent_item\": {}}}", n_cases, with_t));
}
