//! A recording `WalletWrite` used to reach the batched scanning path (`scan_cached_blocks`) and
//! `Nullifiers::unspent` through public API. Derived from `MockWalletDb` in
//! zcash_client_backend::data_api::testing (all methods inert) with five methods overridden:
//! the viewing keys, the prior block metadata and the tracked nullifiers are served from
//! fields, and `put_blocks` records what it is given.
#![allow(unused_imports, dead_code)]
use std::{
    collections::{HashMap, HashSet},
    num::NonZeroU32,
};
use secrecy::{ExposeSecret, SecretVec};
use zcash_transparent::address::TransparentAddress;
use zcash_client_backend::{
    data_api::{
        chain::ChainState,
        error::{LockError, RewindError},
        locking::LockOwner,
        scanning::{ScanPriority, ScanRange},
        wallet::{ConfirmationsPolicy, TargetHeight},
        Account, AccountBalance, AccountBirthday, AccountMeta, AccountPurpose, AccountSource,
        AddressInfo, BlockMetadata, DecryptedTransaction, NullifierQuery, OutputLockStore,
        ReceivedTransactionOutput, ScannedBlock, SeedRelevance, SentTransaction,
        TransactionDataRequest, TransactionStatus, TransactionsInvolvingAddress,
        TransparentBalances, WalletRead, WalletSummary, WalletWrite, Zip32Derivation,
    },
    wallet::{NoteId, OutputRef, TransparentAddressMetadata, WalletTransparentOutput},
};
use zcash_keys::{
    address::UnifiedAddress,
    keys::{UnifiedAddressRequest, UnifiedFullViewingKey, UnifiedSpendingKey},
};
use zcash_primitives::{
    block::BlockHash,
    transaction::{Transaction, TxId},
};
use zcash_protocol::{
    consensus::{self, BlockHeight},
    memo::Memo,
};
use zip32::DiversifierIndex;

pub struct Spy {
    pub ufvks: HashMap<u32, UnifiedFullViewingKey>,
    pub prior: Option<BlockMetadata>,
    pub nf_sapling: Vec<(u32, sapling::Nullifier)>,
    pub nf_orchard: Vec<(u32, orchard::note::Nullifier)>,
    pub nf_ironwood: Vec<(u32, orchard::note::Nullifier)>,
    pub captured: Vec<ScannedBlock<u32>>,
    pub put_calls: usize,
}

impl WalletRead for Spy {
    type Error = ();
    type AccountId = u32;
    type Account = (Self::AccountId, UnifiedFullViewingKey, BlockHeight);

    fn get_account_ids(&self) -> Result<Vec<Self::AccountId>, Self::Error> {
        Ok(self.ufvks.keys().copied().collect())
    }

    fn get_account(
        &self,
        account_id: Self::AccountId,
    ) -> Result<Option<Self::Account>, Self::Error> {
        Ok(self
            .ufvks
            .get(&account_id)
            .cloned()
            .map(|ufvk| (account_id, ufvk, BlockHeight::from(1))))
    }

    fn get_derived_account(
        &self,
        _derivation: &Zip32Derivation,
    ) -> Result<Option<Self::Account>, Self::Error> {
        Ok(None)
    }

    fn validate_seed(
        &self,
        _account_id: Self::AccountId,
        _seed: &SecretVec<u8>,
    ) -> Result<bool, Self::Error> {
        Ok(false)
    }

    fn seed_relevance_to_derived_accounts(
        &self,
        _seed: &SecretVec<u8>,
    ) -> Result<SeedRelevance<Self::AccountId>, Self::Error> {
        Ok(SeedRelevance::NoAccounts)
    }

    fn get_account_for_ufvk(
        &self,
        _ufvk: &UnifiedFullViewingKey,
    ) -> Result<Option<Self::Account>, Self::Error> {
        Ok(None)
    }

    fn list_addresses(&self, account: Self::AccountId) -> Result<Vec<AddressInfo>, Self::Error> {
        let _ = account;
        Ok(vec![])
    }

    fn find_account_for_address<P: consensus::Parameters>(
        &self,
        params: &P,
        address: &zcash_keys::address::Address,
    ) -> Result<Option<Self::AccountId>, zcash_client_backend::data_api::error::FindAccountForAddressError<Self::Error>>
    {
        zcash_client_backend::data_api::defaults::find_account_for_address(self, params, address)
    }

    fn get_last_generated_address_matching(
        &self,
        _account: Self::AccountId,
        _request: UnifiedAddressRequest,
    ) -> Result<Option<UnifiedAddress>, Self::Error> {
        Ok(None)
    }

    fn get_account_birthday(&self, _account: Self::AccountId) -> Result<BlockHeight, Self::Error> {
        Err(())
    }

    fn get_wallet_birthday(&self) -> Result<Option<BlockHeight>, Self::Error> {
        Ok(None)
    }

    fn get_wallet_recover_until(&self) -> Result<Option<BlockHeight>, Self::Error> {
        Ok(None)
    }

    fn get_wallet_summary(
        &self,
        _confirmations_policy: ConfirmationsPolicy,
    ) -> Result<Option<WalletSummary<Self::AccountId>>, Self::Error> {
        Ok(None)
    }

    fn chain_height(&self) -> Result<Option<BlockHeight>, Self::Error> {
        Ok(None)
    }

    fn get_block_hash(&self, _block_height: BlockHeight) -> Result<Option<BlockHash>, Self::Error> {
        Ok(None)
    }

    fn block_metadata(&self, _height: BlockHeight) -> Result<Option<BlockMetadata>, Self::Error> {
        Ok(self.prior)
    }

    fn block_fully_scanned(&self) -> Result<Option<BlockMetadata>, Self::Error> {
        Ok(None)
    }

    fn get_max_height_hash(&self) -> Result<Option<(BlockHeight, BlockHash)>, Self::Error> {
        Ok(None)
    }

    fn block_max_scanned(&self) -> Result<Option<BlockMetadata>, Self::Error> {
        Ok(None)
    }

    fn suggest_scan_ranges(&self) -> Result<Vec<ScanRange>, Self::Error> {
        Ok(vec![])
    }

    fn get_target_and_anchor_heights(
        &self,
        _min_confirmations: NonZeroU32,
    ) -> Result<Option<(TargetHeight, BlockHeight)>, Self::Error> {
        Ok(None)
    }

    fn get_tx_height(&self, _txid: TxId) -> Result<Option<BlockHeight>, Self::Error> {
        Ok(None)
    }

    fn get_unified_full_viewing_keys(
        &self,
    ) -> Result<HashMap<Self::AccountId, UnifiedFullViewingKey>, Self::Error> {
        Ok(self.ufvks.clone())
    }

    fn get_memo(&self, _id_note: NoteId) -> Result<Option<Memo>, Self::Error> {
        Ok(None)
    }

    fn get_transaction(&self, _txid: TxId) -> Result<Option<Transaction>, Self::Error> {
        Ok(None)
    }

    fn get_sapling_nullifiers(
        &self,
        _query: NullifierQuery,
    ) -> Result<Vec<(Self::AccountId, sapling::Nullifier)>, Self::Error> {
        Ok(self.nf_sapling.clone())
    }

    fn get_orchard_nullifiers(
        &self,
        _query: NullifierQuery,
    ) -> Result<Vec<(Self::AccountId, orchard::note::Nullifier)>, Self::Error> {
        Ok(self.nf_orchard.clone())
    }

    fn get_ironwood_nullifiers(
        &self,
        _query: NullifierQuery,
    ) -> Result<Vec<(Self::AccountId, orchard::note::Nullifier)>, Self::Error> {
        Ok(self.nf_ironwood.clone())
    }

    fn get_transparent_receivers(
        &self,
        _account: Self::AccountId,
        _include_change: bool,
        _include_standalone: bool,
    ) -> Result<HashMap<TransparentAddress, TransparentAddressMetadata>, Self::Error> {
        Ok(HashMap::new())
    }

    fn get_transparent_balances(
        &self,
        _account: Self::AccountId,
        _target_height: TargetHeight,
        _confirmations_policy: ConfirmationsPolicy,
    ) -> Result<TransparentBalances, Self::Error> {
        Ok(HashMap::new())
    }

    fn get_transparent_address_metadata(
        &self,
        _account: Self::AccountId,
        _address: &TransparentAddress,
    ) -> Result<Option<TransparentAddressMetadata>, Self::Error> {
        Ok(None)
    }

    fn utxo_query_height(&self, _account: Self::AccountId) -> Result<BlockHeight, Self::Error> {
        Ok(BlockHeight::from(0u32))
    }

    fn transaction_data_requests(&self) -> Result<Vec<TransactionDataRequest>, Self::Error> {
        Ok(vec![])
    }

    fn get_received_outputs(
        &self,
        _txid: TxId,
        _target_height: TargetHeight,
        _confirmations_policy: ConfirmationsPolicy,
    ) -> Result<Vec<ReceivedTransactionOutput>, Self::Error> {
        Ok(vec![])
    }
}

impl OutputLockStore for Spy {
    type Error = ();
    type AccountId = u32;

    fn lock_outputs(
        &mut self,
        _outputs: &[OutputRef],
        _owner: LockOwner,
        _lock_expiry_height: BlockHeight,
    ) -> Result<usize, LockError<Self::Error>> {
        Ok(0)
    }

    fn unlock_output(
        &mut self,
        _output: &OutputRef,
        _owner: LockOwner,
    ) -> Result<bool, Self::Error> {
        Ok(false)
    }

    fn clear_locked_outputs(&mut self, _account: Self::AccountId) -> Result<usize, Self::Error> {
        Ok(0)
    }

    fn get_locked_outputs(&self, _account: Self::AccountId) -> Result<Vec<OutputRef>, Self::Error> {
        Ok(Vec::new())
    }
}

impl WalletWrite for Spy {
    type UtxoRef = u32;

    fn create_account(
        &mut self,
        _account_name: &str,
        seed: &SecretVec<u8>,
        _birthday: &AccountBirthday,
        _key_source: Option<&str>,
    ) -> Result<(<Self as WalletRead>::AccountId, UnifiedSpendingKey), <Self as WalletRead>::Error>
    {
        let account = zip32::AccountId::ZERO;
        UnifiedSpendingKey::from_seed(&zcash_protocol::consensus::Network::TestNetwork, seed.expose_secret(), account)
            .map(|k| (u32::from(account), k))
            .map_err(|_| ())
    }

    fn import_account_hd(
        &mut self,
        _account_name: &str,
        _seed: &SecretVec<u8>,
        _account_index: zip32::AccountId,
        _birthday: &AccountBirthday,
        _key_source: Option<&str>,
    ) -> Result<(Self::Account, UnifiedSpendingKey), <Self as WalletRead>::Error> {
        todo!()
    }

    fn import_account_ufvk(
        &mut self,
        _account_name: &str,
        _unified_key: &UnifiedFullViewingKey,
        _birthday: &AccountBirthday,
        _purpose: AccountPurpose,
        _key_source: Option<&str>,
    ) -> Result<Self::Account, <Self as WalletRead>::Error> {
        todo!()
    }

    fn delete_account(
        &mut self,
        _account: <Self as WalletRead>::AccountId,
    ) -> Result<(), <Self as WalletRead>::Error> {
        todo!()
    }

    fn get_next_available_address(
        &mut self,
        _account: <Self as WalletRead>::AccountId,
        _request: UnifiedAddressRequest,
    ) -> Result<Option<(UnifiedAddress, DiversifierIndex)>, <Self as WalletRead>::Error> {
        Ok(None)
    }

    fn get_address_for_index(
        &mut self,
        _account: <Self as WalletRead>::AccountId,
        _diversifier_index: DiversifierIndex,
        _request: UnifiedAddressRequest,
    ) -> Result<Option<UnifiedAddress>, <Self as WalletRead>::Error> {
        Ok(None)
    }

    #[allow(clippy::type_complexity)]
    fn put_blocks(
        &mut self,
        _from_state: &ChainState,
        blocks: Vec<ScannedBlock<<Self as WalletRead>::AccountId>>,
    ) -> Result<(), <Self as WalletRead>::Error> {
        self.put_calls += 1;
        self.captured.extend(blocks);
        Ok(())
    }

    fn update_chain_tip(
        &mut self,
        _tip_height: BlockHeight,
    ) -> Result<(), <Self as WalletRead>::Error> {
        Ok(())
    }

    fn prune_scan_queue_below(
        &mut self,
        _height: BlockHeight,
        _retain_with_priority: Option<ScanPriority>,
    ) -> Result<u64, <Self as WalletRead>::Error> {
        Ok(0)
    }

    fn store_decrypted_tx(
        &mut self,
        _received_tx: DecryptedTransaction<Transaction, <Self as WalletRead>::AccountId>,
    ) -> Result<(), <Self as WalletRead>::Error> {
        Ok(())
    }

    fn set_tx_trust(
        &mut self,
        _txid: TxId,
        _trusted: bool,
    ) -> Result<(), <Self as WalletRead>::Error> {
        Ok(())
    }

    fn store_transactions_to_be_sent(
        &mut self,
        _transactions: &[SentTransaction<<Self as WalletRead>::AccountId>],
    ) -> Result<(), <Self as WalletRead>::Error> {
        Ok(())
    }

    fn truncate_to_height(
        &mut self,
        _block_height: BlockHeight,
    ) -> Result<BlockHeight, <Self as WalletRead>::Error> {
        Err(())
    }

    fn truncate_to_chain_state(
        &mut self,
        _chain_state: ChainState,
    ) -> Result<(), <Self as WalletRead>::Error> {
        Err(())
    }

    fn rewind_to_chain_state(
        &mut self,
        _chain_state: ChainState,
        _reset_account_birthdays: HashSet<<Self as WalletRead>::AccountId>,
    ) -> Result<(), RewindError<<Self as WalletRead>::AccountId, <Self as WalletRead>::Error>> {
        Err(RewindError::DataSource(()))
    }

    /// Adds a transparent UTXO received by the wallet to the data store.
    fn put_received_transparent_utxo(
        &mut self,
        _output: &WalletTransparentOutput<<Self as WalletRead>::AccountId>,
    ) -> Result<Self::UtxoRef, <Self as WalletRead>::Error> {
        Ok(0)
    }

    fn reserve_next_n_ephemeral_addresses(
        &mut self,
        _account_id: <Self as WalletRead>::AccountId,
        _n: usize,
    ) -> Result<Vec<(TransparentAddress, TransparentAddressMetadata)>, <Self as WalletRead>::Error>
    {
        Err(())
    }

    fn reserve_next_n_internal_addresses(
        &mut self,
        _account_id: <Self as WalletRead>::AccountId,
        _n: usize,
    ) -> Result<Vec<(TransparentAddress, TransparentAddressMetadata)>, <Self as WalletRead>::Error>
    {
        Err(())
    }

    fn set_transaction_status(
        &mut self,
        _txid: TxId,
        _status: TransactionStatus,
    ) -> Result<(), <Self as WalletRead>::Error> {
        Ok(())
    }

    fn notify_address_checked(
        &mut self,
        _request: TransactionsInvolvingAddress,
        _as_of_height: BlockHeight,
    ) -> Result<(), <Self as WalletRead>::Error> {
        Ok(())
    }
}
