//! C15 harness.
//!
//! Part A — the pure spanning tree through its public (feature-gated) API
//! `SpanningTree::{Leaf, insert, into_vec}` and `ScanRange::{from_parts, truncate_start,
//! truncate_end, split_at}`: exhaustive small insertion sequences (all 7 priorities, both force
//! flags, empty ranges included), random short sequences on a small height domain, random long
//! sequences on large heights, the known-finding witness.
//!
//! One `C <case>` line per executed sequence; every line carries the inputs and what the
//! implementation was observed to do after every insertion (`into_vec` of a clone, or `Panic`).
use std::collections::BTreeMap;
use vcommon::*;
use zcash_client_backend::data_api::scanning::spanning_tree::SpanningTree;
use zcash_client_backend::data_api::scanning::{ScanPriority, ScanRange};
use zcash_protocol::consensus::BlockHeight;

const PRIOS: [ScanPriority; 7] = [
    ScanPriority::Ignored,
    ScanPriority::Scanned,
    ScanPriority::Historic,
    ScanPriority::OpenAdjacent,
    ScanPriority::FoundNote,
    ScanPriority::ChainTip,
    ScanPriority::Verify,
];

fn pname(p: ScanPriority) -> &'static str {
    match p {
        ScanPriority::Ignored => "Ignored",
        ScanPriority::Scanned => "Scanned",
        ScanPriority::Historic => "Historic",
        ScanPriority::OpenAdjacent => "OpenAdjacent",
        ScanPriority::FoundNote => "FoundNote",
        ScanPriority::ChainTip => "ChainTip",
        ScanPriority::Verify => "Verify",
    }
}

#[derive(Clone, Copy, PartialEq, Eq, Debug)]
struct R {
    s: u32,
    e: u32,
    p: ScanPriority,
}

impl R {
    fn mk(self) -> ScanRange {
        ScanRange::from_parts(BlockHeight::from(self.s)..BlockHeight::from(self.e), self.p)
    }
    fn coq(&self) -> String {
        format!("R {} {} {}", self.s, self.e, pname(self.p))
    }
}

fn sr_coq(r: &ScanRange) -> String {
    format!(
        "R {} {} {}",
        u32::from(r.block_range().start),
        u32::from(r.block_range().end),
        pname(r.priority())
    )
}

fn vec_coq(v: &[ScanRange]) -> String {
    list(v.iter().map(sr_coq))
}

#[derive(Default)]
struct Stats {
    cases: u64,
    by_kind: BTreeMap<String, u64>,
    panics: u64,
    panics_nonempty_only: u64,
    seq_len_hist: BTreeMap<usize, u64>,
    out_len_hist: BTreeMap<usize, u64>,
    with_empty: u64,
}

/// Run one insertion sequence against the implementation and print the case.
fn run_seq(st: &mut Stats, kind: &str, init: R, ops: &[(R, bool)]) {
    let mut obs: Vec<String> = vec![];
    let mut panicked = false;
    let mut last_len = 0usize;
    let mut tree = match catch(|| SpanningTree::Leaf(init.mk())) {
        Some(t) => Some(t),
        None => {
            obs.push(PANIC.into());
            panicked = true;
            None
        }
    };
    if let Some(t) = &tree {
        let t2 = t.clone();
        match catch(move || t2.into_vec()) {
            Some(v) => {
                last_len = v.len();
                obs.push(ok(vec_coq(&v)))
            }
            None => {
                obs.push(PANIC.into());
                panicked = true
            }
        }
    }
    for (x, force) in ops {
        let t = match tree.take() {
            Some(t) => t,
            None => break,
        };
        let (x, force) = (*x, *force);
        match catch(move || t.insert(x.mk(), force)) {
            Some(t2) => {
                let t3 = t2.clone();
                match catch(move || t3.into_vec()) {
                    Some(v) => {
                        last_len = v.len();
                        obs.push(ok(vec_coq(&v)))
                    }
                    None => {
                        obs.push(PANIC.into());
                        panicked = true
                    }
                }
                tree = Some(t2);
            }
            None => {
                obs.push(PANIC.into());
                panicked = true;
                tree = None;
            }
        }
    }
    let any_empty = init.s >= init.e || ops.iter().any(|(x, _)| x.s >= x.e);
    st.cases += 1;
    *st.by_kind.entry(kind.into()).or_default() += 1;
    *st.seq_len_hist.entry(ops.len()).or_default() += 1;
    *st.out_len_hist.entry(last_len).or_default() += 1;
    if any_empty {
        st.with_empty += 1;
    }
    if panicked {
        st.panics += 1;
        if !any_empty {
            st.panics_nonempty_only += 1;
        }
    }
    case(format!(
        "TreeSeq ({}) {} {}",
        init.coq(),
        list(ops.iter().map(|(x, f)| format!("({}, {})", x.coq(), boolc(*f)))),
        list(obs)
    ));
}

fn ranges(lo: u32, hi: u32, with_empty: bool) -> Vec<(u32, u32)> {
    let mut v = vec![];
    for s in lo..=hi {
        for e in s..=hi {
            if e > s || with_empty {
                v.push((s, e));
            }
        }
    }
    v
}

fn rand_range(rng: &mut Rng, lo: u32, hi: u32, empty_pct: u64) -> (u32, u32) {
    if rng.chance(empty_pct, 100) {
        let s = rng.range(lo as u64, hi as u64) as u32;
        (s, s)
    } else {
        let a = rng.range(lo as u64, hi as u64 - 1) as u32;
        let b = rng.range(a as u64 + 1, hi as u64) as u32;
        (a, b)
    }
}

fn rand_r(rng: &mut Rng, lo: u32, hi: u32, empty_pct: u64) -> R {
    let (s, e) = rand_range(rng, lo, hi, empty_pct);
    R { s, e, p: *rng.pick(&PRIOS) }
}

fn scanrange_api(st: &mut Stats, rng: &mut Rng, n_random: usize) {
    // from_parts: inverted ranges panic.
    let mut n = 0u64;
    for s in 0..=4u32 {
        for e in 0..=4u32 {
            let o = catch(|| ScanRange::from_parts(BlockHeight::from(s)..BlockHeight::from(e), ScanPriority::Historic));
            case(format!(
                "FromParts {} {} {}",
                s,
                e,
                match o {
                    Some(r) => ok(format!("({})", sr_coq(&r))),
                    None => PANIC.into(),
                }
            ));
            n += 1;
        }
    }
    let optc = |o: Option<ScanRange>| opt(o.map(|r| format!("({})", sr_coq(&r))));
    let mut emit = |s: u32, e: u32, h: u32| {
        let r = R { s, e, p: ScanPriority::FoundNote }.mk();
        let hh = BlockHeight::from(h);
        case(format!("TruncStart {} {} {} {}", s, e, h, optc(r.truncate_start(hh))));
        case(format!("TruncEnd {} {} {} {}", s, e, h, optc(r.truncate_end(hh))));
        case(format!(
            "SplitAt {} {} {} {}",
            s,
            e,
            h,
            opt(r.split_at(hh).map(|(a, b)| format!("(R {} {} FoundNote, R {} {} FoundNote)",
                u32::from(a.block_range().start), u32::from(a.block_range().end),
                u32::from(b.block_range().start), u32::from(b.block_range().end))))
        ));
    };
    for (s, e) in ranges(1, 4, true) {
        for h in 0..=5u32 {
            emit(s, e, h);
            n += 3;
        }
    }
    for _ in 0..n_random {
        let (s, e) = rand_range(rng, 0, u32::MAX, 10);
        let h = match rng.below(4) {
            0 => s,
            1 => e,
            2 => rng.range(s as u64, e as u64) as u32,
            _ => rng.u64() as u32,
        };
        emit(s, e, h);
        n += 3;
    }
    st.cases += n;
    *st.by_kind.entry("scanrange-api".into()).or_default() += n;
}

fn part_a(st: &mut Stats, a: &Args) {
    let mut rng = Rng::new(a.seed, 15);

    // 0. The known-finding witness and close relatives (always in the corpus).
    let w = |s, e, p| R { s, e, p };
    use ScanPriority::*;
    run_seq(st, "witness", w(5, 8, Scanned), &[(w(8, 8, Historic), false), (w(5, 8, Verify), false)]);
    run_seq(st, "witness", w(5, 8, Scanned), &[(w(8, 8, Historic), true), (w(5, 8, Verify), true)]);
    run_seq(st, "witness", w(5, 8, Scanned), &[(w(5, 5, Historic), false), (w(5, 8, Verify), false)]);
    run_seq(st, "witness", w(0, 2, ChainTip), &[(w(2, 2, Scanned), false), (w(0, 3, Verify), false)]);
    // the documented examples of the spanning tree's own tests, as regression seeds
    run_seq(st, "witness", w(0, 3, Historic), &[(w(2, 5, Verify), false), (w(4, 6, ChainTip), false), (w(0, 6, Scanned), false)]);
    run_seq(st, "witness", w(1, 3, Scanned), &[(w(5, 7, ChainTip), false), (w(0, 9, Historic), false), (w(2, 6, FoundNote), true)]);

    scanrange_api(st, &mut rng, a.budget(60, 600));

    // 1. Exhaustive sequences of length 1: every leaf, every insertion, both force flags.
    //    quick: heights 0..3; thorough: heights 0..6 (the statement's domain).
    let hi1 = if a.thorough() || a.search { 6 } else { 3 };
    let rs1 = ranges(0, hi1, true);
    for &(s0, e0) in &rs1 {
        for p0 in PRIOS {
            for &(s1, e1) in &rs1 {
                for p1 in PRIOS {
                    for f in [false, true] {
                        run_seq(st, "exh1", R { s: s0, e: e0, p: p0 }, &[(R { s: s1, e: e1, p: p1 }, f)]);
                    }
                }
            }
        }
    }

    // 2. Exhaustive range *shapes* for sequences of length 2 and 3 on a small domain, with
    //    priorities/force drawn from the PRNG (k draws per shape): covers every tree shape and
    //    every relation between the inserted range and span/split point.
    let (hi2, k2) = if a.thorough() || a.search { (4, 12) } else { (3, 1) };
    let rs2 = ranges(0, hi2, true);
    for &a0 in &rs2 {
        for &a1 in &rs2 {
            for &a2 in &rs2 {
                for _ in 0..k2 {
                    let mk = |rng: &mut Rng, (s, e): (u32, u32)| R { s, e, p: *rng.pick(&PRIOS) };
                    let init = mk(&mut rng, a0);
                    let ops = [(mk(&mut rng, a1), rng.bool()), (mk(&mut rng, a2), rng.chance(1, 4))];
                    run_seq(st, "shape2", init, &ops);
                }
            }
        }
    }
    let n3 = a.budget(3000, 150_000);
    let rs3 = ranges(0, 4, true);
    let rs3n = ranges(0, 5, false);
    for i in 0..n3 {
        // half of the sequences contain only non-empty ranges (the theorems' domain)
        let src: &Vec<(u32, u32)> = if i % 2 == 0 { &rs3n } else { &rs3 };
        let mk = |rng: &mut Rng| {
            let (s, e) = *rng.pick(src);
            R { s, e, p: *rng.pick(&PRIOS) }
        };
        let init = mk(&mut rng);
        let len = rng.range(3, 5) as usize;
        let ops: Vec<(R, bool)> = (0..len).map(|_| (mk(&mut rng), rng.chance(1, 3))).collect();
        run_seq(st, "rand-small", init, &ops);
    }

    // 3. Wallet-like sequences: sorted non-overlapping stored rows first (as replace_queue_entries
    //    feeds them), then 1–3 updates, the last possibly empty.
    let nw = a.budget(1500, 40_000);
    for _ in 0..nw {
        let base = rng.range(0, 1000) as u32 * 100;
        let nrows = rng.range(1, 6);
        let mut rows = vec![];
        let mut cur = base;
        let mut lastp: Option<ScanPriority> = None;
        for _ in 0..nrows {
            let len = rng.range(1, 30) as u32;
            let mut p = *rng.pick(&PRIOS);
            while Some(p) == lastp {
                p = *rng.pick(&PRIOS);
            }
            lastp = Some(p);
            rows.push(R { s: cur, e: cur + len, p });
            cur += len;
        }
        let mut ops: Vec<(R, bool)> = rows[1..].iter().map(|r| (*r, false)).collect();
        let force = rng.chance(1, 5);
        for o in ops.iter_mut() {
            o.1 = force;
        }
        let nup = rng.range(1, 3);
        for k in 0..nup {
            let lo = base.saturating_sub(20);
            let hi = cur + 40;
            let empty_pct = if k + 1 == nup { 25 } else { 0 };
            ops.push((rand_r(&mut rng, lo, hi, empty_pct), force));
        }
        run_seq(st, "wallet-like", rows[0], &ops);
    }

    // 4. Long random sequences on large heights (u32 boundary included), non-empty ranges
    //    mostly; a second stream with many empty ranges.
    let nl = a.budget(250, 6000);
    for i in 0..nl {
        let (lo, hi) = match i % 4 {
            0 => (0u32, 60u32),
            1 => (u32::MAX - 80, u32::MAX),
            2 => (1_000_000, 1_000_400),
            _ => (0, u32::MAX),
        };
        let empty_pct = if i % 5 == 4 { 30 } else { 0 };
        let len = rng.range(8, if a.thorough() { 60 } else { 30 }) as usize;
        let init = rand_r(&mut rng, lo, hi, empty_pct);
        let ops: Vec<(R, bool)> = (0..len).map(|_| (rand_r(&mut rng, lo, hi, empty_pct), rng.chance(1, 4))).collect();
        run_seq(st, "rand-long", init, &ops);
    }
}

fn main() {
    let a = args();
    quiet_panics();
    let mut st = Stats::default();
    part_a(&mut st, &a);
    let m = |h: &BTreeMap<usize, u64>| {
        format!("{{{}}}", h.iter().map(|(k, v)| format!("\"{}\":{}", k, v)).collect::<Vec<_>>().join(","))
    };
    stat(format!(
        "{{\"part\":\"A\",\"cases\":{},\"by_kind\":{{{}}},\"sequences_with_a_panic\":{},\"panics_with_only_nonempty_ranges\":{},\"sequences_with_an_empty_range\":{},\"ops_per_sequence\":{},\"rows_in_final_into_vec\":{}}}",
        st.cases,
        st.by_kind.iter().map(|(k, v)| format!("\"{}\":{}", k, v)).collect::<Vec<_>>().join(","),
        st.panics,
        st.panics_nonempty_only,
        st.with_empty,
        m(&st.seq_len_hist),
        m(&st.out_len_hist)
    ));
}
