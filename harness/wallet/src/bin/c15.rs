//! C15 harness.
//!
//! Part A — the pure spanning tree through its public (feature-gated) API
//! `SpanningTree::{Leaf, insert, into_vec}` and `ScanRange::{from_parts, truncate_start,
//! truncate_end, split_at}`: exhaustive small insertion sequences (all 7 priorities, both force
//! flags, empty ranges included), random short sequences on a small height domain, random long
//! sequences on large heights, the known-finding witness.
//!
//! One `C <case>` line per executed sequence; every line carries the inputs and what the
//! implementation was observed to do after every insertion (`into_vec` of a clone, or `Panic`).
use std::collections::BTreeMap;
use vcommon::*;
use zcash_client_backend::data_api::scanning::spanning_tree::SpanningTree;
use zcash_client_backend::data_api::scanning::{ScanPriority, ScanRange};
use zcash_protocol::consensus::BlockHeight;

const PRIOS: [ScanPriority; 7] = [
    ScanPriority::Ignored,
    ScanPriority::Scanned,
    ScanPriority::Historic,
    ScanPriority::OpenAdjacent,
    ScanPriority::FoundNote,
    ScanPriority::ChainTip,
    ScanPriority::Verify,
];

thread_local! {
    static BUF: std::cell::RefCell<Vec<String>> = std::cell::RefCell::new(Vec::new());
}
/// Case lines are buffered and printed in a PRNG-shuffled order at the end, so that expensive
/// cases (long sequences) are spread evenly over the Coq evaluation shards.
fn case(s: String) {
    BUF.with(|b| b.borrow_mut().push(s));
}
fn flush_cases(seed: u64) {
    let mut rng = Rng::new(seed, 9999);
    BUF.with(|b| {
        let mut v = b.borrow_mut();
        let n = v.len();
        for i in (1..n).rev() {
            let j = rng.below(i as u64 + 1) as usize;
            v.swap(i, j);
        }
        for l in v.iter() {
            println!("C {}", l);
        }
        v.clear();
    });
}

fn pname(p: ScanPriority) -> &'static str {
    match p {
        ScanPriority::Ignored => "Ignored",
        ScanPriority::Scanned => "Scanned",
        ScanPriority::Historic => "Historic",
        ScanPriority::OpenAdjacent => "OpenAdjacent",
        ScanPriority::FoundNote => "FoundNote",
        ScanPriority::ChainTip => "ChainTip",
        ScanPriority::Verify => "Verify",
    }
}

#[derive(Clone, Copy, PartialEq, Eq, Debug)]
struct R {
    s: u32,
    e: u32,
    p: ScanPriority,
}

impl R {
    fn mk(self) -> ScanRange {
        ScanRange::from_parts(BlockHeight::from(self.s)..BlockHeight::from(self.e), self.p)
    }
    fn coq(&self) -> String {
        format!("R {} {} {}", self.s, self.e, pname(self.p))
    }
}

fn sr_coq(r: &ScanRange) -> String {
    format!(
        "R {} {} {}",
        u32::from(r.block_range().start),
        u32::from(r.block_range().end),
        pname(r.priority())
    )
}

fn vec_coq(v: &[ScanRange]) -> String {
    list(v.iter().map(sr_coq))
}

#[derive(Default)]
struct Stats {
    cases: u64,
    by_kind: BTreeMap<String, u64>,
    panics: u64,
    panics_nonempty_only: u64,
    seq_len_hist: BTreeMap<usize, u64>,
    out_len_hist: BTreeMap<usize, u64>,
    with_empty: u64,
}

/// Run one insertion sequence against the implementation and print the case.
fn run_seq(st: &mut Stats, kind: &str, init: R, ops: &[(R, bool)]) {
    let mut obs: Vec<String> = vec![];
    let mut panicked = false;
    let mut last_len = 0usize;
    let mut tree = match catch(|| SpanningTree::Leaf(init.mk())) {
        Some(t) => Some(t),
        None => {
            obs.push(PANIC.into());
            panicked = true;
            None
        }
    };
    if let Some(t) = &tree {
        let t2 = t.clone();
        match catch(move || t2.into_vec()) {
            Some(v) => {
                last_len = v.len();
                obs.push(ok(vec_coq(&v)))
            }
            None => {
                obs.push(PANIC.into());
                panicked = true
            }
        }
    }
    for (x, force) in ops {
        let t = match tree.take() {
            Some(t) => t,
            None => break,
        };
        let (x, force) = (*x, *force);
        match catch(move || t.insert(x.mk(), force)) {
            Some(t2) => {
                let t3 = t2.clone();
                match catch(move || t3.into_vec()) {
                    Some(v) => {
                        last_len = v.len();
                        obs.push(ok(vec_coq(&v)))
                    }
                    None => {
                        obs.push(PANIC.into());
                        panicked = true
                    }
                }
                tree = Some(t2);
            }
            None => {
                obs.push(PANIC.into());
                panicked = true;
                tree = None;
            }
        }
    }
    let any_empty = init.s >= init.e || ops.iter().any(|(x, _)| x.s >= x.e);
    st.cases += 1;
    *st.by_kind.entry(kind.into()).or_default() += 1;
    *st.seq_len_hist.entry(ops.len()).or_default() += 1;
    *st.out_len_hist.entry(last_len).or_default() += 1;
    if any_empty {
        st.with_empty += 1;
    }
    if panicked {
        st.panics += 1;
        if !any_empty {
            st.panics_nonempty_only += 1;
        }
    }
    case(format!(
        "TreeSeq ({}) {} {}",
        init.coq(),
        list(ops.iter().map(|(x, f)| format!("({}, {})", x.coq(), boolc(*f)))),
        list(obs)
    ));
}

fn ranges(lo: u32, hi: u32, with_empty: bool) -> Vec<(u32, u32)> {
    let mut v = vec![];
    for s in lo..=hi {
        for e in s..=hi {
            if e > s || with_empty {
                v.push((s, e));
            }
        }
    }
    v
}

fn rand_range(rng: &mut Rng, lo: u32, hi: u32, empty_pct: u64) -> (u32, u32) {
    if rng.chance(empty_pct, 100) {
        let s = rng.range(lo as u64, hi as u64) as u32;
        (s, s)
    } else {
        let a = rng.range(lo as u64, hi as u64 - 1) as u32;
        let b = rng.range(a as u64 + 1, hi as u64) as u32;
        (a, b)
    }
}

fn rand_r(rng: &mut Rng, lo: u32, hi: u32, empty_pct: u64) -> R {
    let (s, e) = rand_range(rng, lo, hi, empty_pct);
    R { s, e, p: *rng.pick(&PRIOS) }
}

fn scanrange_api(st: &mut Stats, rng: &mut Rng, n_random: usize) {
    // from_parts: inverted ranges panic.
    let mut n = 0u64;
    for s in 0..=4u32 {
        for e in 0..=4u32 {
            let o = catch(|| ScanRange::from_parts(BlockHeight::from(s)..BlockHeight::from(e), ScanPriority::Historic));
            case(format!(
                "FromParts {} {} {}",
                s,
                e,
                match o {
                    Some(r) => ok(format!("({})", sr_coq(&r))),
                    None => PANIC.into(),
                }
            ));
            n += 1;
        }
    }
    let optc = |o: Option<ScanRange>| opt(o.map(|r| format!("({})", sr_coq(&r))));
    let mut emit = |s: u32, e: u32, h: u32| {
        let r = R { s, e, p: ScanPriority::FoundNote }.mk();
        let hh = BlockHeight::from(h);
        case(format!("TruncStart {} {} {} {}", s, e, h, optc(r.truncate_start(hh))));
        case(format!("TruncEnd {} {} {} {}", s, e, h, optc(r.truncate_end(hh))));
        case(format!(
            "SplitAt {} {} {} {}",
            s,
            e,
            h,
            opt(r.split_at(hh).map(|(a, b)| format!("(R {} {} FoundNote, R {} {} FoundNote)",
                u32::from(a.block_range().start), u32::from(a.block_range().end),
                u32::from(b.block_range().start), u32::from(b.block_range().end))))
        ));
    };
    for (s, e) in ranges(1, 4, true) {
        for h in 0..=5u32 {
            emit(s, e, h);
            n += 3;
        }
    }
    for _ in 0..n_random {
        let (s, e) = rand_range(rng, 0, u32::MAX, 10);
        let h = match rng.below(4) {
            0 => s,
            1 => e,
            2 => rng.range(s as u64, e as u64) as u32,
            _ => rng.u64() as u32,
        };
        emit(s, e, h);
        n += 3;
    }
    st.cases += n;
    *st.by_kind.entry("scanrange-api".into()).or_default() += n;
}

fn part_a(st: &mut Stats, a: &Args) {
    let mut rng = Rng::new(a.seed, 15);

    // 0. The known-finding witness and close relatives (always in the corpus).
    let w = |s, e, p| R { s, e, p };
    use ScanPriority::*;
    run_seq(st, "witness", w(5, 8, Scanned), &[(w(8, 8, Historic), false), (w(5, 8, Verify), false)]);
    run_seq(st, "witness", w(5, 8, Scanned), &[(w(8, 8, Historic), true), (w(5, 8, Verify), true)]);
    run_seq(st, "witness", w(5, 8, Scanned), &[(w(5, 5, Historic), false), (w(5, 8, Verify), false)]);
    run_seq(st, "witness", w(0, 2, ChainTip), &[(w(2, 2, Scanned), false), (w(0, 3, Verify), false)]);
    // the documented examples of the spanning tree's own tests, as regression seeds
    run_seq(st, "witness", w(0, 3, Historic), &[(w(2, 5, Verify), false), (w(4, 6, ChainTip), false), (w(0, 6, Scanned), false)]);
    run_seq(st, "witness", w(1, 3, Scanned), &[(w(5, 7, ChainTip), false), (w(0, 9, Historic), false), (w(2, 6, FoundNote), true)]);

    scanrange_api(st, &mut rng, a.budget(60, 600));

    // 1. Exhaustive sequences of length 1: every leaf, every insertion, both force flags.
    //    quick: heights 0..3; thorough: heights 0..6 (the statement's domain).
    let hi1 = if a.thorough() || a.search { 6 } else { 3 };
    let rs1 = ranges(0, hi1, true);
    for &(s0, e0) in &rs1 {
        for p0 in PRIOS {
            for &(s1, e1) in &rs1 {
                for p1 in PRIOS {
                    for f in [false, true] {
                        run_seq(st, "exh1", R { s: s0, e: e0, p: p0 }, &[(R { s: s1, e: e1, p: p1 }, f)]);
                    }
                }
            }
        }
    }

    // 2. Exhaustive range *shapes* for sequences of length 2 and 3 on a small domain, with
    //    priorities/force drawn from the PRNG (k draws per shape): covers every tree shape and
    //    every relation between the inserted range and span/split point.
    let (hi2, k2) = if a.thorough() || a.search { (4, 5) } else { (3, 1) };
    let rs2 = ranges(0, hi2, true);
    for &a0 in &rs2 {
        for &a1 in &rs2 {
            for &a2 in &rs2 {
                for _ in 0..k2 {
                    let mk = |rng: &mut Rng, (s, e): (u32, u32)| R { s, e, p: *rng.pick(&PRIOS) };
                    let init = mk(&mut rng, a0);
                    let ops = [(mk(&mut rng, a1), rng.bool()), (mk(&mut rng, a2), rng.chance(1, 4))];
                    run_seq(st, "shape2", init, &ops);
                }
            }
        }
    }
    let n3 = a.budget(2000, 50_000);
    let rs3 = ranges(0, 4, true);
    let rs3n = ranges(0, 5, false);
    for i in 0..n3 {
        // half of the sequences contain only non-empty ranges (the theorems' domain)
        let src: &Vec<(u32, u32)> = if i % 2 == 0 { &rs3n } else { &rs3 };
        let mk = |rng: &mut Rng| {
            let (s, e) = *rng.pick(src);
            R { s, e, p: *rng.pick(&PRIOS) }
        };
        let init = mk(&mut rng);
        let len = rng.range(3, 5) as usize;
        let ops: Vec<(R, bool)> = (0..len).map(|_| (mk(&mut rng), rng.chance(1, 3))).collect();
        run_seq(st, "rand-small", init, &ops);
    }

    // 3. Wallet-like sequences: sorted non-overlapping stored rows first (as replace_queue_entries
    //    feeds them), then 1–3 updates, the last possibly empty.
    let nw = a.budget(1000, 15_000);
    for _ in 0..nw {
        let base = rng.range(0, 1000) as u32 * 100;
        let nrows = rng.range(1, 6);
        let mut rows = vec![];
        let mut cur = base;
        let mut lastp: Option<ScanPriority> = None;
        for _ in 0..nrows {
            let len = rng.range(1, 30) as u32;
            let mut p = *rng.pick(&PRIOS);
            while Some(p) == lastp {
                p = *rng.pick(&PRIOS);
            }
            lastp = Some(p);
            rows.push(R { s: cur, e: cur + len, p });
            cur += len;
        }
        let mut ops: Vec<(R, bool)> = rows[1..].iter().map(|r| (*r, false)).collect();
        let force = rng.chance(1, 5);
        for o in ops.iter_mut() {
            o.1 = force;
        }
        let nup = rng.range(1, 3);
        for k in 0..nup {
            let lo = base.saturating_sub(20);
            let hi = cur + 40;
            let empty_pct = if k + 1 == nup { 25 } else { 0 };
            ops.push((rand_r(&mut rng, lo, hi, empty_pct), force));
        }
        run_seq(st, "wallet-like", rows[0], &ops);
    }

    // 4. Long random sequences on large heights (u32 boundary included), non-empty ranges
    //    mostly; a second stream with many empty ranges.
    let nl = a.budget(250, 800);
    for i in 0..nl {
        let (lo, hi) = match i % 4 {
            0 => (0u32, 60u32),
            1 => (u32::MAX - 80, u32::MAX),
            2 => (1_000_000, 1_000_400),
            _ => (0, u32::MAX),
        };
        let empty_pct = if i % 5 == 4 { 30 } else { 0 };
        let len = rng.range(8, if a.thorough() { 60 } else { 30 }) as usize;
        let init = rand_r(&mut rng, lo, hi, empty_pct);
        let ops: Vec<(R, bool)> = (0..len).map(|_| (rand_r(&mut rng, lo, hi, empty_pct), rng.chance(1, 4))).collect();
        run_seq(st, "rand-long", init, &ops);
    }
}


/// rewind_to_chain_state on real scanned blocks, with rewind depths on both sides of the 100-block
/// pruning depth, and the add-account path (a second account at the same birthday in a synced
/// wallet). After the rewind a client loop runs to quiescence; it must re-scan exactly target+1..=tip.
fn part_b_rewind(qs: &mut QStats, a: &Args) {
    use std::collections::HashSet;
    use zcash_client_backend::data_api::chain::ChainState;
    use zcash_client_backend::data_api::{WalletRead, WalletWrite};
    let mut rng = Rng::new(a.seed, 1503);
    let act = 100_000u32;
    // (blocks generated and scanned, unscanned blocks announced above, rewind depth; None = add an account)
    let mut plans: Vec<(u32, u32, Option<u32>)> = vec![
        (118, 0, Some(110)), (160, 5, Some(90)), (160, 0, Some(99)), (160, 0, Some(100)), (160, 7, Some(101)),
        (160, 0, Some(150)), (130, 0, None),
    ];
    if a.thorough() || a.search {
        for d in [82u32, 89, 98, 102, 120, 159] {
            plans.push((160, rng.range(0, 9) as u32, Some(d)));
        }
        plans.push((105, 3, None));
        plans.push((60, 0, None));
    }
    for (nblocks, extra, depth) in plans {
        let mut st = qb::build(0, None);
        qs.histories += 1;
        let mut states: Vec<ChainState> = vec![];
        for _ in 0..(nblocks + extra) {
            st.generate_empty_block();
            states.push(st.latest_cached_block().unwrap().chain_state().clone());
        }
        let last_scanned = act + nblocks - 1;
        let tip = act + nblocks + extra - 1;
        qstep(qs, &mut st, &qb::Op::Tip(tip));
        // initial sync of the first nblocks blocks, in two real scans
        let mut real_scan = |qs: &mut QStats, st: &mut qb::St, from: u32, cnt: u32| -> bool {
            let c = qb::ctx(st);
            let pre = qb::queue(st.wallet().conn());
            let res = catch(|| st.try_scan_cached_blocks(BlockHeight::from(from), cnt as usize).map(|_| ()).map_err(|e| format!("{:?}", e)));
            let post = match &res {
                Some(Ok(())) => ok(list(qb::queue(st.wallet().conn()).iter().map(|r| r.coq()))),
                Some(Err(_)) => err("OtherErr"),
                None => PANIC.into(),
            };
            qs.steps += 1;
            *qs.by_op.entry("scan-real".into()).or_default() += 1;
            case(format!(
                "QStep {} {} (OpScan {} {} [] [] []) {} {}",
                c, list(pre.iter().map(|r| r.coq())), from, from + cnt, post, qb::suggest(st)
            ));
            matches!(res, Some(Ok(())))
        };
        let half = nblocks / 2;
        if !real_scan(qs, &mut st, act, half) || !real_scan(qs, &mut st, act + half, nblocks - half) {
            continue;
        }
        let target = match depth {
            Some(d) => last_scanned - d,
            None => act - 1,
        };
        // lowest retained tree checkpoint at or above max(target, max_scanned - 99), over the pools
        let floor: Option<u32> = {
            let ms = qb::max_scanned(&st).unwrap();
            let tt = target.max(ms.saturating_sub(99));
            let conn = st.wallet().conn();
            ["sapling", "orchard", "ironwood"]
                .iter()
                .filter_map(|p| {
                    conn.query_row(
                        &format!("SELECT MIN(checkpoint_id) FROM {}_tree_checkpoints WHERE checkpoint_id >= ?1", p),
                        [tt],
                        |r| r.get::<_, Option<u32>>(0),
                    )
                    .unwrap()
                })
                .min()
        };
        if std::env::var("C15_DEBUG").is_ok() {
            let conn = st.wallet().conn();
            let ids: Vec<u32> = conn.prepare("SELECT checkpoint_id FROM sapling_tree_checkpoints ORDER BY checkpoint_id").unwrap()
                .query_map([], |r| r.get(0)).unwrap().map(|x| x.unwrap()).collect();
            eprintln!("plan {:?}: target {} floor {:?} sapling checkpoints {:?}", (nblocks, extra, depth), target, floor, ids);
        }
        if floor.is_none() {
            // no tree checkpoint at or above max(target, max_scanned - 99): the rewind is refused by the
            // commitment-tree layer (outside the queue model); wallets built from empty test blocks
            // keep no checkpoint at their last scanned block
            *qs.by_op.entry("rewind-skipped-no-checkpoint".into()).or_default() += 1;
            continue;
        }
        let c = qb::ctx(&st);
        let pre = qb::queue(st.wallet().conn());
        let res: Option<Result<(), String>> = match depth {
            Some(_) => {
                let cs = states[(target - act) as usize].clone();
                let r = catch(|| st.wallet_mut().rewind_to_chain_state(cs, HashSet::new()).map_err(|e| format!("{:?}", e)));
                if std::env::var("C15_DEBUG").is_ok() {
                    eprintln!("  result {:?}", r);
                }
                r
            }
            None => catch(|| {
                st.create_account_from_test_seed("second");
                Ok(())
            }),
        };
        let post = match &res {
            Some(Ok(())) => ok(list(qb::queue(st.wallet().conn()).iter().map(|r| r.coq()))),
            Some(Err(_)) => err("OtherErr"),
            None => PANIC.into(),
        };
        qs.steps += 1;
        *qs.by_op.entry(if depth.is_some() { "rewind-to-chain-state" } else { "add-account" }.to_string()).or_default() += 1;
        case(format!(
            "QStep {} {} (OpRewind {} {}) {} {}",
            c, list(pre.iter().map(|r| r.coq())), if depth.is_some() { z(target as i128) } else { format!("{}", target) },
            opt(floor.map(|x| x.to_string())), post, qb::suggest(&st)
        ));
        if !matches!(res, Some(Ok(()))) {
            continue;
        }
        // the client loop: scan what is suggested until nothing is left
        let mut scanned = 0u32;
        let mut steps = 0;
        loop {
            let sg = qb::suggested(&st);
            if sg.is_empty() || steps > 400 {
                break;
            }
            let r = &sg[0];
            let (s, e) = (u32::from(r.block_range().start), u32::from(r.block_range().end));
            let len = rng.range(1, (e - s).min(80) as u64) as u32;
            let from = if rng.bool() { s } else { e - len };
            if !real_scan(qs, &mut st, from, len) {
                break;
            }
            scanned += len;
            steps += 1;
        }
        qs.loops += 1;
        case(format!(
            "QRescan {} {} {} {} {}",
            target, tip, scanned,
            list(qb::queue(st.wallet().conn()).iter().map(|r| r.coq())),
            qb::suggest(&st)
        ));
    }
}

fn main() {
    let a = args();
    quiet_panics();
    let mut st = Stats::default();
    part_a(&mut st, &a);
    let mut qs = QStats::default();
    part_b_low(&mut qs, &a);
    part_b_loop(&mut qs, &a);
    part_b_rewind(&mut qs, &a);
    flush_cases(a.seed);
    let m = |h: &BTreeMap<usize, u64>| {
        format!("{{{}}}", h.iter().map(|(k, v)| format!("\"{}\":{}", k, v)).collect::<Vec<_>>().join(","))
    };
    stat(format!(
        "{{\"part\":\"A\",\"cases\":{},\"by_kind\":{{{}}},\"sequences_with_a_panic\":{},\"panics_with_only_nonempty_ranges\":{},\"sequences_with_an_empty_range\":{},\"ops_per_sequence\":{},\"rows_in_final_into_vec\":{}}}",
        st.cases,
        st.by_kind.iter().map(|(k, v)| format!("\"{}\":{}", k, v)).collect::<Vec<_>>().join(","),
        st.panics,
        st.panics_nonempty_only,
        st.with_empty,
        m(&st.seq_len_hist),
        m(&st.out_len_hist)
    ));
    let ms = |h: &BTreeMap<String, u64>| {
        format!("{{{}}}", h.iter().map(|(k, v)| format!("\"{}\":{}", k, v)).collect::<Vec<_>>().join(","))
    };
    stat(format!(
        "{{\"part\":\"B\",\"histories\":{},\"queue_steps\":{},\"by_op\":{},\"outcomes\":{},\"rows_in_queue_after_step\":{},\"client_loops\":{},\"max_steps_in_a_loop\":{}}}",
        qs.histories, qs.steps, ms(&qs.by_op), ms(&qs.outcomes), m(&qs.queue_len_hist), qs.loops, qs.loop_steps_max
    ));
}

// =====================================================================================
// Part B — the scan queue on the SQLite backend
// =====================================================================================
mod qb {
    use super::{pname, PRIOS};
    use incrementalmerkletree::Position;
    use nonempty::NonEmpty;
    use rusqlite::Connection;
    use vcommon::*;
    use zcash_client_backend::data_api::chain::{ChainState, CommitmentTreeRoot};
    use zcash_client_backend::data_api::ll::LowLevelWalletWrite;
    use zcash_client_backend::data_api::scanning::{ScanPriority, ScanRange};
    use zcash_client_backend::data_api::testing::{InitialChainState, TestBuilder, TestState};
    use zcash_client_backend::data_api::{WalletCommitmentTrees, WalletRead, WalletWrite};
    use zcash_client_sqlite::error::SqliteClientError;
    use zcash_client_sqlite::testing::db::{TestDb, TestDbFactory};
    use zcash_client_sqlite::testing::BlockCache;
    use zcash_primitives::block::BlockHash;
    use zcash_protocol::consensus::{BlockHeight, NetworkUpgrade, Parameters};
    use zcash_protocol::local_consensus::LocalNetwork;
    use zcash_protocol::ShieldedPool;

    pub type St = TestState<BlockCache, TestDb, LocalNetwork>;

    #[derive(Clone, Debug, PartialEq, Eq)]
    pub struct Row {
        pub s: u32,
        pub e: u32,
        pub p: String,
    }
    impl Row {
        pub fn coq(&self) -> String {
            format!("R {} {} {}", self.s, self.e, self.p)
        }
    }

    fn code_name(c: i64) -> String {
        match c {
            0 => "Ignored".into(),
            10 => "Scanned".into(),
            20 => "Historic".into(),
            30 => "OpenAdjacent".into(),
            40 => "FoundNote".into(),
            50 => "ChainTip".into(),
            60 => "Verify".into(),
            x => format!("(BadCode {})", x),
        }
    }

    pub fn queue(conn: &Connection) -> Vec<Row> {
        let mut stmt = conn
            .prepare("SELECT block_range_start, block_range_end, priority FROM scan_queue ORDER BY block_range_start")
            .unwrap();
        stmt.query_map([], |r| {
            Ok(Row { s: r.get::<_, u32>(0)?, e: r.get::<_, u32>(1)?, p: code_name(r.get::<_, i64>(2)?) })
        })
        .unwrap()
        .map(|r| r.unwrap())
        .collect()
    }

    fn shards(conn: &Connection, table: &str) -> String {
        let mut stmt = conn
            .prepare(&format!("SELECT shard_index, subtree_end_height FROM {} ORDER BY shard_index", table))
            .unwrap();
        let v: Vec<String> = stmt
            .query_map([], |r| Ok((r.get::<_, i64>(0)?, r.get::<_, Option<u32>>(1)?)))
            .unwrap()
            .map(|r| {
                let (i, e) = r.unwrap();
                format!("({}, {})", i, opt(e.map(|x| x.to_string())))
            })
            .collect();
        list(v)
    }

    pub fn ctx(st: &St) -> String {
        let conn = st.wallet().conn();
        let act = |nu| opt(st.network().activation_height(nu).map(|h| u32::from(h).to_string()));
        let max_scanned: Option<u32> = conn.query_row("SELECT MAX(height) FROM blocks", [], |r| r.get(0)).unwrap();
        let birthday: Option<u32> = conn.query_row("SELECT MIN(birthday_height) FROM accounts", [], |r| r.get(0)).unwrap();
        format!(
            "(Ctx {} {} {} {} {} {} {} {})",
            act(NetworkUpgrade::Sapling),
            act(NetworkUpgrade::Nu5),
            act(NetworkUpgrade::Nu6_3),
            opt(max_scanned.map(|x| x.to_string())),
            opt(birthday.map(|x| x.to_string())),
            shards(conn, "sapling_tree_shards"),
            shards(conn, "orchard_tree_shards"),
            shards(conn, "ironwood_tree_shards"),
        )
    }

    pub fn max_scanned(st: &St) -> Option<u32> {
        st.wallet().conn().query_row("SELECT MAX(height) FROM blocks", [], |r| r.get(0)).unwrap()
    }
    pub fn birthday(st: &St) -> Option<u32> {
        st.wallet().conn().query_row("SELECT MIN(birthday_height) FROM accounts", [], |r| r.get(0)).unwrap()
    }

    #[derive(Clone, Debug)]
    pub enum Op {
        Tip(u32),
        Scan { s: u32, e: u32, sap: Vec<u64>, orc: Vec<u64>, prime: bool },
        Rescan(Vec<(u32, u32)>, ScanPriority),
        Prune(u32, Option<ScanPriority>),
        /// truncate_to_chain_state at a height at or above the max scanned block (queue-only rewind)
        Rewind(u32),
    }

    impl Op {
        pub fn coq(&self) -> String {
            match self {
                Op::Tip(t) => format!("(OpTip {})", t),
                Op::Scan { s, e, sap, orc, .. } => format!(
                    "(OpScan {} {} {} {} [])",
                    s,
                    e,
                    list(sap.iter().map(|x| x.to_string())),
                    list(orc.iter().map(|x| x.to_string()))
                ),
                Op::Rescan(rs, p) => format!(
                    "(OpRescan {} {})",
                    list(rs.iter().map(|(a, b)| format!("({}, {})", a, b))),
                    pname(*p)
                ),
                Op::Prune(h, r) => format!("(OpPrune {} {})", h, opt(r.map(|p| pname(p).to_string()))),
                Op::Rewind(h) => format!("(OpTrim {})", h),
            }
        }
    }

    fn err_name(e: &SqliteClientError) -> &'static str {
        match e {
            SqliteClientError::DbError(rusqlite::Error::SqliteFailure(f, _))
                if f.code == rusqlite::ErrorCode::ConstraintViolation => "DbConstraint",
            _ => "OtherErr",
        }
    }

    /// Insert a minimal `blocks` row (test priming that mimics what put_blocks stores before it
    /// calls scan_complete); only MIN/MAX(height) of the table are read by the queue code.
    pub fn prime_block(st: &mut St, h: u32) {
        st.wallet_mut()
            .conn_mut()
            .execute(
                "INSERT OR IGNORE INTO blocks (height, hash, time, sapling_tree, sapling_commitment_tree_size,
                   orchard_commitment_tree_size, ironwood_commitment_tree_size, sapling_output_count, orchard_action_count, ironwood_action_count)
                 VALUES (?1, zeroblob(32), 0, x'00', 0, 0, 0, 0, 0, 0)",
                [h],
            )
            .unwrap();
    }

    /// Execute one operation; returns the outcome rendered as a Coq `qres (list sr)` term.
    pub fn exec(st: &mut St, op: &Op) -> (String, &'static str) {
        let r: Option<Result<(), SqliteClientError>> = match op.clone() {
            Op::Tip(t) => catch(|| st.wallet_mut().update_chain_tip(BlockHeight::from(t))),
            Op::Scan { s, e, sap, orc, prime } => {
                let mut pos: Vec<(ShieldedPool, Position)> = vec![];
                pos.extend(sap.iter().map(|p| (ShieldedPool::Sapling, Position::from(*p))));
                pos.extend(orc.iter().map(|p| (ShieldedPool::Orchard, Position::from(*p))));
                let r = catch(|| {
                    st.wallet_mut().db_mut().transactionally::<_, _, SqliteClientError>(|wdb| {
                        wdb.notify_scan_complete(BlockHeight::from(s)..BlockHeight::from(e), &pos)
                    })
                });
                if prime && matches!(r, Some(Ok(()))) && e > s {
                    prime_block(st, s);
                    prime_block(st, e - 1);
                }
                r
            }
            Op::Rescan(rs, p) => catch(|| {
                let v: Vec<std::ops::Range<BlockHeight>> =
                    rs.iter().map(|(a, b)| BlockHeight::from(*a)..BlockHeight::from(*b)).collect();
                st.wallet_mut().db_mut().queue_rescans(NonEmpty::from_vec(v).unwrap(), p)
            }),
            Op::Prune(h, r) => catch(|| st.wallet_mut().prune_scan_queue_below(BlockHeight::from(h), r).map(|_| ())),
            Op::Rewind(h) => catch(|| {
                st.wallet_mut()
                    .truncate_to_chain_state(ChainState::empty(BlockHeight::from(h), BlockHash([7; 32])))
            }),
        };
        match r {
            None => (PANIC.into(), "panic"),
            Some(Err(e)) => (err(err_name(&e)), "err"),
            Some(Ok(())) => {
                let q = queue(st.wallet().conn());
                (ok(list(q.iter().map(|r| r.coq()))), "ok")
            }
        }
    }

    pub fn suggest(st: &St) -> String {
        let v = st.wallet().suggest_scan_ranges().unwrap();
        list(v.iter().map(|r| {
            format!("R {} {} {}", u32::from(r.block_range().start), u32::from(r.block_range().end), pname(r.priority()))
        }))
    }

    pub fn suggested(st: &St) -> Vec<ScanRange> {
        st.wallet().suggest_scan_ranges().unwrap()
    }

    /// Build a wallet: birthday at Sapling activation + `offset` (0 = account from activation),
    /// optionally with completed-shard metadata ending `roots_before` blocks below the birthday.
    pub fn build(offset: u32, roots_before: Option<u32>) -> St {
        let b = TestBuilder::new()
            .with_data_store_factory(TestDbFactory::default())
            .with_block_cache(BlockCache::new());
        if offset == 0 {
            b.with_account_from_sapling_activation(BlockHash([0; 32])).build()
        } else {
            b.with_initial_chain_state(|_rng, network| {
                let h = network.activation_height(NetworkUpgrade::Sapling).unwrap() + offset - 1;
                InitialChainState {
                    chain_state: ChainState::empty(h, BlockHash([0; 32])),
                    prior_sapling_roots: match roots_before {
                        Some(d) => vec![CommitmentTreeRoot::from_parts(h + 1 - d, sapling::Node::from_scalar(jubjub::Fq::one()))],
                        None => vec![],
                    },
                    prior_orchard_roots: vec![],
                }
            })
            .with_account_having_current_birthday()
            .build()
        }
    }

    pub fn put_roots(st: &mut St, sap_start: u64, sap_ends: &[u32], orc_start: u64, orc_ends: &[u32]) {
        let sr: Vec<_> = sap_ends
            .iter()
            .map(|h| CommitmentTreeRoot::from_parts(BlockHeight::from(*h), sapling::Node::from_scalar(jubjub::Fq::one())))
            .collect();
        let _ = catch(|| st.wallet_mut().put_sapling_subtree_roots(sap_start, &sr));
        use incrementalmerkletree::Hashable;
        let or: Vec<_> = orc_ends
            .iter()
            .map(|h| CommitmentTreeRoot::from_parts(BlockHeight::from(*h), orchard::tree::MerkleHashOrchard::empty_leaf()))
            .collect();
        let _ = catch(|| st.wallet_mut().put_orchard_subtree_roots(orc_start, &or));
    }

    pub fn rand_prio(rng: &mut Rng) -> ScanPriority {
        *rng.pick(&PRIOS)
    }
}

#[derive(Default)]
struct QStats {
    histories: u64,
    steps: u64,
    by_op: BTreeMap<String, u64>,
    outcomes: BTreeMap<String, u64>,
    queue_len_hist: BTreeMap<usize, u64>,
    loops: u64,
    loop_steps_max: u64,
}

fn qstep(qs: &mut QStats, st: &mut qb::St, op: &qb::Op) -> &'static str {
    let c = qb::ctx(st);
    let pre = qb::queue(st.wallet().conn());
    let (post, kind) = qb::exec(st, op);
    let sugg = qb::suggest(st);
    let now = qb::queue(st.wallet().conn());
    qs.steps += 1;
    let name = match op {
        qb::Op::Tip(_) => "tip",
        qb::Op::Scan { sap, orc, .. } => if sap.is_empty() && orc.is_empty() { "scan" } else { "scan-with-notes" },
        qb::Op::Rescan(..) => "rescan",
        qb::Op::Prune(..) => "prune",
        qb::Op::Rewind(..) => "rewind",
    };
    *qs.by_op.entry(name.into()).or_default() += 1;
    *qs.outcomes.entry(kind.into()).or_default() += 1;
    *qs.queue_len_hist.entry(now.len()).or_default() += 1;
    case(format!(
        "QStep {} {} {} {} {}",
        c,
        list(pre.iter().map(|r| r.coq())),
        op.coq(),
        post,
        sugg
    ));
    {
        use zcash_client_backend::data_api::WalletRead;
        let ch = st.wallet().chain_height().ok().flatten().map(|h| u32::from(h).to_string());
        case(format!("QChain {} {}", list(now.iter().map(|r| r.coq())), opt(ch)));
    }
    kind
}

fn part_b_low(qs: &mut QStats, a: &Args) {
    let mut rng = Rng::new(a.seed, 1501);
    let n_hist = a.budget(24, 150);
    let act = 100_000u32;
    // boundary histories (always in the corpus)
    {
        // chain tip reported below the wallet birthday, below/at Sapling activation
        let mut st = qb::build(500, None);
        qs.histories += 1;
        for t in [act - 1, act, act + 100, act + 498, act + 499, act + 500, act + 501] {
            qstep(qs, &mut st, &qb::Op::Tip(t));
        }
        // the same with completed-shard metadata below the birthday
        let mut st = qb::build(500, Some(10));
        qs.histories += 1;
        for t in [act + 100, act + 489, act + 490, act + 498, act + 499, act + 500] {
            qstep(qs, &mut st, &qb::Op::Tip(t));
        }
        // update_chain_tip with shard metadata present: new_tip = max_scanned + PRUNING_DEPTH + d for d in -11..=15
        // (Verify range limited by the stable height for d < 10, by the lookahead for d >= 10; d = 0 is the
        // documented zero-length Verify range), shard end below the birthday / between max scanned and the tip /
        // above the tip; afterwards a low-level client loop must reach the tip
        for (offset, roots_before, shard_at) in [(500u32, Some(10u32), None), (0, None, Some(60u32)), (0, None, Some(5)), (0, None, Some(400))] {
            for loop_d in [-1i32, 0, 1, 15] {
                let mut st = qb::build(offset, roots_before);
                qs.histories += 1;
                let b = act + offset;
                qstep(qs, &mut st, &qb::Op::Tip(b + 20));
                qstep(qs, &mut st, &qb::Op::Scan { s: b, e: b + 21, sap: vec![], orc: vec![], prime: true });
                let ms = b + 20;
                if let Some(rel) = shard_at {
                    qb::put_roots(&mut st, 0, &[b + rel], 0, &[]);
                }
                let ds: Vec<i32> = if loop_d == -1 { (-11..=15).collect() } else { vec![loop_d] };
                let mut tip = ms;
                for d in ds {
                    tip = (ms as i64 + 100 + d as i64) as u32;
                    qstep(qs, &mut st, &qb::Op::Tip(tip));
                }
                // client loop on the queue (notify_scan_complete + blocks rows), whole suggested ranges
                let mut scanned = 0u32;
                for _ in 0..40 {
                    let sg = qb::suggested(&st);
                    if sg.is_empty() {
                        break;
                    }
                    let (s0, e0) = (u32::from(sg[0].block_range().start), u32::from(sg[0].block_range().end));
                    if qstep(qs, &mut st, &qb::Op::Scan { s: s0, e: e0, sap: vec![], orc: vec![], prime: true }) != "ok" {
                        break;
                    }
                    scanned += e0 - s0;
                }
                case(format!(
                    "QRescan {} {} {} {} {}",
                    ms, tip, scanned,
                    list(qb::queue(st.wallet().conn()).iter().map(|r| r.coq())),
                    qb::suggest(&st)
                ));
            }
        }
        // rewinds landing exactly on every boundary of the rows queued above the scanned region
        // (end-1, end, start-1, start, inside), each followed by a lower and a higher tip update
        {
            let mut st = qb::build(0, None);
            qs.histories += 1;
            let b = act;
            let top = b + 200;
            qstep(qs, &mut st, &qb::Op::Tip(top));
            qstep(qs, &mut st, &qb::Op::Scan { s: b, e: b + 100, sap: vec![], orc: vec![], prime: true });
            let ms = b + 99;
            let setup = |qs: &mut QStats, st: &mut qb::St| {
                qstep(qs, st, &qb::Op::Tip(top));
                qstep(qs, st, &qb::Op::Rescan(vec![(b + 120, b + 140)], ScanPriority::FoundNote));
                qstep(qs, st, &qb::Op::Rescan(vec![(b + 160, b + 170)], ScanPriority::OpenAdjacent));
            };
            setup(qs, &mut st);
            // stored rows now: Scanned b..b+100, Historic ..120, FoundNote ..140, Historic ..160, OpenAdjacent ..170, Historic ..201
            let mut targets: Vec<u32> = vec![];
            for r in qb::queue(st.wallet().conn()) {
                for t in [r.s.saturating_sub(1), r.s, r.s + 1, r.e.saturating_sub(2), r.e - 1, r.e] {
                    if t >= ms && t <= top + 1 && !targets.contains(&t) {
                        targets.push(t);
                    }
                }
            }
            targets.sort();
            for t in targets {
                qstep(qs, &mut st, &qb::Op::Rewind(t));
                qstep(qs, &mut st, &qb::Op::Tip(t.saturating_sub(3).max(ms)));
                qstep(qs, &mut st, &qb::Op::Tip(t + 2));
                setup(qs, &mut st);
            }
        }
        // prune with a non-retained row that ends exactly at the pruning height and is followed by an Ignored row
        {
            let mut st = qb::build(0, None);
            qs.histories += 1;
            qstep(qs, &mut st, &qb::Op::Tip(act + 50));
            qstep(qs, &mut st, &qb::Op::Scan { s: act, e: act + 10, sap: vec![], orc: vec![], prime: true });
            qstep(qs, &mut st, &qb::Op::Prune(act + 30, Some(ScanPriority::ChainTip)));
            qstep(qs, &mut st, &qb::Op::Rescan(vec![(act + 15, act + 20)], ScanPriority::FoundNote));
            qstep(qs, &mut st, &qb::Op::Prune(act + 20, Some(ScanPriority::ChainTip)));
            qstep(qs, &mut st, &qb::Op::Prune(act + 25, Some(ScanPriority::ChainTip)));
        }
        // birthday == tip + 1 with shard metadata below it: update_chain_tip inserts an EMPTY ChainTip range first.
        // (a) nothing scanned: both entries empty; (b) blocks scanned below the birthday, far from the tip: Verify range;
        // (c) scanned close to the tip: a non-empty ChainTip range ending at the birthday follows the empty one
        for (scan, tip) in [(None, act + 499), (Some((act + 300, act + 311)), act + 499), (Some((act + 440, act + 451)), act + 499),
                            (Some((act + 489, act + 500)), act + 499)] {
            let mut st = qb::build(500, Some(10));
            qs.histories += 1;
            if let Some((s, e)) = scan {
                qstep(qs, &mut st, &qb::Op::Scan { s, e, sap: vec![], orc: vec![], prime: true });
            }
            qstep(qs, &mut st, &qb::Op::Tip(tip));
            qstep(qs, &mut st, &qb::Op::Tip(tip + 1));
        }
        // queue_rescans with an empty range that is not last: the tree's known finding through the wallet API
        let mut st = qb::build(0, None);
        qs.histories += 1;
        qstep(qs, &mut st, &qb::Op::Tip(act + 50));
        qstep(qs, &mut st, &qb::Op::Rescan(vec![(act + 51, act + 51), (act, act + 51)], ScanPriority::Verify));
        qstep(qs, &mut st, &qb::Op::Rescan(vec![(act, act + 51), (act + 51, act + 51)], ScanPriority::Verify));
        qstep(qs, &mut st, &qb::Op::Rescan(vec![(act + 10, act + 10)], ScanPriority::FoundNote));
        // scanning the u32 boundary, empty scan range, scan beyond the covered interval (island)
        qstep(qs, &mut st, &qb::Op::Scan { s: act + 20, e: act + 20, sap: vec![], orc: vec![], prime: false });
        qstep(qs, &mut st, &qb::Op::Scan { s: act + 200, e: act + 210, sap: vec![], orc: vec![], prime: false });
        qstep(qs, &mut st, &qb::Op::Tip(u32::MAX - 1));
        qstep(qs, &mut st, &qb::Op::Tip(u32::MAX));
    }
    for hix in 0..n_hist {
        let offset = match hix % 4 {
            0 => 0,
            1 => rng.range(1, 50) as u32,
            _ => rng.range(50, 3000) as u32,
        };
        let roots_before = if offset > 20 && rng.chance(1, 2) { Some(rng.range(1, 15) as u32) } else { None };
        let mut st = qb::build(offset, roots_before);
        qs.histories += 1;
        let bday = act + offset;
        let mut tip = bday + rng.range(0, 40) as u32;
        let nops = rng.range(6, 16);
        for k in 0..nops {
            let qrows = qb::queue(st.wallet().conn());
            let hi = qrows.last().map(|r| r.e).unwrap_or(bday);
            let lo = qrows.first().map(|r| r.s).unwrap_or(act);
            let choice = if k == 0 { 0 } else { rng.below(100) };
            let op = if choice < 30 {
                // chain tip moves: mostly forward, sometimes far, sometimes backwards
                tip = match rng.below(10) {
                    0 => tip.saturating_sub(rng.range(1, 30) as u32),
                    1 | 2 => tip + rng.range(90, 400) as u32,
                    3 => tip,
                    _ => tip + rng.range(1, 60) as u32,
                };
                qb::Op::Tip(tip)
            } else if choice < 75 {
                // scan: a prefix/suffix/all of the first suggested range, or a random range inside the coverage
                let sg = qb::suggested(&st);
                let (s, e) = if !sg.is_empty() && rng.chance(4, 5) {
                    let r = &sg[if rng.chance(4, 5) { 0 } else { rng.below(sg.len() as u64) as usize }];
                    let (s, e) = (u32::from(r.block_range().start), u32::from(r.block_range().end));
                    let len = rng.range(1, (e - s).min(150) as u64) as u32;
                    match rng.below(3) {
                        0 => (s, s + len),
                        1 => (e - len, e),
                        _ => (s, e.min(s + 400)),
                    }
                } else {
                    let s = rng.range(lo as u64, hi.max(lo + 1) as u64 - 1) as u32;
                    (s, (s + rng.range(1, 30) as u32).min(hi.max(s + 1)))
                };
                let mut sap = vec![];
                let mut orc = vec![];
                if rng.chance(1, 3) {
                    for _ in 0..rng.range(1, 2) {
                        sap.push(rng.range(0, 3) * 65536 + rng.below(65536));
                    }
                    if rng.chance(1, 3) {
                        orc.push(rng.range(0, 2) * 65536 + rng.below(65536));
                    }
                }
                qb::Op::Scan { s, e, sap, orc, prime: rng.chance(5, 6) }
            } else if choice < 83 {
                // subtree roots become known (no queue op; changes the context)
                let base = lo.max(act);
                let e0 = base + rng.range(0, (hi - base).max(1) as u64) as u32;
                let e1 = e0 + rng.range(1, 200) as u32;
                let e2 = e1 + rng.range(1, 200) as u32;
                let n = rng.range(1, 3) as usize;
                let orc_n = rng.range(0, 2) as usize;
                qb::put_roots(&mut st, 0, &[e0, e1, e2][..n], 0, &[e0 + 3, e1 + 5][..orc_n]);
                continue;
            } else if choice < 93 {
                let n = rng.range(1, 3);
                let mut v = vec![];
                for _ in 0..n {
                    let s = rng.range(lo as u64, hi as u64) as u32;
                    let e = s + rng.range(1, 50) as u32;
                    v.push((s, e.min(hi.max(s + 1))));
                }
                qb::Op::Rescan(v, qb::rand_prio(&mut rng))
            } else {
                let h = rng.range(lo as u64, hi as u64 + 5) as u32;
                let retain = if rng.chance(1, 4) { None } else { Some(qb::rand_prio(&mut rng)) };
                qb::Op::Prune(h, retain)
            };
            qstep(qs, &mut st, &op);
        }
    }
}

/// The client loop on real (empty) blocks: take the first suggested range, scan a non-empty
/// prefix or suffix of it, until nothing is suggested. Step bound = number of blocks.
fn part_b_loop(qs: &mut QStats, a: &Args) {
    use zcash_client_backend::data_api::{WalletRead, WalletWrite};
    let mut rng = Rng::new(a.seed, 1502);
    let n = a.budget(4, 40);
    for i in 0..n {
        let mut st = qb::build(0, None);
        let act = 100_000u32;
        let nblocks = rng.range(8, if a.thorough() { 120 } else { 40 }) as u32;
        for _ in 0..nblocks {
            st.generate_empty_block();
        }
        let tip0 = act + nblocks - 1;
        // the tip is announced in one or two instalments
        let first_tip = if i % 2 == 0 { tip0 } else { act + rng.range(0, nblocks as u64 - 1) as u32 };
        let mut announced = first_tip;
        qstep(qs, &mut st, &qb::Op::Tip(first_tip));
        let mut steps = 0u64;
        let mut rewinds = 0;
        let mut rewound = 0u32;
        let bound = (nblocks as u64) * 2 + 4;
        loop {
            let sg = qb::suggested(&st);
            if sg.is_empty() {
                if announced < tip0 {
                    announced = tip0;
                    qstep(qs, &mut st, &qb::Op::Tip(tip0));
                    continue;
                }
                break;
            }
            if steps > bound {
                break;
            }
            let r = &sg[0];
            let (s, e) = (u32::from(r.block_range().start), u32::from(r.block_range().end));
            let avail_e = e.min(announced + 1).min(tip0 + 1);
            let len = rng.range(1, (avail_e - s).max(1) as u64) as u32;
            let (from, cnt) = if rng.bool() { (s, len) } else { (avail_e - len, len) };
            // real scanning: put_blocks -> scan_complete; observed as one queue step
            let c = qb::ctx(&st);
            let pre = qb::queue(st.wallet().conn());
            let res = catch(|| st.try_scan_cached_blocks(BlockHeight::from(from), cnt as usize).map(|_| ()).map_err(|e| format!("{:?}", e)));
            let post = match &res {
                Some(Ok(())) => ok(list(qb::queue(st.wallet().conn()).iter().map(|r| r.coq()))),
                Some(Err(_)) => err("OtherErr"),
                None => PANIC.into(),
            };
            qs.steps += 1;
            *qs.by_op.entry("scan-real".into()).or_default() += 1;
            case(format!(
                "QStep {} {} (OpScan {} {} [] [] []) {} {}",
                c,
                list(pre.iter().map(|r| r.coq())),
                from,
                from + cnt,
                post,
                qb::suggest(&st)
            ));
            steps += 1;
            if !matches!(res, Some(Ok(()))) {
                break;
            }
            // occasionally a rewind (reorg handling), at most twice per history
            if rewinds < 2 && (rewinds == 0 || rng.chance(1, 6)) {
                if let Some(ms) = qb::max_scanned(&st) {
                    // the first rewind lands exactly on the last scanned block (the end of the Scanned row,
                    // with ranges queued above it); later ones a few blocks below
                    let back = if rewinds == 0 { 0 } else { rng.range(0, 5) as u32 };
                    let target = ms.saturating_sub(back).max(act);
                    let c = qb::ctx(&st);
                    let pre = qb::queue(st.wallet().conn());
                    let r = catch(|| st.wallet_mut().truncate_to_height(BlockHeight::from(target)));
                    if let Some(Ok(h)) = r {
                        rewinds += 1;
                        rewound += ms.saturating_sub(u32::from(h));
                        let post = ok(list(qb::queue(st.wallet().conn()).iter().map(|r| r.coq())));
                        qs.steps += 1;
                        *qs.by_op.entry("truncate".into()).or_default() += 1;
                        case(format!(
                            "QStep {} {} (OpTrim {}) {} {}",
                            c,
                            list(pre.iter().map(|r| r.coq())),
                            u32::from(h),
                            post,
                            qb::suggest(&st)
                        ));
                        // the client learns the tip again
                        qstep(qs, &mut st, &qb::Op::Tip(announced));
                    }
                }
            }
        }
        let fully = st.wallet().block_fully_scanned().ok().flatten().map(|m| u32::from(m.block_height()));
        qs.loops += 1;
        qs.loop_steps_max = qs.loop_steps_max.max(steps);
        case(format!(
            "QLoop {} {} {} {} {} {} {}",
            act,
            tip0,
            steps,
            rewound,
            list(qb::queue(st.wallet().conn()).iter().map(|r| r.coq())),
            qb::suggest(&st),
            opt(fully.map(|x| x.to_string()))
        ));
    }
}
