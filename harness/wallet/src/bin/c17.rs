//! C17 harness: pool-migration scheduling, anchors, expiries and classification labels.
//!
//! Every drawing function of `zcash_pool_migration::scheduling` is driven by a *replaying*
//! `RngCore` over a recorded list of u64 words (it panics when the list is exhausted), so the
//! Coq model consumes exactly the same words. Streams: ChaCha words, constant, alternating,
//! single-bit, counter, sparse (mostly-zero) and small-value streams.
//!
//! `DelayDistribution::draw` goes through f64 / `libm::log`; the candidate delay of every word of
//! the stream is computed here with the same formula and handed to the model as an oracle value.
use std::num::NonZeroU32;

use rand_core::{CryptoRng, RngCore};
use vcommon::*;
use zcash_pool_migration::scheduling::{
    self as sch, AnchorBucketInterval, DelayDistribution, SchedulingParams, WakeupParams, WakeupScheduleError,
};
use std::convert::Infallible;
use zcash_pool_migration::denomination::DenominationPlan;
use zcash_pool_migration::engine::{
    MigrationState, MigrationStatus, MigrationTransaction, MigrationTransferId, MigrationTxKind, MigrationTxState,
    PoolMigrationRead, PoolMigrationWrite, ProvedTransaction,
};
use zcash_pool_migration::build::AccountDerivation;
use zcash_pool_migration::engine::{
    rebuild_expired_transfer, rebuild_expired_transfer_unsigned, MigrationBackend, MigrationCrypto, RebuildError,
};
use zcash_pool_migration::preparation::PreparationPlan;
use zcash_pool_migration_memory::{regtest_network, spending_key, CommitMock};
use zcash_pool_migration::wallet::WalletMigration;
use zcash_client_backend::data_api::testing::MockWalletDb;
use zcash_keys::keys::UnifiedSpendingKey;
use zcash_protocol::consensus::Network;
use rand_core::SeedableRng;
use zcash_pool_migration::satisfiability::{
    advance_migration, AdvanceConfig, DuenessTargets, ReorgSettleDepth, ReplanThreshold, StepSatisfiability,
};
use zcash_pool_migration::state::AdvanceStep;
use zcash_protocol::consensus::BlockHeight;
use zcash_protocol::TxId;
use zcash_protocol::value::Zatoshis;
use zcash_protocol::zip318::{
    self as z318, classify, PoolMigrationConstants, Zip318Classification, Zip318Evidence, Zip318TxKind,
};

// ---- replaying generator -------------------------------------------------------------------

struct Replay {
    words: Vec<u64>,
    pos: usize,
}
impl Replay {
    fn new(words: &[u64]) -> Self {
        Replay { words: words.to_vec(), pos: 0 }
    }
}
impl RngCore for Replay {
    fn next_u32(&mut self) -> u32 {
        self.next_u64() as u32
    }
    fn next_u64(&mut self) -> u64 {
        if self.pos >= self.words.len() {
            panic!("replay stream exhausted");
        }
        let w = self.words[self.pos];
        self.pos += 1;
        w
    }
    fn fill_bytes(&mut self, dest: &mut [u8]) {
        for chunk in dest.chunks_mut(8) {
            let b = self.next_u64().to_le_bytes();
            chunk.copy_from_slice(&b[..chunk.len()]);
        }
    }
    fn try_fill_bytes(&mut self, dest: &mut [u8]) -> Result<(), rand_core::Error> {
        self.fill_bytes(dest);
        Ok(())
    }
}
impl CryptoRng for Replay {}

/// Run `f` with a replaying generator; `None` = panic (stream exhausted or arithmetic panic).
fn with_rng<T>(words: &[u64], f: impl FnOnce(&mut Replay) -> T) -> Option<(T, usize)> {
    let mut r = Replay::new(words);
    let out = catch(|| f(&mut r));
    out.map(|v| (v, r.pos))
}

// ---- streams -------------------------------------------------------------------------------

#[derive(Default)]
struct Stats {
    streams: std::collections::BTreeMap<&'static str, u64>,
    outcomes: std::collections::BTreeMap<String, u64>,
}
impl Stats {
    fn out(&mut self, k: &str) {
        *self.outcomes.entry(k.to_string()).or_insert(0) += 1;
    }
}

fn stream(r: &mut Rng, st: &mut Stats, len: usize) -> Vec<u64> {
    let kind = r.below(16);
    let (name, v): (&'static str, Vec<u64>) = match kind {
        0..=5 => ("chacha", (0..len).map(|_| r.u64()).collect()),
        6 => {
            let c = *r.pick(&[0u64, 1, 2, u64::MAX, 1 << 63, u64::MAX - 1, 0x8000_0000_0000_0001, 6, 1 << 32]);
            ("constant", vec![c; len])
        }
        7 => {
            let (a, b) = *r.pick(&[(0u64, u64::MAX), (u64::MAX, 0), (0xAAAA_AAAA_AAAA_AAAA, 0x5555_5555_5555_5555),
                (0, 1), (0, 2), (0, 1 << 63), (16, 0), (0, 8)]);
            ("alternating", (0..len).map(|i| if i % 2 == 0 { a } else { b }).collect())
        }
        8 => {
            let k = r.below(64);
            ("single-bit", vec![1u64 << k; len])
        }
        9 => {
            let s = *r.pick(&[0u64, 1, u64::MAX - 3, 1 << 32, (1 << 63) - 2]);
            ("counter", (0..len as u64).map(|i| s.wrapping_add(i)).collect())
        }
        10 => {
            // sparse: zero words, one set bit somewhere late
            let mut v = vec![0u64; len];
            if len > 0 {
                let i = r.below(len as u64) as usize;
                v[i] = 1u64 << r.below(64);
            }
            ("sparse", v)
        }
        11 => ("small-values", (0..len).map(|_| r.below(40)).collect()),
        12 => ("high-values", (0..len).map(|_| u64::MAX - r.below(40)).collect()),
        13 => {
            // moving single bit: word i has only bit (s+i) mod 64
            let s = r.below(64);
            ("walking-bit", (0..len as u64).map(|i| 1u64 << ((s + i) % 64)).collect())
        }
        14 => {
            // low-entropy: few distinct words repeated
            let a = r.u64();
            let b = r.below(4);
            ("two-words", (0..len).map(|i| if i % 3 == 0 { a } else { b }).collect())
        }
        _ => ("even-chacha", (0..len).map(|_| r.u64() << r.below(8)).collect()),
    };
    *st.streams.entry(name).or_insert(0) += 1;
    v
}

fn zl(ws: &[u64]) -> String {
    list(ws.iter().map(|w| zu(*w as u128)))
}

// ---- delay oracle (f64 / libm gap) ------------------------------------------------------------

/// The candidate delay `DelayDistribution::draw_inner` computes from one stream word.
fn delay_candidate(mean: u32, w: u64) -> u32 {
    const UNIT_STEP: f64 = 1.0 / ((1u64 << 53) as f64);
    let u = 1.0 - ((w >> 11) as f64) * UNIT_STEP;
    let x = -(mean as f64) * libm::log(u);
    (x + 0.5) as u64 as u32
}

fn nz(x: u32) -> NonZeroU32 {
    NonZeroU32::new(x).expect("nonzero")
}
fn bh(h: u32) -> BlockHeight {
    BlockHeight::from_u32(h)
}
fn iv(i: u32) -> AnchorBucketInterval {
    AnchorBucketInterval::custom(nz(i))
}
fn u(h: BlockHeight) -> u128 {
    u32::from(h) as u128
}

// ---- lattices ------------------------------------------------------------------------------

const M: u32 = 34_560;
fn height_lattice() -> Vec<u32> {
    let mut v = vec![0u32, 1, 2, 143, 144, 145, 287, 288, 289, 1000, M - 1, M, M + 1, 2 * M - 1, 2 * M, 2 * M + 1, 3 * M,
        1_687_104, 2_000_000, 2_726_400, 3_000_000, 1 << 31, (1 << 31) - 1, (1 << 31) + 1,
        u32::MAX - 2 * M - 1, u32::MAX - 2 * M, u32::MAX - 2 * M + 1, u32::MAX - M, u32::MAX - 144, u32::MAX - 143, u32::MAX - 2,
        u32::MAX - 1, u32::MAX];
    // the last multiples of M below u32::MAX and their neighbours
    let top = u32::MAX - (u32::MAX % M);
    for k in 0..4u32 {
        let b = top - k * M;
        v.extend([b - 1, b, b + 1]);
    }
    v.sort();
    v.dedup();
    v
}
fn interval_lattice() -> Vec<u32> {
    vec![1, 2, 3, 5, 7, 12, 144, 145, 1000, 34_560, 65_535, 65_537, 1 << 16, 1 << 30, 1 << 31, (1 << 31) + 1, u32::MAX - 1, u32::MAX, 1_431_655_765]
}
fn rand_height(r: &mut Rng) -> u32 {
    match r.below(8) {
        0 => r.u64() as u32,
        1 => *r.pick(&height_lattice()),
        2 => u32::MAX - r.below(300_000) as u32,
        3 => r.below(2000) as u32,
        _ => r.range(1_000_000, 3_500_000) as u32,
    }
}
fn rand_interval(r: &mut Rng) -> u32 {
    match r.below(8) {
        0 => *r.pick(&interval_lattice()),
        1 => r.range(1, 20) as u32,
        2 => (r.u64() as u32).max(1),
        3 => r.range(1, 10_000) as u32,
        _ => 144,
    }
}

// ---- classification ------------------------------------------------------------------------

struct Consts {
    prep: usize,
    min: Zatoshis,
    max: Zatoshis,
}
impl PoolMigrationConstants for Consts {
    fn denomination_cap(&self) -> Zatoshis {
        self.max
    }
    fn max_residual_value(&self) -> Zatoshis {
        self.min
    }
    fn preparation_tx_actions(&self) -> usize {
        self.prep
    }
}
struct Defaults;
impl PoolMigrationConstants for Defaults {}

fn consts_term(c: &dyn PoolMigrationConstants) -> String {
    format!("(mkConsts {} {} {})", c.preparation_tx_actions(), c.max_residual_value().into_u64(), c.denomination_cap().into_u64())
}

#[derive(Clone, Copy, PartialEq, Eq, Debug)]
struct Ev {
    source: Option<usize>,
    dest: Option<usize>,
    other: Option<bool>,
    sts: Option<bool>,
    value: Option<u64>,
    expiry: Option<bool>,
    anchor: Option<bool>,
    fee: Option<bool>,
}
impl Ev {
    fn build(&self) -> Zip318Evidence {
        Zip318Evidence::default()
            .with_source_actions(self.source)
            .with_destination_actions(self.dest)
            .with_other_bundles_present(self.other)
            .with_source_is_send_to_self(self.sts)
            .with_sole_destination_value(self.value.map(|v| Zatoshis::from_u64(v).expect("valid zatoshis")))
            .with_expiry_is_canonical(self.expiry)
            .with_anchor_on_grid(self.anchor)
            .with_fee_is_canonical(self.fee)
    }
    fn term(&self) -> String {
        let oz = |x: Option<u128>| opt(x.map(zu));
        let ob = |x: Option<bool>| opt(x.map(boolc));
        format!("(mkEv {} {} {} {} {} {} {} {})",
            oz(self.source.map(|x| x as u128)), oz(self.dest.map(|x| x as u128)), ob(self.other), ob(self.sts),
            oz(self.value.map(|x| x as u128)), ob(self.expiry), ob(self.anchor), ob(self.fee))
    }
}
fn cls_term(c: Option<Zip318Classification>) -> String {
    match c {
        None => "None".into(),
        Some(Zip318Classification::Unknown) => "(Some Unknown)".into(),
        Some(Zip318Classification::Nonconforming) => "(Some Nonconforming)".into(),
        Some(Zip318Classification::Conforms(Zip318TxKind::Preparation)) => "(Some (Conforms Preparation))".into(),
        Some(Zip318Classification::Conforms(Zip318TxKind::Transfer)) => "(Some (Conforms Transfer))".into(),
    }
}
fn run_classify(e: &Ev, c: &dyn PoolMigrationConstants) -> Option<Zip318Classification> {
    let ev = e.build();
    catch(|| classify(&ev, c))
}

const COIN: u64 = 100_000_000;

fn classify_lattice(st: &mut Stats, r: &mut Rng, all_pairs: bool) {
    let pairs = true;
    let d = Defaults;
    let ct = consts_term(&d);
    let srcs = [None, Some(2usize), Some(16), Some(3)];
    let dsts = [None, Some(0usize), Some(1), Some(2)];
    let b3 = [None, Some(false), Some(true)];
    let vals = [None, Some(COIN), Some(3 * COIN)];
    let mut points: Vec<Ev> = vec![];
    for &source in &srcs {
        for &dest in &dsts {
            for &other in &b3 {
                for &sts in &b3 {
                    for &value in &vals {
                        for &expiry in &b3 {
                            for &anchor in &b3 {
                                for &fee in &b3 {
                                    points.push(Ev { source, dest, other, sts, value, expiry, anchor, fee });
                                }
                            }
                        }
                    }
                }
            }
        }
    }
    let mut npairs = 0u64;
    let mut flips = 0u64;
    for e in &points {
        let o = run_classify(e, &d);
        case(format!("Classify {} {} {}", ct, e.term(), cls_term(o)));
        st.out(&format!("classify:{:?}", o));
        if !pairs {
            continue;
        }
        // covering pairs e < e' (one more clause answered) whose lower point is decided
        if matches!(o, Some(Zip318Classification::Unknown)) {
            continue;
        }
        // a refutation is cheap to re-check and dominates the lattice: sample it in the quick tier
        if matches!(o, Some(Zip318Classification::Nonconforming)) && !all_pairs && !r.chance(1, 10) {
            continue;
        }
        let mut ups: Vec<Ev> = vec![];
        if e.source.is_none() { for &x in &srcs[1..] { ups.push(Ev { source: x, ..*e }); } }
        if e.dest.is_none() { for &x in &dsts[1..] { ups.push(Ev { dest: x, ..*e }); } }
        if e.other.is_none() { for &x in &b3[1..] { ups.push(Ev { other: x, ..*e }); } }
        if e.sts.is_none() { for &x in &b3[1..] { ups.push(Ev { sts: x, ..*e }); } }
        if e.value.is_none() { for &x in &vals[1..] { ups.push(Ev { value: x, ..*e }); } }
        if e.expiry.is_none() { for &x in &b3[1..] { ups.push(Ev { expiry: x, ..*e }); } }
        if e.anchor.is_none() { for &x in &b3[1..] { ups.push(Ev { anchor: x, ..*e }); } }
        if e.fee.is_none() { for &x in &b3[1..] { ups.push(Ev { fee: x, ..*e }); } }
        for e2 in ups {
            let o2 = run_classify(&e2, &d);
            npairs += 1;
            if o2 != o { flips += 1; }
            case(format!("ClassifyPair {} {} {} {} {}", ct, e.term(), e2.term(), cls_term(o), cls_term(o2)));
        }
    }
    stat(format!("{{\"classify_lattice_points\":{},\"covering_pairs_decided_lower\":{},\"pairs_whose_decision_changed\":{}}}", points.len(), npairs, flips));
}

/// The design-round witness: always part of the corpus.
fn classify_witness() {
    let d = Defaults;
    let ct = consts_term(&d);
    let e = Ev { source: Some(2), dest: Some(1), other: Some(false), sts: None, value: Some(COIN), expiry: Some(true), anchor: None, fee: None };
    let e2 = Ev { anchor: Some(false), ..e };
    let (o, o2) = (run_classify(&e, &d), run_classify(&e2, &d));
    case(format!("ClassifyPair {} {} {} {} {}", ct, e.term(), e2.term(), cls_term(o), cls_term(o2)));
}

fn rand_value(r: &mut Rng) -> u64 {
    let max_money = 21_000_000 * COIN;
    match r.below(8) {
        0 => r.below(max_money + 1),
        1 => *r.pick(&[0u64, 1, 2, 5, 10, 999_999, 1_000_000, 1_000_001, 2_000_000, 5_000_000, 3_000_000, COIN, 2 * COIN, 5 * COIN,
            7 * COIN, 10 * COIN, 10_000 * COIN, 10_000 * COIN + 1, 20_000 * COIN, 50_000 * COIN, 100 * COIN, 100 * COIN + 10,
            500_000, 100_000, max_money, max_money - 1, 2_000_000_000_000_000, 1_000_000_000_000_000]),
        2 | 3 => {
            let sig = *r.pick(&[1u64, 2, 5]);
            let k = r.below(16) as u32;
            (sig * 10u64.pow(k)).min(max_money)
        }
        4 => {
            let sig = r.range(1, 9);
            let k = r.below(15) as u32;
            (sig * 10u64.pow(k)).min(max_money)
        }
        5 => {
            let sig = *r.pick(&[1u64, 2, 5, 10, 20, 50]);
            let k = r.below(14) as u32;
            (sig * 10u64.pow(k) + r.below(3)).min(max_money)
        }
        _ => r.below(100) * 1_000_000,
    }
}
fn rand_ev(r: &mut Rng, prep: usize) -> Ev {
    let ob = |r: &mut Rng, p_none: u64, p_true: u64| if r.chance(p_none, 10) { None } else { Some(r.chance(p_true, 10)) };
    let source = match r.below(8) { 0 => None, 1 | 2 => Some(2), 3 | 4 => Some(prep), 5 => Some(16), 6 => Some(r.below(40) as usize), _ => Some(*r.pick(&[0usize, 1, 3, 15, 17, usize::MAX, 1 << 32])) };
    let dest = match r.below(8) { 0 => None, 1 | 2 | 3 => Some(0), 4 | 5 | 6 => Some(1), _ => Some(*r.pick(&[2usize, 3, 16, usize::MAX])) };
    Ev {
        source, dest,
        other: ob(r, 1, 1), sts: ob(r, 2, 8),
        value: if r.chance(2, 10) { None } else { Some(rand_value(r)) },
        expiry: ob(r, 1, 9), anchor: ob(r, 6, 8), fee: ob(r, 6, 8),
    }
}

// ---- wake-ups ------------------------------------------------------------------------------

/// Fewest points piercing every window `(ready, deadline)`, with `tip` forced into the set when
/// `force_tip`; candidate points are the deadlines and the tip. Exponential; small inputs only.
fn brute_force_min(windows: &[(u32, u32)], tip: u32, force_tip: bool) -> usize {
    let mut cands: Vec<u32> = windows.iter().map(|&(_, d)| d).collect();
    cands.push(tip);
    let n = cands.len();
    let tip_bit = 1u32 << (n - 1);
    let mut best = usize::MAX;
    for mask in 0u32..(1u32 << n) {
        if force_tip && mask & tip_bit == 0 {
            continue;
        }
        let ok = windows.iter().all(|&(r, d)| (0..n).any(|j| mask & (1 << j) != 0 && r <= cands[j] && cands[j] <= d));
        if ok {
            best = best.min(mask.count_ones() as usize);
        }
    }
    best
}

fn wakeup_case(margin: u32, jitter: u32, tip: u32, ts: &[(u32, u32, u32)], ws: &[u64], st: &mut Stats) {
    let params = WakeupParams::new(margin, jitter);
    let transfers: Vec<(u32, BlockHeight, BlockHeight)> = ts.iter().map(|&(id, a, b)| (id, bh(a), bh(b))).collect();
    let out = with_rng(ws, |r| sch::schedule_sync_wakeups(&params, bh(tip), &transfers, r));
    // independent optimum on small instances
    let m = margin.max(1);
    let feasible = ts.iter().all(|&(_, a, b)| b > a.saturating_add(1));
    let bf = if feasible && ts.len() <= 8 {
        let mut overdue = false;
        let mut wins = vec![];
        for &(_, a, b) in ts {
            let d = b - 1;
            if d < tip { overdue = true; } else { wins.push((a.saturating_add(m).min(d).max(tip), d)); }
        }
        Some(brute_force_min(&wins, tip, overdue) as u128)
    } else {
        None
    };
    let o = match &out {
        None => { st.out("wakeups:panic"); PANIC.to_string() }
        Some((Err(WakeupScheduleError::InfeasibleTransfer(id)), _)) => { st.out("wakeups:infeasible"); format!("(Err {})", id) }
        Some((Ok(v), used)) => {
            st.out(&format!("wakeups:ok:{}", v.len().min(6)));
            ok(pair(list(v.iter().map(|w| pair(zu(u(w.height())), list(w.covers().iter().map(|i| zu(*i as u128)))))), zu(*used as u128)))
        }
    };
    case(format!("Wakeups {} {} {} {} {} {} {}", margin, jitter, tip,
        list(ts.iter().map(|&(id, a, b)| format!("({}, {}, {})", id, a, b))), zl(ws), opt(bf.map(zu)), o));
}

fn gen_wakeups(r: &mut Rng, st: &mut Stats) {
    let n = match r.below(10) { 0 => 0, 1 => 1, 2..=6 => r.range(2, 8) as usize, _ => r.range(9, 30) as usize };
    let style = r.below(6);
    let (margin, jitter) = match r.below(6) {
        0 => (0, 0),
        1 => (r.below(4) as u32, r.below(4) as u32),
        2 => (10, u32::MAX),
        3 => (r.below(300) as u32, r.below(3000) as u32),
        _ => (10, 12),
    };
    let tip: u32 = match style { 4 => u32::MAX - r.below(2000) as u32, 5 => r.below(50) as u32, _ => r.range(1000, 6000) as u32 };
    let mut ts = vec![];
    for i in 0..n {
        let id = if r.chance(1, 30) { r.below(n as u64) as u32 } else { i as u32 };
        let (a, b) = match style {
            0 => {
                // ZIP 318 shaped: anchors on the grid, broadcasts up to a few intervals later, around the tip
                let a = (r.range(tip as u64 / 144 - 6, tip as u64 / 144 + 8) * 144) as u32;
                (a, a + r.range(145, 700) as u32)
            }
            1 => {
                // tight clusters near the tip: many ties, tiny gaps
                let a = tip.saturating_sub(20) + r.below(40) as u32;
                (a, a.saturating_add(r.range(1, 25) as u32))
            }
            2 => {
                let a = r.below(8000) as u32;
                (a, a + r.range(2, 2000) as u32)
            }
            3 => {
                // few distinct values: ties in deadline and ready
                let a = tip - 30 + 10 * r.below(8) as u32;
                (a, a + *r.pick(&[2u32, 3, 12, 20, 40]))
            }
            4 => {
                let a = u32::MAX - r.below(3000) as u32;
                (a, a.saturating_add(r.below(3000) as u32))
            }
            _ => {
                let a = r.below(60) as u32;
                (a, a + r.below(30) as u32)
            }
        };
        ts.push((id, a, b));
    }
    let wl = r.range(0, n as u64 + 6) as usize;
    let ws = stream(r, st, wl);
    wakeup_case(margin, jitter, tip, &ts, &ws, st);
}


// ---- schedule shifts (state.rs shift_schedule through the public advance_migration overdue path) ----

/// A store that vouches for every step and has seen nothing mine.
struct YesStore;
impl PoolMigrationRead for YesStore {
    type Error = Infallible;
    fn get_migration(&self) -> Result<Option<MigrationState>, Infallible> {
        Ok(None)
    }
    fn check_step_satisfiability(&self, _tx: &MigrationTransaction, _settle: ReorgSettleDepth) -> Result<StepSatisfiability, Infallible> {
        Ok(StepSatisfiability::Satisfiable { as_of_height: bh(0) })
    }
    fn mined_height(&self, _txid: TxId) -> Result<Option<BlockHeight>, Infallible> {
        Ok(None)
    }
}
impl PoolMigrationWrite for YesStore {
    fn replace_migration(&mut self, _state: &MigrationState) -> Result<(), Infallible> {
        Ok(())
    }
    fn update_transaction(&mut self, _id: MigrationTransferId, _s: MigrationTxState) -> Result<(), Infallible> {
        Ok(())
    }
    fn store_proved_transaction(&mut self, state: &mut MigrationState, proven: ProvedTransaction) -> Result<(), Infallible> {
        proven.apply(state);
        Ok(())
    }
}

/// (state code, is transfer, scheduled, expiry, anchor); state: 0 awaiting signature, 1 signed, 2 proved, 3 broadcast, 4 mined
#[derive(Clone, Copy, PartialEq, Eq, Debug)]
struct STx {
    st: u8,
    transfer: bool,
    sched: u32,
    expiry: u32,
    anchor: Option<u32>,
}
fn stx_term(t: &STx) -> String {
    format!("({}, {}, {}, {}, {})", t.st, boolc(t.transfer), t.sched, t.expiry, opt(t.anchor.map(|a| zu(a as u128))))
}
fn shift_txid(n: u32) -> TxId {
    let mut b = [0u8; 32];
    b[..4].copy_from_slice(&n.to_le_bytes());
    b[31] = 0xc7;
    TxId::from_bytes(b)
}
fn build_shift_state(txs: &[STx], interval: u32) -> MigrationState {
    let zat = |v: u64| Zatoshis::const_from_u64(v);
    let n_transfers = txs.iter().filter(|t| t.transfer).count() as u64;
    let cross: Vec<Zatoshis> = (0..n_transfers).map(|_| zat(COIN)).collect();
    let den = DenominationPlan::from_stored_parts(cross, zat(15_000), None, zat(0), zat(n_transfers * COIN), zat(n_transfers * COIN)).expect("denomination plan");
    let mut crossing = 0usize;
    let rows: Vec<MigrationTransaction> = txs.iter().enumerate().map(|(i, t)| {
        let txid = shift_txid(i as u32);
        let kind = if t.transfer { crossing += 1; MigrationTxKind::Transfer { crossing: crossing - 1 } } else { MigrationTxKind::Preparation { layer: 0, index: i } };
        let state = match t.st {
            0 => MigrationTxState::AwaitingSignature,
            1 => MigrationTxState::Signed,
            2 => MigrationTxState::Proved,
            3 => MigrationTxState::Broadcast { txid },
            _ => MigrationTxState::Mined { txid, height: bh(t.sched) },
        };
        MigrationTransaction::from_parts(MigrationTransferId::new(i as u32), kind, vec![1, 2, 3, i as u8], vec![], bh(t.sched), bh(t.expiry),
            t.anchor.map(bh), txid, state, None, None, vec![[i as u8; 32]], None)
    }).collect();
    MigrationState::from_parts(MigrationStatus::InProgress, den, PreparationPlan::from_parts(vec![], vec![]), rows, iv(interval), ReplanThreshold::new(50).unwrap())
}
fn read_shift_state(s: &MigrationState) -> Vec<STx> {
    s.transactions().iter().map(|t| STx {
        st: match t.state() { MigrationTxState::AwaitingSignature => 0, MigrationTxState::Signed => 1, MigrationTxState::Proved => 2, MigrationTxState::Broadcast { .. } => 3, MigrationTxState::Mined { .. } => 4 },
        transfer: matches!(t.kind(), MigrationTxKind::Transfer { .. }),
        sched: u32::from(t.scheduled_height()),
        expiry: u32::from(t.expiry_height()),
        anchor: t.anchor_boundary().map(u32::from),
    }).collect()
}

/// One late wake-up: `advance_migration` served at `served`; transaction 0 is the proved, due
/// transfer whose lag triggers (or not) the overdue shift. Prints one `Shift` case.
fn shift_step(oc: bool, interval: u32, state: &mut MigrationState, served: u32, ws: &[u64], st: &mut Stats) -> bool {
    let pre = read_shift_state(state);
    let mut store = YesStore;
    let cfg = AdvanceConfig::new(ReorgSettleDepth::new(10));
    let out = with_rng(ws, |g| advance_migration(&mut store, state, DuenessTargets::at(bh(served)), &cfg, g).map(|a| a.step().clone()));
    let (o, ok) = match &out {
        None => { st.out("shift:panic"); (PANIC.to_string(), false) }
        Some((Ok(AdvanceStep::Broadcast { id }), used)) if u32::from(*id) == 0 => {
            let post = read_shift_state(state);
            st.out(if post == pre { "shift:unchanged" } else if *used > 0 { "shift:redrawn" } else { "shift:moved" });
            (ok(pair(list(post.iter().map(stx_term)), zu(*used as u128))), true)
        }
        Some((other, _)) => { st.out("shift:other-step"); eprintln!("c17: unexpected step {:?}", other.as_ref().map(|_| ())); return false; }
    };
    case(format!("Shift {} {} {} {} {} {}", boolc(oc), interval, served, list(pre.iter().map(stx_term)), zl(ws), o));
    ok
}

fn gen_shift_sequence(r: &mut Rng, oc: bool, st: &mut Stats) {
    let interval: u32 = match r.below(6) { 0 => 12, 1 => 100, 2 => *r.pick(&[1u32, 2, 50, 145, 1000]), _ => 144 };
    let base: u32 = match r.below(8) { 0 => u32::MAX - 40_000 - r.below(5000) as u32, 1 => r.range(10, 400) as u32 * interval.max(2), _ => r.range(1_000_000, 3_000_000) as u32 };
    let on_grid = |h: u32| h - h % interval;
    let canon_expiry = |h: u32| u32::from(z318::expiry_height(bh(h)));
    // transaction 0: the proved transfer that is served late
    let s0 = base;
    let a0 = on_grid(s0).saturating_sub(interval * r.range(1, 4) as u32);
    let mut txs = vec![STx { st: 2, transfer: true, sched: s0, expiry: canon_expiry(s0), anchor: Some(a0) }];
    let n = r.range(1, 5) as usize;
    let mut sched = s0;
    for _ in 0..n {
        sched = sched.saturating_add(match r.below(4) { 0 => r.below(20) as u32, 1 => r.below(2 * interval as u64 + 1) as u32, _ => r.range(1, 200) as u32 });
        let mr = on_grid(sched);
        let anchor = match r.below(10) {
            0 => None,
            1 => Some(mr),                                                              // age 0: drawn against a later tip
            2 => Some(mr.saturating_sub(interval * r.range(1, 6) as u32).saturating_add(r.below(3) as u32)),   // possibly off the grid / too old
            3 | 4 | 5 => Some(mr.saturating_sub(interval * 4)),                         // at the age cap
            _ => Some(mr.saturating_sub(interval * r.range(1, 4) as u32)),
        };
        let (stc, transfer) = match r.below(12) { 0 => (2u8, true), 1 => (3, true), 2 => (4, true), 3 => (1, false), 4 | 5 | 6 => (0, true), _ => (1, true) };
        let anchor = if transfer { anchor } else { None };
        txs.push(STx { st: stc, transfer, sched, expiry: canon_expiry(sched), anchor });
    }
    // a second proved transfer must not be scheduled before transaction 0 (it would be served first)
    let mut state = build_shift_state(&txs, interval);
    let steps = r.range(1, 8) as usize;
    let mut served = s0;
    for _ in 0..steps {
        let delta = *r.pick(&[1u32, 17, 50, 100, 143, 144, 145, 1000, 16, 33]);
        let cur0 = u32::from(state.transactions()[0].scheduled_height());
        served = cur0.saturating_add(delta);
        if served == u32::MAX { break; }
        let unproved = state.transactions().iter().filter(|t| matches!(t.state(), MigrationTxState::AwaitingSignature | MigrationTxState::Signed)).count();
        let wl = if r.chance(1, 15) { r.below(unproved as u64 + 1) as usize } else { unproved + r.below(4) as usize };
        let ws = stream(r, st, wl);
        if !shift_step(oc, interval, &mut state, served, &ws, st) { break; }
    }
    let _ = served;
}


// ---- rebuilds of expired transfers (engine.rs rebuild_expired_transfer*: the scheduling half) ----

/// Replays the recorded words, then continues with an unrecorded ChaCha tail: the rebuild goes on
/// to build and sign a PCZT with the same generator, far beyond the draws the model covers.
struct ReplayTail {
    words: Vec<u64>,
    pos: usize,
    tail: rand_chacha::ChaCha8Rng,
}
impl RngCore for ReplayTail {
    fn next_u32(&mut self) -> u32 {
        self.next_u64() as u32
    }
    fn next_u64(&mut self) -> u64 {
        let w = if self.pos < self.words.len() { self.words[self.pos] } else { self.tail.next_u64() };
        self.pos += 1;
        w
    }
    fn fill_bytes(&mut self, dest: &mut [u8]) {
        for chunk in dest.chunks_mut(8) {
            let b = self.next_u64().to_le_bytes();
            chunk.copy_from_slice(&b[..chunk.len()]);
        }
    }
    fn try_fill_bytes(&mut self, dest: &mut [u8]) -> Result<(), rand_core::Error> {
        self.fill_bytes(dest);
        Ok(())
    }
}
impl CryptoRng for ReplayTail {}

const RB_NOTES: usize = 8;
struct RbCtx {
    mock: CommitMock,
    values: Vec<u64>,
    nfs: Vec<[u8; 32]>,
    seed: u64,
}
impl RbCtx {
    fn new(seed: u64) -> Self {
        let values: Vec<u64> = (0..RB_NOTES as u64).map(|i| 101_000 + 100_000 * i).collect();
        let mock = CommitMock::new(seed, &values);
        let nfs = mock.wallet_notes.iter().map(|n| n.nullifier(&mock.fvk).to_bytes()).collect();
        RbCtx { mock, values, nfs, seed }
    }
}
struct RbBackend<'a> {
    ctx: &'a RbCtx,
    tip: u32,
    params: SchedulingParams,
}
impl<'a> MigrationBackend for RbBackend<'a> {
    type Error = Infallible;
    fn spendable_orchard_note_values(&self) -> Result<Vec<Zatoshis>, Infallible> {
        Ok(self.ctx.values.iter().map(|v| Zatoshis::const_from_u64(*v)).collect())
    }
    fn chain_tip_height(&self) -> Result<BlockHeight, Infallible> {
        Ok(bh(self.tip))
    }
    fn scheduling_params(&self) -> SchedulingParams {
        self.params
    }
}
impl<'a> MigrationCrypto for RbBackend<'a> {
    type Error = Infallible;
    fn orchard_fvk(&self) -> Option<&orchard::keys::FullViewingKey> {
        Some(&self.ctx.mock.fvk)
    }
    fn account_derivation(&self) -> Result<Option<AccountDerivation>, Infallible> {
        Ok(self.ctx.mock.account_derivation.clone())
    }
    fn resolve_wallet_note(&self, index: usize) -> Result<orchard::note::Note, Infallible> {
        Ok(self.ctx.mock.wallet_notes[index])
    }
}

/// A row of a rebuild scenario: a transfer (funded by wallet note `crossing`), optionally produced
/// by a preparation mined at `funding`.
#[derive(Clone, Copy)]
struct RbRow {
    sched: u32,
    expiry: u32,
    anchor: Option<u32>,
    state: u8, // 1 signed, 2 proved, 4 mined
    funding: Option<u32>,
}
/// transfers get ids 0..n-1 (crossing = id); producer preparations get ids 100 + id
fn build_rebuild_state(ctx: &RbCtx, rows: &[RbRow], interval: u32) -> MigrationState {
    let zat = |v: u64| Zatoshis::const_from_u64(v);
    let cross: Vec<Zatoshis> = ctx.values.iter().map(|v| zat(v - 15_000)).collect();
    let total: u64 = ctx.values.iter().sum();
    let den = DenominationPlan::from_stored_parts(cross, zat(15_000), None, zat(0), zat(total), zat(total)).expect("denomination plan");
    let mut txs: Vec<MigrationTransaction> = vec![];
    for (i, row) in rows.iter().enumerate() {
        if let Some(f) = row.funding {
            let txid = shift_txid(1000 + i as u32);
            txs.push(MigrationTransaction::from_parts(MigrationTransferId::new(100 + i as u32), MigrationTxKind::Preparation { layer: 0, index: i },
                vec![7, 7, i as u8], vec![], bh(f.saturating_sub(5)), bh(0), None, txid, MigrationTxState::Mined { txid, height: bh(f) }, None, None, vec![[200 + i as u8; 32]], None));
        }
    }
    for (i, row) in rows.iter().enumerate() {
        let txid = shift_txid(i as u32);
        let state = match row.state { 1 => MigrationTxState::Signed, 2 => MigrationTxState::Proved, _ => MigrationTxState::Mined { txid, height: bh(row.sched) } };
        let deps = if row.funding.is_some() { vec![MigrationTransferId::new(100 + i as u32)] } else { vec![] };
        txs.push(MigrationTransaction::from_parts(MigrationTransferId::new(i as u32), MigrationTxKind::Transfer { crossing: i }, vec![1, 2, 3, i as u8], deps,
            bh(row.sched), bh(row.expiry), row.anchor.map(bh), txid, state, None, None, vec![ctx.nfs[i]], None));
    }
    MigrationState::from_parts(MigrationStatus::InProgress, den, PreparationPlan::from_parts(vec![], vec![]), txs, iv(interval), ReplanThreshold::new(50).unwrap())
}

/// One real rebuild of transfer `id` at chain tip `tip`; prints one `Rebuild` case.
fn rebuild_step(oc: bool, ctx: &RbCtx, state: &mut MigrationState, interval: u32, id: u32, tip: u32, funding: u32, words: &[u64], external: bool, st: &mut Stats) -> bool {
    let params = SchedulingParams::new_with_default_distributions(iv(interval));
    let (mean, cap) = (params.transfer_delay().mean().get(), params.transfer_delay().cap().get());
    let backend = RbBackend { ctx, tip, params };
    let net = regtest_network(true);
    let nu63 = 10u32;
    // scheduled heights of the rows the chain base is taken over: transfers that are not mined (none is marked unsatisfiable)
    let pend: Vec<u32> = state.transactions().iter()
        .filter(|t| matches!(t.kind(), MigrationTxKind::Transfer { .. }) && !matches!(t.state(), MigrationTxState::Mined { .. }))
        .map(|t| u32::from(t.scheduled_height())).collect();
    let ds: Vec<u32> = words.iter().map(|w| delay_candidate(mean, *w)).collect();
    let mut rng = ReplayTail { words: words.to_vec(), pos: 0, tail: rand_chacha::ChaCha8Rng::seed_from_u64(0x17 ^ tip as u64 ^ ((id as u64) << 40)) };
    let tid = MigrationTransferId::new(id);
    let res = catch(|| {
        if external { rebuild_expired_transfer_unsigned(&net, &backend, state, tid, &mut rng).map(|_| ()) }
        else { rebuild_expired_transfer(&net, &backend, &spending_key(ctx.seed), state, tid, &mut rng) }
    });
    let (o, okb) = match &res {
        None => { st.out("rebuild:panic"); (PANIC.to_string(), false) }
        Some(Ok(())) => {
            let t = state.transactions().iter().find(|t| t.id() == tid).expect("row");
            st.out("rebuild:ok");
            (ok(format!("({}, {}, {})", u32::from(t.scheduled_height()), u32::from(t.expiry_height()), opt(t.anchor_boundary().map(|a| zu(u32::from(a) as u128))))), true)
        }
        Some(Err(RebuildError::NoCandidateAnchor)) => { st.out("rebuild:no-anchor"); ("(Err tt)".to_string(), false) }
        Some(Err(e)) => { st.out("rebuild:other-error"); eprintln!("c17: rebuild error {:?}", e); return false; }
    };
    case(format!("Rebuild {} {} {} {} {} {} {} {} {} {}", boolc(oc), interval, cap, nu63, funding, tip,
        list(pend.iter().map(|x| zu(*x as u128))), zl(words), list(ds.iter().map(|d| zu(*d as u128))), o));
    okb
}

fn rebuild_words(r: &mut Rng, st: &mut Stats) -> Vec<u64> {
    // an adversarial or ChaCha prefix followed by ChaCha words: 48 recorded words in all
    let k = r.below(7) as usize;
    let mut w = stream(r, st, k);
    while w.len() < 48 { w.push(r.u64()); }
    w
}

const EXP_M: u32 = 34_560;
fn gen_rebuilds(r: &mut Rng, oc: bool, ctx: &RbCtx, st: &mut Stats, singles_stride: u32, cohorts: usize) {
    // single rebuilds: tips at offsets -600..0 around multiples of the expiry modulus
    let mut off = 0i64;
    let mut phase = r.below(singles_stride as u64) as i64;
    while off <= 600 {
        let o = off + phase;
        phase = 0;
        if o > 600 { break; }
        let mult = r.range(30, 100) as u32 * EXP_M;
        let tip = (mult as i64 - o) as u32;
        let interval = if r.chance(1, 6) { *r.pick(&[12u32, 100, 72]) } else { 144 };
        let old_sched = tip - 2 * EXP_M - r.below(1000) as u32;
        let funding = if r.chance(1, 3) { Some(tip - r.below(5 * interval as u64 + 20) as u32) } else { None };
        let rows = [RbRow { sched: old_sched, expiry: u32::from(z318::expiry_height(bh(old_sched))).min(tip), anchor: Some(old_sched - old_sched % interval - interval), state: 1, funding }];
        let mut state = build_rebuild_state(ctx, &rows, interval);
        let words = rebuild_words(r, st);
        rebuild_step(oc, ctx, &mut state, interval, 0, tip, funding.unwrap_or(10), &words, r.chance(1, 3), st);
        off += singles_stride as i64;
    }
    // cohorts: 2..8 transfers sharing an expiry, rebuilt back to back at one tip
    for _ in 0..cohorts {
        let n = r.range(2, RB_NOTES as u64) as usize;
        let interval = if r.chance(1, 8) { 100 } else { 144 };
        let tip = match r.below(4) { 0 => r.range(30, 100) as u32 * EXP_M - r.below(700) as u32, _ => r.range(1_100_000, 3_000_000) as u32 };
        let base_old = tip - 2 * EXP_M - 2000;
        let funding = if r.chance(1, 4) { Some(tip - r.below(700) as u32) } else { None };
        let mut rows: Vec<RbRow> = vec![];
        for i in 0..n {
            let sched = base_old + 60 * i as u32 + r.below(50) as u32;
            // an already mined sibling and a still-pending later one now and then
            let state = if i > 0 && r.chance(1, 10) { 4 } else { 1 };
            rows.push(RbRow { sched, expiry: u32::from(z318::expiry_height(bh(sched))).min(tip), anchor: Some(sched - sched % interval - interval), state, funding });
        }
        if r.chance(1, 4) {
            // a live transfer scheduled ahead of the tip: the chain base starts there
            let sched = tip + r.range(1, 900) as u32;
            if rows.len() < RB_NOTES { rows.push(RbRow { sched, expiry: u32::from(z318::expiry_height(bh(sched))), anchor: Some(sched - sched % interval - interval), state: 1, funding: None }); }
        }
        let mut state = build_rebuild_state(ctx, &rows, interval);
        for i in 0..n {
            if rows[i].state == 4 { continue; }
            let words = rebuild_words(r, st);
            if !rebuild_step(oc, ctx, &mut state, interval, i as u32, tip, funding.unwrap_or(10), &words, r.chance(1, 3), st) { break; }
        }
    }
}


// ---- parameter plumbing: SchedulingParams constructors and the wallet adapter's scheduling_params ----

fn params_quint(p: &SchedulingParams) -> String {
    format!("({}, {}, {}, {}, {})", p.anchor_bucket_interval().block_count().get(), p.transfer_delay().mean().get(), p.transfer_delay().cap().get(),
        p.preparation_delay().mean().get(), p.preparation_delay().cap().get())
}
/// Draw both schedules under `p` with the replaying generator; the cases carry the CONFIGURED mean
/// (through the candidate delays) and cap of each slot.
fn plumb_draws(r: &mut Rng, st: &mut Stats, p: &SchedulingParams, t: (u32, u32), q: (u32, u32)) {
    for prep in [false, true] {
        let (mean, cap) = if prep { q } else { t };
        let n = r.range(1, 6) as usize;
        let wl = n + r.below(6) as usize;
        let ws = stream(r, st, wl);
        let ds: Vec<u32> = ws.iter().map(|w| delay_candidate(mean, *w)).collect();
        let commit = rand_height(r);
        let o = with_rng(&ws, |g| if prep { sch::schedule_prep_broadcast_heights(p, bh(commit), n, g) } else { sch::schedule_broadcast_heights(p, bh(commit), n, g) });
        let os = match o { None => { st.out("plumb-heights:panic"); PANIC.into() } Some((v, used)) => { st.out("plumb-heights:ok"); ok(pair(list(v.iter().map(|h| zu(u(*h)))), zu(used as u128))) } };
        case(format!("Heights {} {} {} {} {} {}", boolc(prep), cap, commit, n, list(ds.iter().map(|d| zu(*d as u128))), os));
    }
}
fn gen_plumbing(r: &mut Rng, st: &mut Stats, n: usize) {
    let wallet = MockWalletDb::new(Network::TestNetwork);
    let usk = UnifiedSpendingKey::from_seed(&regtest_network(true), &[7u8; 32], zip32::AccountId::ZERO).expect("usk");
    let dist = |r: &mut Rng| -> (u32, u32) {
        let m = match r.below(4) { 0 => r.range(1, 8) as u32, 1 => r.range(30, 90) as u32, 2 => r.range(1, 100_000) as u32, _ => r.range(1, 600) as u32 };
        (m, m.saturating_add(match r.below(3) { 0 => 0, 1 => r.below(10) as u32, _ => r.below(5 * m as u64 + 1) as u32 }))
    };
    // the adapter's default path (no override): delays derived from the wallet's interval
    let adapter = WalletMigration::new(&wallet, 0, usk.to_unified_full_viewing_key(), YesStore);
    let p = adapter.scheduling_params();
    case(format!("Plumb 2 144 None {}", params_quint(&p)));
    plumb_draws(r, st, &p, (p.transfer_delay().mean().get(), p.transfer_delay().cap().get()), (p.preparation_delay().mean().get(), p.preparation_delay().cap().get()));
    // the design-round shape: a wide transfer distribution next to a tight preparation one
    let mut configs: Vec<((u32, u32), (u32, u32))> = vec![((40, 160), (2, 8)), ((2, 8), (40, 160)), ((66, 576), (16, 96)), ((1, 1), (1, 2)), ((u32::MAX, u32::MAX), (1, 1))];
    for _ in 0..n { let a = dist(r); let mut b = dist(r); if b == a { b = (a.0, a.1.saturating_add(1)); } configs.push((a, b)); }
    for (t, q) in configs {
        let td = DelayDistribution::new(nz(t.0), nz(t.1)).expect("cap >= mean");
        let pd = DelayDistribution::new(nz(q.0), nz(q.1)).expect("cap >= mean");
        let cfg = format!("(Some ({}, {}, {}, {}))", t.0, t.1, q.0, q.1);
        // SchedulingParams::new on an arbitrary grid
        let i = rand_interval(r);
        let p0 = SchedulingParams::new(iv(i), td, pd);
        case(format!("Plumb 0 {} {} {}", i, cfg, params_quint(&p0)));
        // the wallet adapter with overridden delays
        let adapter = WalletMigration::new(&wallet, 0, usk.to_unified_full_viewing_key(), YesStore).with_scheduling_delays(td, pd);
        let p1 = adapter.scheduling_params();
        case(format!("Plumb 1 144 {} {}", cfg, params_quint(&p1)));
        plumb_draws(r, st, &p1, t, q);
        st.out("plumb:config");
    }
    for &i in &interval_lattice() {
        let p = SchedulingParams::new_with_default_distributions(iv(i));
        case(format!("Plumb 3 {} None {}", i, params_quint(&p)));
    }
}

// ---- main ----------------------------------------------------------------------------------

fn anchor_out(o: Option<(Option<BlockHeight>, usize)>, st: &mut Stats, what: &str) -> String {
    match o {
        None => { st.out(&format!("{}:panic", what)); PANIC.into() }
        Some((b, used)) => {
            st.out(&format!("{}:{}", what, if b.is_some() { "some" } else { "none" }));
            ok(pair(opt(b.map(|h| zu(u(h)))), zu(used as u128)))
        }
    }
}

fn main() {
    let a = args();
    quiet_panics();
    // overflow-check profile of this build (debug: on, release: off); the model takes it as a flag
    let oc = catch(|| std::hint::black_box(u32::MAX) + std::hint::black_box(1u32)).is_none();
    stat(format!("{{\"overflow_checks\":{}}}", oc));
    let mut r = Rng::new(a.seed, 17);
    let mut st = Stats::default();
    let search = a.search;
    let big = a.thorough() || search;

    // --- exhaustive boundary lattices: expiry, grid arithmetic ---
    for &h in &height_lattice() {
        case(format!("Expiry {} {}", h, zu(u(z318::expiry_height(bh(h))))));
    }
    for &i in &interval_lattice() {
        for &h in &height_lattice() {
            let v = iv(i);
            case(format!("BoundBelow {} {} {}", i, h, zu(u(v.boundary_at_or_below(bh(h))))));
            case(format!("BoundAbove {} {} {}", i, h, zu(u(v.boundary_at_or_above(bh(h))))));
            case(format!("IsBoundary {} {} {}", i, h, boolc(v.is_boundary(bh(h)))));
        }
    }
    for &i in &interval_lattice() {
        let p = SchedulingParams::new_with_default_distributions(iv(i));
        case(format!("DefaultDists {} ({}, {}, {}, {})", i, p.transfer_delay().mean().get(), p.transfer_delay().cap().get(),
            p.preparation_delay().mean().get(), p.preparation_delay().cap().get()));
    }
    // --- codes ---
    for c in [Zip318Classification::Unknown, Zip318Classification::Nonconforming,
        Zip318Classification::Conforms(Zip318TxKind::Preparation), Zip318Classification::Conforms(Zip318TxKind::Transfer)] {
        let s = cls_term(Some(c));
        case(format!("ToCode {} {}", &s[6..s.len() - 1], z(c.to_code() as i128)));
    }
    for code in (-3i64..8).chain([i64::MIN, i64::MAX, 255, 256, 1 << 32]) {
        let s = cls_term(Some(Zip318Classification::from_code(code)));
        case(format!("FromCode {} {}", z(code as i128), &s[6..s.len() - 1]));
    }

    // --- classification: exhaustive lattice (+ covering pairs), witness, random evidence ---
    classify_witness();
    classify_lattice(&mut st, &mut r, big);
    let alt = Consts { prep: 4, min: Zatoshis::const_from_u64(COIN), max: Zatoshis::const_from_u64(100 * COIN) };
    // zero lower bound: regression for the fixed is_canonical_within hang (value 0 must be answered non-canonical)
    let alt2 = Consts { prep: 2, min: Zatoshis::ZERO, max: Zatoshis::const_from_u64(21_000_000 * COIN) };
    for _ in 0..a.budget(2000, 20_000) {
        let (c, prep): (&dyn PoolMigrationConstants, usize) = match r.below(4) { 0 => (&alt, 4), 1 => (&alt2, 2), _ => (&Defaults, 16) };
        let e = rand_ev(&mut r, prep);
        // value 0 under a zero lower bound used to loop forever (fixed in 7dcaa30): run it in a
        // thread and report "no answer" (None) instead of hanging the harness if it ever returns
        let guarded = |e: &Ev| -> Option<Zip318Classification> {
            if c.max_residual_value() == Zatoshis::ZERO && e.value == Some(0) {
                let (prep_n, lo, hi, ev) = (c.preparation_tx_actions(), c.max_residual_value(), c.denomination_cap(), *e);
                let (tx, rx) = std::sync::mpsc::channel();
                std::thread::spawn(move || {
                    let cc = Consts { prep: prep_n, min: lo, max: hi };
                    let _ = tx.send(run_classify(&ev, &cc));
                });
                rx.recv_timeout(std::time::Duration::from_millis(600)).ok().flatten()
            } else {
                run_classify(e, c)
            }
        };
        let o = guarded(&e);
        st.out(&format!("classify:{:?}", o));
        case(format!("Classify {} {} {}", consts_term(c), e.term(), cls_term(o)));
        // a random strengthening of e
        let mut e2 = rand_ev(&mut r, prep);
        macro_rules! keep { ($f:ident) => { if e.$f.is_some() { e2.$f = e.$f; } }; }
        keep!(source); keep!(dest); keep!(other); keep!(sts); keep!(value); keep!(expiry); keep!(anchor); keep!(fee);
        let o2 = guarded(&e2);
        case(format!("ClassifyPair {} {} {} {} {}", consts_term(c), e.term(), e2.term(), cls_term(o), cls_term(o2)));
    }

    // regression (fixed hang, 7dcaa30): a crossing of value 0 under a zero lower bound must be refuted, not loop
    {
        let e = Ev { source: Some(2), dest: Some(1), other: Some(false), sts: None, value: Some(0), expiry: Some(true), anchor: None, fee: None };
        let (tx, rx) = std::sync::mpsc::channel();
        std::thread::spawn(move || {
            let cc = Consts { prep: 2, min: Zatoshis::ZERO, max: Zatoshis::const_from_u64(21_000_000 * COIN) };
            let _ = tx.send(run_classify(&e, &cc));
        });
        let o = rx.recv_timeout(std::time::Duration::from_millis(600)).ok().flatten();
        case(format!("Classify {} {} {}", consts_term(&alt2), e.term(), cls_term(o)));
    }

    // --- expiry / grid on random heights ---
    for _ in 0..a.budget(1500, 20_000) {
        let h = rand_height(&mut r);
        case(format!("Expiry {} {}", h, zu(u(z318::expiry_height(bh(h))))));
        let i = rand_interval(&mut r);
        let v = iv(i);
        match r.below(3) {
            0 => case(format!("BoundBelow {} {} {}", i, h, zu(u(v.boundary_at_or_below(bh(h)))))),
            1 => case(format!("BoundAbove {} {} {}", i, h, zu(u(v.boundary_at_or_above(bh(h)))))),
            _ => case(format!("IsBoundary {} {} {}", i, h, boolc(v.is_boundary(bh(h))))),
        }
    }

    // --- shuffles ---
    for k in 0..a.budget(1500, 15_000) {
        let n = match r.below(6) { 0 => r.below(3) as usize, 1 => r.range(40, 64) as usize, _ => r.range(2, 12) as usize };
        let len = if r.chance(1, 12) { r.below(n as u64 + 1) as usize } else { n + r.below(6) as usize };
        let ws = stream(&mut r, &mut st, len);
        if k % 2 == 0 {
            let o = with_rng(&ws, |g| sch::shuffle_indices(n, g));
            let os = match o {
                None => { st.out("shuffle:panic"); PANIC.into() }
                Some((v, used)) => { st.out(if used + 1 > n.max(1) { "shuffle:ok-rejected" } else { "shuffle:ok" }); ok(pair(list(v.iter().map(|x| zu(*x as u128))), zu(used as u128))) }
            };
            case(format!("ShuffleIdx {} {} {}", n, zl(&ws), os));
        } else {
            let vals: Vec<u32> = (0..n).map(|_| r.below(6) as u32).collect();
            let mut v = vals.clone();
            let o = with_rng(&ws, |g| { sch::shuffle_in_place(&mut v, g); });
            let os = match o {
                None => PANIC.into(),
                Some((_, used)) => ok(pair(list(v.iter().map(|x| zu(*x as u128))), zu(used as u128))),
            };
            case(format!("ShuffleVals {} {} {}", list(vals.iter().map(|x| zu(*x as u128))), zl(&ws), os));
        }
    }

    // --- delays, heights, schedules ---
    let delay_params = |r: &mut Rng| -> (u32, u32) {
        match r.below(8) {
            0 => (66, 576),
            1 => (16, 96),
            2 => { let m = r.range(1, 1000) as u32; (m, m) }            // cap = mean
            3 => { let m = r.range(1, 50) as u32; (m, m + r.below(20) as u32) }
            4 => (1, 1),
            5 => { let m = r.range(1, 100_000) as u32; (m, m.saturating_mul(r.range(1, 9) as u32)) }
            6 => (100_000_000, u32::MAX),
            _ => { let m = r.range(1, 2000) as u32; (m, m + r.below(4000) as u32) }
        }
    };
    for &(m, c) in &[(1u32, 1u32), (5, 4), (144, 143), (144, 144), (144, 576), (u32::MAX, u32::MAX), (u32::MAX, u32::MAX - 1), (1, u32::MAX)] {
        case(format!("DelayNew {} {} {}", m, c, boolc(DelayDistribution::new(nz(m), nz(c)).is_some())));
    }
    for k in 0..a.budget(2500, 25_000) {
        let (mean, cap) = delay_params(&mut r);
        let dist = DelayDistribution::new(nz(mean), nz(cap)).expect("cap >= mean");
        let n = match r.below(5) { 0 => 0usize, 1 => 1, _ => r.range(2, 10) as usize };
        let len = if r.chance(1, 10) { r.below(n as u64 + 1) as usize } else { n + r.below(8) as usize };
        let ws = stream(&mut r, &mut st, len.max(if k % 3 == 0 { 1 } else { 0 }));
        let ds: Vec<u32> = ws.iter().map(|w| delay_candidate(mean, *w)).collect();
        let dsl = list(ds.iter().map(|d| zu(*d as u128)));
        let commit = rand_height(&mut r);
        match k % 3 {
            0 => {
                let o = with_rng(&ws, |g| dist.draw(g));
                let os = match o { None => { st.out("delay:panic"); PANIC.into() } Some((d, used)) => { st.out(if used > 1 { "delay:ok-redrawn" } else { "delay:ok" }); ok(pair(zu(d as u128), zu(used as u128))) } };
                case(format!("DelayDraw {} {} {} {}", mean, cap, dsl, os));
            }
            1 => {
                let prep = r.bool();
                let other = DelayDistribution::new(nz(7), nz(9)).expect("ok");
                let p = if prep { SchedulingParams::new(iv(144), other, dist) } else { SchedulingParams::new(iv(144), dist, other) };
                let o = with_rng(&ws, |g| if prep { sch::schedule_prep_broadcast_heights(&p, bh(commit), n, g) } else { sch::schedule_broadcast_heights(&p, bh(commit), n, g) });
                let os = match o { None => { st.out("heights:panic"); PANIC.into() } Some((v, used)) => {
                    st.out(if v.last().map(|h| u32::from(*h)) == Some(u32::MAX) { "heights:saturated" } else { "heights:ok" });
                    ok(pair(list(v.iter().map(|h| zu(u(*h)))), zu(used as u128))) } };
                case(format!("Heights {} {} {} {} {} {}", boolc(prep), cap, commit, n, dsl, os));
            }
            _ => {
                let other = DelayDistribution::new(nz(7), nz(9)).expect("ok");
                let p = SchedulingParams::new(iv(144), dist, other);
                let o = with_rng(&ws, |g| sch::schedule(&p, bh(commit), n, g));
                let os = match o { None => { st.out("schedule:panic"); PANIC.into() } Some((v, used)) => { st.out("schedule:ok");
                    ok(pair(list(v.iter().map(|s| pair(zu(u(s.broadcast_height())), zu(u(s.expiry_height()))))), zu(used as u128))) } };
                case(format!("Sched {} {} {} {} {}", cap, commit, n, dsl, os));
            }
        }
    }

    // --- anchors ---
    for k in 0..a.budget(4000, 40_000) {
        let i = rand_interval(&mut r);
        let wl = r.below(7) as usize;
        let ws = stream(&mut r, &mut st, wl);
        let tip = rand_height(&mut r);
        let mr = tip - tip % i;
        // parameters near the interesting region: a few intervals below the most recent boundary
        let near = |r: &mut Rng, base: u32| -> u32 {
            let span = (i as u64).saturating_mul(6).min(u32::MAX as u64);
            match r.below(6) {
                0 => rand_height(r),
                1 => base,
                2 => base.saturating_sub(r.below(span + 1) as u32),
                3 => base.saturating_sub((r.below(7) * i as u64).min(u32::MAX as u64) as u32),
                4 => base.saturating_sub((r.below(7) * i as u64).min(u32::MAX as u64) as u32).saturating_add(r.below(3) as u32).saturating_sub(1),
                _ => base.saturating_add(r.below(span + 1) as u32),
            }
        };
        let viable = |r: &mut Rng| -> u32 {
            // a few intervals below the most recent boundary, on or next to the grid
            let k = r.range(1, 6);
            mr.saturating_sub((k * i as u64).min(u32::MAX as u64) as u32).saturating_add(r.below(3) as u32).saturating_sub(1)
        };
        match k % 4 {
            0 | 1 => {
                let (nu, funding) = if r.bool() { (viable(&mut r), viable(&mut r)) } else { (near(&mut r, mr), near(&mut r, mr)) };
                let o = with_rng(&ws, |g| sch::draw_anchor_boundary(iv(i), bh(nu), bh(funding), bh(tip), g));
                case(format!("AnchorDraw {} {} {} {} {} {} {}", boolc(oc), i, nu, funding, tip, zl(&ws), anchor_out(o, &mut st, "anchor")));
            }
            2 => {
                let prior = if r.bool() { viable(&mut r) } else { near(&mut r, mr) };
                let o = with_rng(&ws, |g| sch::redraw_anchor_boundary(iv(i), bh(prior), bh(tip), g));
                case(format!("AnchorRedraw {} {} {} {} {} {}", boolc(oc), i, prior, tip, zl(&ws), anchor_out(o, &mut st, "redraw")));
            }
            _ => {
                let nu = near(&mut r, mr);
                let funding = near(&mut r, mr);
                let e = sch::earliest_broadcast_height(iv(i), bh(nu), bh(funding));
                case(format!("Earliest {} {} {} {}", i, nu, funding, zu(u(e))));
            }
        }
    }

    // --- the viability threshold at saturation: earliest_broadcast_height near u32::MAX and the draw at the top tip ---
    for &i in &[1u32, 2, 3, 5, 144, 145, 65_535, 1 << 16, 1 << 31, u32::MAX] {
        for &nu in &[0u32, u32::MAX - 3 * 144, u32::MAX - 289, u32::MAX - 288, u32::MAX - 145, u32::MAX - 144, u32::MAX - 2, u32::MAX - 1, u32::MAX] {
            for &funding in &[0u32, u32::MAX - 300, u32::MAX - 1, u32::MAX] {
                let e = sch::earliest_broadcast_height(iv(i), bh(nu), bh(funding));
                case(format!("Earliest {} {} {} {}", i, nu, funding, zu(u(e))));
                for &tip in &[u32::MAX, u32::MAX - 1, u32::from(e), u32::from(e).saturating_sub(1)] {
                    let ws = [1u64, 3];
                    let o = with_rng(&ws, |g| sch::draw_anchor_boundary(iv(i), bh(nu), bh(funding), bh(tip), g));
                    case(format!("AnchorDraw {} {} {} {} {} {} {}", boolc(oc), i, nu, funding, tip, zl(&ws), anchor_out(o, &mut st, "anchor")));
                }
            }
        }
    }

    // --- the canonical-denomination test under arbitrary (overridden) bounds ---
    {
        let canon = |lo: u64, hi: u64, v: u64| -> bool {
            let c = Consts { prep: 16, min: Zatoshis::from_u64(lo).expect("zat"), max: Zatoshis::from_u64(hi).expect("zat") };
            c.is_canonical_denomination(Zatoshis::from_u64(v).expect("zat"))
        };
        let max_money = 21_000_000 * COIN;
        let los = [0u64, 1, 2, 10, 1_000_000, COIN];
        let his = [0u64, 1, 5, 100 * COIN, 10_000 * COIN, max_money];
        for &lo in &los {
            for &hi in &his {
                for k in 0..40 {
                    let v = if k < 12 { [0u64, 1, 2, 3, 5, 10, 20, 50, 1_000_000, COIN, 10_000 * COIN, max_money][k] } else { rand_value(&mut r) };
                    if lo == 0 && v == 0 { continue; }        // probed below in a thread with a timeout (it used to hang)
                    let o = catch(|| canon(lo, hi, v));
                    case(format!("CanonDenom {} {} {} {}", lo, hi, v, opt(o.map(boolc))));
                }
            }
        }
    }

    // --- schedule shifts: sequences of late wake-ups through advance_migration ---
    for _ in 0..a.budget(500, 6_000) {
        gen_shift_sequence(&mut r, oc, &mut st);
    }

    // --- parameter plumbing ---
    gen_plumbing(&mut r, &mut st, if big { 1500 } else { 150 });

    // --- rebuilds of expired transfers: singles around the expiry-modulus multiples, cohorts at one tip ---
    {
        let ctx = RbCtx::new(a.seed ^ 0x17);
        let (stride, cohorts) = if big { (1, 400) } else { (4, 60) };
        gen_rebuilds(&mut r, oc, &ctx, &mut st, stride, cohorts);
    }

    // --- wake-ups ---
    // unit cases from the module's own tests (overdue folding, clamps)
    wakeup_case(10, 12, 1000, &[(0, 500, 900), (1, 990, 1200), (2, 1000, 1300)], &[5, 7, 9], &mut st);
    wakeup_case(0, 0, 100, &[(0, 100, 102)], &[], &mut st);
    wakeup_case(10, 12, 100, &[(0, 100, 101)], &[], &mut st);
    wakeup_case(10, 12, 100, &[(7, u32::MAX, u32::MAX)], &[], &mut st);
    wakeup_case(10, 12, 100, &[(7, u32::MAX - 1, u32::MAX)], &[], &mut st);
    wakeup_case(10, 12, 100, &[(7, u32::MAX - 2, u32::MAX)], &[3], &mut st);
    for _ in 0..a.budget(2500, 30_000) {
        gen_wakeups(&mut r, &mut st);
    }

    // --- value 0 under a zero lower bound: run in a thread, give up after the timeout ---
    for &hi in &[0u64, 100 * COIN] {
        let (tx, rx) = std::sync::mpsc::channel();
        std::thread::spawn(move || {
            let c = Consts { prep: 16, min: Zatoshis::ZERO, max: Zatoshis::from_u64(hi).expect("zat") };
            let b = c.is_canonical_denomination(Zatoshis::ZERO);
            let _ = tx.send(b);
        });
        let o = rx.recv_timeout(std::time::Duration::from_millis(600)).ok();
        st.out(if o.is_some() { "canon-zero:answered" } else { "canon-zero:no-answer" });
        case(format!("CanonDenom 0 {} 0 {}", hi, opt(o.map(boolc))));
    }

    let sm = |m: &std::collections::BTreeMap<String, u64>| m.iter().map(|(k, v)| format!("\"{}\":{}", k, v)).collect::<Vec<_>>().join(",");
    stat(format!("{{\"streams\":{{{}}}}}", st.streams.iter().map(|(k, v)| format!("\"{}\":{}", k, v)).collect::<Vec<_>>().join(",")));
    stat(format!("{{\"outcomes\":{{{}}}}}", sm(&st.outcomes)));
    use std::io::Write as _;
    std::io::stdout().flush().ok();
    std::process::exit(0);
}
