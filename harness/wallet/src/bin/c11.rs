//! C11 harness: unified key encodings round-trip and derived addresses belong to their keys.
//!
//! Generates real keys (seeds x ZIP 32 accounts x networks), runs the public API of `zcash_keys`
//! at USK / UFVK / UIVK level on every component subset reachable through the public
//! constructors, and prints one Coq `case` term per executed call together with the oracle table
//! the model needs (real values of the external cryptography, obtained by calling the external
//! crates' own functions directly, never through `zcash_keys`).
use std::collections::BTreeSet;

use bech32::primitives::decode::CheckedHrpstring;
use bech32::Hrp;
use vcommon::*;
use zcash_address::unified::{self, Bech32mZip316, Container, Encoding, Fvk, Ivk, Ufvk, Uivk};
use zcash_keys::keys::{
    AddressGenerationError, DecodingError, Era, ReceiverRequirement, ReceiverRequirementError,
    ReceiverRequirements, UnifiedAddressRequest, UnifiedFullViewingKey, UnifiedIncomingViewingKey,
    UnifiedSpendingKey,
};
use zcash_keys::address::UnifiedAddress;
use zcash_protocol::consensus::{
    BlockHeight, MainNetwork, NetworkType, NetworkUpgrade, Parameters, TestNetwork,
};
use zcash_transparent::address::TransparentAddress;
use zcash_transparent::keys::{
    AccountPrivKey, AccountPubKey, ExternalIvk, IncomingViewingKey as _, NonHardenedChildIndex,
};
use zip32::{AccountId, DiversifierIndex};

// ---------------------------------------------------------------------------------------------
// networks

#[derive(Clone, Copy, PartialEq, Eq, Debug)]
enum Net {
    Main,
    Test,
    Reg,
}
impl Parameters for Net {
    fn network_type(&self) -> NetworkType {
        match self {
            Net::Main => NetworkType::Main,
            Net::Test => NetworkType::Test,
            Net::Reg => NetworkType::Regtest,
        }
    }
    fn activation_height(&self, nu: NetworkUpgrade) -> Option<BlockHeight> {
        match self {
            Net::Main => MainNetwork.activation_height(nu),
            Net::Test => TestNetwork.activation_height(nu),
            Net::Reg => None,
        }
    }
}
const NETS: [Net; 3] = [Net::Main, Net::Test, Net::Reg];
fn net_id(n: Net) -> u32 {
    match n {
        Net::Main => 0,
        Net::Test => 1,
        Net::Reg => 2,
    }
}
fn nt_id(n: NetworkType) -> u32 {
    match n {
        NetworkType::Main => 0,
        NetworkType::Test => 1,
        NetworkType::Regtest => 2,
    }
}

// ---------------------------------------------------------------------------------------------
// model-side values and their Coq syntax

type B = Vec<u8>;
fn hx(b: &[u8]) -> String {
    format!("(hx \"{}\")", hex(b))
}
fn sx(o: &Option<B>) -> String {
    match o {
        Some(b) => format!("(sx \"{}\")", hex(b)),
        None => "None".into(),
    }
}
fn p_items(l: &[(u32, B)]) -> String {
    list(l.iter().map(|(t, d)| format!("(it {} \"{}\")", t, hex(d))))
}

#[derive(Clone, PartialEq, Eq, Debug)]
struct MUsk {
    t: B,
    s: B,
    o: B,
}
#[derive(Clone, PartialEq, Eq, Debug, Default)]
struct MKey {
    // UFVK or UIVK
    t: Option<B>,
    s: Option<B>,
    o: Option<B>,
    unk: Vec<(u32, B)>,
}
fn p_usk(k: &MUsk) -> String {
    format!("(mkUsk {} {} {})", hx(&k.t), hx(&k.s), hx(&k.o))
}
fn p_ufvk(k: &MKey) -> String {
    format!("(mkUfvk {} {} {} {})", sx(&k.t), sx(&k.s), sx(&k.o), p_items(&k.unk))
}
fn p_uivk(k: &MKey) -> String {
    format!("(mkUivk {} {} {} {})", sx(&k.t), sx(&k.s), sx(&k.o), p_items(&k.unk))
}

fn rq(r: ReceiverRequirement) -> &'static str {
    match r {
        ReceiverRequirement::Require => "Require",
        ReceiverRequirement::Allow => "Allow",
        ReceiverRequirement::Omit => "Omit",
    }
}
const RQS: [ReceiverRequirement; 3] =
    [ReceiverRequirement::Require, ReceiverRequirement::Allow, ReceiverRequirement::Omit];
fn p_reqs(r: &ReceiverRequirements) -> String {
    format!("(mkReqs {} {} {})", rq(r.orchard()), rq(r.sapling()), rq(r.p2pkh()))
}
fn p_request(r: &UnifiedAddressRequest) -> String {
    match r {
        UnifiedAddressRequest::AllAvailableKeys => "AllAvailableKeys".into(),
        UnifiedAddressRequest::Custom(q) => format!("(Custom {})", p_reqs(q)),
    }
}
fn p_rrerr(e: ReceiverRequirementError) -> &'static str {
    match e {
        ReceiverRequirementError::Conflict => "(Err Conflict)",
        ReceiverRequirementError::NoShieldedReceiver => "(Err NoShieldedReceiver)",
    }
}
fn p_tc(t: unified::Typecode) -> String {
    match t {
        unified::Typecode::P2pkh => "TcP2pkh".into(),
        unified::Typecode::P2sh => "TcP2sh".into(),
        unified::Typecode::Sapling => "TcSapling".into(),
        unified::Typecode::Orchard => "TcOrchard".into(),
        unified::Typecode::Unknown(n) => format!("(TcUnknown {})", n),
    }
}
fn p_aerr(e: &AddressGenerationError) -> String {
    let di = |j: &DiversifierIndex| u128::from(*j);
    match e {
        AddressGenerationError::InvalidTransparentChildIndex(j) => {
            format!("(Err (InvalidTransparentChildIndex {}))", di(j))
        }
        AddressGenerationError::InvalidSaplingDiversifierIndex(j) => {
            format!("(Err (InvalidSaplingDiversifierIndex {}))", di(j))
        }
        AddressGenerationError::DiversifierSpaceExhausted => "(Err DiversifierSpaceExhausted)".into(),
        AddressGenerationError::ReceiverTypeNotSupported(t) => {
            format!("(Err (ReceiverTypeNotSupported {}))", p_tc(*t))
        }
        AddressGenerationError::KeyNotAvailable(t) => format!("(Err (KeyNotAvailable {}))", p_tc(*t)),
        AddressGenerationError::ShieldedReceiverRequired => "(Err ShieldedReceiverRequired)".into(),
        // not produced by the modelled functions: printed as a value the model never yields
        _ => "(Err (KeyNotAvailable (TcUnknown 999)))".into(),
    }
}
fn p_ua(ua: &UnifiedAddress) -> String {
    let o = ua.orchard().map(|a| a.to_raw_address_bytes().to_vec());
    let s = ua.sapling().map(|a| a.to_bytes().to_vec());
    let t = ua.transparent().map(|a| match a {
        TransparentAddress::PublicKeyHash(h) => h.to_vec(),
        TransparentAddress::ScriptHash(h) => {
            let mut v = h.to_vec();
            v.push(0xff); // never produced by derivation; makes the case mismatch
            v
        }
    });
    format!("(mkUa {} {} {})", sx(&o), sx(&s), sx(&t))
}
fn p_addr_res(r: Option<Result<UnifiedAddress, AddressGenerationError>>) -> String {
    match r {
        None => PANIC.into(),
        Some(Ok(ua)) => ok(p_ua(&ua)),
        Some(Err(e)) => p_aerr(&e),
    }
}
fn p_find_res(r: Option<Result<(UnifiedAddress, DiversifierIndex), AddressGenerationError>>) -> String {
    match r {
        None => PANIC.into(),
        Some(Ok((ua, j))) => ok(format!("({}, {})", p_ua(&ua), u128::from(j))),
        Some(Err(e)) => p_aerr(&e),
    }
}
fn p_decerr(e: &DecodingError) -> String {
    match e {
        DecodingError::ReadError(s) => format!(
            "(ReadError {})",
            match *s {
                "era" => 0,
                "typecode" => 1,
                "key length" => 2,
                _ => 9,
            }
        ),
        DecodingError::EraInvalid => "EraInvalid".into(),
        DecodingError::EraMismatch(_) => "EraMismatch".into(),
        DecodingError::TypecodeInvalid => "TypecodeInvalid".into(),
        DecodingError::LengthInvalid => "LengthInvalid".into(),
        DecodingError::LengthMismatch(t, l) => format!("(LengthMismatch {} {})", p_tc(*t), l),
        DecodingError::InsufficientData(t) => format!("(InsufficientData {})", p_tc(*t)),
        DecodingError::KeyDataInvalid(t) => format!("(KeyDataInvalid {})", p_tc(*t)),
    }
}
fn p_parseerr(e: &unified::ParseError) -> String {
    use unified::ParseError::*;
    match e {
        BothP2phkAndP2sh => "BothP2phkAndP2sh".into(),
        DuplicateTypecode(t) => format!("(DuplicateTypecode {})", u32::from(*t)),
        InvalidTypecodeValue(v) => format!("(InvalidTypecodeValue {})", v),
        InvalidEncoding(_) => "InvalidEncoding".into(),
        InvalidTypecodeOrder => "InvalidTypecodeOrder".into(),
        OnlyTransparent => "OnlyTransparent".into(),
        NotUnified => "NotUnified".into(),
        UnknownPrefix(_) => "UnknownPrefix".into(),
    }
}

fn j11(j: u128) -> [u8; 11] {
    let mut b = [0u8; 11];
    b.copy_from_slice(&j.to_le_bytes()[..11]);
    b
}
fn di(j: u128) -> DiversifierIndex {
    DiversifierIndex::from(j11(j))
}

// ---------------------------------------------------------------------------------------------
// the external primitives, called directly (oracle values)

fn arr<const N: usize>(b: &[u8]) -> Option<[u8; N]> {
    b.try_into().ok()
}
fn ct<T>(c: subtle::CtOption<T>) -> Option<T> {
    Option::from(c)
}

fn orc_o_sk_fvk(sk: &[u8]) -> Option<B> {
    let k = ct(orchard::keys::SpendingKey::from_bytes(arr(sk)?))?;
    Some(orchard::keys::FullViewingKey::from(&k).to_bytes().to_vec())
}
fn orc_s_sk_fvk(sk: &[u8]) -> Option<B> {
    let k = sapling::zip32::ExtendedSpendingKey::from_bytes(sk).ok()?;
    Some(k.to_diversifiable_full_viewing_key().to_bytes().to_vec())
}
fn orc_t_sk_pk(sk: &[u8]) -> Option<B> {
    Some(AccountPrivKey::from_bytes(sk)?.to_account_pubkey().serialize())
}
fn orc_o_fvk_ivk(fvk: &[u8]) -> Option<B> {
    let k = orchard::keys::FullViewingKey::from_bytes(&arr(fvk)?)?;
    Some(k.to_ivk(orchard::keys::Scope::External).to_bytes().to_vec())
}
fn orc_s_fvk_ivk(fvk: &[u8]) -> Option<B> {
    let k = sapling::zip32::DiversifiableFullViewingKey::from_bytes(&arr(fvk)?)?;
    Some(k.to_external_ivk().to_bytes().to_vec())
}
/// None: the public key does not decode; Some(None): derivation fails.
fn orc_t_pk_ivk(pk: &[u8]) -> Option<Option<B>> {
    let k = AccountPubKey::deserialize(&arr(pk)?).ok()?;
    Some(k.derive_external_ivk().ok().map(|i| i.serialize()))
}
fn orc_o_addr(ivk: &[u8], j: u128) -> Option<B> {
    let k = ct(orchard::keys::IncomingViewingKey::from_bytes(&arr(ivk)?))?;
    Some(k.address_at(orchard::keys::DiversifierIndex::from(j11(j))).to_raw_address_bytes().to_vec())
}
fn orc_s_addr(ivk: &[u8], j: u128) -> Option<Option<B>> {
    let k = ct(sapling::zip32::IncomingViewingKey::from_bytes(&arr(ivk)?))?;
    Some(k.address_at(di(j)).map(|a| a.to_bytes().to_vec()))
}
fn orc_t_addr(ivk: &[u8], i: u32) -> Option<Option<B>> {
    let k = ExternalIvk::deserialize(&arr(ivk)?).ok()?;
    let idx = NonHardenedChildIndex::from_index(i)?;
    Some(k.derive_address(idx).ok().and_then(|a| match a {
        TransparentAddress::PublicKeyHash(h) => Some(h.to_vec()),
        _ => None,
    }))
}

fn p_ores(r: Option<Option<B>>) -> String {
    match r {
        None => "OPanic".into(),
        Some(None) => "ONone".into(),
        Some(Some(b)) => format!("(osome \"{}\")", hex(&b)),
    }
}
/// primitive decoders (function ids 10..18), each under catch_unwind
fn decoder(f: u32, b: &[u8]) -> Option<Option<B>> {
    let b = b.to_vec();
    catch(move || match f {
        10 => arr(&b).and_then(|a| ct(orchard::keys::SpendingKey::from_bytes(a))).map(|k| k.to_bytes().to_vec()),
        11 => sapling::zip32::ExtendedSpendingKey::from_bytes(&b).ok().map(|k| k.to_bytes().to_vec()),
        12 => AccountPrivKey::from_bytes(&b).map(|k| k.to_bytes()),
        13 => arr(&b).and_then(|a| orchard::keys::FullViewingKey::from_bytes(&a)).map(|k| k.to_bytes().to_vec()),
        14 => arr(&b)
            .and_then(|a| sapling::zip32::DiversifiableFullViewingKey::from_bytes(&a))
            .map(|k| k.to_bytes().to_vec()),
        15 => arr(&b).and_then(|a| AccountPubKey::deserialize(&a).ok()).map(|k| k.serialize()),
        16 => arr(&b).and_then(|a| ct(orchard::keys::IncomingViewingKey::from_bytes(&a))).map(|k| k.to_bytes().to_vec()),
        17 => arr(&b)
            .and_then(|a| ct(sapling::zip32::IncomingViewingKey::from_bytes(&a)))
            .map(|k| k.to_bytes().to_vec()),
        18 => arr(&b).and_then(|a| ExternalIvk::deserialize(&a).ok()).map(|k| k.serialize()),
        24 => arr(&b)
            .and_then(|a| ct(orchard::Address::from_raw_address_bytes(&a)))
            .map(|k| k.to_raw_address_bytes().to_vec()),
        25 => arr(&b).and_then(|a| sapling::PaymentAddress::from_bytes(&a)).map(|k| k.to_bytes().to_vec()),
        _ => None,
    })
}

/// Oracle table under construction (deduplicated entries in Coq syntax).
#[derive(Default)]
struct Tab {
    seen: BTreeSet<(u32, B, u128)>,
    out: Vec<String>,
}
impl Tab {
    fn add(&mut self, f: u32, k: &[u8], i: u128, r: String) {
        if self.seen.insert((f, k.to_vec(), i)) {
            self.out.push(format!("oe {} \"{}\" {} {}", f, hex(k), i, r));
        }
    }
    fn some(&mut self, f: u32, k: &[u8], i: u128, v: Option<B>) {
        // a primitive that could not even be evaluated leaves no entry (the model then sees poison)
        if let Some(b) = v {
            self.add(f, k, i, format!("(osome \"{}\")", hex(&b)));
        }
    }
    fn opt(&mut self, f: u32, k: &[u8], i: u128, v: Option<Option<B>>) {
        if let Some(o) = v {
            self.add(f, k, i, p_ores(Some(o)));
        }
    }
    fn dec(&mut self, f: u32, k: &[u8]) -> Option<B> {
        let r = decoder(f, k);
        self.add(f, k, 0, p_ores(r.clone()));
        r.flatten()
    }
    fn usk(&mut self, k: &MUsk) -> MKey {
        let o = orc_o_sk_fvk(&k.o);
        let s = orc_s_sk_fvk(&k.s);
        let t = orc_t_sk_pk(&k.t);
        self.some(1, &k.o, 0, o.clone());
        self.some(2, &k.s, 0, s.clone());
        self.some(3, &k.t, 0, t.clone());
        MKey { t, s, o, unk: vec![] }
    }
    fn ufvk(&mut self, k: &MKey) -> MKey {
        let mut r = MKey::default();
        if let Some(o) = &k.o {
            r.o = orc_o_fvk_ivk(o);
            self.some(4, o, 0, r.o.clone());
        }
        if let Some(s) = &k.s {
            r.s = orc_s_fvk_ivk(s);
            self.some(5, s, 0, r.s.clone());
        }
        if let Some(t) = &k.t {
            let v = orc_t_pk_ivk(t);
            self.opt(6, t, 0, v.clone());
            r.t = v.flatten();
        }
        r
    }
    /// address oracles of an IVK at index j; returns whether Sapling is valid there
    fn uivk_at(&mut self, k: &MKey, j: u128) -> Option<bool> {
        if let Some(o) = &k.o {
            self.some(7, o, j, orc_o_addr(o, j));
        }
        let mut sv = None;
        if let Some(s) = &k.s {
            let v = orc_s_addr(s, j);
            sv = v.as_ref().map(|x| x.is_some());
            self.opt(8, s, j, v);
        }
        if let Some(t) = &k.t {
            if j < (1u128 << 31) {
                self.opt(9, t, j, orc_t_addr(t, j as u32));
            }
        }
        sv
    }
    fn print(&self) -> String {
        format!("[{}]", self.out.join("; "))
    }
}

// ---------------------------------------------------------------------------------------------
// real keys -> model values

fn m_usk(k: &UnifiedSpendingKey) -> MUsk {
    MUsk { t: k.transparent().to_bytes(), s: k.sapling().to_bytes().to_vec(), o: k.orchard().to_bytes().to_vec() }
}
fn unbech(s: &str) -> Option<(String, B)> {
    let p = CheckedHrpstring::new::<Bech32mZip316>(s).ok()?;
    Some((p.hrp().as_str().to_string(), p.byte_iter().collect()))
}
fn unjumble(b: &[u8]) -> Option<B> {
    f4jumble::f4jumble_inv(b).ok()
}
fn rebech(hrp: &str, raw: &[u8]) -> Option<String> {
    let j = f4jumble::f4jumble(raw).ok()?;
    bech32::encode::<Bech32mZip316>(Hrp::parse(hrp).ok()?, &j).ok()
}
/// (hrp, un-jumbled payload) of an encoded string, through the primitive crates
fn enc_obs(s: &str) -> Option<(B, B)> {
    let (h, p) = unbech(s)?;
    Some((h.into_bytes(), unjumble(&p)?))
}
fn p_enc(e: &(B, B)) -> String {
    format!("({}, {})", hx(&e.0), hx(&e.1))
}
fn fvk_unknown(s: &str) -> Vec<(u32, B)> {
    match Ufvk::decode(s) {
        Ok((_, u)) => u
            .items_as_parsed()
            .iter()
            .filter_map(|i| match i {
                Fvk::Unknown { typecode, data } => Some((*typecode, data.clone())),
                _ => None,
            })
            .collect(),
        Err(_) => vec![(999_999_999, vec![])],
    }
}
fn ivk_unknown(s: &str) -> Vec<(u32, B)> {
    match Uivk::decode(s) {
        Ok((_, u)) => u
            .items_as_parsed()
            .iter()
            .filter_map(|i| match i {
                Ivk::Unknown { typecode, data } => Some((*typecode, data.clone())),
                _ => None,
            })
            .collect(),
        Err(_) => vec![(999_999_999, vec![])],
    }
}
/// model value of a real UFVK; `enc` is its encoding when it has one (unknown items are only
/// observable there)
fn m_ufvk(k: &UnifiedFullViewingKey, enc: Option<&str>) -> MKey {
    MKey {
        t: k.transparent().map(|t| t.serialize()),
        s: k.sapling().map(|s| s.to_bytes().to_vec()),
        o: k.orchard().map(|o| o.to_bytes().to_vec()),
        unk: enc.map(fvk_unknown).unwrap_or_default(),
    }
}
fn m_uivk(k: &UnifiedIncomingViewingKey, enc: Option<&str>) -> MKey {
    MKey {
        t: k.transparent().as_ref().map(|t| t.serialize()),
        s: k.sapling().as_ref().map(|s| s.to_bytes().to_vec()),
        o: k.orchard().as_ref().map(|o| o.to_bytes().to_vec()),
        unk: enc.map(ivk_unknown).unwrap_or_default(),
    }
}

// ---------------------------------------------------------------------------------------------
// statistics

#[derive(Default)]
struct Stats {
    n: std::collections::BTreeMap<&'static str, u64>,
}
impl Stats {
    fn hit(&mut self, k: &'static str) {
        *self.n.entry(k).or_insert(0) += 1;
    }
    fn json(&self) -> String {
        let v: Vec<String> = self.n.iter().map(|(k, v)| format!("\"{}\": {}", k, v)).collect();
        format!("{{{}}}", v.join(", "))
    }
}

// ---------------------------------------------------------------------------------------------
// requirement algebra (exhaustive)

fn reqs_cases(st: &mut Stats) {
    for a in RQS {
        for b in RQS {
            let o = match a.intersect(b) {
                Ok(r) => ok(rq(r).into()),
                Err(e) => p_rrerr(e).into(),
            };
            case(format!("CIntersect {} {} {}", rq(a), rq(b), o));
            st.hit("intersect");
        }
    }
    let mut all = vec![];
    for a in RQS {
        for b in RQS {
            for c in RQS {
                let o = match ReceiverRequirements::new(a, b, c) {
                    Ok(r) => {
                        all.push(r);
                        ok(p_reqs(&r))
                    }
                    Err(e) => p_rrerr(e).into(),
                };
                case(format!("CReqsNew {} {} {} {}", rq(a), rq(b), rq(c), o));
                let o = match catch(|| ReceiverRequirements::unsafe_new(a, b, c)) {
                    Some(r) => ok(p_reqs(&r)),
                    None => PANIC.into(),
                };
                case(format!("CReqsUnsafeNew {} {} {} {}", rq(a), rq(b), rq(c), o));
                st.hit("reqs_new");
            }
        }
    }
    for a in &all {
        for b in &all {
            let o = match a.intersect(b) {
                Ok(r) => ok(p_reqs(&r)),
                Err(e) => p_rrerr(e).into(),
            };
            case(format!("CReqsIntersect {} {} {}", p_reqs(a), p_reqs(b), o));
            st.hit("reqs_intersect");
        }
    }
}

fn all_requests() -> Vec<UnifiedAddressRequest> {
    let mut v = vec![UnifiedAddressRequest::AllAvailableKeys];
    for a in RQS {
        for b in RQS {
            for c in RQS {
                if let Ok(r) = UnifiedAddressRequest::custom(a, b, c) {
                    v.push(r);
                }
            }
        }
    }
    v
}

// ---------------------------------------------------------------------------------------------
// keys at the three levels

#[derive(Clone)]
enum Lvl {
    Usk(UnifiedSpendingKey),
    Ufvk(UnifiedFullViewingKey),
    Uivk(UnifiedIncomingViewingKey),
}

struct Ctx {
    rng: Rng,
    st: Stats,
    reqs: Vec<UnifiedAddressRequest>,
}

fn lvl_model(l: &Lvl, net: Net) -> (String, Tab, Option<MKey>) {
    // returns the printed key level, the table with the projections, and the model IVK
    let mut tab = Tab::default();
    match l {
        Lvl::Usk(k) => {
            let m = m_usk(k);
            let f = tab.usk(&m);
            let i = tab.ufvk(&f);
            (format!("(LUsk {})", p_usk(&m)), tab, Some(i))
        }
        Lvl::Ufvk(k) => {
            let enc = catch(|| k.encode(&net));
            let m = m_ufvk(k, enc.as_deref());
            let i = tab.ufvk(&m);
            (format!("(LUfvk {})", p_ufvk(&m)), tab, Some(i))
        }
        Lvl::Uivk(k) => {
            let enc = catch(|| k.encode(&net));
            let m = m_uivk(k, enc.as_deref());
            (format!("(LUivk {})", p_uivk(&m)), tab, Some(m))
        }
    }
}

fn addr_case(cx: &mut Ctx, l: &Lvl, net: Net, j: u128, r: &UnifiedAddressRequest) {
    let (pk, mut tab, ivk) = lvl_model(l, net);
    if let Some(i) = &ivk {
        match tab.uivk_at(i, j) {
            Some(true) => cx.st.hit("addr_j_sapling_valid"),
            Some(false) => cx.st.hit("addr_j_sapling_invalid"),
            None => cx.st.hit("addr_no_sapling_key"),
        }
    }
    if j >= (1u128 << 31) {
        cx.st.hit("addr_j_ge_2p31");
    }
    match l {
        Lvl::Usk(_) => cx.st.hit("addr_level_usk"),
        Lvl::Ufvk(_) => cx.st.hit("addr_level_ufvk"),
        Lvl::Uivk(_) => cx.st.hit("addr_level_uivk"),
    }
    let jj = di(j);
    let mut outs = vec![];
    match l {
        Lvl::Usk(k) => {
            outs.push(p_addr_res(catch(|| k.to_unified_full_viewing_key().address(jj, *r))));
            let f = k.to_unified_full_viewing_key();
            outs.push(p_addr_res(catch(|| f.address(jj, *r))));
            outs.push(p_addr_res(catch(|| f.to_unified_incoming_viewing_key().address(jj, *r))));
        }
        Lvl::Ufvk(f) => {
            outs.push(p_addr_res(catch(|| f.address(jj, *r))));
            outs.push(p_addr_res(catch(|| f.to_unified_incoming_viewing_key().address(jj, *r))));
        }
        Lvl::Uivk(i) => outs.push(p_addr_res(catch(|| i.address(jj, *r)))),
    }
    case(format!("CAddr {} {} {} {} {}", tab.print(), pk, j, p_request(r), list(outs)));
    cx.st.hit("addr");
}

fn find_case(cx: &mut Ctx, l: &Lvl, net: Net, j: u128, r: &UnifiedAddressRequest) {
    let (pk, mut tab, ivk) = lvl_model(l, net);
    let mut outs = vec![];
    let mut last = j;
    let mut note = |res: &Option<Result<(UnifiedAddress, DiversifierIndex), AddressGenerationError>>| {
        match res {
            Some(Ok((_, jf))) => last = last.max(u128::from(*jf)),
            Some(Err(AddressGenerationError::InvalidTransparentChildIndex(jf))) => last = last.max(u128::from(*jf)),
            Some(Err(AddressGenerationError::DiversifierSpaceExhausted)) => last = (1u128 << 88) - 1,
            _ => {}
        }
    };
    match l {
        Lvl::Usk(k) => {
            let f = k.to_unified_full_viewing_key();
            let r1 = catch(|| f.find_address(di(j), *r));
            note(&r1);
            outs.push(p_find_res(r1));
        }
        Lvl::Ufvk(f) => {
            let r1 = catch(|| f.find_address(di(j), *r));
            note(&r1);
            outs.push(p_find_res(r1));
            let r2 = catch(|| f.to_unified_incoming_viewing_key().find_address(di(j), *r));
            note(&r2);
            outs.push(p_find_res(r2));
        }
        Lvl::Uivk(i) => {
            let r1 = catch(|| i.find_address(di(j), *r));
            note(&r1);
            outs.push(p_find_res(r1));
        }
    }
    if last - j > 3000 {
        return; // outside the model's fuel; never happens with real keys (P(invalid) = 1/2 per index)
    }
    if let Some(i) = &ivk {
        let mut x = j;
        loop {
            tab.uivk_at(i, x);
            if x >= last {
                break;
            }
            x += 1;
        }
    }
    if last > j {
        cx.st.hit("find_skipped");
    }
    case(format!("CFind {} {} {} {} {}", tab.print(), pk, j, p_request(r), list(outs)));
    cx.st.hit("find");
}

/// indices: boundary lattice + the first Sapling-invalid index of this key + random
fn j_lattice(cx: &mut Ctx, ivk: &UnifiedIncomingViewingKey) -> Vec<u128> {
    let mut v: Vec<u128> = vec![
        0,
        1,
        (1 << 31) - 2,
        (1 << 31) - 1,
        1 << 31,
        (1u128 << 32) - 1,
        1u128 << 32,
        (1u128 << 32) + 5,
        1u128 << 64,
        (1u128 << 88) - 2,
        (1u128 << 88) - 1,
    ];
    if let Some(s) = ivk.sapling() {
        let mut inv = 0;
        let mut val = 0;
        for x in 0..64u128 {
            if s.address_at(di(x)).is_none() && inv < 2 {
                v.push(x);
                inv += 1;
            } else if val < 1 && x > 1 && s.address_at(di(x)).is_some() {
                v.push(x);
                val += 1;
            }
        }
    }
    v.push(cx.rng.below(1 << 20) as u128);
    v.push((cx.rng.u64() as u128) << 24 | cx.rng.below(1 << 24) as u128);
    v.push(cx.rng.below(1 << 31) as u128);
    v
}

fn subsets_ufvk(f: &UnifiedFullViewingKey) -> Vec<UnifiedFullViewingKey> {
    let mut v = vec![];
    for m in 0..8u32 {
        let t = if m & 1 != 0 { f.transparent().cloned() } else { None };
        let s = if m & 2 != 0 { f.sapling().cloned() } else { None };
        let o = if m & 4 != 0 { f.orchard().cloned() } else { None };
        if let Ok(k) = UnifiedFullViewingKey::new(t, s, o) {
            v.push(k);
        }
    }
    v
}
fn subsets_uivk(i: &UnifiedIncomingViewingKey) -> Vec<UnifiedIncomingViewingKey> {
    let mut v = vec![];
    for m in 0..8u32 {
        let t = if m & 1 != 0 { i.transparent().clone() } else { None };
        let s = if m & 2 != 0 { i.sapling().clone() } else { None };
        let o = if m & 4 != 0 { i.orchard().clone() } else { None };
        v.push(UnifiedIncomingViewingKey::new(t, s, o));
    }
    v
}

// ---------------------------------------------------------------------------------------------
// encodings

fn p_dinput(s: &str) -> String {
    match unbech(s) {
        None => "NotBech32".into(),
        Some((h, p)) => format!("(Bech {} {})", hx(h.as_bytes()), sx(&unjumble(&p))),
    }
}

/// scan an un-jumbled payload for items and record the decoder oracles the model may consult
fn scan_items(tab: &mut Tab, raw: &[u8], fvk: bool) {
    if raw.len() < 16 {
        return;
    }
    let body = &raw[..raw.len() - 16];
    let mut p = 0usize;
    for _ in 0..64 {
        let Some(tc) = rd_cs(body, &mut p) else { return };
        let Some(len) = rd_cs(body, &mut p) else { return };
        let len = len as usize;
        if body.len() < p + len {
            return;
        }
        let data = &body[p..p + len];
        p += len;
        let f = match (fvk, tc) {
            (true, 3) => 13,
            (true, 2) => 14,
            (true, 0) => 15,
            (false, 3) => 16,
            (false, 2) => 17,
            (false, 0) => 18,
            _ => 0,
        };
        if f != 0 {
            let d = tab.dec(f, data);
            if f == 15 {
                if let Some(pk) = d {
                    let v = orc_t_pk_ivk(&pk);
                    tab.opt(6, &pk, 0, v);
                }
            }
        }
    }
}
fn rd_cs(b: &[u8], p: &mut usize) -> Option<u64> {
    let f = *b.get(*p)?;
    *p += 1;
    let n = match f {
        0..=252 => return Some(f as u64),
        253 => 2,
        254 => 4,
        _ => 8,
    };
    if b.len() < *p + n {
        return None;
    }
    let mut v = 0u64;
    for i in 0..n {
        v |= (b[*p + i] as u64) << (8 * i);
    }
    *p += n;
    Some(v)
}

fn ufvk_decode_case(cx: &mut Ctx, net: Net, s: &str, orig: Option<&MKey>) {
    let mut tab = Tab::default();
    if let Some((_, p)) = unbech(s) {
        if let Some(raw) = unjumble(&p) {
            scan_items(&mut tab, &raw, true);
        }
    }
    let res = catch(|| UnifiedFullViewingKey::decode(&net, s));
    if res.is_none() && std::env::var_os("C11_DUMP").is_some() {
        eprintln!("UFVK decode panics (net {:?}): {}", net, s);
    }
    let o = match res {
        None => PANIC.into(),
        Some(Ok(k)) => match catch(|| k.encode(&net)) {
            Some(e) => match enc_obs(&e) {
                Some(eo) => ok(format!("({}, {})", p_ufvk(&m_ufvk(&k, Some(&e))), p_enc(&eo))),
                None => PANIC.into(),
            },
            None => PANIC.into(),
        },
        Some(Err(_)) => match Ufvk::decode(s) {
            Err(pe) => format!("(Err (EParse {}))", p_parseerr(&pe)),
            Ok((n, u)) => {
                if nt_id(n) != net_id(net) {
                    "(Err ENetwork)".into()
                } else {
                    match catch(|| UnifiedFullViewingKey::parse(&u)) {
                        Some(Err(de)) => format!("(Err (EKey {}))", p_decerr(&de)),
                        _ => "(Err (EKey OutOfFuel))".into(), // stages disagree: never equal to the model
                    }
                }
            }
        },
    };
    let po = match orig {
        Some(k) => format!("(Some {})", p_ufvk(k)),
        None => "None".into(),
    };
    case(format!("CUfvkDecode {} {} {} {} {}", tab.print(), net_id(net), po, p_dinput(s), o));
    cx.st.hit(if orig.is_some() { "ufvk_decode_valid" } else { "ufvk_decode_malformed" });
}

fn uivk_decode_case(cx: &mut Ctx, net: Net, s: &str, orig: Option<&MKey>) {
    let mut tab = Tab::default();
    if let Some((_, p)) = unbech(s) {
        if let Some(raw) = unjumble(&p) {
            scan_items(&mut tab, &raw, false);
        }
    }
    let res = catch(|| UnifiedIncomingViewingKey::decode(&net, s));
    let o = match res {
        None => PANIC.into(),
        Some(Ok(k)) => match catch(|| k.encode(&net)) {
            Some(e) => match enc_obs(&e) {
                Some(eo) => ok(format!("({}, {})", p_uivk(&m_uivk(&k, Some(&e))), p_enc(&eo))),
                None => PANIC.into(),
            },
            None => PANIC.into(),
        },
        Some(Err(msg)) => match Uivk::decode(s) {
            Err(pe) => format!("(Err (EParse {}))", p_parseerr(&pe)),
            Ok((n, _)) => {
                if nt_id(n) != net_id(net) {
                    "(Err ENetwork)".into()
                } else if msg.contains("Invalid key data for key type Orchard") {
                    "(Err (EKey (KeyDataInvalid TcOrchard)))".into()
                } else if msg.contains("Invalid key data for key type Sapling") {
                    "(Err (EKey (KeyDataInvalid TcSapling)))".into()
                } else if msg.contains("Invalid key data for key type P2pkh") {
                    "(Err (EKey (KeyDataInvalid TcP2pkh)))".into()
                } else {
                    "(Err (EKey OutOfFuel))".into()
                }
            }
        },
    };
    let po = match orig {
        Some(k) => format!("(Some {})", p_uivk(k)),
        None => "None".into(),
    };
    case(format!("CUivkDecode {} {} {} {} {}", tab.print(), net_id(net), po, p_dinput(s), o));
    cx.st.hit(if orig.is_some() { "uivk_decode_valid" } else { "uivk_decode_malformed" });
}

fn p_enc_res(r: Option<String>) -> String {
    match r {
        None => PANIC.into(),
        Some(s) => match enc_obs(&s) {
            Some(e) => ok(p_enc(&e)),
            None => "(Err tt)".into(),
        },
    }
}

/// mutations of an un-jumbled payload (items ++ 16 bytes of padding)
fn mutate_raw(cx: &mut Ctx, raw: &[u8]) -> B {
    let mut v = raw.to_vec();
    let body = v.len() - 16;
    match cx.rng.below(15) {
        12 | 13 | 14 => {
            // corrupt the key material of one known item (point / scalar encodings)
            let mut p = 0usize;
            let mut items = vec![];
            while p < body {
                let Some(tc) = rd_cs(&v[..body], &mut p) else { break };
                let Some(len) = rd_cs(&v[..body], &mut p) else { break };
                if p + len as usize > body {
                    break;
                }
                items.push((tc, p, len as usize));
                p += len as usize;
            }
            if let Some((tc, at, len)) = items.get(cx.rng.below(items.len().max(1) as u64) as usize).copied() {
                if len > 0 {
                    let off = match (tc, cx.rng.below(3)) {
                        (0, 0) => 32,          // compressed public key prefix byte
                        (_, 1) => len - 1,     // top byte of the last field element
                        (_, _) => cx.rng.below(len.min(32) as u64) as usize,
                    };
                    v[at + off.min(len - 1)] = *cx.rng.pick(&[0xffu8, 0x05, 0x00, 0x80, 0x7f]);
                }
            }
        }
        0 => {
            // flip a byte inside key data
            let i = cx.rng.below(body as u64) as usize;
            v[i] ^= 1 << cx.rng.below(8);
        }
        1 => {
            // typecode of the first item
            v[0] = *cx.rng.pick(&[0u8, 1, 2, 3, 4, 5, 0x7f, 0xfc, 0xfd, 0xfe, 0xff]);
        }
        2 => {
            // length byte of the first item
            v[1] = v[1].wrapping_add(*cx.rng.pick(&[1u8, 0xff, 2, 0x80]));
        }
        3 => {
            // padding
            let i = body + cx.rng.below(16) as usize;
            v[i] ^= 1 << cx.rng.below(8);
        }
        4 => {
            // truncate the body
            let cut = 1 + cx.rng.below(body.min(40) as u64) as usize;
            v.drain(body - cut..body);
        }
        5 => {
            // append an unknown item
            let tc = *cx.rng.pick(&[4u32, 5, 0xfc, 0xfd, 0xffff, 0x10000, 0x02000000, 0x02000001]);
            let mut it = vec![];
            wr_cs(&mut it, tc as u64);
            let n = cx.rng.below(40) as usize;
            wr_cs(&mut it, n as u64);
            it.extend(cx.rng.bytes(n));
            let tail = v.split_off(body);
            v.extend(it);
            v.extend(tail);
        }
        6 => {
            // duplicate the whole body (duplicate typecodes / order)
            let b = v[..body].to_vec();
            let tail = v.split_off(body);
            v.extend(b);
            v.extend(tail);
        }
        7 => {
            // prepend a P2SH item (never valid in a viewing key)
            let mut it = vec![1u8, 20];
            it.extend(cx.rng.bytes(20));
            it.extend(v);
            v = it;
        }
        8 => {
            // non-canonical CompactSize for the first typecode
            let t = v[0];
            v.splice(0..1, [0xfd, t, 0]);
        }
        9 => {
            // random bytes in place of the body
            let n = 32 + cx.rng.below(64) as usize;
            let tail = v.split_off(body);
            v = cx.rng.bytes(n);
            v.extend(tail);
        }
        10 => {
            // swap first two items is hard without parsing: reverse the body instead
            v[..body].reverse();
        }
        _ => {
            // several byte flips
            for _ in 0..3 {
                let i = cx.rng.below(v.len() as u64) as usize;
                v[i] = cx.rng.below(256) as u8;
            }
        }
    }
    v
}
fn wr_cs(v: &mut B, n: u64) {
    if n < 253 {
        v.push(n as u8)
    } else if n <= 0xffff {
        v.push(253);
        v.extend((n as u16).to_le_bytes())
    } else if n <= 0xffff_ffff {
        v.push(254);
        v.extend((n as u32).to_le_bytes())
    } else {
        v.push(255);
        v.extend(n.to_le_bytes())
    }
}

fn items_raw(items: &[(u32, B)], hrp: &str) -> B {
    let mut v = vec![];
    for (t, d) in items {
        wr_cs(&mut v, *t as u64);
        wr_cs(&mut v, d.len() as u64);
        v.extend(d);
    }
    let mut pad = [0u8; 16];
    pad[..hrp.len()].copy_from_slice(hrp.as_bytes());
    v.extend(pad);
    v
}

const FVK_HRP: [&str; 3] = ["uview", "uviewtest", "uviewregtest"];
const IVK_HRP: [&str; 3] = ["uivk", "uivktest", "uivkregtest"];

// ---------------------------------------------------------------------------------------------
// USK byte container

fn scan_usk(tab: &mut Tab, b: &[u8]) {
    if b.len() < 4 {
        return;
    }
    let body = &b[4..];
    let mut p = 0usize;
    for _ in 0..16 {
        let Some(tc) = rd_cs(body, &mut p) else { return };
        let Some(len) = rd_cs(body, &mut p) else { return };
        let (f, want) = match tc {
            3 => (10, 32usize),
            2 => (11, 169),
            0 => (12, 74),
            _ => return,
        };
        if len as usize != want || body.len() < p + want {
            return;
        }
        let data = &body[p..p + want];
        p += want;
        let d = tab.dec(f, data);
        if f == 12 {
            if let Some(sk) = d {
                // the derivation from_checked_parts performs, with the key's own BIP 32 metadata
                let iv = AccountPrivKey::from_bytes(&sk)
                    .map(|k| k.to_account_pubkey().derive_external_ivk().ok().map(|i| i.serialize()));
                tab.opt(23, &sk, 0, iv);
                if let Some(pk) = orc_t_sk_pk(&sk) {
                    tab.some(3, &sk, 0, Some(pk.clone()));
                    let v = orc_t_pk_ivk(&pk);
                    tab.opt(6, &pk, 0, v);
                }
            }
        }
    }
}

fn usk_decode_case(cx: &mut Ctx, b: &[u8], orig: Option<&MUsk>) {
    let mut tab = Tab::default();
    scan_usk(&mut tab, b);
    let o = match catch(|| UnifiedSpendingKey::from_bytes(Era::Orchard, b)) {
        None => PANIC.into(),
        Some(Ok(k)) => ok(format!("({}, {})", p_usk(&m_usk(&k)), hx(&k.to_bytes(Era::Orchard)))),
        Some(Err(e)) => format!("(Err {})", p_decerr(&e)),
    };
    let po = match orig {
        Some(k) => format!("(Some {})", p_usk(k)),
        None => "None".into(),
    };
    case(format!("CUskDecode {} {} {} {}", tab.print(), po, hx(b), o));
    cx.st.hit(if orig.is_some() { "usk_decode_valid" } else { "usk_decode_malformed" });
}

fn mutate_usk(cx: &mut Ctx, enc: &[u8]) -> B {
    let mut v = enc.to_vec();
    // layout: era(4) | 03 20 o(32) | 02 a9 s(169) | 00 4a t(74)
    // sapling key: depth(1) tag(4) index(4) chain(32) ask(32) nsk(32) ovk(32) dk(32), from 40
    match cx.rng.below(15) {
        12 => {
            // non-canonical ask scalar: sapling-crypto 0.7.0 panics on it
            v[40 + 41 + 31] = 0xf0 | cx.rng.below(16) as u8;
        }
        13 => {
            // non-canonical nsk scalar
            v[40 + 73 + 31] = 0xff;
        }
        14 => {
            // transparent key: non-zero private-key prefix byte / depth byte (255: no child derivable)
            let pos = *cx.rng.pick(&[211usize + 41, 211]);
            v[pos] = if cx.rng.bool() { 0xff } else { 1 + cx.rng.below(255) as u8 };
        }
        0 => {
            let i = cx.rng.below(4) as usize;
            v[i] ^= 1 << cx.rng.below(8);
        }
        1 => {
            // another known branch id (Canopy) / zero
            let id: u32 = *cx.rng.pick(&[0xe9ff_75a6u32, 0, 0x76b8_09bb, 0xc8e7_1055]);
            v[..4].copy_from_slice(&id.to_le_bytes());
        }
        2 => {
            let n = cx.rng.below(v.len() as u64) as usize;
            v.truncate(n);
        }
        3 => {
            let n = 1 + cx.rng.below(8) as usize;
            v.extend(cx.rng.bytes(n));
        }
        4 => {
            // typecode bytes
            let pos = *cx.rng.pick(&[4usize, 38, 209]);
            v[pos] = *cx.rng.pick(&[0u8, 1, 2, 3, 4, 0xfc, 0xfd, 0xfe, 0xff]);
        }
        5 => {
            // length bytes
            let pos = *cx.rng.pick(&[5usize, 39, 210]);
            v[pos] = v[pos].wrapping_add(*cx.rng.pick(&[1u8, 0xff, 0x10]));
        }
        6 => {
            // reorder: t | s | o
            let era = v[..4].to_vec();
            let o = v[4..38].to_vec();
            let s = v[38..209].to_vec();
            let t = v[209..].to_vec();
            v = [era, t, s, o].concat();
        }
        7 => {
            // duplicate the orchard item with different data first
            let mut o2 = v[4..38].to_vec();
            o2[5] ^= 0x55;
            let rest = v.split_off(4);
            v.extend(o2);
            v.extend(rest);
        }
        8 => {
            // flip inside the sapling key (ask: may panic inside sapling-crypto)
            let i = 40 + cx.rng.below(169) as usize;
            v[i] ^= 1 << cx.rng.below(8);
        }
        9 => {
            // flip inside the transparent key
            let i = 211 + cx.rng.below(74) as usize;
            v[i] ^= 1 << cx.rng.below(8);
        }
        10 => {
            // flip inside the orchard key / set it to ff..
            if cx.rng.bool() {
                for x in &mut v[6..38] {
                    *x = 0xff;
                }
            } else {
                let i = 6 + cx.rng.below(32) as usize;
                v[i] ^= 1 << cx.rng.below(8);
            }
        }
        _ => {
            for _ in 0..(1 + cx.rng.below(3)) {
                let i = cx.rng.below(v.len() as u64) as usize;
                v[i] = cx.rng.below(256) as u8;
            }
        }
    }
    v
}

// ---------------------------------------------------------------------------------------------
// cryptographic clauses (observed booleans)

fn crypto_cases(cx: &mut Ctx, keys: &[(Net, UnifiedSpendingKey)]) {
    for (idx, (_net, usk)) in keys.iter().enumerate() {
        let ufvk = usk.to_unified_full_viewing_key();
        let uivk = ufvk.to_unified_incoming_viewing_key();
        let (_, other) = &keys[(idx + 1) % keys.len()];
        let other_ivk = other.to_unified_full_viewing_key().to_unified_incoming_viewing_key();
        let same_key = m_usk(other) == m_usk(usk);
        for start in [0u128, cx.rng.below(1 << 30) as u128, (cx.rng.u64() as u128) << 20] {
            // 1: a key recognises its own address and recovers exactly the index
            if let Ok((ua, j)) = uivk.find_address(di(start), UnifiedAddressRequest::AllAvailableKeys) {
                let got = uivk.decrypt_diversifiers(&ua);
                let want: BTreeSet<DiversifierIndex> = [j].into_iter().collect();
                case(format!("CCrypto 1 {}", boolc(got == want)));
                cx.st.hit("crypto_recognise");
                // 2: an unrelated account's key recognises nothing
                if !same_key {
                    case(format!("CCrypto 2 {}", boolc(other_ivk.decrypt_diversifiers(&ua).is_empty())));
                }
                // shielded-only and single-pool addresses as well
                for r in [UnifiedAddressRequest::SHIELDED, UnifiedAddressRequest::ORCHARD] {
                    if let Ok(ua2) = uivk.address(j, r) {
                        let got = uivk.decrypt_diversifiers(&ua2);
                        case(format!("CCrypto 1 {}", boolc(got == want)));
                    }
                }
                note_clauses(cx, &ufvk, &other.to_unified_full_viewing_key(), &ua, same_key);
            }
        }
    }
}

/// 3/4: Sapling, 5/6: Orchard — a note encrypted to the derived receiver decrypts under the
/// external-scope IVK of the same account (3, 5) and not under the internal-scope IVK nor under
/// another account's external IVK (4, 6).
fn note_clauses(
    cx: &mut Ctx,
    ufvk: &UnifiedFullViewingKey,
    other: &UnifiedFullViewingKey,
    ua: &UnifiedAddress,
    same_key: bool,
) {
    use zcash_note_encryption::{try_compact_note_decryption, EphemeralKeyBytes};
    if let (Some(pa), Some(dfvk)) = (ua.sapling(), ufvk.sapling()) {
        use sapling::note_encryption::{
            sapling_note_encryption, try_sapling_compact_note_decryption, CompactOutputDescription,
            PreparedIncomingViewingKey, Zip212Enforcement,
        };
        let rseed = sapling::Rseed::AfterZip212(cx.rng.bytes(32).try_into().unwrap());
        let note = sapling::Note::from_parts(*pa, sapling::value::NoteValue::from_raw(cx.rng.below(1 << 40)), rseed);
        let enc = sapling_note_encryption(None, note.clone(), [0u8; 512], &mut cx.rng.0);
        let ct = enc.encrypt_note_plaintext();
        let out = CompactOutputDescription {
            ephemeral_key: <sapling::note_encryption::SaplingDomain as zcash_note_encryption::Domain>::epk_bytes(enc.epk()),
            cmu: note.cmu(),
            enc_ciphertext: ct[..52].try_into().unwrap(),
        };
        let try_ivk = |ivk: &sapling::SaplingIvk| {
            try_sapling_compact_note_decryption(&PreparedIncomingViewingKey::new(ivk), &out, Zip212Enforcement::On)
        };
        let ext = try_ivk(&dfvk.to_ivk(zip32::Scope::External));
        let good = matches!(&ext, Some((n, a)) if n.value() == note.value() && a == pa);
        case(format!("CCrypto 3 {}", boolc(good)));
        let int = try_ivk(&dfvk.to_ivk(zip32::Scope::Internal)).is_none();
        let oth = same_key
            || other.sapling().map(|d| try_ivk(&d.to_ivk(zip32::Scope::External)).is_none()).unwrap_or(true);
        case(format!("CCrypto 4 {}", boolc(int && oth)));
        cx.st.hit("crypto_sapling_note");
    }
    if let (Some(oa), Some(fvk)) = (ua.orchard(), ufvk.orchard()) {
        use orchard::note_encryption::{CompactAction, OrchardDomain, OrchardNoteEncryption};
        use orchard::note::{ExtractedNoteCommitment, Nullifier, RandomSeed, Rho};
        // rho must be a valid base field element: retry a few times
        for _ in 0..8 {
            let rb: [u8; 32] = cx.rng.bytes(32).try_into().unwrap();
            let Some(rho) = ct(Rho::from_bytes(&rb)) else { continue };
            let sb: [u8; 32] = cx.rng.bytes(32).try_into().unwrap();
            let Some(rseed) = ct(RandomSeed::from_bytes(sb, &rho)) else { continue };
            let val = orchard::value::NoteValue::from_raw(cx.rng.below(1 << 40));
            let Some(note) = ct(orchard::Note::from_parts(*oa, val, rho, rseed, orchard::NoteVersion::V2)) else { continue };
            let enc = OrchardNoteEncryption::new(None, note, [0u8; 512]);
            let ctx = enc.encrypt_note_plaintext();
            let cmx = ExtractedNoteCommitment::from(note.commitment());
            let nf = ct(Nullifier::from_bytes(&rb)).unwrap();
            let act = CompactAction::from_parts(
                nf,
                cmx,
                <OrchardDomain as zcash_note_encryption::Domain>::epk_bytes(enc.epk()),
                ctx[..52].try_into().unwrap(),
            );
            let dom = OrchardDomain::for_compact_action(&act);
            let try_ivk = |ivk: orchard::keys::IncomingViewingKey| {
                try_compact_note_decryption(&dom, &ivk.prepare(), &act)
            };
            let ext = try_ivk(fvk.to_ivk(orchard::keys::Scope::External));
            let good = matches!(&ext, Some((n, a)) if n.value() == val && a == oa);
            case(format!("CCrypto 5 {}", boolc(good)));
            let int = try_ivk(fvk.to_ivk(orchard::keys::Scope::Internal)).is_none();
            let oth = same_key
                || other.orchard().map(|f| try_ivk(f.to_ivk(orchard::keys::Scope::External)).is_none()).unwrap_or(true);
            case(format!("CCrypto 6 {}", boolc(int && oth)));
            cx.st.hit("crypto_orchard_note");
            break;
        }
    }
}

// ---------------------------------------------------------------------------------------------
// zcash_keys::encoding — every public function, on all three networks

use bech32::Bech32;
use zcash_keys::encoding::{self as enc, AddressCodec, Bech32DecodeError, TransparentCodecError};
use zcash_protocol::consensus::NetworkConstants;

/// what the primitive Bech32 decoder makes of a string
fn unbech32(s: &str) -> Option<(String, B)> {
    let p = CheckedHrpstring::new::<Bech32>(s).ok()?;
    Some((p.hrp().as_str().to_string(), p.byte_iter().collect()))
}
fn p_binput(s: &str) -> String {
    match unbech32(s) {
        None => "BNot".into(),
        Some((h, d)) => format!("(BStr {} {})", hx(h.as_bytes()), hx(&d)),
    }
}
fn p_benc(s: &str) -> String {
    match unbech32(s) {
        None => format!("({}, {})", hx(&[0xff]), hx(&[])), // never equal to a model value
        Some((h, d)) => format!("({}, {})", hx(h.as_bytes()), hx(&d)),
    }
}
fn p_berr(e: &Bech32DecodeError) -> &'static str {
    match e {
        Bech32DecodeError::Bech32Error(_) | Bech32DecodeError::Hrp(_) => "(Err BechErr)",
        Bech32DecodeError::ReadError => "(Err BReadError)",
        Bech32DecodeError::HrpMismatch { .. } => "(Err BHrpMismatch)",
    }
}
fn fvk_bytes(k: &sapling::zip32::ExtendedFullViewingKey) -> B {
    let mut v = vec![];
    k.write(&mut v).unwrap();
    v
}
/// reader oracles 19/20/21 for the payload of a string
fn reader_tab(tab: &mut Tab, s: &str) {
    if let Some((_, d)) = unbech32(s) {
        let d1 = d.clone();
        let r = catch(move || sapling::zip32::ExtendedSpendingKey::read(&d1[..]).ok().map(|k| k.to_bytes().to_vec()));
        tab.add(19, &d, 0, p_ores(r));
        let d2 = d.clone();
        let r = catch(move || sapling::zip32::ExtendedFullViewingKey::read(&d2[..]).ok().map(|k| fvk_bytes(&k)));
        tab.add(20, &d, 0, p_ores(r));
        if d.len() == 43 {
            let d3 = d.clone();
            let r = catch(move || arr::<43>(&d3).and_then(|a| sapling::PaymentAddress::from_bytes(&a)).map(|a| a.to_bytes().to_vec()));
            tab.add(21, &d, 0, p_ores(r));
        }
    }
}
fn p_ob(o: Option<&[u8]>) -> String {
    match o {
        Some(b) => format!("(Some {})", hx(b)),
        None => "None".into(),
    }
}
const LK: [&str; 3] = ["LSk", "LFvk", "LAddr"];

/// decode_* with an explicit HRP (kind 0 extsk, 1 extfvk, 2 payment address)
fn ldec_case(cx: &mut Ctx, kind: usize, hrp: &str, s: &str, orig: Option<&[u8]>) {
    let mut tab = Tab::default();
    reader_tab(&mut tab, s);
    let o = match kind {
        0 => match catch(|| enc::decode_extended_spending_key(hrp, s)) {
            None => PANIC.into(),
            Some(Ok(k)) => ok(hx(&k.to_bytes())),
            Some(Err(e)) => p_berr(&e).into(),
        },
        1 => match catch(|| enc::decode_extended_full_viewing_key(hrp, s)) {
            None => PANIC.into(),
            Some(Ok(k)) => ok(hx(&fvk_bytes(&k))),
            Some(Err(e)) => p_berr(&e).into(),
        },
        _ => match catch(|| enc::decode_payment_address(hrp, s)) {
            None => PANIC.into(),
            Some(Ok(k)) => ok(hx(&k.to_bytes())),
            Some(Err(e)) => p_berr(&e).into(),
        },
    };
    case(format!(
        "CLegacy (LDec {} {} {} {} {} {})",
        tab.print(),
        LK[kind],
        hx(hrp.as_bytes()),
        p_binput(s),
        p_ob(orig),
        o
    ));
    cx.st.hit("legacy_decode");
}
fn lfvknet_case(cx: &mut Ctx, s: &str, orig: Option<(Net, &[u8])>) {
    let mut tab = Tab::default();
    reader_tab(&mut tab, s);
    let o = match catch(|| enc::decode_extfvk_with_network(s)) {
        None => PANIC.into(),
        Some(Ok((n, k))) => ok(format!("({}, {})", nt_id(n), hx(&fvk_bytes(&k)))),
        Some(Err(e)) => p_berr(&e).into(),
    };
    let po = match orig {
        Some((n, k)) => format!("(Some ({}, {}))", net_id(n), hx(k)),
        None => "None".into(),
    };
    case(format!("CLegacy (LFvkNet {} {} {} {})", tab.print(), p_binput(s), po, o));
    cx.st.hit("legacy_extfvk_with_network");
}
fn ldecp_case(cx: &mut Ctx, net: Net, s: &str, orig: Option<&[u8]>) {
    let mut tab = Tab::default();
    reader_tab(&mut tab, s);
    let o = match catch(|| <sapling::PaymentAddress as AddressCodec<Net>>::decode(&net, s)) {
        None => PANIC.into(),
        Some(Ok(k)) => ok(hx(&k.to_bytes())),
        Some(Err(e)) => p_berr(&e).into(),
    };
    case(format!("CLegacy (LDecP {} {} {} {} {})", tab.print(), net_id(net), p_binput(s), p_ob(orig), o));
    cx.st.hit("legacy_decode_p");
}

fn p_taddr(a: &TransparentAddress) -> String {
    match a {
        TransparentAddress::PublicKeyHash(h) => format!("(PKH {})", hx(h)),
        TransparentAddress::ScriptHash(h) => format!("(SH {})", hx(h)),
    }
}
fn unb58(s: &str) -> Option<B> {
    bs58::decode(s).with_check(None).into_vec().ok()
}
fn p_b58(s: &str) -> String {
    match unb58(s) {
        Some(b) => hx(&b),
        None => hx(&[0xff; 1]),
    }
}
fn ltdec_case(cx: &mut Ctx, net: Net, pk: &[u8], sh: &[u8], s: &str, orig: Option<(Net, &TransparentAddress)>) {
    let o = match catch(|| enc::decode_transparent_address(pk, sh, s)) {
        None => PANIC.into(),
        Some(Ok(a)) => ok(opt(a.map(|a| p_taddr(&a)))),
        Some(Err(_)) => "(Err tt)".into(),
    };
    let po = match orig {
        Some((n, a)) => format!("(Some ({}, {}))", net_id(n), p_taddr(a)),
        None => "None".into(),
    };
    case(format!(
        "CLegacy (LTDec {} {} {} {} {} {})",
        net_id(net),
        hx(pk),
        hx(sh),
        opt(unb58(s).map(|b| hx(&b))),
        po,
        o
    ));
    cx.st.hit("legacy_t_decode");
}
fn ltdecp_case(cx: &mut Ctx, net: Net, s: &str, orig: Option<(Net, &TransparentAddress)>) {
    let o = match catch(|| <TransparentAddress as AddressCodec<Net>>::decode(&net, s)) {
        None => PANIC.into(),
        Some(Ok(a)) => ok(p_taddr(&a)),
        Some(Err(TransparentCodecError::Base58(_))) => "(Err TBase58)".into(),
        Some(Err(TransparentCodecError::UnsupportedAddressType(_))) => "(Err TUnsupported)".into(),
    };
    let po = match orig {
        Some((n, a)) => format!("(Some ({}, {}))", net_id(n), p_taddr(a)),
        None => "None".into(),
    };
    case(format!("CLegacy (LTDecP {} {} {} {})", net_id(net), opt(unb58(s).map(|b| hx(&b))), po, o));
    cx.st.hit("legacy_t_decode_p");
}

fn corrupt_char(cx: &mut Ctx, s: &str) -> String {
    let mut t = s.as_bytes().to_vec();
    let n = t.len();
    let i = n - 1 - cx.rng.below(6.min(n as u64 - 1)) as usize;
    t[i] = if t[i] == b'q' { b'p' } else { b'q' };
    String::from_utf8(t).unwrap()
}

fn legacy_cases(cx: &mut Ctx, usk: &UnifiedSpendingKey) {
    let extsk = usk.sapling();
    #[allow(deprecated)]
    let extfvk = extsk.to_extended_full_viewing_key();
    let (_, pa) = extsk.default_address();
    let p_sk = extsk.to_bytes().to_vec();
    let p_fvk = fvk_bytes(&extfvk);
    let p_pa = pa.to_bytes().to_vec();
    let hrps = |n: Net| {
        [
            n.hrp_sapling_extended_spending_key(),
            n.hrp_sapling_extended_full_viewing_key(),
            n.hrp_sapling_payment_address(),
        ]
    };
    for n in NETS {
        let h = hrps(n);
        let strs = [
            enc::encode_extended_spending_key(h[0], extsk),
            enc::encode_extended_full_viewing_key(h[1], &extfvk),
            enc::encode_payment_address(h[2], &pa),
        ];
        let pls: [&[u8]; 3] = [&p_sk, &p_fvk, &p_pa];
        for k in 0..3 {
            case(format!("CLegacy (LEnc {} {} {} {})", LK[k], hx(h[k].as_bytes()), hx(pls[k]), p_benc(&strs[k])));
            cx.st.hit("legacy_encode");
            // decode under the encoding HRP, under every other network's and one other kind's
            ldec_case(cx, k, h[k], &strs[k], Some(pls[k]));
            for n2 in NETS {
                if n2 != n {
                    ldec_case(cx, k, hrps(n2)[k], &strs[k], None);
                }
            }
            ldec_case(cx, k, h[(k + 1) % 3], &strs[k], None);
            ldec_case(cx, (k + 1) % 3, h[k], &strs[k], None);
            // malformed: checksum, case, wrong checksum variant, payload mutations
            let bad = corrupt_char(cx, &strs[k]);
            ldec_case(cx, k, h[k], &bad, None);
            ldec_case(cx, k, h[k], &strs[k].to_uppercase(), None);
            if let Ok(hp) = Hrp::parse(h[k]) {
                let mut pl = pls[k].to_vec();
                if let Ok(m) = bech32::encode::<bech32::Bech32m>(hp, &pl) {
                    ldec_case(cx, k, h[k], &m, None);
                }
                match cx.rng.below(4) {
                    0 => pl.truncate(pl.len() - 1 - cx.rng.below(5) as usize),
                    1 => {
                        let n = 1 + cx.rng.below(4) as usize;
                        pl.extend(cx.rng.bytes(n))
                    }
                    2 => {
                        let i = cx.rng.below(pl.len() as u64) as usize;
                        pl[i] ^= 1 << cx.rng.below(8);
                    }
                    _ => {
                        let i = pl.len() - 1 - cx.rng.below(pl.len().min(140) as u64) as usize;
                        pl[i] = 0xff;
                    }
                }
                if let Ok(m) = bech32::encode::<Bech32>(hp, &pl) {
                    ldec_case(cx, k, h[k], &m, None);
                    if k == 1 {
                        lfvknet_case(cx, &m, None);
                    }
                    if k == 2 {
                        ldecp_case(cx, n, &m, None);
                    }
                }
            }
        }
        // decode_extfvk_with_network: the key's own string, other kinds, garbage
        lfvknet_case(cx, &strs[1], Some((n, &p_fvk)));
        lfvknet_case(cx, &strs[0], None);
        lfvknet_case(cx, &strs[2], None);
        let bad = corrupt_char(cx, &strs[1]);
        lfvknet_case(cx, &bad, None);
        lfvknet_case(cx, &strs[1].to_uppercase(), None);
        // payment address: _p and AddressCodec
        let s_p = enc::encode_payment_address_p(&n, &pa);
        case(format!("CLegacy (LEncP 0 {} {} {})", net_id(n), hx(&p_pa), p_benc(&s_p)));
        let s_c = <sapling::PaymentAddress as AddressCodec<Net>>::encode(&pa, &n);
        case(format!("CLegacy (LEncP 1 {} {} {})", net_id(n), hx(&p_pa), p_benc(&s_c)));
        for n2 in NETS {
            ldecp_case(cx, n2, &s_c, if n2 == n { Some(&p_pa) } else { None });
        }
        let bad = corrupt_char(cx, &s_c);
        ldecp_case(cx, n, &bad, None);
    }

    // transparent
    let (ta, _) = usk.default_transparent_address();
    let alt = TransparentAddress::ScriptHash(cx.rng.bytes(20).try_into().unwrap());
    for a in [ta, alt] {
        for n0 in NETS {
            let (pk0, sh0) = (n0.b58_pubkey_address_prefix(), n0.b58_script_address_prefix());
            let s = enc::encode_transparent_address(&pk0, &sh0, &a);
            case(format!("CLegacy (LTEnc {} {} {} {})", hx(&pk0), hx(&sh0), p_taddr(&a), p_b58(&s)));
            let s_p = enc::encode_transparent_address_p(&n0, &a);
            case(format!("CLegacy (LTEncP 0 {} {} {})", net_id(n0), p_taddr(&a), p_b58(&s_p)));
            let s_c = <TransparentAddress as AddressCodec<Net>>::encode(&a, &n0);
            case(format!("CLegacy (LTEncP 1 {} {} {})", net_id(n0), p_taddr(&a), p_b58(&s_c)));
            cx.st.hit("legacy_t_encode");
            for n in NETS {
                let (pk, sh) = (n.b58_pubkey_address_prefix(), n.b58_script_address_prefix());
                ltdec_case(cx, n, &pk, &sh, &s, Some((n0, &a)));
                ltdecp_case(cx, n, &s_c, Some((n0, &a)));
            }
            // malformed / unusual
            let bad = corrupt_char(cx, &s);
            ltdec_case(cx, n0, &pk0, &sh0, &bad, None);
            ltdecp_case(cx, n0, &bad, None);
            let mut pl = unb58(&s).unwrap();
            match cx.rng.below(4) {
                0 => {
                    pl.pop();
                }
                1 => pl.push(7),
                2 => pl[0] ^= 0x40,
                _ => pl[1] ^= 0x01,
            }
            let m = bs58::encode(&pl).with_check().into_string();
            ltdec_case(cx, n0, &pk0, &sh0, &m, None);
            ltdecp_case(cx, n0, &m, None);
            // caller-chosen prefixes: one-byte, and one a prefix of the other
            let s1 = enc::encode_transparent_address(&[0x00], &[0x05], &a);
            ltdec_case(cx, n0, &[0x00], &[0x05], &s1, None);
            ltdec_case(cx, n0, &pk0[..1], &sh0, &s, None);
            ltdec_case(cx, n0, &pk0, &pk0[..1], &s, None);
        }
    }
    ltdec_case(cx, Net::Main, &[0x1c, 0xb8], &[0x1c, 0xbd], "", None);
    ltdecp_case(cx, Net::Main, "", None);
    cx.st.hit("legacy");
}

/// 9: AddressCodec for UnifiedAddress round-trips on its own network and rejects the others
fn ua_codec_cases(cx: &mut Ctx, net: Net, uivk: &UnifiedIncomingViewingKey) {
    if let Ok((ua, _)) = uivk.find_address(di(0), UnifiedAddressRequest::AllAvailableKeys) {
        let s = <UnifiedAddress as AddressCodec<Net>>::encode(&ua, &net);
        let back = <UnifiedAddress as AddressCodec<Net>>::decode(&net, &s);
        let mut good = matches!(&back, Ok(b) if *b == ua && <UnifiedAddress as AddressCodec<Net>>::encode(b, &net) == s);
        for n2 in NETS {
            if n2 != net {
                good &= <UnifiedAddress as AddressCodec<Net>>::decode(&n2, &s).is_err();
            }
        }
        case(format!("CCrypto 9 {}", boolc(good)));
        cx.st.hit("ua_codec");
    }
}

// ---------------------------------------------------------------------------------------------
// gap_limits.rs

use zcash_keys::address::Address;
use zcash_keys::keys::transparent::gap_limits::{
    generate_address_list, generate_gap_addresses, AddressStore, GapAddressesError, GapLimits,
};
use zcash_transparent::keys::TransparentKeyScope;

/// change-level key below an account public key, derived with the bip32 crate directly
fn orc_scope_ivk(pk: &[u8], scope: u32) -> Option<Option<B>> {
    use bip32::{ChildNumber, ExtendedKeyAttrs, ExtendedPublicKey};
    let a: [u8; 65] = arr(pk)?;
    let public_key = secp256k1::PublicKey::from_slice(&a[32..]).ok()?;
    let xp = ExtendedPublicKey::new(
        public_key,
        ExtendedKeyAttrs {
            depth: 3,
            parent_fingerprint: [0xff; 4],
            child_number: ChildNumber::new(0, true).ok()?,
            chain_code: a[..32].try_into().unwrap(),
        },
    );
    Some(xp.derive_child(ChildNumber::new(scope, false).ok()?).ok().map(|c| {
        let mut v = c.attrs().chain_code.to_vec();
        v.extend_from_slice(&c.public_key().serialize());
        v
    }))
}

fn p_aerr_inner(e: &AddressGenerationError, scope: u32) -> String {
    match e {
        AddressGenerationError::Bip32DerivationError(_) => "GBip32".into(),
        AddressGenerationError::UnsupportedTransparentKeyScope(_) => format!("(GUnsupportedScope {})", scope),
        other => {
            let s = p_aerr(other); // "(Err X)"
            format!("(GAddr {})", &s[5..s.len() - 1])
        }
    }
}
fn p_gaddr(a: &Address) -> String {
    match a {
        Address::Unified(ua) => format!("(GUnified {})", p_ua(ua)),
        Address::Transparent(TransparentAddress::PublicKeyHash(h)) => format!("(GTransparent {})", hx(h)),
        _ => format!("(GTransparent {})", hx(&[0xff])),
    }
}
fn p_glist(l: &[(Address, TransparentAddress, NonHardenedChildIndex)]) -> String {
    list(l.iter().map(|(a, t, i)| {
        let tb = match t {
            TransparentAddress::PublicKeyHash(h) => h.to_vec(),
            TransparentAddress::ScriptHash(_) => vec![0xff],
        };
        format!("({}, {}, {})", p_gaddr(a), hx(&tb), i.index())
    }))
}
fn scope_of(n: u32) -> TransparentKeyScope {
    match n {
        0 => TransparentKeyScope::EXTERNAL,
        1 => TransparentKeyScope::INTERNAL,
        2 => TransparentKeyScope::EPHEMERAL,
        x => TransparentKeyScope::custom(x).unwrap(),
    }
}

/// oracle entries for a walk over `idxs` under `scope`
fn gap_tab(tab: &mut Tab, mi: &MKey, mf: Option<&MKey>, scope: u32, idxs: &[u32]) {
    if scope == 0 {
        for i in idxs {
            tab.uivk_at(mi, *i as u128);
        }
    } else if let Some(pk) = mf.and_then(|f| f.t.as_ref()) {
        if scope <= 2 {
            let v = orc_scope_ivk(pk, scope);
            tab.opt(22, pk, scope as u128, v.clone());
            if let Some(ivk) = v.flatten() {
                for i in idxs {
                    tab.opt(9, &ivk, *i as u128, orc_t_addr(&ivk, *i));
                }
            }
        }
    }
}
fn walk(start: u32, end: u32) -> Vec<u32> {
    // superset of the indices the iterator visits
    let mut v = vec![start];
    let mut x = start;
    while x + 1 < end && v.len() < 64 {
        x += 1;
        v.push(x);
    }
    v
}

struct MockStore {
    find: Result<Option<NonHardenedChildIndex>, ()>,
    store_ok: bool,
    asked: Option<u32>,
    stored: Option<Vec<(Address, TransparentAddress, NonHardenedChildIndex)>>,
}
impl AddressStore for MockStore {
    type Error = ();
    type AccountRef = u32;
    fn find_gap_start(
        &self,
        _a: u32,
        _s: TransparentKeyScope,
        _gap_limit: u32,
    ) -> Result<Option<NonHardenedChildIndex>, ()> {
        self.find
    }
    fn store_address_range(
        &mut self,
        _a: u32,
        _s: TransparentKeyScope,
        list: Vec<(Address, TransparentAddress, NonHardenedChildIndex)>,
    ) -> Result<(), ()> {
        self.stored = Some(list);
        if self.store_ok {
            Ok(())
        } else {
            Err(())
        }
    }
}

fn gap_cases(
    cx: &mut Ctx,
    net: Net,
    isubs: &[UnifiedIncomingViewingKey],
    fsubs: &[UnifiedFullViewingKey],
    reqs: &[UnifiedAddressRequest],
    n: usize,
) {
    const MAXI: u32 = (1 << 31) - 1;
    // GapLimits::limit_for
    for (e, i, p) in [(10u32, 5u32, 10u32), (0, 0, 0), (1, 2, 3), (u32::MAX, 7, MAXI)] {
        let g = GapLimits::new(e, i, p);
        for sc in [0u32, 1, 2, 3, MAXI] {
            let o = g.limit_for(scope_of(sc));
            case(format!("CGap (GLimit {} {} {} {} {})", e, i, p, sc, opt(o.map(|x| x.to_string()))));
        }
    }
    let d = GapLimits::default();
    case(format!("CGap (GLimit {} {} {} 0 {})", d.external(), d.internal(), d.ephemeral(), opt(d.limit_for(scope_of(0)).map(|x| x.to_string()))));
    for _ in 0..n {
        let i = if cx.rng.chance(2, 3) { isubs.last().unwrap().clone() } else { cx.rng.pick(isubs).clone() };
        let f = if cx.rng.chance(1, 8) {
            None
        } else if cx.rng.chance(2, 3) {
            Some(fsubs.last().unwrap().clone())
        } else {
            Some(cx.rng.pick(fsubs).clone())
        };
        let ie = catch(|| i.encode(&net));
        let mi = m_uivk(&i, ie.as_deref());
        let mf = f.as_ref().map(|f| {
            let fe = catch(|| f.encode(&net));
            m_ufvk(f, fe.as_deref())
        });
        let pf = match &mf {
            Some(k) => format!("(Some {})", p_ufvk(k)),
            None => "None".into(),
        };
        let sc = *cx.rng.pick(&[0u32, 0, 0, 1, 1, 2, 2, 3, 9]);
        let r = *cx.rng.pick(reqs);
        let require_key = cx.rng.bool();
        let start = *cx.rng.pick(&[0u32, 0, 1, 7, 1000, MAXI - 3, MAXI - 1, MAXI]);
        let len = *cx.rng.pick(&[0u32, 1, 2, 3, 5]);
        if cx.rng.bool() {
            // generate_address_list on an explicit range (also empty and inverted ones)
            let end = if cx.rng.chance(1, 8) { start.saturating_sub(1) } else { start.saturating_add(len).min(MAXI) };
            let mut tab = Tab::default();
            gap_tab(&mut tab, &mi, mf.as_ref(), sc, &walk(start, end));
            let range = NonHardenedChildIndex::from_index(start).unwrap()..NonHardenedChildIndex::from_index(end).unwrap();
            let o = match catch(|| generate_address_list(&i, f.as_ref(), scope_of(sc), r, range, require_key)) {
                None => PANIC.into(),
                Some(Ok(l)) => ok(p_glist(&l)),
                Some(Err(e)) => format!("(Err {})", p_aerr_inner(&e, sc)),
            };
            case(format!(
                "CGap (GList {} {} {} {} {} {} {} {} {})",
                tab.print(), p_uivk(&mi), pf, sc, p_request(&r), start, end, boolc(require_key), o
            ));
            cx.st.hit("gap_list");
        } else {
            let (e, ii, p) = *cx.rng.pick(&[(10u32, 5u32, 10u32), (0, 0, 0), (1, 2, 3), (3, 3, 3)]);
            let g = GapLimits::new(e, ii, p);
            let gl = match sc { 0 => e, 1 => ii, 2 => p, _ => 0 };
            let find = match cx.rng.below(8) {
                0 => Err(()),
                1 => Ok(None),
                _ => Ok(Some(NonHardenedChildIndex::from_index(start).unwrap())),
            };
            let store_ok = !cx.rng.chance(1, 8);
            let mut tab = Tab::default();
            gap_tab(&mut tab, &mi, mf.as_ref(), sc, &walk(start, start.saturating_add(gl).min(MAXI)));
            let mut st = MockStore { find, store_ok, asked: None, stored: None };
            let res = catch(std::panic::AssertUnwindSafe(|| {
                generate_gap_addresses(&mut st, &g, 0u32, &i, f.as_ref(), scope_of(sc), r, require_key)
            }));
            let o = match res {
                None => PANIC.into(),
                Some(Ok(())) => ok(opt(st.stored.as_ref().map(|l| p_glist(l)))),
                Some(Err(GapAddressesError::Storage(()))) => "(Err GGStorage)".into(),
                Some(Err(GapAddressesError::AddressGeneration(e))) => format!("(Err (GGAddress {}))", p_aerr_inner(&e, sc)),
                Some(Err(GapAddressesError::AccountUnknown)) => "(Err GGStorage)".into(),
            };
            let pfind = match find {
                Err(()) => "(Err tt)".to_string(),
                Ok(x) => ok(opt(x.map(|v| v.index().to_string()))),
            };
            case(format!(
                "CGap (GGen {} (mkGapLimits {} {} {}) {} {} {} {} {} {} {} {})",
                tab.print(), e, ii, p, p_uivk(&mi), pf, sc, p_request(&r), boolc(require_key), pfind, boolc(store_ok), o
            ));
            cx.st.hit("gap_generate");
        }
    }
}

// ---------------------------------------------------------------------------------------------
// unified addresses built from raw receivers (incl. P2SH and unknown receivers, which no key of
// the library derives) and taken through the decode path of zcash_keys

fn p_uaddr(ua: &UnifiedAddress) -> String {
    let o = ua.orchard().map(|a| a.to_raw_address_bytes().to_vec());
    let s = ua.sapling().map(|a| a.to_bytes().to_vec());
    let t = match ua.transparent() {
        None => "None".to_string(),
        Some(a) => format!("(Some {})", p_taddr(a)),
    };
    let unk: Vec<(u32, B)> = ua.unknown().to_vec();
    format!("(mkUaddr {} {} {} {})", sx(&o), sx(&s), t, p_items(&unk))
}
fn receiver_of(tc: u32, d: &[u8]) -> Option<unified::Receiver> {
    Some(match tc {
        0 => unified::Receiver::P2pkh(arr(d)?),
        1 => unified::Receiver::P2sh(arr(d)?),
        2 => unified::Receiver::Sapling(arr(d)?),
        3 => unified::Receiver::Orchard(arr(d)?),
        t => unified::Receiver::Unknown { typecode: t, data: d.to_vec() },
    })
}
fn item_of(r: &unified::Receiver) -> (u32, B) {
    match r {
        unified::Receiver::P2pkh(d) => (0, d.to_vec()),
        unified::Receiver::P2sh(d) => (1, d.to_vec()),
        unified::Receiver::Sapling(d) => (2, d.to_vec()),
        unified::Receiver::Orchard(d) => (3, d.to_vec()),
        unified::Receiver::Unknown { typecode, data } => (*typecode, data.clone()),
    }
}

fn ua_conv_case(cx: &mut Ctx, net: Net, items: &[(u32, B)]) {
    let rs: Option<Vec<unified::Receiver>> = items.iter().map(|(t, d)| receiver_of(*t, d)).collect();
    let Some(rs) = rs else { return };
    // the container sorts and checks; only valid receiver lists reach zcash_keys
    let Ok(cont) = unified::Address::try_from_items(rs) else {
        cx.st.hit("ua_container_rejected");
        return;
    };
    let sorted: Vec<(u32, B)> = cont.items_as_parsed().iter().map(item_of).collect();
    let mut tab = Tab::default();
    for (t, d) in &sorted {
        if *t == 3 {
            tab.dec(24, d);
        } else if *t == 2 {
            tab.dec(25, d);
        }
    }
    let nt = net.network_type();
    let c2 = cont.clone();
    let res = catch(move || UnifiedAddress::try_from(c2));
    let o = match &res {
        None => PANIC.to_string(),
        Some(Err(_)) => "(Err tt)".to_string(),
        Some(Ok(ua)) => {
            let ua2 = ua.clone();
            match catch(move || ua2.to_zcash_address(nt).to_string()) {
                None => PANIC.to_string(),
                Some(s) => match unified::Address::decode(&s) {
                    Ok((_, back)) => {
                        let re: Vec<(u32, B)> = back.items_as_parsed().iter().map(item_of).collect();
                        ok(format!("({}, {})", p_uaddr(ua), p_items(&re)))
                    }
                    Err(_) => ok(format!("({}, {})", p_uaddr(ua), p_items(&[(999_999_999, vec![])]))),
                },
            }
        }
    };
    case(format!("CExtra (XUa {} {} {})", tab.print(), p_items(&sorted), o));
    cx.st.hit("ua_conv");
    // the same through the string API: Address::decode / encode, AddressCodec, receiver_types
    if let Some(Ok(ua)) = res {
        let s = cont.encode(&nt);
        let via = Address::decode(&net, &s);
        let mut good = matches!(&via, Some(Address::Unified(u)) if *u == ua);
        good &= via.map(|a| a.encode(&net) == s).unwrap_or(false);
        good &= <UnifiedAddress as AddressCodec<Net>>::decode(&net, &s).map(|u| u == ua).unwrap_or(false);
        let want: Vec<u32> = {
            // receiver_types lists orchard, sapling, transparent, unknown
            let mut v = vec![];
            for t in [3u32, 2, 1, 0] {
                if sorted.iter().any(|(c, _)| *c == t) {
                    v.push(t);
                }
            }
            v.extend(sorted.iter().filter(|(c, _)| *c > 3).map(|(c, _)| *c));
            v
        };
        let got: Vec<u32> = ua.receiver_types().into_iter().map(u32::from).collect();
        good &= got == want;
        case(format!("CCrypto 10 {}", boolc(good)));
    }
}

fn ua_conv_cases(cx: &mut Ctx, net: Net, uivk: &UnifiedIncomingViewingKey, n: usize) {
    let Ok((ua, _)) = uivk.find_address(di(0), UnifiedAddressRequest::AllAvailableKeys) else { return };
    let o = ua.orchard().map(|a| a.to_raw_address_bytes().to_vec());
    let s = ua.sapling().map(|a| a.to_bytes().to_vec());
    let t = ua.transparent().map(|a| match a {
        TransparentAddress::PublicKeyHash(h) | TransparentAddress::ScriptHash(h) => h.to_vec(),
    });
    for k in 0..n {
        let mut items: Vec<(u32, B)> = vec![];
        // transparent: none / P2PKH / P2SH (deterministic rotation so P2SH is always present)
        match k % 3 {
            1 => items.push((0, t.clone().unwrap_or_else(|| cx.rng.bytes(20)))),
            2 => items.push((1, cx.rng.bytes(20))),
            _ => {}
        }
        let shape = (k / 3) % 4;
        if shape != 1 {
            if let Some(o) = &o {
                items.push((3, o.clone()));
            }
        }
        if shape != 2 {
            if let Some(s) = &s {
                items.push((2, s.clone()));
            }
        }
        if cx.rng.chance(1, 2) {
            let mut tcs: Vec<u32> = (0..1 + cx.rng.below(2))
                .map(|_| *cx.rng.pick(&[4u32, 5, 0xfc, 0xfd, 0xffff, 0x10000, 0x0200_0000]))
                .collect();
            tcs.sort();
            tcs.dedup();
            for tc in tcs {
                let n = cx.rng.below(70) as usize;
                items.push((tc, cx.rng.bytes(n)));
            }
        }
        // occasionally a corrupted shielded receiver (rejected by the primitive decoder), or both
        // transparent kinds (rejected by the container)
        match cx.rng.below(12) {
            0 => {
                if let Some(it) = items.iter_mut().find(|(c, _)| *c == 2 || *c == 3) {
                    let i = cx.rng.below(it.1.len() as u64) as usize;
                    it.1[i] ^= 1 << cx.rng.below(8);
                }
            }
            1 => {
                if let Some(it) = items.iter_mut().find(|(c, _)| *c == 3) {
                    for x in it.1[11..].iter_mut() {
                        *x = 0xff;
                    }
                }
            }
            2 => {
                items.push((0, cx.rng.bytes(20)));
                items.push((1, cx.rng.bytes(20)));
            }
            _ => {}
        }
        ua_conv_case(cx, net, &items);
    }
}

// ---------------------------------------------------------------------------------------------

fn main() {
    if std::env::var_os("C11_DUMP").is_some() {
        std::panic::set_hook(Box::new(|i| eprintln!("panic: {}", i)));
    } else {
        quiet_panics();
    }
    let a = args();
    let n_keys = if a.search { 40 } else { a.budget(4, 120) };
    let mut cx = Ctx { rng: Rng::new(a.seed, 11), st: Stats::default(), reqs: all_requests() };
    reqs_cases(&mut cx.st);

    // keys: seeds x accounts x networks
    let mut keys: Vec<(Net, UnifiedSpendingKey)> = vec![];
    let accounts: [u32; 4] = [0, 1, (1 << 31) - 1, 0];
    for i in 0..n_keys {
        let seed_len = *cx.rng.pick(&[32usize, 32, 64, 64, 32, 32, 64, 33]);
        let seed = if i == 0 { vec![0u8; 32] } else { cx.rng.bytes(seed_len) };
        let acct = if i % 4 == 3 { cx.rng.below(1 << 31) as u32 } else { accounts[i % 4] };
        let net = NETS[i % 3];
        match catch(|| UnifiedSpendingKey::from_seed(&net, &seed, AccountId::try_from(acct).unwrap())) {
            Some(Ok(k)) => keys.push((net, k)),
            _ => cx.st.hit("from_seed_failed"),
        }
    }

    let reqs = cx.reqs.clone();
    for (ki, (net, usk)) in keys.clone().iter().enumerate() {
        let net = *net;
        let musk = m_usk(usk);
        let ufvk = usk.to_unified_full_viewing_key();
        let uivk = ufvk.to_unified_incoming_viewing_key();

        // projections
        {
            let mut tab = Tab::default();
            tab.usk(&musk);
            case(format!("CUskToUfvk {} {} {}", tab.print(), p_usk(&musk), p_ufvk(&m_ufvk(&ufvk, None))));
        }
        let fsubs = subsets_ufvk(&ufvk);
        let isubs = subsets_uivk(&uivk);
        for f in &fsubs {
            let enc = catch(|| f.encode(&net));
            let mf = m_ufvk(f, enc.as_deref());
            let mut tab = Tab::default();
            tab.ufvk(&mf);
            let o = match catch(|| f.to_unified_incoming_viewing_key()) {
                None => PANIC.into(),
                Some(i) => {
                    let e = catch(|| i.encode(&net));
                    ok(p_uivk(&m_uivk(&i, e.as_deref())))
                }
            };
            case(format!("CUfvkToUivk {} {} {}", tab.print(), p_ufvk(&mf), o));
            cx.st.hit("projection");
            // encode / decode / re-encode on every network
            for n2 in NETS {
                if n2 != net && !cx.rng.chance(1, 3) {
                    continue;
                }
                let enc = catch(|| f.encode(&n2));
                case(format!("CUfvkEncode {} {} {}", net_id(n2), p_ufvk(&mf), p_enc_res(enc.clone())));
                cx.st.hit("ufvk_encode");
                if let Some(s) = enc {
                    ufvk_decode_case(&mut cx, n2, &s, Some(&mf));
                    // the same string under another expected network
                    let n3 = NETS[(net_id(n2) as usize + 1) % 3];
                    ufvk_decode_case(&mut cx, n3, &s, None);
                    // as a UIVK string
                    uivk_decode_case(&mut cx, n2, &s, None);
                }
            }
        }
        for i in &isubs {
            let enc = catch(|| i.encode(&net));
            let mi = m_uivk(i, enc.as_deref());
            for n2 in NETS {
                if n2 != net && !cx.rng.chance(1, 3) {
                    continue;
                }
                let enc = catch(|| i.encode(&n2));
                case(format!("CUivkEncode {} {} {}", net_id(n2), p_uivk(&mi), p_enc_res(enc.clone())));
                cx.st.hit("uivk_encode");
                if let Some(s) = enc {
                    uivk_decode_case(&mut cx, n2, &s, Some(&mi));
                    let n3 = NETS[(net_id(n2) as usize + 2) % 3];
                    uivk_decode_case(&mut cx, n3, &s, None);
                    ufvk_decode_case(&mut cx, n2, &s, None);
                }
            }
            // receiver_requirements
            for r in &reqs {
                if ki > 0 && !cx.rng.chance(1, 6) {
                    continue;
                }
                let o = match catch(|| i.receiver_requirements(*r)) {
                    None => PANIC.into(),
                    Some(Ok(q)) => ok(p_reqs(&q)),
                    Some(Err(e)) => p_aerr(&e),
                };
                case(format!("CRecvReq {} {} {}", p_uivk(&mi), p_request(r), o));
                cx.st.hit("recv_req");
            }
        }

        // keys with unknown items (only reachable by parsing)
        let hrp = FVK_HRP[net_id(net) as usize];
        let full = m_ufvk(&ufvk, None);
        for _ in 0..2 {
            let mut items: Vec<(u32, B)> = vec![];
            let mut mk = MKey::default();
            if cx.rng.bool() {
                mk.t = full.t.clone();
                items.push((0, full.t.clone().unwrap()));
            }
            if cx.rng.bool() {
                mk.s = full.s.clone();
                items.push((2, full.s.clone().unwrap()));
            }
            if cx.rng.chance(2, 3) {
                mk.o = full.o.clone();
                items.push((3, full.o.clone().unwrap()));
            }
            let mut tcs: Vec<u32> = (0..1 + cx.rng.below(3))
                .map(|_| *cx.rng.pick(&[4u32, 5, 6, 0xfc, 0xfd, 0xfffe, 0xffff, 0x10000, 0x01ff_ffff, 0x0200_0000]))
                .collect();
            tcs.sort();
            tcs.dedup();
            for tc in tcs {
                let n = cx.rng.below(300) as usize;
                let d = cx.rng.bytes(n);
                mk.unk.push((tc, d.clone()));
                items.push((tc, d));
            }
            if let Some(s) = rebech(hrp, &items_raw(&items, hrp)) {
                ufvk_decode_case(&mut cx, net, &s, Some(&mk));
                cx.st.hit("ufvk_unknown_items");
                // address derivation from a parsed key with unknown items
                if let Ok(k) = UnifiedFullViewingKey::decode(&net, &s) {
                    let r = *cx.rng.pick(&reqs);
                    addr_case(&mut cx, &Lvl::Ufvk(k), net, 0, &r);
                }
            }
        }
        let ihrp = IVK_HRP[net_id(net) as usize];
        let ifull = m_uivk(&uivk, None);
        for _ in 0..2 {
            let mut items: Vec<(u32, B)> = vec![];
            let mut mk = MKey::default();
            if cx.rng.bool() {
                mk.t = ifull.t.clone();
                items.push((0, ifull.t.clone().unwrap()));
            }
            if cx.rng.bool() {
                mk.s = ifull.s.clone();
                items.push((2, ifull.s.clone().unwrap()));
            }
            if cx.rng.chance(2, 3) {
                mk.o = ifull.o.clone();
                items.push((3, ifull.o.clone().unwrap()));
            }
            let mut tcs: Vec<u32> = (0..1 + cx.rng.below(3))
                .map(|_| *cx.rng.pick(&[4u32, 7, 0xfc, 0xfd, 0xffff, 0x10000, 0x0200_0000]))
                .collect();
            tcs.sort();
            tcs.dedup();
            for tc in tcs {
                let n = cx.rng.below(300) as usize;
                let d = cx.rng.bytes(n);
                mk.unk.push((tc, d.clone()));
                items.push((tc, d));
            }
            if let Some(s) = rebech(ihrp, &items_raw(&items, ihrp)) {
                uivk_decode_case(&mut cx, net, &s, Some(&mk));
                cx.st.hit("uivk_unknown_items");
                if let Ok(k) = UnifiedIncomingViewingKey::decode(&net, &s) {
                    let r = *cx.rng.pick(&reqs);
                    addr_case(&mut cx, &Lvl::Uivk(k), net, 1, &r);
                }
            }
        }

        // malformed UFVK / UIVK strings
        let n_mal = if a.search { 40 } else { a.budget(14, 40) };
        if let Some(fe) = catch(|| ufvk.encode(&net)).and_then(|s| enc_obs(&s)) {
            for _ in 0..n_mal {
                let raw = mutate_raw(&mut cx, &fe.1);
                let h = if cx.rng.chance(1, 10) { *cx.rng.pick(&["uview", "uviewtest", "uivk", "u", "zs", "uviewx"]) } else { hrp };
                if let Some(s) = rebech(h, &raw) {
                    ufvk_decode_case(&mut cx, net, &s, None);
                }
            }
        }
        if let Some(ie) = catch(|| uivk.encode(&net)).and_then(|s| enc_obs(&s)) {
            for _ in 0..n_mal {
                let raw = mutate_raw(&mut cx, &ie.1);
                let h = if cx.rng.chance(1, 10) { *cx.rng.pick(&["uivk", "uivktest", "uview", "utest", "uivkregtes"]) } else { ihrp };
                if let Some(s) = rebech(h, &raw) {
                    uivk_decode_case(&mut cx, net, &s, None);
                }
            }
        }
        if ki == 0 {
            // string-level malformations
            let s = ufvk.encode(&net);
            let mut t = s.clone().into_bytes();
            let n = t.len();
            t[n - 3] = if t[n - 3] == b'q' { b'p' } else { b'q' };
            for bad in [
                String::from_utf8(t).unwrap(),
                s.to_uppercase(),
                s[..s.len() - 1].to_string(),
                "".to_string(),
                "uview1".to_string(),
                "not a key".to_string(),
                format!("{}x", s),
            ] {
                ufvk_decode_case(&mut cx, net, &bad, None);
                uivk_decode_case(&mut cx, net, &bad, None);
            }
        }

        // USK byte container
        let enc = usk.to_bytes(Era::Orchard);
        case(format!("CUskEncode {} {}", p_usk(&musk), hx(&enc)));
        usk_decode_case(&mut cx, &enc, Some(&musk));
        let n_mal = if a.search { 60 } else { a.budget(24, 60) };
        for _ in 0..n_mal {
            let m = mutate_usk(&mut cx, &enc);
            usk_decode_case(&mut cx, &m, None);
        }

        // addresses
        let js = j_lattice(&mut cx, &uivk);
        let mut lvls: Vec<Lvl> = vec![Lvl::Usk(usk.clone())];
        lvls.extend(fsubs.iter().cloned().map(Lvl::Ufvk));
        lvls.extend(isubs.iter().cloned().map(Lvl::Uivk));
        if ki == 0 {
            // exhaustive decision table on the first key: every IVK subset x every request x
            // {valid, Sapling-invalid, transparent-invalid} index
            let inv = js.iter().copied().find(|j| *j < 64 && *j > 1).unwrap_or(1);
            for i in &isubs {
                for r in &reqs {
                    for j in [0u128, inv, 1u128 << 31] {
                        addr_case(&mut cx, &Lvl::Uivk(i.clone()), net, j, r);
                    }
                }
            }
        }
        for r in &reqs {
            let j = *cx.rng.pick(&js);
            addr_case(&mut cx, &Lvl::Usk(usk.clone()), net, j, r);
            let reps = if a.search || a.thorough() { 6 } else { 3 };
            for _ in 0..reps {
                let l = cx.rng.pick(&lvls).clone();
                let j = *cx.rng.pick(&js);
                addr_case(&mut cx, &l, net, j, r);
            }
            let l = cx.rng.pick(&lvls).clone();
            let j = *cx.rng.pick(&js);
            find_case(&mut cx, &l, net, j, r);
        }
        // search across the transparent boundary and at the end of the index space
        for r in &reqs {
            if cx.rng.chance(1, 3) {
                let d = cx.rng.below(3) as u128;
                find_case(&mut cx, &Lvl::Uivk(uivk.clone()), net, (1 << 31) - 1 - d, r);
            }
            if cx.rng.chance(1, 3) {
                let d = cx.rng.below(3) as u128;
                find_case(&mut cx, &Lvl::Ufvk(ufvk.clone()), net, (1u128 << 88) - 1 - d, r);
            }
        }
        if ki < 3 || a.thorough() || a.search {
            legacy_cases(&mut cx, usk);
        }
        ua_codec_cases(&mut cx, net, &uivk);
        let n_ua = if a.search || a.thorough() { 48 } else { 24 };
        ua_conv_cases(&mut cx, net, &uivk, n_ua);
        let n_gap = if a.search || a.thorough() { 120 } else { 60 };
        gap_cases(&mut cx, net, &isubs, &fsubs, &reqs, n_gap);
    }
    crypto_cases(&mut cx, &keys);
    stat(format!(
        "{{\"keys\": {}, \"requests\": {}, \"classes\": {}}}",
        keys.len(),
        cx.reqs.len(),
        cx.st.json()
    ));
}
