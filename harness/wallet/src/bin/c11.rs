fn main() { println!("# {{}}"); }
